#!/usr/bin/env python3
"""Print the prompt for a seeding sub-agent: seed_prompt.py <property id> <n> [extra hint]"""
import sys, json
pid, n = sys.argv[1], sys.argv[2]
extra = sys.argv[3] if len(sys.argv) > 3 else ""
for l in open('/verif/properties.jsonl'):
    d = json.loads(l)
    if d['id'] == pid:
        break
wt = f"/tmp/seed_{pid}_{n}"
print(f"""You are helping to evaluate a verification harness by seeding ONE realistic defect into a Go code base. You work independently: do NOT read, list or use anything under /verif, and do not touch /repo itself.

Code base: usnistgov/dastard (NIST data-acquisition server for TES microcalorimeters, Go 1.23). Your own scratch git worktree: {wt} (work ONLY inside it; do not commit; never use `git stash` (the stash is shared by all worktrees of /repo: use `git diff > file`, `git checkout -- <files>` and `git apply file` instead); no network: always `export GOFLAGS=-mod=mod GOPROXY=off GOSUMDB=off GOTOOLCHAIN=local`). Files named verif_*.go are build-tag-guarded test hooks: leave them alone.

The semantic property your change must BREAK:
  {d['title']}
  Statement: {d['statement']}
  Quantified over: {d['quantifier']['text']}

Task: make ONE small, realistic change to the non-test Go source — the kind of slip, "simplification" or "optimisation" a maintainer could plausibly commit — such that the property no longer holds, while
  (a) `go build ./...` still succeeds;
  (b) the EXISTING test suite still passes: `cd {wt} && flock /tmp/.dastard-repotest.lock go test -vet=off -count=1 ./... 2>&1 | grep -E '^(--- FAIL|FAIL|ok)'` (TestWriteControl and TestWritingFiles fail in this sandbox even on the unchanged tree because it runs as root: ignore exactly those two; the flock matters because the root package binds fixed TCP ports);
  (c) the defect needs something SPECIFIC to manifest — a particular interleaving, a fault at a particular point, a multi-step sequence of operations, an unusual input or boundary alignment, or two cooperating sites that each look fine alone — not something ordinary use would expose at once. {extra}
Then write a demonstration: a new Go test file in the appropriate package directory (name it zz_seed_test.go) that FAILS with your change and PASSES on the unchanged code. Verify both: run it with the change; save the change with `git diff -- . ':!*zz_seed_test.go' > /tmp/seed_{pid}_{n}.diff`; undo only your source change with `git checkout -- <the files you changed>`; run the test again (must pass); re-apply with `git apply /tmp/seed_{pid}_{n}.diff`.

Deliver, inside {wt}/seed/ : `patch.diff` (the source change only, as produced by git diff, applicable with `git apply` at the repository root), `zz_seed_test.go` (copy of the demonstration; first line a comment naming the package directory it belongs in), `meta.json` with keys property ("{pid}"), summary, needs_to_manifest, files_changed, why_existing_tests_pass, commands_run. Leave the worktree with the change applied and the test file in place.

Final message (short): the diff, what it needs in order to manifest, and the exact command that shows the demonstration failing.""")
