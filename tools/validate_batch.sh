#!/bin/bash
# usage: validate_batch.sh Cxx_n [Cxx_n ...]   (seeding worktrees /tmp/seed_Cxx_n); add :race or :checks=C01,C02 after an item
cd /verif
for item in "$@"; do
  pn=${item%%:*}; opt=""; [[ "$item" == *:race* ]] && opt="--race"
  chk=""; if [[ "$item" == *:checks=* ]]; then chk="--checks ${item##*:checks=}"; fi
  p=${pn%_*}; n=${pn#*_}
  if [ ! -d /tmp/seed_${p}_$n/seed ]; then echo "== $p-$n: not delivered yet"; continue; fi
  echo "== $p-$n"
  python3 tools/seedcheck.py $p /tmp/seed_${p}_$n $p-$n $opt $chk 2>&1 | grep -E "^(check|DETECTED|MISSED|build:|demo|existing)" | cut -c1-200
  git -C /repo worktree remove --force /tmp/seed_${p}_$n 2>/dev/null
  rm -f /tmp/seedprompt_${p}_$n.txt /tmp/seed_${p}_$n.diff
done
