#!/usr/bin/env python3
"""Validate a behaviour-preserving refactoring and run our checks against it: NO check may report a violation.

usage: harmlesscheck.py <id> <worktree|saved> <checks C01,C02,...> [--tier quick]
Writes /verif/seeded/H-<id>/{patch.diff, meta.json}.
"""
import sys, os, subprocess, json, shutil, time
V = "/verif"
ENV = dict(os.environ, GOFLAGS="-mod=mod", GOPROXY="off", GOSUMDB="off", GOTOOLCHAIN="local")
IGNORED = {"TestWriteControl", "TestWritingFiles"}
def sh(cmd, cwd, timeout=3600, env=ENV):
    p = subprocess.run(cmd, cwd=cwd, shell=True, executable="/bin/bash", env=env, stdout=subprocess.PIPE, stderr=subprocess.STDOUT, text=True, timeout=timeout)
    return p.returncode, p.stdout
def main():
    hid, wt, checks = sys.argv[1], sys.argv[2].rstrip("/"), sys.argv[3].split(",")
    tier = "quick"
    if "--tier" in sys.argv: tier = sys.argv[sys.argv.index("--tier") + 1]
    sid = "H-" + hid
    out = os.path.join(V, "seeded", sid)
    if wt == "saved":
        patch = os.path.join(out, "patch.diff"); meta = json.load(open(os.path.join(out, "meta.json")))
    else:
        patch = os.path.join(wt, "seed", "patch.diff")
        try: meta = json.load(open(os.path.join(wt, "seed", "meta.json")))
        except Exception as e: meta = dict(kind="harmless", note="meta unreadable: " + str(e))
    if not os.path.exists(patch): print("no patch"); sys.exit(2)
    fresh = f"/tmp/harmfresh_{hid}"
    sh(f"git -C /repo worktree remove --force {fresh}", "/")
    rc, o = sh(f"git -C /repo worktree add -q --detach {fresh} HEAD", "/")
    if rc != 0: print("cannot create worktree", o); sys.exit(2)
    res = dict(id=sid, checks={})
    try:
        rc, o = sh(f"git apply {patch}", fresh)
        if rc != 0:
            print("patch does not apply to /repo HEAD:", o[:600]); res["applies"] = False; sys.exit(3)
        rc, o = sh("go build ./... && go build -tags verif ./...", fresh)
        res["build_ok"] = rc == 0
        print("build:", "ok" if rc == 0 else o[-1500:])
        rc, o = sh("flock /tmp/.dastard-repotest.lock go test -vet=off -count=1 -json ./... 2>&1", fresh, timeout=2400)
        fails, passes = set(), 0
        for l in o.splitlines():
            try: j = json.loads(l)
            except Exception: continue
            if j.get("Test") and "/" not in j["Test"]:
                if j.get("Action") == "fail": fails.add(j["Test"])
                elif j.get("Action") == "pass": passes += 1
        res["existing_tests"] = dict(passed=passes, failed=sorted(fails))
        print(f"existing tests: {passes} pass, fail={sorted(fails)}")
        alarms = []
        for c in checks:
            t0 = time.time()
            rc, o = sh(f"./check {c} --tier {tier}", V, env=dict(ENV, VERIF_REPO=fresh), timeout=7200)
            viol = [l for l in o.splitlines() if l.startswith("VIOLATION")]
            res["checks"][c] = dict(exit=rc, violation_lines=viol, tail=o.splitlines()[-6:], wall_s=round(time.time() - t0, 1))
            print(f"check {c} ({tier}): exit {rc}; {viol[:1]}")
            if rc != 0 or viol:
                alarms.append(c)
                for l in o.splitlines()[-12:]: print("    ", l[:300])
        res["false_alarms"] = alarms
        print("FALSE ALARM in " + ",".join(alarms) if alarms else "QUIET (good)", "->", out)
    finally:
        sh(f"git -C /repo worktree remove --force {fresh}", "/")
    os.makedirs(out, exist_ok=True)
    if wt != "saved": shutil.copy(patch, os.path.join(out, "patch.diff"))
    meta["kind"] = "harmless"; meta["validation"] = res
    json.dump(meta, open(os.path.join(out, "meta.json"), "w"), indent=1)
main()
