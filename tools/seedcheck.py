#!/usr/bin/env python3
"""Validate a seeded change delivered in a scratch worktree and run our check against it.

usage: seedcheck.py <prop> <worktree> <seed-id> [--tier quick|thorough] [--checks C01,C02]

Steps (all in the scratch worktree, never in /repo):
  1. the change is applied in the worktree (seed/patch.diff); go build ./... must succeed
  2. the existing test suite passes with the change (demo test moved aside; the two root-only failures ignored)
  3. the demonstration fails with the change and passes without it
  4. VERIF_REPO=<worktree> ./check <prop>  -> expect a VIOLATION line / exit 1
Writes /verif/seeded/<seed-id>/{patch.diff, demo file, meta.json}.
"""
import sys, os, subprocess, json, shutil, glob, re, time

V = "/verif"
ENV = dict(os.environ, GOFLAGS="-mod=mod", GOPROXY="off", GOSUMDB="off", GOTOOLCHAIN="local")
IGNORED = {"TestWriteControl", "TestWritingFiles"}


def sh(cmd, cwd, timeout=1800, env=ENV):
    p = subprocess.run(cmd, cwd=cwd, shell=True, executable="/bin/bash", env=env, stdout=subprocess.PIPE, stderr=subprocess.STDOUT, text=True, timeout=timeout)
    return p.returncode, p.stdout


def main():
    prop, wt, sid = sys.argv[1], sys.argv[2].rstrip("/"), sys.argv[3]
    tier = "quick"
    race = False
    fast = False   # saved seeds only: skip the existing-suite and demonstration steps (validated when the seed was stored)
    checks = [prop]
    a = sys.argv[4:]
    while a:
        if a[0] == "--tier":
            tier = a[1]; a = a[2:]
        elif a[0] == "--checks":
            checks = a[1].split(","); a = a[2:]
        elif a[0] == "--race":
            race = True; a = a[1:]
        elif a[0] == "--fast":
            fast = True; a = a[1:]
        else:
            a = a[1:]
    res = dict(property=prop, worktree=wt, seed_id=sid, ran=[])
    saved = None
    if wt == "saved":
        # re-run a seed that is already stored under /verif/seeded/<sid>/
        saved = os.path.join(V, "seeded", sid)
        oldmeta = json.load(open(os.path.join(saved, "meta.json")))
        wt = f"/tmp/seedsaved_{sid}"
        shutil.rmtree(wt, ignore_errors=True)
        os.makedirs(os.path.join(wt, "seed"))
        shutil.copy(os.path.join(saved, "patch.diff"), os.path.join(wt, "seed", "patch.diff"))
        json.dump({k: v for k, v in oldmeta.items() if k not in ("validation", "demo_location")}, open(os.path.join(wt, "seed", "meta.json"), "w"))
        demo = oldmeta["demo_location"]
        os.makedirs(os.path.dirname(os.path.join(wt, demo)) or wt, exist_ok=True)
        shutil.copy(os.path.join(saved, os.path.basename(demo) + ".txt"), os.path.join(wt, demo))
    patch = os.path.join(wt, "seed", "patch.diff")
    if not os.path.exists(patch):
        print("no seed/patch.diff"); sys.exit(2)
    if saved is None:
        # locate the demo in the tree
        rc, o = sh("git status --porcelain", wt)
        demos = [l[3:] for l in o.splitlines() if l.startswith("??") and l.endswith("_test.go")]
        print("untracked tests:", demos)
        if not demos:
            print("no demonstration test found in the worktree"); sys.exit(2)
        demo = demos[0]
    demo_pkg = "./" + os.path.dirname(demo) if os.path.dirname(demo) else "."
    # work in a FRESH worktree of the current /repo HEAD (the harness in /verif follows /repo's hooks, which
    # may be newer than the seeding worktree): apply the patch there, copy the demo and all verif_*.go hook files
    fresh = f"/tmp/seedfresh_{sid}"
    sh(f"git -C /repo worktree remove --force {fresh}", "/")
    rc, o = sh(f"git -C /repo worktree add -q --detach {fresh} HEAD", "/")
    if rc != 0:
        print("cannot create fresh worktree:", o); sys.exit(2)
    sh("cd /repo && find . -name 'verif_*.go' -not -path './.git/*' | while read f; do mkdir -p %s/$(dirname $f); cp $f %s/$f; done" % (fresh, fresh), "/")
    rc, o = sh(f"git apply {patch}", fresh)
    if rc != 0:
        print("patch no longer applies to /repo HEAD:", o[:500]); res["patch_applies_to_head"] = False
        sh(f"git -C /repo worktree remove --force {fresh}", "/"); sys.exit(3)
    os.makedirs(os.path.dirname(os.path.join(fresh, demo)) or fresh, exist_ok=True)
    shutil.copy(os.path.join(wt, demo), os.path.join(fresh, demo))
    orig_wt = wt
    wt = fresh
    res["worktree"] = "fresh worktree of /repo HEAD " + sh("git -C /repo rev-parse --short HEAD", "/")[1].strip() + " + patch.diff"
    # 1. build
    rc, o = sh("go build ./... && go build -tags verif ./...", wt)
    res["build_ok"] = rc == 0
    print("build:", "ok" if rc == 0 else o[-1500:])
    if fast and saved is not None:
        ov = oldmeta.get("validation", {})
        res["existing_tests"], res["tests_still_pass"], res["demo"] = ov.get("existing_tests"), ov.get("tests_still_pass"), ov.get("demo")
        if ov.get("demo_needs_race"): res["demo_needs_race"] = True
        res["fast_rerun"] = True
    else:
        # 2. existing tests, demo moved aside
        aside = os.path.join("/tmp", f"_demo_{sid}.go.txt")
        shutil.move(os.path.join(wt, demo), aside)
        rc, o = sh("flock /tmp/.dastard-repotest.lock go test -vet=off -count=1 -json ./... 2>&1", wt, timeout=2400)
        fails = set()
        passes = 0
        for l in o.splitlines():
            try:
                j = json.loads(l)
            except Exception:
                continue
            if j.get("Test") and "/" not in j["Test"]:
                if j.get("Action") == "fail":
                    fails.add(j["Test"])
                elif j.get("Action") == "pass":
                    passes += 1
        shutil.move(aside, os.path.join(wt, demo))
        res["existing_tests"] = dict(passed=passes, failed=sorted(fails))
        unexpected = fails - IGNORED
        print(f"existing tests with the change: {passes} pass, fail={sorted(fails)} -> {'OK' if not unexpected and passes >= 70 else 'NOT OK'}")
        res["tests_still_pass"] = (not unexpected) and passes >= 70
        # 3. demo with / without
        run_demo = f"flock /tmp/.dastard-repotest.lock go test -vet=off -count=1 -run 'Seed|seed|ZZ|Zz' {demo_pkg} 2>&1 | tail -30"
        names = re.findall(r"func (Test\w+)\(", open(os.path.join(wt, demo)).read())
        if names:
            run_demo = f"flock /tmp/.dastard-repotest.lock go test -vet=off -count=1 -run '^({'|'.join(names)})$' {demo_pkg} 2>&1 | tail -30"
        if race or (saved and oldmeta.get("demo_needs_race")):
            run_demo = run_demo.replace("go test -vet=off", "go test -race -vet=off")
            res["demo_needs_race"] = True
        rc_w, o_w = sh(run_demo + "; exit ${PIPESTATUS[0]}", wt)
        sh(f"git apply -R {patch}", wt)
        rc_wo, o_wo = sh(run_demo + "; exit ${PIPESTATUS[0]}", wt)
        sh(f"git apply {patch}", wt)
        res["demo"] = dict(file=demo, tests=names, fails_with_change=rc_w != 0, passes_without=rc_wo == 0)
        print("demo with change:", "FAILS (good)" if rc_w != 0 else "passes (bad)", "| without:", "passes (good)" if rc_wo == 0 else "FAILS (bad)\n" + o_wo[-800:])
    # 4. our checks
    res["checks"] = {}
    for c in checks:
        t0 = time.time()
        rc, o = sh(f"./check {c} --tier {tier}", V, env=dict(ENV, VERIF_REPO=wt), timeout=7200)
        viol = [l for l in o.splitlines() if l.startswith("VIOLATION")]
        res["checks"][c] = dict(exit=rc, violation_lines=viol, tail=o.splitlines()[-6:], wall_s=round(time.time() - t0, 1))
        print(f"check {c} ({tier}): exit {rc}; {viol[:1]}")
        for l in o.splitlines()[-8:]:
            print("   ", l[:300])
    detected = any(v["exit"] == 1 and v["violation_lines"] for v in res["checks"].values())
    res["detected"] = detected
    # save
    out = os.path.join(V, "seeded", sid)
    os.makedirs(out, exist_ok=True)
    shutil.copy(patch, os.path.join(out, "patch.diff"))
    shutil.copy(os.path.join(wt, demo), os.path.join(out, os.path.basename(demo) + ".txt"))
    meta = {}
    mp = os.path.join(orig_wt, "seed", "meta.json")
    if os.path.exists(mp):
        try:
            meta = json.load(open(mp))
        except Exception as e:
            meta = dict(note="meta.json of the seeding agent unreadable: " + str(e))
    meta["validation"] = res
    meta["demo_location"] = demo
    json.dump(meta, open(os.path.join(out, "meta.json"), "w"), indent=1)
    sh(f"git -C /repo worktree remove --force {fresh}", "/")
    if saved:
        shutil.rmtree(wt if False else f"/tmp/seedsaved_{sid}", ignore_errors=True)
    print("DETECTED" if detected else "MISSED", "->", out)


if __name__ == "__main__":
    main()
