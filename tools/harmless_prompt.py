#!/usr/bin/env python3
"""Print the prompt for a sub-agent producing a behaviour-PRESERVING refactor: harmless_prompt.py <id> <files...>"""
import sys
hid, files = sys.argv[1], sys.argv[2:]
wt = f"/tmp/harmless_{hid}"
print(f"""You are helping to evaluate a verification harness for FALSE ALARMS by making ONE realistic, behaviour-PRESERVING refactoring of a Go code base. You work independently: do NOT read, list or use anything under /verif, and do not touch /repo itself.

Code base: usnistgov/dastard (NIST data-acquisition server for TES microcalorimeters, Go 1.23). Your own scratch git worktree: {wt} (work ONLY inside it; do not commit; never use `git stash` (the stash is shared by all worktrees of /repo: use `git diff > file`, `git checkout -- <files>` and `git apply file` instead); no network: always `export GOFLAGS=-mod=mod GOPROXY=off GOSUMDB=off GOTOOLCHAIN=local`).

Refactor the NON-test code in: {', '.join(files)} (you may touch closely related files when the refactoring requires it). Make a moderately sized clean-up of the kind a maintainer commits routinely, touching several functions: rename local variables and private helpers, extract or inline helper functions, reorder statements that are independent, change loop forms (index loop <-> range), replace hand-written code by equivalent standard-library calls, hoist or sink computations WITHOUT changing their values, pre-size slices, reword comments and LOG messages, add an unused private helper or field. 40-200 changed lines.

It must NOT change any observable behaviour: same outputs, files, published messages, replies, returned errors (keep error texts as they are), same panics/no panics, same goroutines, channels, locking and ordering of observable effects, same exported API. Be careful and conservative: when unsure whether a rewrite is equivalent (aliasing, integer overflow/conversion, slice capacity sharing, evaluation order with side effects, map iteration order), do not make it. This is NOT an exercise in hiding a defect — a genuinely harmless change is the goal.

Files named verif_*.go are build-tag-guarded hooks that are part of the repository: if your refactoring renames or moves something they use, update them in the same change so that BOTH `go build ./...` and `go build -tags verif ./...` succeed; do not otherwise change them and do not remove or move the calls to functions whose names start with `verif` that appear in the normal code (keep each such call at the same point of the control flow).

The existing tests must pass: `cd {wt} && flock /tmp/.dastard-repotest.lock go test -vet=off -count=1 ./... 2>&1 | grep -E '^(--- FAIL|FAIL|ok)'` (TestWriteControl and TestWritingFiles fail in this sandbox even on the unchanged tree because it runs as root: ignore exactly those two; the flock matters because the root package binds fixed TCP ports).

Deliver, inside {wt}/seed/ : `patch.diff` (`git diff > seed/patch.diff` run at the repository root BEFORE creating other files in seed/, applicable with `git apply`), and `meta.json` with keys kind ("harmless"), summary (what was refactored and why it is behaviour-preserving), files_changed, commands_run. Leave the worktree with the change applied.

Final message (short): what you changed and why it preserves behaviour.""")
