#!/usr/bin/env python3
"""Replace the table of DESIGN.md §13 by the current output of lib/seedtable.py and refresh the counts line."""
import subprocess, re, json, glob
p = "/verif/DESIGN.md"
s = open(p).read()
i = s.index("## 13. Seeded changes: which check catches which")
j = s.index("## 14.", i)
sec = s[i:j]
tbl = subprocess.run(["python3", "/verif/lib/seedtable.py"], capture_output=True, text=True).stdout.strip()
lines = sec.split("\n")
k0 = next(n for n, l in enumerate(lines) if l.startswith("| seed |") or l.startswith("|---|"))
head = "\n".join(l for l in lines[:k0] if not l.startswith("**Totals"))
ms = [json.load(open(m)) for m in glob.glob("/verif/seeded/C*/meta.json")]
hs = [json.load(open(m)) for m in glob.glob("/verif/seeded/H-*/meta.json")]
det = sum(1 for m in ms if m.get("validation", {}).get("detected"))
quiet = sum(1 for m in hs if not m.get("validation", {}).get("false_alarms"))
tot = f"**Totals now:** {len(ms)} seeded property-breaking changes stored, {det} detected by the current checks (every miss was followed by a strengthening, see §14 and the per-property notes); {len(hs)} behaviour-preserving refactorings, {quiet} quiet.\n"
s = s[:i] + head.rstrip("\n") + "\n\n" + tot + "\n" + tbl + "\n\n" + s[j:]
open(p, "w").write(s)
print(tot)
