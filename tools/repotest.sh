#!/bin/sh
# Run /repo's tests (guard OFF) serialised by a lock: the root package binds fixed TCP ports.
# usage: repotest.sh [pkg ...]   (default ./...)
export GOFLAGS=-mod=mod GOPROXY=off GOSUMDB=off GOTOOLCHAIN=local
cd /repo || exit 2
[ $# -eq 0 ] && set -- ./...
exec flock /tmp/.dastard-repotest.lock go test -vet=off -count=1 -timeout 25m "$@"
