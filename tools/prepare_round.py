#!/usr/bin/env python3
"""prepare_round.py Cxx [Cxx ...]: make a detached worktree /tmp/seed_<P>_<n> of /repo HEAD and a prompt
/tmp/seedprompt_<P>_<n>.txt for the next seed number of each property; the prompt lists (one line each) the
seeds already explored so that the new one is different."""
import sys, os, json, glob, subprocess, random
STYLES = [
    "Prefer a defect that involves TWO sites that each look fine alone, or state carried across calls.",
    "Prefer a defect at a numeric boundary or type-width limit (int32/int64/uint16 conversions, wrap-around, off-by-one at an exact fill).",
    "Prefer a defect in the glue/wiring around the core algorithm (option handling, construction, defaults, conversions), not in the core loop itself.",
    "Prefer a defect that only shows after a reconfiguration, restart, or error-path has been taken once.",
    "Prefer a defect introduced by a plausible performance optimisation (caching, buffer reuse, early exit, batching).",
    "Prefer a defect introduced by a plausible robustness/defensive change (timeouts, guards, resets, recover).",
]
for pid in sys.argv[1:]:
    have = sorted(glob.glob(f"/verif/seeded/{pid}-*"))
    n = max([int(h.rsplit("-", 1)[1]) for h in have] + [0]) + 1
    lines = []
    for h in have:
        try:
            m = json.load(open(h + "/meta.json"))
            lines.append("   - " + " ".join(str(m.get("summary", "")).split())[:260])
        except Exception:
            pass
    style = STYLES[(n + int(pid[1:])) % len(STYLES)]
    hint = style + " Changes ALREADY explored by earlier rounds — do something genuinely different (another function, another mechanism):\n" + "\n".join(lines)
    wt = f"/tmp/seed_{pid}_{n}"
    subprocess.run(["git", "-C", "/repo", "worktree", "remove", "--force", wt], capture_output=True)
    subprocess.run(["git", "-C", "/repo", "worktree", "add", "--detach", wt, "HEAD"], capture_output=True, check=True)
    p = subprocess.run(["python3", "/verif/tools/seed_prompt.py", pid, str(n), hint], capture_output=True, text=True, check=True)
    open(f"/tmp/seedprompt_{pid}_{n}.txt", "w").write(p.stdout)
    print(pid, n)
