#!/usr/bin/env python3
"""Summarise a pipeline case line (ops without sample data)."""
import sys
def main():
    for line in sys.stdin:
        t=line.split()
        i=3
        def take(n):
            nonlocal i
            r=t[i:i+n]; i+=n; return r
        assert t[i]=="nch"; nch=int(t[i+1]); i+=2
        print("case",t[1],"nch",nch,t[i:i+4]); i+=4
        assert t[i]=="saved"; ns=int(t[i+1]); i+=2
        for _ in range(ns):
            print("  saved ch",t[i],"ts",t[i+1:i+12]); i+=12
        assert t[i]=="zt"; i+=1
        for ch in range(nch):
            n=int(t[i]); i+=1+2*n
        assert t[i]=="ops"; nops=int(t[i+1]); i+=2
        for k in range(nops):
            op=t[i]; i+=1
            if op=="T":
                n=int(t[i]); ch=t[i+1:i+1+n]; i+=1+n
                print(f"  {k}: T chans {ch} ts {t[i:i+11]} compat {t[i+11:i+17]}"); i+=17
            elif op=="L":
                print(f"  {k}: L nsamp {t[i]} npre {t[i+1]}"); i+=2
            elif op in("GA","GD"):
                n=int(t[i]); print(f"  {k}: {op} {t[i+1:i+1+2*n]}"); i+=1+2*n
            elif op=="GS": print(f"  {k}: GS")
            elif op=="B":
                first,t0,per=t[i:i+3]; i+=3
                sg=t[i:i+nch]; i+=nch
                lens=[]
                for ch in range(nch):
                    n=int(t[i]); lens.append(n); i+=1+n
                print(f"  {k}: B first {first} len {lens} signed {sg}")
        print("  OUT",t[i+1:i+3], "...")
main()
