CLAIMED = False
NOT_YET = "correspondence and oracle run green; theorems in progress (nothing is claimed yet)"
_PIPE_TB = ["Go slice/index semantics as transcribed in Model/Trig.lean (every access through rd/sliceI, a Go panic is the value none)",
            "time.Time arithmetic (block time stamps are harness-chosen integers of nanoseconds)",
            "the kink-model fit of edge-multi (gonum least squares) enters the model as an oracle table of shifts in {-1,0,+1} obtained from the real zeroThreshold",
            "decimation is unreachable from any API and is not modelled"]
CFG = dict(
    rule="a scripted source (real AnySource) prepared by the real PrepareRun (restored or default trigger settings), configured through the real "
         "SourceControl.ConfigureTriggers / ConfigurePulseLengths and group-trigger requests, fed block by block through the real ProcessSegments; "
         "1..3 channels, signed and unsigned, (npre,nsamp) from 3/4 to 16/64 (thorough: up to 100/400), streams: flat, pulses, steps, ramps, extremes around "
         "the signed wrap, dense edges; block lengths 1,2,3, npre+-1, nsamp+-1, 2*nsamp+9..11, up to 4*nsamp or one block; all trigger kinds and "
         "combinations incl. edge-multi (3 modes, zero-threshold on/off) and group triggers; control requests between blocks. Every captured record is "
         "judged against the ground-truth stream the harness fed (samples, frame, time, lengths, signedness) and the whole output is compared with the Lean model. "
         "Non-trivial = at least one record was emitted; distinct by input line.",
    nontrivial=["records"],
    jobs=seeds(1, 3),
    lean_files=["Trig", "Pipe", "PipeJudge", "C01", "C09"],
    trusted_base=_PIPE_TB,
    assumptions=["blocks of one run carry contiguous frame numbers (C03/C04 establish this for the real sources)"],
    timeout=dict(quick=900, thorough=3600),
)
MANIFEST = dict(text="", note="", technique="")
THEOREMS = []
