_PIPE_TB = ["Go slice/index semantics as transcribed in Model/Trig.lean (every access through rd/sliceI, a Go panic is the value none)",
            "time.Time arithmetic (block time stamps are harness-chosen integers of nanoseconds)",
            "the kink-model fit of edge-multi (gonum least squares) enters the model as an oracle table of shifts in {-1,0,+1} obtained from the real zeroThreshold",
            "decimation is unreachable from any API and is not modelled"]
_RULE = ("a scripted source (real AnySource) prepared by the real PrepareRun (restored or default trigger settings), configured through the real "
         "SourceControl.ConfigureTriggers / ConfigurePulseLengths and group-trigger requests, fed block by block through the real ProcessSegments; "
         "1..3 channels, signed and unsigned, (npre,nsamp) from 3/4 to 16/64 (thorough: up to 100/400), streams: flat, pulses (instant and finite rise), steps, ramps, "
         "extremes around the signed wrap, dense edges; block lengths 1,2,3, npre+-1, nsamp+-1, 2*nsamp+9..11, up to 4*nsamp or one block; ")

CLAIMED = True
CFG = dict(
    rule=_RULE + "all trigger kinds and combinations incl. edge-multi (3 modes, zero-threshold on/off) and group triggers; control requests between blocks. "
         "Every captured record is judged against the ground-truth stream the harness fed (samples, frame, time, lengths, signedness; a crash is a violation) "
         "and the whole output is compared with the Lean model. Non-trivial = at least one record was emitted; distinct by input line.",
    nontrivial=["records"],
    jobs=seeds(1, 3),
    lean_files=["Trig", "Pipe", "PipeJudge", "C01", "C09", "Pipe1", "Pipe2", "Pipe3", "Pipe4", "Edge", "Level", "Auto", "Passes", "NoCrash", "EmtSafe", "TrigIdx", "Compose"],
    trusted_base=_PIPE_TB,
    assumptions=["blocks of one run carry contiguous frame numbers and one sample period (C03/C04 establish contiguity for the real sources)",
                 "C01_no_crash assumes what a data source guarantees of its blocks (one segment per channel, equal lengths, consecutive non-negative frame numbers) "
                 "and kink-fit shifts in {-1,0,+1}; requests are arbitrary"],
    timeout=dict(quick=900, thorough=3600),
)
MANIFEST = dict(
    text="Theorems over the pipeline model (append/trim/cut, all trigger passes, group triggers, control requests), for all streams, all block partitions, "
         "all trigger configurations and all request histories: invariant SrcInv (each channel's buffer is a suffix of the delivered stream, first = frame of "
         "its first sample) is preserved by every operation; every record the model publishes (primary, secondary, any trigger type) is the exact excerpt "
         "around its stated frame, with the time the block stamp assigns, the block's signedness and, outside edge-multi, the configured lengths "
         "(C01_block_exact, C01_records_exact, C01_run_exact); the run-time oracle chkRec accepts exactly such records (C01_oracle_sound); the edge/level/auto "
         "passes never index out of range (C01_no_crash_nonEMT), and NO operation sequence from the state PrepareRun leaves - ConfigureTriggers on any channels incl. "
         "edge-multi, ConfigurePulseLengths, group-trigger edits, data blocks of any lengths - makes the model panic: every search read, primary cut, broker look-up "
         "and secondary (group-trigger) cut stays inside the buffers (C01_no_crash, invariant SrcSafe, Lemmas/NoCrash); composed with the Abaco ingest model: the blocks the reader loop emits for ANY packet history (C03) are valid pipeline input, so the pipeline never panics on them whatever requests arrive in between (Compose.abaco_blocks_never_crash). The model is compared record-for-record with the real ProcessSegments pipeline on every run and "
         "the same oracle judges the real records against the ground-truth stream.",
    note="Trusted: Lean 4.33 kernel (axioms propext, Classical.choice, Quot.sound only; audited every run); the hand-written model is tied to the Go code only by "
         "differential testing with seeded generators (not a proof). 'Never crashes' is proved for the whole source model incl. edge-multi and secondary records (C01_no_crash). Decimation (unreachable from any API) is not modelled. Two crash defects found by "
         "this check were repaired in /repo (5067219, fbc46c8).",
    technique="Lean 4 theorems (invariant + induction over operation histories) over an executable model; model tied to the Go code by a differential correspondence run",
)
THEOREMS = [
    ("DastardV.Props.C01", "DastardV.C01.C01_block_exact"),
    ("DastardV.Props.C01", "DastardV.C01.C01_records_exact"),
    ("DastardV.Props.C01", "DastardV.C01.C01_run_exact"),
    ("DastardV.Props.C01", "DastardV.C01.C01_oracle_sound"),
    ("DastardV.Props.C01", "DastardV.C01.C01_no_crash_nonEMT"),
    ("DastardV.Props.C01", "DastardV.C01.C01_no_crash"),
    ("DastardV.Lemmas.Compose", "DastardV.Compose.abaco_blocks_never_crash"),
    ("DastardV.Lemmas.NoCrash", "DastardV.Pipe.opBlock_safe"),
    ("DastardV.Lemmas.NoCrash", "DastardV.Pipe.runOps_safe"),
    ("DastardV.Lemmas.Pipe1", "DastardV.Trig.cut_exact"),
    ("DastardV.Lemmas.Pipe1", "DastardV.Trig.append_rep"),
    ("DastardV.Lemmas.Pipe1", "DastardV.Trig.trim_rep"),
    ("DastardV.Lemmas.ComposeExcerpt", "DastardV.Compose.foldl_deliver_chanStream"),
    ("DastardV.Lemmas.ComposeExcerpt", "DastardV.Compose.chanRecs_excerpts"),
    ("DastardV.Lemmas.ComposeExcerpt", "DastardV.Compose.contig_of_opsOK"),
    ("DastardV.Lemmas.ComposeExcerpt", "DastardV.Compose.file_samples_are_stream_excerpts"),
    ("DastardV.Lemmas.ComposeExcerpt", "DastardV.Compose.file_samples_are_stream_excerpts_of_blocks"),
]
