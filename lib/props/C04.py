# C04 — Lancero ingest: frame alignment, channel order, err/fb pairing, external triggers
CLAIMED = True

CFG = dict(
    rule="two kinds of case, 1:4. (R) the real launchLanceroReader + getNextBlock + distributeData run against a scripted in-memory card "
         "(implements lancero.Lanceroer): arrays of 1-4 columns x 2-8 rows (thorough: up to 32 rows), 1-40 well-formed frames of random words "
         "(extreme/small/random error and feedback values, external-trigger flag runs of every length 1..2*rows+2 at every row, 8% with flags that "
         "differ between columns); 50% loss-free, 38% with one byte range cut out (every offset class within a frame x every length class: one word, "
         "one row, row+1, frame-1 word, exactly one frame, frame+1 word, >2 frames, random), 5% two cuts, 7% malformed (frame bits flipped / random "
         "bytes / no frame bits at all / all frame bits); the bytes become visible to the reader in harness-chosen portions per tick: 1 word..1 row, "
         "below the 3-frame minimum, 3-5 whole frames, 1 word..5 frames, byte-granular, boundary sizes (frame-1 word, frame, frame+1 word, "
         "3 frames-+1 word, 5 frames); an optional mix configuration (fractions 0, -0, +-0.5, +-1, +-7, +-1e3, +-1e6, +-1e300, 1e-300, k/64; 6% invalid "
         "channel indices) is set before the reader starts. (D) the real getNextBlock/distributeData/ConfigureMixFraction driven directly with a "
         "history of 1-9 steps: buffer messages (1-30 frames, readout-order slices, time stamp, data-drop flag with probability 0/15/40%, 4% "
         "backward clock steps) interleaved with mix requests (changed mid-run). Observable: every block's per-channel data, first frame index, "
         "droppedFrames, external trigger counts; a crash of the real code is the observed output PANIC <class>. The Lean oracle judges the "
         "blocks against the closed-form statement (channel 2(c*rows+r)+e = component e of word (r,c); feedback = previous feedback with flag bits "
         "cleared + scaled error of the same sample, saturated; counts = rising edges of the column-0 flag, frame*rows+row; contiguous numbering "
         "without loss; after a loss: reported, re-aligned, never backwards) and the Lean model must reproduce every block. Non-trivial = the case "
         "delivered at least one block; distinct by input line.",
    nontrivial=["blocks"],
    lean_files=["C04", "ComposeLancero"],
    jobs=seeds(1, 4),
    trusted_base=["the mixer's float arithmetic is IEEE double without fused multiply-add on both sides (Lean Float vs Go on amd64); theorems hold for every float implementation (abstract FloatOps)",
                  "the dropped-frame estimate is wall-clock based in the code; cases use a 1000 Hz frame rate and millisecond time stamps so that it equals the integer difference of the scripted times",
                  "Go runtime (goroutines, channels, ticker), unsafe byte->uint16 reinterpretation (little endian), the real card driver (replaced by the scripted card)"],
    assumptions=["single card (the code itself panics 'not yet implemented' for more)",
                 "lost byte ranges are whole 32-bit words (the card moves words); a loss of a whole number of frames leaves a well-formed stream and cannot be noticed by anyone",
                 "the initial partial frame is consumed by StartRun (not part of this check): reader runs start on a frame boundary, a misaligned start is covered as a loss at offset 0",
                 "NaN/Inf mix fractions are excluded (Go's float->int conversion is implementation defined there)"],
    timeout=dict(quick=600, thorough=3600),
)

MANIFEST = dict(
    text="Theorems over a transcription of FindFrameBits, the reader tick of launchLanceroReader (3-frame minimum, alignment test, "
         "re-alignment, released vs consumed bytes, demultiplexing), updateChanOrderMap, MixRetardFb and distributeData, for ALL geometries "
         "(>=1 column, >=2 rows), frame contents, mixer/counter states: (1) ffb_aligned_iff: on well-formed frames a buffer starting k words "
         "into a frame gives q=F-k, p=q+F, n=ncols, so q=ncols*nrows iff aligned; (2) C04_chunking_independent: for EVERY schedule of reads "
         "(shorter than 3 frames, not word/frame aligned, ...) the pipeline never panics or flags a drop, withholds fewer than 3 frames of "
         "visible bytes, numbers blocks contiguously, and channel 2(c*rows+r)+e carries component e of word (r,c) of frames 0..N-1 exactly once in "
         "order (the run-time oracle cleanRun holds of the model), feedback = mixSpec, triggers = edgeSpec; (3) readout_perm_bijective: the table "
         "built by the transcribed loop is the column-major/row-major bijection; (4) C04_fb_retard_mix (+ sample form, + exact-arithmetic "
         "saturation lemma): for every history of buffers and mix requests each feedback sample is the previous one with flag bits cleared plus "
         "the scaled error of the same sample, saturated, independent of block cuts and mix-change time (float arithmetic abstract); "
         "(5) C04_ext_trigger (+ index forms): counts = one per rising edge of the column-0 flag of the physical row, (first+f)*rows+row, for any "
         "number of columns, state carried across blocks; (6) C04_frames_monotone: blocks numbered from the counter advanced by each loss "
         "estimate, the estimate reported, never backwards for non-negative estimates, contiguous without loss; (7) C04_realign_partial / C04_realign_all_chunkings: a read "
         "that starts inside a frame is flagged, released up to the next frame boundary and delivers whole frames, and for every schedule of reads the "
         "first buffer after such a start is flagged and all buffers are whole frames in order; the full re-alignment statement "
         "is shown false of the code by C04_realign_counterexample (known finding: loss in the middle of a read); (8) C04_blocks_shape: every block "
         "of every history has one slice per channel, all of the announced length; (9) Compose.lancero_blocks_never_crash (composition with the "
         "pipeline model of C01): for every geometry, every list of well-formed frames and every read schedule the emitted blocks, with arbitrary "
         "control requests woven in, are processed by the prepared source without a panic (card bytes -> records); (10) Compose.lancero_no_pulse_lost / "
         "lancero_error_edges_never_lost (composition with C02): on the stream every pipeline channel receives the published primaries satisfy the "
         "C02 clauses (edge/level completeness, soundness), and for error channel 2(c*rows+r) that stream is literally the err component of word "
         "(r,c) of the card's frames 0..N-1, whatever the read schedule. The model is compared block for "
         "block with the real launchLanceroReader/getNextBlock/distributeData (scripted in-memory card; direct buffer histories) on every run and "
         "the real output is judged by the closed-form oracle.",
    note="Trusted: Lean 4.33 kernel (axioms propext, Classical.choice, Quot.sound only; audited every run); the hand-written model is tied "
         "to the Go code only by differential testing with seeded generators (not a proof). Float arithmetic of the mixer is abstract in the "
         "theorems and an IEEE-double mirror in the correspondence; the wall-clock dropped-frame estimate enters as the difference of scripted "
         "time stamps; single card; lost byte ranges are whole words; StartRun's initial alignment is not covered. That the reader never "
         "crashes on a stream with lost bytes is tested by the correspondence, not proved. Four defects found were repaired (fix: 66b4e17 "
         "ext-trigger index, d7b1fb6 frame numbers after a drop, dbb8d0f reader panic on a lost first row, 2bf907d discarded buffer not "
         "reported) and the theorems are about the repaired behaviour; one is a known finding (C04:gap-garbage-block).",
    technique="Lean 4 theorems over an executable model; model tied to the Go code by a differential correspondence run",
)

THEOREMS = [
    ("DastardV.Props.C04", "DastardV.C04.ffb_aligned_iff"),
    ("DastardV.Props.C04", "DastardV.C04.C04_chunking_independent"),
    ("DastardV.Props.C04", "DastardV.C04.readout_perm_bijective"),
    ("DastardV.Props.C04", "DastardV.C04.C04_fb_retard_mix"),
    ("DastardV.Props.C04", "DastardV.C04.C04_fb_retard_mix_sample"),
    ("DastardV.Props.C04", "DastardV.C04.C04_mix_exact_saturating"),
    ("DastardV.Props.C04", "DastardV.C04.C04_ext_trigger"),
    ("DastardV.Props.C04", "DastardV.C04.C04_ext_trigger_edges"),
    ("DastardV.Props.C04", "DastardV.C04.C04_ext_trigger_items"),
    ("DastardV.Props.C04", "DastardV.C04.C04_frames_monotone"),
    ("DastardV.Props.C04", "DastardV.C04.C04_realign_partial"),
    ("DastardV.Props.C04", "DastardV.C04.C04_realign_all_chunkings"),
    ("DastardV.Props.C04", "DastardV.C04.C04_realign_counterexample"),
    ("DastardV.Props.C04", "DastardV.C04.C04_blocks_shape"),
    ("DastardV.Lemmas.ComposeLancero", "DastardV.Compose.lancero_blocks_never_crash"),
    ("DastardV.Lemmas.ComposeLancero", "DastardV.Compose.lancero_blocks_blocksFor"),
    ("DastardV.Lemmas.ComposeLancero", "DastardV.Compose.lancero_no_pulse_lost"),
    ("DastardV.Lemmas.ComposeLancero", "DastardV.Compose.lancero_error_edges_never_lost"),
    ("DastardV.Lemmas.ComposeLanceroExcerpt", "DastardV.Compose.chanStream_lblocks"),
    ("DastardV.Lemmas.ComposeLanceroExcerpt", "DastardV.Compose.lancero_file_samples_are_card_words"),
    ("DastardV.Lemmas.ComposeLanceroExcerpt", "DastardV.Compose.lancero_error_file_samples_are_card_words"),
    ("DastardV.Lemmas.ComposeLanceroExcerpt", "DastardV.Compose.lancero_feedback_file_samples_are_mixed_words"),
    ("DastardV.Lemmas.ComposeLanceroExcerpt", "DastardV.Compose.excerpt_sample_of_word"),
]
