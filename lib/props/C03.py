# C03 — Abaco ingest: exact demultiplexing, gap filling, continuous frame numbering
CLAIMED = True

CFG = dict(
    rule="each case = a layout (1..4 channel groups, 1..8 channels each, 1..16 frames per packet, int16/int32 payloads, sync offsets from "
         "time-stamped or plain start-up packets) + a script of 1..45 read ticks: which packets each group delivers in which tick "
         "(loss: none/single/bursts/first-of-tick/last-of-tick/random/whole tick; one group lagging 0..3 ticks; empty ticks; 40% 'hot' = lag+loss). "
         "The REAL Sample/PrepareChannels/readerMainLoop/getNextBlock/distributeData run on a scripted in-memory PacketProducer, one loop tick per "
         "script entry (1% of cases are launched through the real StartRun with its 50 ms ticker); every emitted block (per-channel data, first "
         "frame index, dropped frames, emitting tick) is judged by the Lean oracle on every prefix of the history and compared with the Lean "
         "model under all map iteration orders. 3% of multi-group cases use unequal frames per packet (excluded point: recorded, model must "
         "predict the panic). Restart histories (110 quick / 1500 thorough extra cases): run 1 (usually cut short while a group lags, so packets "
         "stay queued) -> real stop path -> Sample/PrepareChannels/run 2 on the SAME AbacoSource object through the same scripted producer, with "
         "the same groups or one removed / added / reshaped / all new; run 2's blocks are judged by chkC03 and compared with the model started "
         "fresh (restartSt), and the channel count reported after the restart must be that of the groups seen at its start-up. Non-trivial = a gap was filled while the queue still held packets from an earlier tick (the mechanism's weak "
         "spot) or a group's queue stayed non-empty across a tick; distinct by input line. In addition 10 (quick) / 80 per job (thorough) `udp` cases "
         "drive the REAL AbacoUDPReceiver (socket on the loopback interface, its reader goroutine with the reusable 8192-byte buffer, ReadAllPackets) "
         "with 1..24 datagrams of real packets (35% with datagrams cut short so that the stale tail of the buffer completes them, and empty datagrams); "
         "the slices ReadAllPackets returns are held uncopied until the end; on clean streams the packets handed out must be the packets sent, one per "
         "datagram, in order (`C03:udp-packets-not-fifo`, theorem udp_packets_fifo), all cases are compared with Model/UdpPackets.lean.",
    nontrivial=["leftover", "gap-behind-leftover", "restart-leftover"],
    jobs=seeds(1, 2),
    trusted_base=["uint32 sequence numbers modelled as Nat (guard < 2^32, sync offset <= first number)",
                  "Go map iteration order over the channel groups = explicit permutation parameter of the model (all orders tried)",
                  "phase unwrapping switched off (zero AbacoUnwrapOptions: UnwrapInPlace is the identity); UDP sockets / shared-memory ring "
                  "replaced by the scripted producer in the tick-level cases (the `udp` cases run the real UDP receiver on loopback; C18 covers the ring and AbacoRing.ReadAllPackets, C15 the packet decoder)",
                  "loopback UDP delivers the datagrams of one socket in order and without loss while the harness keeps less than 64 kB in flight"],
    assumptions=["packets of one group arrive in sequence order and belong to groups seen at start-up",
                 "all groups use the same number of frames per packet (otherwise demuxData panics: excluded point, run and recorded)"],
    timeout=dict(quick=600, thorough=3600),
    lean_files=["C03", "ComposeAbaco", "UdpPackets", "ComposeUdp", "ComposeUdpFiles"],
)

MANIFEST = dict(
    text="Invariant/refinement proof in Lean 4 over a transcription of the Abaco reader-loop tick (distributePackets, fillMissingPackets + "
         "MakePretendPacket, firstSeqNum, trimPacketsBefore, min-over-groups frame count, demuxData for int16/int32 payloads, distributeData "
         "frame stamping): for ALL layouts (>=1 groups, any channel counts, any common frames-per-packet), ALL loss patterns, ALL batchings into "
         "ticks (empty ticks, lagging groups) and ALL map iteration orders the run never panics and its blocks satisfy the oracle chkC03: every "
         "channel's concatenated output = the arrived packets' own samples + equal-length filler for lost ones, in sequence order, for exactly "
         "the packets every group can supply from the common start (C03_stream_exact, C03_sample_count); blocks have equal length on all "
         "channels and hold the same global sequence window in every group (C03_groups_aligned, C03_block_windows); block frame numbers are "
         "contiguous (C03_frames_contiguous); reported dropped frames add up to the frames filled in (C03_dropped_count); plus the packet-level "
         "facts fill_inserts_exactly_gaps and demux_deinterleave. The same chkC03 judges the REAL loop's blocks on every run: the real "
         "Sample/PrepareChannels/readerMainLoop/getNextBlock/distributeData are driven tick by tick through a scripted in-memory PacketProducer "
         "and compared block-for-block with the model under all map orders.",
    note="Trusted: Lean 4.33 kernel (axioms propext, Classical.choice, Quot.sound only; audited every run); the hand-written model is tied "
         "to the Go code only by differential testing with seeded generators (not a proof). Sequence numbers are unbounded naturals (guard < 2^32, "
         "no uint32 wrap); phase unwrapping off (C12); sockets/ring replaced by the scripted producer (C15/C18); filler VALUES are compared with "
         "the model but not demanded by the oracle (the property only fixes their count); 'dropped count = frames filled in' is read cumulatively "
         "(sum over blocks = frames inserted into the queues so far, checked at every emitting tick). Unequal frames per packet between groups is "
         "outside the statement: demuxData panics there (C03_unequal_fpp_panics; cases tagged excluded-unequal-fpp are run and recorded). Two "
         "defects found and repaired: 9db73e7 (gap behind queued packets not filled), a0408fd (dropped count lost on 'await more data').",
    technique="Lean 4 theorems over an executable model; model tied to the Go code by a differential correspondence run",
)

THEOREMS = [
    ("DastardV.Props.C03", "DastardV.C03.fill_inserts_exactly_gaps"),
    ("DastardV.Lemmas.ComposeUdp", "DastardV.UdpPk.udp_packets_fifo"),
    ("DastardV.Lemmas.ComposeUdp", "DastardV.UdpPk.udp_packets_fifo_ingest"),
    ("DastardV.Lemmas.ComposeUdpFiles", "DastardV.UdpPk.recvTicks_flatten"),
    ("DastardV.Lemmas.ComposeUdpFiles", "DastardV.UdpPk.udp_ticks_are_sent"),
    ("DastardV.Lemmas.ComposeUdpFiles", "DastardV.UdpPk.udp_junk_is_dropped"),
    ("DastardV.Lemmas.ComposeUdpFiles", "DastardV.UdpPk.udp_to_ljh22_files"),
    ("DastardV.Lemmas.ComposeUdpFiles", "DastardV.UdpPk.udp_junk_to_ljh22_files"),
    ("DastardV.Lemmas.C03a", "DastardV.C03.demux_deinterleave"),
    ("DastardV.Lemmas.C03a", "DastardV.C03.pretend_chan"),
    ("DastardV.Props.C03", "DastardV.C03.C03_no_panic"),
    ("DastardV.Props.C03", "DastardV.C03.C03_stream_exact"),
    ("DastardV.Props.C03", "DastardV.C03.C03_sample_count"),
    ("DastardV.Props.C03", "DastardV.C03.C03_frames_contiguous"),
    ("DastardV.Props.C03", "DastardV.C03.C03_groups_aligned"),
    ("DastardV.Props.C03", "DastardV.C03.C03_block_windows"),
    ("DastardV.Props.C03", "DastardV.C03.C03_dropped_count"),
    ("DastardV.Props.C03", "DastardV.C03.C03_oracle"),
    ("DastardV.Props.C03", "DastardV.C03.C03_unequal_fpp_panics"),
    ("DastardV.Props.C03", "DastardV.C03.C03_restart_is_fresh"),
    ("DastardV.Props.C03", "DastardV.C03.C03_restart_oracle"),
    ("DastardV.Lemmas.ComposeAbaco", "DastardV.Compose.chanSegs_catChan"),
    ("DastardV.Lemmas.ComposeAbaco", "DastardV.Compose.abaco_no_pulse_lost_packets"),
    ("DastardV.Lemmas.ComposeAbacoExcerpt", "DastardV.Compose.chanStream_blocks"),
    ("DastardV.Lemmas.ComposeAbacoExcerpt", "DastardV.Compose.abaco_file_samples_are_packet_samples"),
    ("DastardV.Lemmas.ComposeAbacoExcerpt", "DastardV.Compose.streamOK_packet"),
    ("DastardV.Lemmas.ComposeAbacoExcerpt", "DastardV.Compose.excerpt_sample_of_packet"),
    ("DastardV.Lemmas.C03Oracle", "DastardV.C03.chkFrames_iff"),
    ("DastardV.Lemmas.C03Oracle", "DastardV.C03.chkFrames_abut"),
    ("DastardV.Lemmas.C03Oracle", "DastardV.C03.chkShape_sound"),
    ("DastardV.Lemmas.C03Oracle", "DastardV.C03.chkStream_sound"),
    ("DastardV.Lemmas.C03Oracle", "DastardV.C03.chkC03_sound"),
]
