# C03 — Abaco ingest: exact demultiplexing, gap filling, continuous frame numbering
CLAIMED = False
NOT_YET = "check under construction (nothing is claimed for it yet)"

CFG = dict(
    rule="each case = a layout (1..4 channel groups, 1..8 channels each, 1..16 frames per packet, int16/int32 payloads, sync offsets from "
         "time-stamped or plain start-up packets) + a script of 1..45 read ticks: which packets each group delivers in which tick "
         "(loss: none/single/bursts/first-of-tick/last-of-tick/random/whole tick; one group lagging 0..3 ticks; empty ticks; 40% 'hot' = lag+loss). "
         "The REAL Sample/PrepareChannels/readerMainLoop/getNextBlock/distributeData run on a scripted in-memory PacketProducer, one loop tick per "
         "script entry (1% of cases are launched through the real StartRun with its 50 ms ticker); every emitted block (per-channel data, first "
         "frame index, dropped frames, emitting tick) is judged by the Lean oracle on every prefix of the history and compared with the Lean "
         "model under all map iteration orders. 3% of multi-group cases use unequal frames per packet (excluded point: recorded, model must "
         "predict the panic). Non-trivial = a gap was filled while the queue still held packets from an earlier tick (the mechanism's weak "
         "spot) or a group's queue stayed non-empty across a tick; distinct by input line.",
    nontrivial=["leftover", "gap-behind-leftover"],
    jobs=seeds(1, 2),
    trusted_base=["uint32 sequence numbers modelled as Nat (guard < 2^32, sync offset <= first number)",
                  "Go map iteration order over the channel groups = explicit permutation parameter of the model (all orders tried)",
                  "phase unwrapping switched off (zero AbacoUnwrapOptions: UnwrapInPlace is the identity); UDP sockets / shared-memory ring "
                  "replaced by the scripted producer (C18 covers the ring, C15 the packet decoder)"],
    assumptions=["packets of one group arrive in sequence order and belong to groups seen at start-up",
                 "all groups use the same number of frames per packet (otherwise demuxData panics: excluded point, run and recorded)"],
    timeout=dict(quick=600, thorough=3600),
)

MANIFEST = dict(
    text="under construction",
    note="under construction",
    technique="Lean 4 theorems over an executable model; model tied to the Go code by a differential correspondence run",
)

THEOREMS = [
]
