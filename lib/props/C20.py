# C20 — run-log side files record every event exactly once, in order
CLAIMED = True

CFG = dict(
    rule="each case = a prepared scripted source (real AnySource/PrepareRun, 1..3 channels) + a history of 1..60 ops: ~50% blocks through the "
         "real ProcessSegments carrying 0..40 (12% of the cases: 1..600, several such batches per run, so that the buffered file content crosses "
         "the 4096-byte writer buffer at varying alignments; 4% of the cases: 150..450 ops, mostly blocks with dropped frames) external-trigger row counts (increasing, with extreme values 0, -1, +-2^62) and a dropped-frame "
         "count (0, 1..99999999, negative) at first frames 0 .. 2^40; ~24% state labels through the real SourceControl.SetExperimentStateLabel "
         "(WaitForError), as 'UNPAUSE label', or (45% of them) through the exported AnySource.SetExperimentStateLabel with a caller-chosen time "
         "stamp that is earlier than / equal to / later than the previous one and than the clock-stamped lines (2001, 2096, 0, 1) (labels incl. spaces, commas, '#', the words START/STOP/PAUSE, empty, 5% containing \\n / \\r, 35% with printf verbs / trailing % / backslashes / quotes / tabs / NUL / UTF-8 / invalid UTF-8, 4% of 4-9 kB); "
         "~30% START (valid / no file type) / STOP / PAUSE / UNPAUSE / junk through the real SourceControl.WriteControl, 0..40% of them illegal in "
         "the current state (STOP while stopped, START while active, labels while inactive). Whenever a STOP ends a run the three files of that "
         "run directory are read back from disk (int64 counts after the header line; '%d %d' lines; '<digits>, <label>' lines) together with the "
         "process's open descriptors below the output directory; at the end of the history every finished run is read again. Case 0 of every "
         "run is the scripted minimal history of the repaired defect followed by a restart. The Lean specification machine judges the files "
         "(exact content per run, closed, unchanged afterwards) and the Lean model must reproduce error flags, run boundaries and contents. "
         "Non-trivial = at least one run was completed with external triggers in its file; distinct by input line.",
    nontrivial=["ext"],
    jobs=seeds(2, 6),
    lean_files=["C20", "C06", "ComposeRunLog"],
    trusted_base=["the ticker-driven flushes and the bufio layer do not change what a file contains once it is closed (flush abstracted)",
                  "time stamps written by the code itself (time.Now()) are only checked to lie inside the case's wall-clock window; caller-supplied time stamps are compared exactly",
                  "request strings and labels are byte strings; the WriteControl dispatch is the C06 model's classify (ASCII)"],
    assumptions=["a START is 'valid' when it selects some file type and, if OFF is among them, some channel has projectors (projectors sit on any subset of the 1..4 channels; every type combination incl. OFF-only is asked for); with a valid START 'writing already in progress' is exactly 'a run is active'; every START names the same base path (paths are C06's subject)",
                 "file-creation failures (which make the core loop panic by design, DESIGN section 7 item 15) are outside the quantifier",
                 "labels are set with WaitForError=true (the fire-and-forget variant panics on a refused label by design; C11's subject)"],
    timeout=dict(quick=900, thorough=3600),
)

MANIFEST = dict(
    text="Refinement + segment theorems over ALL histories of blocks (arbitrary external-trigger lists, drop counts, first frames), requests "
         "(arbitrary strings, valid/invalid START) and labels (arbitrary byte strings): the files closed by the model are exactly those the "
         "specification machine (= the run-time oracle) demands (C20_model_meets_spec); for every history pre that leaves writing inactive, a run "
         "START; mid; STOP closes exactly one new set of files whose content depends on mid alone - external-trigger file = all counts of mid's "
         "blocks once and in order (C20_ext_exact), data-drop file = one (first frame, count) line per block with dropped>0 (C20_drop_lines), "
         "state file = START, one line per accepted label, STOP (C20_state_file), nothing carried over and the earlier files untouched "
         "(C20_fresh_after_restart, C20_closed_files_frozen). HandleExternalTriggers/HandleDataDrop (lazy creation), WritingState.Start/Stop, "
         "SetExperimentStateLabel and the WriteControl dispatch are transcribed; the real files are read back after every STOP of generated "
         "histories on every run and compared with oracle and model.",
    note="Trusted: Lean 4.33 kernel (axioms propext, Classical.choice, Quot.sound only; audited every run); the hand-written model is tied "
         "to the Go code only by differential testing with seeded generators (not a proof). Flush timing, bufio and time stamps are abstracted; "
         "file-creation failures excluded. The defect found (a label containing a line break was accepted and split the state file's line into "
         "an untimestamped second line) was repaired (fix: 00d4efc) and the theorems are about the repaired behaviour.",
    technique="Lean 4 theorems over an executable model; model tied to the Go code by a differential correspondence run",
)

THEOREMS = [
    ("DastardV.Props.C20", "DastardV.C20.C20_model_meets_spec"),
    ("DastardV.Props.C20", "DastardV.C20.C20_ext_exact"),
    ("DastardV.Props.C20", "DastardV.C20.C20_drop_lines"),
    ("DastardV.Props.C20", "DastardV.C20.C20_state_file"),
    ("DastardV.Props.C20", "DastardV.C20.C20_fresh_after_restart"),
    ("DastardV.Props.C20", "DastardV.C20.C20_closed_files_frozen"),
    ("DastardV.Props.C20", "DastardV.C20.C20_label_own_stamp"),
    ("DastardV.Lemmas.ComposeRunLog", "DastardV.Compose.lancero_ext_triggers_to_file"),
    ("DastardV.Lemmas.ComposeRunLog", "DastardV.Compose.abaco_drops_to_file"),
]
