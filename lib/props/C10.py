# C10 — source life cycle: start/stop always completes, cleans up, and is repeatable
CLAIMED = True
NOT_YET = "check under construction (nothing is claimed for it yet)"

CFG = dict(
    rule="real sources (TriangleSource, SimPulseSource, ErroringSource, the scripted VerifLoopSource; AbacoSource on UDP ports nobody sends to / "
         "one port busy) driven through the real Start(ds,...) / ds.Stop() / runLaterIfActive with the verifPoint hooks logging every life-cycle "
         "step. Schedules per case: `seq` (no gates: 1-4 Stop calls racing each other and the source's own termination, 1-3 start/stop rounds on "
         "the same object, optional writing), `rnd` (every gate site gated, a seeded scheduler picks which parked goroutine moves next; 1-4 Stops, "
         "requests, self-termination by error block), `stopAt i` (Stop issued while Start is parked between two of its steps), `reuse` (Stop parked "
         "before its wait across a restart: it must return when released), `selfW` (source ends by itself while writing - active or active and PAUSED -, then Stop, then a restart; what is left of the writing is read from the reported state and the installed writers, not through WritingIsActive), `udpFail`/`udpBusy` (failed Abaco Start), `startRunFail` (StartRun of the scripted source fails "
         "1-2 times AFTER RunDoneActivate, then a Start succeeds on the same object, optionally a request, then 1-2 Stops). `stopDecided` (a Stop parked INSIDE its lock section "
         "after reading Active, site stop.onActive, while the source ends by itself; then a Start on the same object). `rpc` (the life cycle through the real SourceControl.Start / "
         "SourceControl.Stop on the sources SourceControl owns - ErroringSource parked before its error block so the schedule picks when it ends by itself, "
         "Triangle/SimPulse configured through the real Configure requests: 1-3 rounds of Start -> self-termination before/while/after -> 1-3 concurrent Stop "
         "requests -> Start again, no other status refresh; sometimes a Start request while running, which must be refused). `asmReq` (the real AbacoSource on a scripted packet producer - its getNextBlock launches one "
         "assembler goroutine per call: Start -> blocks -> 1-3 queued requests served by the core loop -> 1-2 Stops -> re-arm -> Start again; sites asm.spawn/.send/.close: "
         "at most one acquisition step pending, nextBlock closed once). `holdStop` (2 cases in quick: the core loop is held at a gate - in front of its select / right after taking a "
         "block - for 3.2-3.8 s while a Stop call is pending; Stop must not return during the hold; then release, post-conditions, restart). `abacoSelfEnd` (1 case in quick: the scripted packet stream of the real AbacoSource stops "
         "and nobody calls Stop; the reader's 5 s no-data time-out must end the run cleanly - Inactive within 7.5 s, devices released, restartable; the loop is held 300 ms at "
         "loop.processed after the last block so the order of the two 5 s timers does not depend on load). `cfgErr` (2 cases in quick: the Lancero source on a simulated card through the real "
         "ConfigureLanceroSource / Start / Stop: rejected configurations (unknown card, duplicate card), optionally a failing Start, then a valid configuration and a "
         "Start that must succeed; replies compared with the remembered-configuration-error automaton). `udpBad` (1 case in quick: the real AbacoSource over a loopback UDP port with a sender "
         "goroutine; ONE undecodable datagram arrives while valid packets keep coming: blocks must still be processed, Stop must return within 3 s, Inactive, Configure + restart). "
         "`fastTri` (2 cases in quick: a real TriangleSource that cannot keep up with its "
         "own schedule - 2 samples per buffer at 10 MHz, 8 channels -, a few blocks, optionally the loop held 3 ms, 1-3 concurrent Stops, restart). `roachSrc` (1 case in quick, variant by seed: the real RoachSource configured through "
         "the real ConfigureRoachSource on a loopback port with a sender of ROACH datagrams - run/requests/Stop x k/restart; sender stops (keep-alive ends the run); no sender (failed Start); "
         "busy port; mismatched lists - each followed by configure + run again; variant 5: TWO devices of 2 and 3 channels, known finding: the first block panics the core loop; run end = Inactive, goroutines gone, port free) and `abacoRPC` (AbacoSource through ConfigureAbacoSource "
         "over loopback UDP, Start/Stop through the RPC layer, Delete); for sources without producer sites the producer's steps are inferred from what the loop receives. After every failed Start the real "
         "object's completion barrier is observed (runDone.Wait() returns? run-done channel closed?) and judged: Inactive <-> counter 0. The logged "
         "trace must be a run of the Lean transition system; return values, GetState(), goroutine census, writing flag and UDP-port re-bindability "
         "must equal the model's and satisfy the property oracle; a watchdog turns a hang into the output `hang 1`. Non-trivial = at least two "
         "threads of interest interleaved (several Stops, self-termination, restart on the same object, or a gated schedule); distinct by input line + trace.",
    nontrivial=["multiStop", "selfEnd", "restart", "gated"],
    jobs=seeds(1, 4),
    lean_files=["C10"],
    trusted_base=["Go runtime semantics assumed by the model: sync.Mutex critical sections are atomic steps (log points sit inside them), unbuffered "
                  "channel send/receive is a rendezvous, close wakes receivers, WaitGroup.Wait returns iff the counter is 0, select among ready cases is "
                  "fair in the sense that a closed abort channel is chosen after finitely many other choices (`fuel`)",
                  "the verifPoint hooks (build tag verif) report arrivals truthfully; the trace order of two causally unordered log entries is normalised "
                  "by the driver (block hand-off logged only by the receiver)"],
    assumptions=["theorems that need it assume the environment discipline E: Start calls and Stop calls do not overlap each other (Stops overlap each other, "
                 "requests and self-termination); without E one known finding applies (Stop on a Starting source panics); the second one (a parked Stop waited on the next run) was repaired (d9d435f) and is now the theorem C10_wait_own_run for ALL interleavings",
                 "liveness (every Stop returns) is proved for the model only (no stuck state + strictly decreasing measure); on the Go code it is observed on "
                 "the explored schedules with a watchdog",
                 "Abaco/Lancero producers are modelled by the common producer automaton; only the failed-start path of AbacoSource is exercised (no packet source)"],
    timeout=dict(quick=900, thorough=3600),
)

MANIFEST = dict(
    text="PARTIAL (concurrency skeleton). Lean theorems over a labelled transition system of the synchronisation skeleton of Start / CoreLoop / AnySource.Stop / "
         "producers / runLaterIfActive (threads: Start callers, k concurrent Stop callers as counters over program points, core loop, producer, RPC callers; "
         "shared: source state, abort and nextBlock channels, runDone counter, writing flag, resources of Sample), for ALL event sequences (any k, any number of "
         "runs, any schedule): lc_inv (state <-> wait-group counter <-> thread program points; wait group never negative; no channel closed twice), C10_stop_decision_atomic (a Stop between "
         "its decision 'Active' and its write 'Stopping' holds the state lock: no other lock section is enabled, the write lands on an Active source), "
         "C10_no_stuck_state (a call in flight => some non-environment step enabled), C10_stop_measure / C10_stop_bounded (a natural-number measure strictly "
         "decreases on every step of the shut-down => every Stop returns under a fair schedule), C10_after_stops_inactive, C10_failed_start_restartable (failure before RunDoneActivate), C10_failed_startrun_restartable (failure after it: activation undone), "
         "C10_restart; C10_no_crash is proved under the environment discipline E (Start and Stop calls do not overlap) and its unrestricted "
         "form is refuted by a proved counterexample (known finding: Stop on a Starting source panics); C10_wait_own_run (a Stop caller waits for the run IT stopped, "
         "returns when that run is over even if a new Start succeeded meanwhile) holds for every interleaving since the repair d9d435f. The model is tied to the code on every run by trace conformance: real sources are "
         "started/stopped through the real entry points under forced and random interleavings, the logged verifPoint trace must be accepted by the model and the "
         "observed outcomes (returns, GetState, goroutine census, writing flag, port re-bindable) must equal the model's and satisfy the oracle.",
    note="Trusted: Lean 4.33 kernel (axioms propext, Classical.choice, Quot.sound only; audited every run); the hand-written transition system is tied to the Go code "
         "only by trace conformance + outcome comparison on the explored schedules (differential testing, not a proof). Safety theorems hold for every interleaving "
         "of the MODEL; liveness is proved for the model (well-founded measure under a fairness assumption on select) and only OBSERVED on the real code (watchdog). "
         "Go scheduler, sync and channel semantics are assumptions of the model; critical sections of sourceStateLock are atomic steps. Defects found and repaired: "
         "writing left active after self-termination (8f9149d), failed Abaco Start keeps UDP sockets (68e3d92), Abaco UDP reader goroutine never exits (6d574d1); "
         "a delayed Stop waiting on the next run (d9d435f), one undecodable UDP datagram wedging the Abaco source (588eaa1), three ROACH-source defects (b232e47 panic on Start without data, d2a117c sockets kept after a self-ended run, e14db08 reader goroutine leaked per Stop); known findings: Stop on a Starting source panics; a ROACH source of two devices panics the core loop on its first block (source sized for the sum of the channels, blocks forwarded per device).",
    technique="Lean 4 invariants / measure over a labelled transition system; tied to the Go code by trace conformance and outcome comparison under forced interleavings",
)

THEOREMS = [
    ("DastardV.Props.C10", "DastardV.C10.lc_inv"),
    ("DastardV.Props.C10", "DastardV.C10.lc_inv_wg_nonneg"),
    ("DastardV.Props.C10", "DastardV.C10.lc_inv_no_double_close"),
    ("DastardV.Props.C10", "DastardV.C10.C10_one_acquisition_step"),
    ("DastardV.Props.C10", "DastardV.C10.C10_request_keeps_step"),
    ("DastardV.Props.C10", "DastardV.C10.C10_self_close_once"),
    ("DastardV.Props.C10", "DastardV.C10.C10_inactive_not_writing"),
    ("DastardV.Props.C10", "DastardV.C10.C10_inactive_no_loop"),
    ("DastardV.Props.C10", "DastardV.C10.C10_valid_configure_clears_error"),
    ("DastardV.Props.C10", "DastardV.C10.C10_rejected_configure_blocks_start"),
    ("DastardV.Props.C10", "DastardV.C10.C10_stop_decision_atomic"),
    ("DastardV.Props.C10", "DastardV.C10.C10_switch_from_active"),
    ("DastardV.Props.C10", "DastardV.C10.C10_no_stuck_state"),
    ("DastardV.Props.C10", "DastardV.C10.C10_stop_waits_for_run"),
    ("DastardV.Props.C10", "DastardV.C10.C10_stop_measure"),
    ("DastardV.Props.C10", "DastardV.C10.C10_stop_progress"),
    ("DastardV.Props.C10", "DastardV.C10.C10_stop_bounded"),
    ("DastardV.Props.C10", "DastardV.C10.C10_after_stops_inactive"),
    ("DastardV.Props.C10", "DastardV.C10.C10_failed_start_restartable"),
    ("DastardV.Props.C10", "DastardV.C10.C10_failed_startrun_restartable"),
    ("DastardV.Props.C10", "DastardV.C10.C10_failed_start_barrier_released"),
    ("DastardV.Props.C10", "DastardV.C10.C10_restart"),
    ("DastardV.Props.C10", "DastardV.C10.C10_rpc_restart_after_stops"),
    ("DastardV.Props.C10", "DastardV.C10.C10_no_crash_partial"),
    ("DastardV.Props.C10", "DastardV.C10.C10_no_crash_counterexample"),
    ("DastardV.Props.C10", "DastardV.C10.C10_wait_own_run"),
    ("DastardV.Props.C10", "DastardV.C10.C10_wait_own_run_full_holds"),
    ("DastardV.Props.C10", "DastardV.C10.C10_deactivate_releases_waiters"),
    ("DastardV.Props.C10", "DastardV.C10.C10_released_stop_returns"),
    ("DastardV.Props.C10", "DastardV.C10.C10_stop_waited_inactive"),
    ("DastardV.Props.C10", "DastardV.C10.C10_roach_blocks_fit_partial"),
    ("DastardV.Props.C10", "DastardV.C10.C10_roach_blocks_fit_counterexample"),
]

# hooks in /repo this check relies on (all `verif hooks:` commits, build tag verif, add-only)
HOOKS = [
    "0d05e7f verifPoint sites in Start/CoreLoop/Stop/runLaterIfActive/producers; verif_point_on/off.go; verif_c10.go",
    "e1739bf rpc.sourceGone site",
    "bfffff7 Lancero mix entry, channel-number accessor",
    "3ce7ba1 VerifLoopSource.VerifFailStartRun, VerifRunDoneState",
    "95def7f stop.onActive site (inside Stop's locked decision)",
    "79a6d14 asm.spawn / asm.send / asm.close sites in AbacoSource.getNextBlock (uses the C17 hook VerifC17Abaco for the scripted producer)",
    "715da7f VerifWritersInstalled",
    "7938c7e VerifStatusLengths; e4e4126 VerifSetCringeGlobalsPath (the Lancero configure histories also use the C17 hooks VerifC17Sources / VerifC17Lancero)",
    "75f5771, dd9a4df sc.start.enter/.refused/.failed, sc.flagOn, sc.stop.enter/.notActive, sc.refreshed sites; VerifActiveSource",
]
