CLAIMED = True

CFG = dict(
    rule="each case runs the real code in a child process (a crash or hang is an observed output). (i) 48%: structured, mostly valid datagrams "
         "(fixed header + TLVs of every type the decoder knows, format strings of every class, shapes incl. zeros/negatives/overflowing products, "
         "timestamps with 0..255 bits) with TLV-level mutations (wrong length byte, non-zero padding, duplicate/dropped/shuffled TLVs, header and "
         "payload length off, truncation, trailing bytes); (ii) 22%: a separate malformed stream (random bytes, valid fixed header + random rest, TLV "
         "soup, cut/bit-flipped packets); (iii) 30%: constructor scripts NewPacket/SetTimestamp/ResetTimestamp/ClearData/NewData (16/32/64 bit, 0..1000 "
         "dims, sizes at the 8192-byte and uint16 limits) -> Bytes() -> ReadPacket. On every decoded packet all accessors are called under recover "
         "(Length, Frames, ChannelInfo, Timestamp, IsExternalTrigger, SequenceNumber, ReadValue at in/out-of-range indices, MakePretendPacket with a "
         "given and with the ChannelInfo channel count, ClearData) and compared with the model; the oracle judges the implementation's output. "
         "1 case number in 12 is a history: ONE reused Packet (as cmd/bahama uses it) and MakePretendPacket copies of it produce 2..6 encodings "
         "(next payload of equal/smaller/larger size, new timestamp, reset, clear, or unchanged); every slice returned by Bytes() is kept "
         "WITHOUT copying and decoded only after the last step: it must still decode to the packet it was made from (C15:encoding-not-stable) "
         "and equal the model's (pure) encoding. "
         "Expected timestamp counters never come from the code under test: the round-trip oracle uses the counter the harness put in, "
         "structured raw datagrams carry the generator's own value of the 0x13/0x11 TLV it wrote (C15:decode-timestamp); counters have top-16 "
         "bits set in about half the timestamped packets plus the 2^48 / 2^63 / 2^64-1 boundaries. "
         "28 fixed regression inputs (the repaired defects, one send-queue history, three full-width counters) run first. Non-trivial = a decoded packet whose accessors were all checked (acc), a "
         "completed round trip (rt) or a datagram with valid fixed header rejected by a validation (rej); distinct by input line.",
    nontrivial=["acc", "rt", "rej"],
    lean_files=["C15", "ComposePackets"],
    jobs=seeds(1, 8),
    trusted_base=["Go slice/interface/integer semantics as transcribed in Model/C15.lean (uint8/uint16/uint32 narrowing, 64-bit int wrap-around, "
                  "io.ReadFull's EOF vs ErrUnexpectedEOF, range-over-string yielding a non-ASCII rune for every byte >= 0x80)",
                  "little-endian host (getbytes reinterprets the payload slice in place); encoding/binary for the non-int16 payloads",
                  "the two 16-bit unit words Bytes() derives from the float timestamp rate are opaque to the model (read back from the real bytes)"],
    assumptions=["timestamp rate (float) is not claimed, only the counter", "packets are built only through the public constructors and every "
                 "NewData call of the script succeeded", "MakePretendPacket is called with nchan != 0 (0 is a caller error: divide by zero, modelled)"],
    timeout=dict(quick=900, thorough=3600),
)

MANIFEST = dict(
    text="Theorems over a transcription of packets.ReadPacket (fixed header, magic, TLV loop with every tag, payload by format), Bytes(), the "
         "constructors and every accessor, with Go panics as explicit values. For ALL byte strings (no length bound): if decoding accepts, no "
         "accessor panics (Frames, ChannelInfo, Length, Timestamp, IsExternalTrigger, ReadValue at any index, MakePretendPacket with any nchan != 0, "
         "and all of them again after ClearData) and the sizes agree (Length = declared header+payload length; consumed = header + stored payload "
         "bytes <= declared; channel count = product of the shape >= 1; frames*channels <= stored values; in-range ReadValue returns the stored "
         "sample, out-of-range 0; the filler packet repeats the first nchan values with equal sizes) -- C15_accessors_safe/_total; decoding never "
         "consumes more than the input or than max(16, declared) -- C15_consumes_le_declared; for ALL packets built by any sequence of "
         "NewPacket/SetTimestamp/ResetTimestamp/ClearData/successful NewData (16/32/64-bit, any dims, offsets, sequence numbers, counters, any "
         "16-bit unit words) whose shape the wire format can carry, Bytes() succeeds and decoding it consumes it entirely and reproduces version, "
         "source id, sequence number, channel offset, shape (non-positive sizes are wire padding and are dropped; exact when all sizes are positive), "
         "payload samples and timestamp counter -- C15_roundtrip/_fields/_shape_exact; constructible includes MakePretendPacket copies, and every "
         "packet encoded in any history of steps on one reused packet is constructible, so each encoding decodes back to ITS packet whatever is "
         "encoded later (C15_history_built/_roundtrip; at run time every held, uncopied Bytes() result is decoded after the last step). The same decidable oracles (accOK, rtOK) judge the real "
         "code's output on every run; the model is compared field by field with the real ReadPacket/accessors/Bytes on generated datagrams.",
    note="Trusted: Lean 4.33 kernel (axioms propext, Classical.choice, Quot.sound only; audited every run); the hand-written model is tied "
         "to the Go code only by differential testing with seeded generators (not a proof): 'ReadPacket itself never panics' rests on the model "
         "having no panic path in decode plus the child-process runs. Not claimed: the timestamp rate (float; its two 16-bit unit words are opaque), "
         "Bytes() of a decoded (not constructed) packet, MakePretendPacket with nchan = 0 (divides by zero, caller error, modelled), "
         "Frames() of a constructed packet whose dims product overflows. Round trip needs a carriable shape (a positive size, product of the "
         "positive sizes <= 65535) -- NewData accepts others, ReadPacket rejects them. Seven defects of the unchanged tree were reproduced by "
         "this check and repaired by fix: commits (see known_findings.jsonl); the model describes the repaired code.",
    technique="Lean 4 theorems over an executable model; model tied to the Go code by a differential correspondence run",
)

THEOREMS = [
    ("DastardV.Props.C15", "DastardV.C15.C15_accessors_safe"),
    ("DastardV.Props.C15", "DastardV.C15.C15_accessors_total"),
    ("DastardV.Props.C15", "DastardV.C15.C15_consumes_le_declared"),
    ("DastardV.Props.C15", "DastardV.C15.C15_roundtrip"),
    ("DastardV.Props.C15", "DastardV.C15.C15_roundtrip_fields"),
    ("DastardV.Props.C15", "DastardV.C15.C15_roundtrip_shape_exact"),
    ("DastardV.Props.C15", "DastardV.C15.C15_history_built"),
    ("DastardV.Props.C15", "DastardV.C15.C15_history_roundtrip"),
    ("DastardV.Lemmas.ComposePackets", "DastardV.Compose.wire_to_ingest"),
    ("DastardV.Lemmas.ComposePackets", "DastardV.Compose.wire_history_to_ingest"),
]
