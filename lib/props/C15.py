CLAIMED = False
NOT_YET = "check under construction (nothing is claimed for it yet)"

CFG = dict(
    rule="each case runs the real code in a child process (a crash or hang is an observed output). (i) 48%: structured, mostly valid datagrams "
         "(fixed header + TLVs of every type the decoder knows, format strings of every class, shapes incl. zeros/negatives/overflowing products, "
         "timestamps with 0..255 bits) with TLV-level mutations (wrong length byte, non-zero padding, duplicate/dropped/shuffled TLVs, header and "
         "payload length off, truncation, trailing bytes); (ii) 22%: a separate malformed stream (random bytes, valid fixed header + random rest, TLV "
         "soup, cut/bit-flipped packets); (iii) 30%: constructor scripts NewPacket/SetTimestamp/ResetTimestamp/ClearData/NewData (16/32/64 bit, 0..1000 "
         "dims, sizes at the 8192-byte and uint16 limits) -> Bytes() -> ReadPacket. On every decoded packet all accessors are called under recover "
         "(Length, Frames, ChannelInfo, Timestamp, IsExternalTrigger, SequenceNumber, ReadValue at in/out-of-range indices, MakePretendPacket with a "
         "given and with the ChannelInfo channel count, ClearData) and compared with the model; the oracle judges the implementation's output. "
         "24 fixed regression inputs (the repaired defects) run first. Non-trivial = a decoded packet whose accessors were all checked (acc), a "
         "completed round trip (rt) or a datagram with valid fixed header rejected by a validation (rej); distinct by input line.",
    nontrivial=["acc", "rt", "rej"],
    jobs=seeds(1, 8),
    trusted_base=["Go slice/interface/integer semantics as transcribed in Model/C15.lean (uint8/uint16/uint32 narrowing, 64-bit int wrap-around, "
                  "io.ReadFull's EOF vs ErrUnexpectedEOF, range-over-string yielding a non-ASCII rune for every byte >= 0x80)",
                  "little-endian host (getbytes reinterprets the payload slice in place); encoding/binary for the non-int16 payloads",
                  "the two 16-bit unit words Bytes() derives from the float timestamp rate are opaque to the model (read back from the real bytes)"],
    assumptions=["timestamp rate (float) is not claimed, only the counter", "packets are built only through the public constructors and every "
                 "NewData call of the script succeeded", "MakePretendPacket is called with nchan != 0 (0 is a caller error: divide by zero, modelled)"],
    timeout=dict(quick=900, thorough=3600),
)

MANIFEST = dict(
    text="TBD",
    note="TBD",
    technique="Lean 4 theorems over an executable model; model tied to the Go code by a differential correspondence run",
)

THEOREMS = [
]
