_PIPE_TB = ["Go slice/index semantics as transcribed in Model/Trig.lean (every access through rd/sliceI, a Go panic is the value none)",
            "time.Time arithmetic (block time stamps are harness-chosen integers of nanoseconds)",
            "the kink-model fit of edge-multi (gonum least squares) enters the model as an oracle table of shifts in {-1,0,+1} obtained from the real zeroThreshold",
            "decimation is unreachable from any API and is not modelled"]
_RULE = ("a scripted source (real AnySource) prepared by the real PrepareRun (restored or default trigger settings), configured through the real "
         "SourceControl.ConfigureTriggers / ConfigurePulseLengths and group-trigger requests, fed block by block through the real ProcessSegments; "
         "1..3 channels, signed and unsigned, (npre,nsamp) from 3/4 to 16/64 (thorough: up to 100/400), streams: flat, pulses (instant and finite rise), steps, ramps, "
         "extremes around the signed wrap, dense edges; block lengths 1,2,3, npre+-1, nsamp+-1, 2*nsamp+9..11, up to 4*nsamp or one block; ")


CLAIMED = True
CFG = dict(
    rule=_RULE + "edge-multi triggering only (three record modes, thresholds of either sign incl. 0 and 1, monotone counts 0..3, zero-threshold refinement on/off, "
         "some invalid / rejected requests); 80% edge-rich streams with finite-rise pulses and close pairs. The REAL pipeline is run twice per case: the stream cut "
         "into the generated blocks, and the same stream as ONE block; the oracle compares the two record sequences (frame, pre-trigger length, length, samples), "
         "checks strictly increasing frames, full-length records in fixed modes, non-overlap in variable mode and record exactness (C01 oracle); a crash is a "
         "violation; the many-block output is also compared with the Lean model. Non-trivial = at least one record was emitted; distinct by input line.",
    nontrivial=["records"],
    jobs=seeds(1, 3),
    lean_files=["Trig", "Pipe", "PipeJudge", "C08", "C09", "Edge", "Emt", "EmtShift", "EdgeGlobal"],
    trusted_base=_PIPE_TB,
    assumptions=["block independence and absence of out-of-range accesses ACROSS blocks are stated in Lean (C08_block_independent_full, C08_no_oob_full) and decided on the real "
                 "code by the one-block/many-block oracle on the explored cases; the proved theorems cover the record-extent rule, per-block bounds and locality of the search"],
    timeout=dict(quick=900, thorough=3600),
)
MANIFEST = dict(
    text="Theorems over the transcribed edge-multi search and record-extent rule, for every kink-fit oracle: fixed-length modes always give full-length records; a record is "
         "only made for an edge distinct from its neighbours; variable-length records never overlap the previous record nor extend past the next edge; the search of a block "
         "never reads outside the buffer; the search on the retained buffer finds exactly what the search on the whole delivered stream finds (locality). Record contents are "
         "covered by C01_block_exact. Block independence and cross-block bounds are stated at full strength and decided at run time on the REAL code: every case is run "
         "cut into blocks and as a single block and the record sequences must be identical; a crash is a violation.",
    note="Trusted: Lean 4.33 kernel (axioms propext, Classical.choice, Quot.sound only; audited every run); the hand-written model is tied to the Go code only by "
         "differential testing with seeded generators (not a proof). PARTIAL: the cross-block statements (C08_block_independent_full, C08_no_oob_full) are not yet proved; "
         "they rest on the one-block/many-block oracle over the explored cases. The least-squares kink fit is an oracle table obtained from the real zeroThreshold. "
         "Two crash defects found through this pipeline were repaired in /repo (5067219, fbc46c8).",
    technique="Lean 4 theorems over an executable model; one-block vs many-block oracle and model tied to the Go code by a differential correspondence run",
)
THEOREMS = [
    ("DastardV.Props.C08", "DastardV.C08.C08_fixed_modes_full_length"),
    ("DastardV.Props.C08", "DastardV.C08.C08_at_most_one_record_per_edge"),
    ("DastardV.Props.C08", "DastardV.C08.C08_variable_no_overlap"),
    ("DastardV.Props.C08", "DastardV.C08.C08_search_in_bounds"),
    ("DastardV.Props.C08", "DastardV.C08.C08_search_local"),
]
