_PIPE_TB = ["Go slice/index semantics as transcribed in Model/Trig.lean (every access through rd/sliceI, a Go panic is the value none)",
            "time.Time arithmetic (block time stamps are harness-chosen integers of nanoseconds)",
            "the kink-model fit of edge-multi (gonum least squares) enters the model as an oracle table of shifts in {-1,0,+1} obtained from the real zeroThreshold",
            "decimation is unreachable from any API and is not modelled"]
_RULE = ("a scripted source (real AnySource) prepared by the real PrepareRun (restored or default trigger settings), configured through the real "
         "SourceControl.ConfigureTriggers / ConfigurePulseLengths and group-trigger requests, fed block by block through the real ProcessSegments; "
         "1..3 channels, signed and unsigned, (npre,nsamp) from 3/4 to 16/64 (thorough: up to 100/400), streams: flat, pulses (instant and finite rise), steps, ramps, "
         "extremes around the signed wrap, dense edges; block lengths 1,2,3, npre+-1, nsamp+-1, 2*nsamp+9..11, up to 4*nsamp or one block; ")


CLAIMED = True
CFG = dict(
    rule=_RULE + "edge-multi triggering only (three record modes, thresholds of either sign incl. 0 and 1, monotone counts 0..3, zero-threshold refinement on/off, "
         "some invalid / rejected requests); 80% edge-rich streams with finite-rise pulses and close pairs. The REAL pipeline is run twice per case: the stream cut "
         "into the generated blocks, and the same stream as ONE block; the oracle compares the two record sequences (frame, pre-trigger length, length, samples), "
         "checks strictly increasing frames, full-length records in fixed modes, non-overlap in variable mode and record exactness (C01 oracle); a crash is a "
         "violation; the many-block output is also compared with the Lean model. Non-trivial = at least one record was emitted; distinct by input line.",
    nontrivial=["records"],
    jobs=seeds(1, 3),
    lean_files=["Trig", "Pipe", "PipeJudge", "C08", "C09", "Edge", "Emt", "EmtShift", "EmtScan", "EmtLoop", "EmtSim", "EmtRun", "EmtStep", "EmtSafe", "EdgeGlobal", "Auto", "EmtRecs", "PipeProj", "Pipe3", "ComposeBlockIndep", "C08Oracle"],
    trusted_base=_PIPE_TB,
    assumptions=["the kink-fit oracle moves a trigger by at least -1 sample (the real fit: -1, 0 or +1)",
                 "C08_no_oob additionally assumes shift <= +1"],
    timeout=dict(quick=900, thorough=3600),
)
MANIFEST = dict(
    text="Block independence is PROVED: for a freshly configured edge-multi channel, every stream, every cut into blocks of any lengths, every threshold / monotone count / "
         "record mode and every kink-fit oracle (shift >= -1), the sequence of record specifications (frame, pre-trigger length, length) of the block-by-block run equals that of "
         "the single-block run (C08_block_independent; simulation between the incremental state machine with its end-of-block flush and the single scan: locality of the search on "
         "the retained buffer, prefix stability, split of a scan at an intermediate limit, the flush emits the same record the next edge would). Also proved: fixed-length modes give "
         "full-length records, at most one record per edge, variable-length records never overlap nor pass the next edge, the search of a block never reads outside the buffer. "
         "Never indexes outside is PROVED across blocks too (C08_no_oob: for any stream, any block lengths incl. empty or shorter than a record, invariant EmtSafe - the pending edge is recorded, absent, or recent enough that its whole record is retained). The block independence is carried from the specifications to the RECORDS of the real step (append -> TriggerData -> trim, any block time stamps): C08_records_block_independent - same frames, pre-trigger lengths and samples whatever the partition (Lemmas/EmtRecs: records = cuts of the specifications = excerpts of the delivered stream). The REAL pipeline is run cut into blocks and as a single block on every case and the record sequences must be identical; a crash is "
         "a violation; the output is also compared with the Lean model. The executable oracle itself is proved sound and complete (Lemmas/C08Oracle: an accepted case has pairwise "
         "increasing frames, consecutive records apart, and element-wise equal many-block / one-block record sequences).",
    note="Trusted: Lean 4.33 kernel (axioms propext, Classical.choice, Quot.sound only; audited every run); the hand-written model is tied to the Go code only by "
         "differential testing with seeded generators (not a proof). The least-squares kink fit is an oracle table obtained from the real zeroThreshold; the "
         "theorems quantify over all oracles with shift >= -1 (block independence) / in {-1,0,+1} (bounds). Two crash defects found through this pipeline were repaired in /repo (5067219, fbc46c8).",
    technique="Lean 4 simulation proof over an executable model; one-block vs many-block oracle and model tied to the Go code by a differential correspondence run",
)
THEOREMS = [
    ("DastardV.Props.C08", "DastardV.C08.C08_fixed_modes_full_length"),
    ("DastardV.Props.C08", "DastardV.C08.C08_at_most_one_record_per_edge"),
    ("DastardV.Props.C08", "DastardV.C08.C08_variable_no_overlap"),
    ("DastardV.Props.C08", "DastardV.C08.C08_search_in_bounds"),
    ("DastardV.Props.C08", "DastardV.C08.C08_search_local"),
    ("DastardV.Props.C08", "DastardV.C08.C08_block_independent"),
    ("DastardV.Props.C08", "DastardV.C08.C08_no_oob"),
    ("DastardV.Props.C08", "DastardV.C08.C08_records_block_independent"),
    ("DastardV.Lemmas.EmtRecs", "DastardV.Trig.runFull_specs"),
    ("DastardV.Props.C08", "DastardV.C08.C08_source_level"),
    ("DastardV.Lemmas.PipeProj", "DastardV.Pipe.runOps_chan"),
    ("DastardV.Lemmas.EmtSafe", "DastardV.Trig.emtSafe_step"),
    ("DastardV.Lemmas.EmtSim", "DastardV.Trig.sim_loop"),
    ("DastardV.Lemmas.EmtStep", "DastardV.Trig.stepEmt_inv"),
    ("DastardV.Lemmas.EmtLoop", "DastardV.Trig.emtLoop_split"),
    ("DastardV.Lemmas.ComposeBlockIndep", "DastardV.Compose.emt_file_block_independent"),
    ("DastardV.Lemmas.ComposeBlockIndep", "DastardV.Compose.emt_file_block_independent_stamped"),
    ("DastardV.Lemmas.ComposeBlockIndep", "DastardV.Compose.emt_file_block_independent_source"),
    ("DastardV.Lemmas.ComposeBlockIndep", "DastardV.Compose.records_partition_independent"),
    ("DastardV.Lemmas.ComposeBlockIndep", "DastardV.Compose.runFull_len_le"),
    ("DastardV.Lemmas.ComposeBlockIndep", "DastardV.Compose.runFull_times"),
    ("DastardV.Lemmas.C08Oracle", "DastardV.C08.C08_oracle_sound"),
    ("DastardV.Lemmas.C08Oracle", "DastardV.C08.firstMismatch_none_iff"),
    ("DastardV.Lemmas.C08Oracle", "DastardV.C08.firstMismatch_none_get"),
    ("DastardV.Lemmas.C08Oracle", "DastardV.C08.increasing_none_iff"),
    ("DastardV.Lemmas.C08Oracle", "DastardV.C08.noOverlap_none_iff"),
    ("DastardV.Lemmas.C08Oracle", "DastardV.C08.firstSome_none_iff"),
    ("DastardV.Lemmas.C08Oracle", "DastardV.C08.chkC08_sound"),
]
