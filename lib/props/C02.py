_PIPE_TB = ["Go slice/index semantics as transcribed in Model/Trig.lean (every access through rd/sliceI, a Go panic is the value none)",
            "time.Time arithmetic (block time stamps are harness-chosen integers of nanoseconds)",
            "the kink-model fit of edge-multi (gonum least squares) enters the model as an oracle table of shifts in {-1,0,+1} obtained from the real zeroThreshold",
            "decimation is unreachable from any API and is not modelled"]
_RULE = ("a scripted source (real AnySource) prepared by the real PrepareRun (restored or default trigger settings), configured through the real "
         "SourceControl.ConfigureTriggers / ConfigurePulseLengths and group-trigger requests, fed block by block through the real ProcessSegments; "
         "1..3 channels, signed and unsigned, (npre,nsamp) from 3/4 to 16/64 (thorough: up to 100/400), streams: flat, pulses (instant and finite rise), steps, ramps, "
         "extremes around the signed wrap, dense edges; block lengths 1,2,3, npre+-1, nsamp+-1, 2*nsamp+9..11, up to 4*nsamp or one block; ")

CLAIMED = True
CFG = dict(
    rule=_RULE + "edge / level / auto triggers in all combinations; epochs started by restored settings (no reconfiguration at all), ConfigureTriggers on all or "
         "some channels, ConfigurePulseLengths with and without change; 80% edge-rich streams, 30% starting at frame 0. The oracle is an independent scan of the "
         "ground-truth stream for criterion-satisfying samples (soundness, edge completeness up to the dead time, level completeness within one record, "
         "edge-only non-overlap, auto gap), evaluated on the REAL records; the whole output is also compared with the Lean model. "
         "Non-trivial = at least one record was emitted; distinct by input line.",
    nontrivial=["records"],
    jobs=seeds(1, 4),
    lean_files=["Trig", "Pipe", "PipeJudge", "C02", "C09", "Pipe1", "Pipe2", "Edge", "Level", "Auto", "Passes", "TrigIdx", "EdgeGlobal", "LevelGlobal", "AutoDense", "AutoGlobal", "PipeProj", "Pipe3", "EmtRecs", "Reconf", "SoundGlobal", "Compose", "AutoSpacing"],
    trusted_base=_PIPE_TB,
    assumptions=["auto delay enters the model as an integer number of samples computed with the code's own expression",
                 "the auto-gap theorem is for no veto (as the property says); with a veto only no-crash/in-range is proved and the oracle judges nothing about gaps; the auto SPACING clause (a trigger that is neither an edge nor a level crossing comes at least the auto delay after the previous trigger: C02_auto_spacing, oracle clause unsound-auto) holds and is judged with or without a veto"],
    timeout=dict(quick=900, thorough=3600),
)
MANIFEST = dict(
    text="Theorems over the transcribed trigger passes and the per-channel block loop (append -> TriggerData -> trim), for all streams, all partitions into blocks "
         "of any lengths and all edge/level/auto settings: across blocks, every sample satisfying the edge criterion with npre samples of history in the epoch and a "
         "complete post-trigger is a trigger or lies in the dead time (T,T+nsamp] of an emitted trigger - from the first block after a start with restored settings "
         "and after a ConfigureTriggers request at any point (C02_edge_complete, C02_edge_complete_after_reconfigure; invariant EdgeInv: scan frontier, retained "
         "history >= one record, hold-off hand-over); edge-only triggers are sound and never overlap (C02_edge_only_sound, C02_edge_only_no_overlap); per block: "
         "edge/level soundness, completeness and separation, auto triggers in range. Level clause across blocks: C02_level_complete (invariant LevelInv). Auto clause across "
         "blocks: with auto trigger and no veto the trigger frames of a run are ascending and neighbours are at most max(delay,nsamp)+nsamp apart, from a start and after a "
         "reconfiguration at any point (C02_auto_gap, C02_auto_gap_after_reconfigure; window form C02_auto_dense; invariant AutoInv: hold-off reference = newest trigger, "
         "next scan start inside the retained buffer, previous scan ended no earlier than one delay after it). After ConfigureTriggers the run equals a fresh run on the RETAINED samples followed by the new blocks (runChan_prepend), so all three clauses also cover the tail of the earlier stream that could not be searched before the request (C02_after_reconfigure_full). ",
    note="Trusted: Lean 4.33 kernel (axioms propext, Classical.choice, Quot.sound only; audited every run); the hand-written model is tied to the Go code only by "
         "differential testing with seeded generators (not a proof). The edge, level and auto clauses are all proved across blocks for epochs started by a start or by ConfigureTriggers; "
         "soundness is proved across blocks for every trigger combination (C02_sound). Epochs started by ConfigurePulseLengths (hold-off reference inherited): the edge and level clauses are proved when the inherited trigger lies below the new search frontier (C02_edge/level_complete_after_configureLengths; always when the post-trigger length does not grow), otherwise and for the auto clause by the oracle. Two defects found by this "
         "check were repaired in /repo (77b7098 retained history after a start with restored settings; 51926cc pseudo trigger at frame 0).",
    technique="Lean 4 theorems (scan-loop specifications + cross-block invariant) over an executable model; independent-scan oracle and model tied to the Go code by a differential correspondence run",
)
THEOREMS = [
    ("DastardV.Props.C02", "DastardV.C02.C02_edge_complete"),
    ("DastardV.Props.C02", "DastardV.C02.C02_edge_complete_after_reconfigure"),
    ("DastardV.Props.C02", "DastardV.C02.C02_level_complete"),
    ("DastardV.Props.C02", "DastardV.C02.C02_auto_gap"),
    ("DastardV.Props.C02", "DastardV.C02.C02_auto_dense"),
    ("DastardV.Props.C02", "DastardV.C02.C02_auto_gap_after_reconfigure"),
    ("DastardV.Props.C02", "DastardV.C02.C02_sound"),
    ("DastardV.Props.C02", "DastardV.C02.C02_sound_no_auto"),
    ("DastardV.Props.C02", "DastardV.C02.C02_after_reconfigure_full"),
    ("DastardV.Props.C02", "DastardV.C02.C02_edge_complete_after_configureLengths"),
    ("DastardV.Props.C02", "DastardV.C02.C02_level_complete_after_configureLengths"),
    ("DastardV.Props.C02", "DastardV.C02.configureLengths_epoch"),
    ("DastardV.Lemmas.Reconf", "DastardV.Trig.runChan_prepend"),
    ("DastardV.Props.C02", "DastardV.C02.C02_source_level"),
    ("DastardV.Lemmas.Compose", "DastardV.Compose.abaco_no_pulse_lost"),
    ("DastardV.Props.C02", "DastardV.C02.prepare_fresh"),
    ("DastardV.Lemmas.PipeProj", "DastardV.Pipe.runOps_chan"),
    ("DastardV.Props.C02", "DastardV.C02.C02_edge_only_sound"),
    ("DastardV.Props.C02", "DastardV.C02.C02_edge_only_no_overlap"),
    ("DastardV.Props.C02", "DastardV.C02.C02_block_edge"),
    ("DastardV.Props.C02", "DastardV.C02.C02_block_level"),
    ("DastardV.Props.C02", "DastardV.C02.C02_block_auto_in_range"),
    ("DastardV.Props.C02", "DastardV.C02.configureTrigger_epoch"),
    ("DastardV.Lemmas.EdgeGlobal", "DastardV.Trig.stepChan_inv"),
    ("DastardV.Lemmas.AutoSpacing", "DastardV.C02.C02_auto_spacing"),
    ("DastardV.Lemmas.AutoSpacing", "DastardV.C02.C02_auto_spacing_all"),
    ("DastardV.Lemmas.AutoSpacing", "DastardV.C02.C02_auto_spacing_after_reconfigure"),
    ("DastardV.Lemmas.AutoSpacingSource", "DastardV.C02.C02_auto_spacing_source_level"),
    ("DastardV.Lemmas.AutoSpacingSource", "DastardV.C02.C02_auto_spacing_all_source_level"),
    ("DastardV.Lemmas.AutoSpacingSource", "DastardV.Compose.abaco_auto_spacing"),
    ("DastardV.Lemmas.AutoSpacingSource", "DastardV.Compose.lancero_auto_spacing"),
]
