# lib/props/C05.py — output files (LJH 2.2, LJH 3, OFF) are well-formed and hold exactly the records
CLAIMED = True

CFG = dict(
    rule="six streams from one seed: the real ljh.Writer, ljh.Writer3 and off.Writer driven directly (CreateFile, WriteHeader, WriteRecord / "
         "Flush interleaved, Close; arbitrary int32/int64 record fields, ~6% records of the wrong length / wrong number of coefficients, "
         "second WriteHeader calls), the real DataPublisher.PublishData with every subset of the three writers (histories of START, "
         "publish batches of 0..100 records, Flush, SetPause(true/false), STOP; publishes before START and after STOP; ~5% records of a "
         "different length, ~3% with a wrong coefficient count), and the real AnySource.WriteControl START/PAUSE/UNPAUSE/STOP on a scripted "
         "source with 1..4 channels, including the channel's projectors/basis being set AGAIN through SetProjectorsBasis after START — before "
         "and after the channel's first record, with the same shape and other contents or another number of bases (the OFF header and matrix "
         "block must be those of START) — and pauses issued before START (every setter clears the flag, OFF alone too). 0..200 records per file, record lengths 1..4096 (LJH3 variable), frame counts / timestamps 0, 2^62, "
         "MaxInt64, negative and random, all geometry / sub-frame parameters (15% arbitrary ints), time bases over the whole positive "
         "float64 range, projector shapes 1..8 bases (direct OFF writer: any two shapes), float fields as arbitrary bit patterns incl. "
         "NaN/Inf. Sixth stream `rd` (~55 cases): a file written by the real ljh.Writer "
         "(0..12 records; 25% with CR/LF bytes as the first body bytes) is cut (not at all / at a permille of its length / a chosen number of "
         "bytes before its end: 8, 16, 17 bytes into a record, inside the header, ...) and then opened with the repository's own ljh.OpenReader and "
         "read to the end with NextPulse; version, word size, presamples, samples, channel, timestamp offset, timebase, header and record "
         "length, every pulse and the terminating error (EOF / ErrUnexpectedEOF) are compared with the Lean transcription of the reader "
         "(readerParse). Files are written under $VERIF_WORKDIR, read back as bytes, parsed by the doc-derived Lean parsers and compared with "
         "the model's file. Non-trivial = a file with a header and at least one record was judged; distinct by input line.",
    nontrivial=["reader-exact", "reader-cut-record", "reader-ate-body-bytes", "remodel-before-first", "ljh22-records", "ljh3-records", "off-records", "ljh22-100+", "ljh3-100+", "off-100+"],
    jobs=seeds(1, 4),
    lean_files=["C05", "ComposeFile", "ComposeEndToEnd", "EmtBounds"],
    trusted_base=["Go int32/int64 conversions and wrap-around as transcribed (twos / mod 2^n); float32(x) conversions are done by Go and "
                  "travel as bit patterns",
                  "encoding/json (number and string formatting), fmt %e/%.6f/%d and time.Format are not modelled: the header text the "
                  "implementation wrote is parsed and its numeric fields are compared with the exact value of the double within half a "
                  "unit of the last printed digit (or half an ulp for shortest round-trip output); date strings are not compared",
                  "asyncbufio / bufio / the OS file layer: modelled as pending bytes + flushed bytes; the write queue (capacity 1000 chunks) "
                  "never overflows in the generated histories (a full queue is property C07)"],
    assumptions=["files can be created (CreateFile succeeds)", "the time base is a positive finite number",
                 "LJH 2.2 header strings (channel, source, pixel names, version strings) contain no CR/LF",
                 "a pause before START is cleared by START for every format (the reported pause state is property C06)"],
    timeout=dict(quick=900, thorough=3600),
)

MANIFEST = dict(
    text="Lean 4 theorems over an executable model of the three file writers and the DataPublisher: for ALL records (any length, sample "
         "values, int32/int64 fields incl. extremes) parsing an encoded record with the parser written from doc/LJH.md / the OFF layout "
         "gives back exactly the record's fields (ljh22_roundtrip, ljh3_roundtrip, off_roundtrip + exactness under the int64/16-bit "
         "ranges); for ALL record lists the concatenated body parses back to exactly that list, every successful parse re-encodes to the "
         "same bytes with length = sum of the record sizes, and a trailing partial record is rejected (body_parse_concat / "
         "body_parse_unique / body_partial_rejected); for ALL histories of start / publish / flush / pause / unpause / stop the file "
         "after stop is header ++ encodings of the records accepted while active and unpaused, in order, and does not exist when there "
         "were none (C05_file_is_header_plus_records, C05_file_length, C05_body_parses_back_*); the LJH 2.2 text header is "
         "self-delimiting and every documented key reads back the channel's value (C05_header_fields), the OFF projector/basis block "
         "reads back the matrices (off_matrix_block_roundtrip). Composed with the trigger-pipeline model (C01/C02) and the Abaco ingest "
         "model (C03): every record the source publishes for a channel not in edge-multi mode has the configured length whatever the data "
         "(runOps_chan_len), so the LJH 2.2 writer accepts every one and, for ANY run of blocks inside a writing period, the file body reads "
         "back as exactly the channel's published records in order (pipeline_to_ljh22_file, pipeline_to_ljh3_file); from packets: "
         "abaco_to_ljh22_file, from the Lancero card's bytes under any read schedule: lancero_to_ljh22_file. On every run the real ljh.Writer, ljh.Writer3, off.Writer, "
         "DataPublisher.PublishData and AnySource.WriteControl write files that are parsed by the same doc-derived parsers, judged by the "
         "same oracle and compared byte-for-byte (body) / field-wise (header) with the model. The repository's own LJH reader is "
         "transcribed as well (readerParse): reader_pulses_roundtrip / reader_truncated_record (NextPulse returns exactly the written records, "
         "then EOF; a cut record ends with EOF at 0/8/16 bytes, else ErrUnexpectedEOF), reader_reads_what_writer_wrote (OpenReader + NextPulse "
         "on header ++ records, provided the first body byte is not CR/LF) and its counterexample reader_eats_leading_newline_bytes.",
    note="Trusted: Lean 4.33 kernel (axioms propext, Classical.choice, Quot.sound only; audited every run); the hand-written model is tied "
         "to the Go code only by differential testing with seeded generators (not a proof). JSON headers (LJH3, OFF) are checked at run "
         "time by a Lean JSON-subset reader on the implementation's bytes; there is no theorem about encoding/json. Float header fields "
         "are compared with a stated tolerance. The write queue never overflows in the generated histories (C07's subject).",
    technique="Lean 4 theorems over an executable model; model tied to the Go code by a differential correspondence run",
)

THEOREMS = [
    ("DastardV.Props.C05Reader", "DastardV.C05.reader_pulses_roundtrip"),
    ("DastardV.Props.C05Reader", "DastardV.C05.reader_truncated_record"),
    ("DastardV.Props.C05Reader", "DastardV.C05.reader_eof_hides_partial_record"),
    ("DastardV.Props.C05Reader", "DastardV.C05.reader_reads_what_writer_wrote"),
    ("DastardV.Props.C05Reader", "DastardV.C05.reader_eats_leading_newline_bytes"),
    ("DastardV.Props.C05", "DastardV.C05.ljh22_roundtrip"),
    ("DastardV.Props.C05", "DastardV.C05.ljh22_exact"),
    ("DastardV.Props.C05", "DastardV.C05.ljh3_roundtrip"),
    ("DastardV.Props.C05", "DastardV.C05.ljh3_exact"),
    ("DastardV.Props.C05", "DastardV.C05.off_roundtrip"),
    ("DastardV.Props.C05", "DastardV.C05.off_exact"),
    ("DastardV.Props.C05", "DastardV.C05.off_comment_layout_is_stale"),
    ("DastardV.Props.C05", "DastardV.C05.body_parse_concat_ljh22"),
    ("DastardV.Props.C05", "DastardV.C05.body_parse_concat_ljh3"),
    ("DastardV.Props.C05", "DastardV.C05.body_parse_concat_off"),
    ("DastardV.Props.C05", "DastardV.C05.body_parse_unique_ljh22"),
    ("DastardV.Props.C05", "DastardV.C05.body_parse_unique_ljh3"),
    ("DastardV.Props.C05", "DastardV.C05.body_parse_unique_off"),
    ("DastardV.Props.C05", "DastardV.C05.body_length_ljh22"),
    ("DastardV.Props.C05", "DastardV.C05.body_length_ljh3"),
    ("DastardV.Props.C05", "DastardV.C05.body_length_off"),
    ("DastardV.Props.C05", "DastardV.C05.body_partial_rejected_ljh22"),
    ("DastardV.Props.C05", "DastardV.C05.body_partial_rejected_ljh3"),
    ("DastardV.Props.C05", "DastardV.C05.body_partial_rejected_off"),
    ("DastardV.Props.C05", "DastardV.C05.C05_file_is_header_plus_records"),
    ("DastardV.Props.C05", "DastardV.C05.C05_file_length"),
    ("DastardV.Props.C05", "DastardV.C05.C05_disk_is_prefix"),
    ("DastardV.Props.C05", "DastardV.C05.C05_body_parses_back_ljh22"),
    ("DastardV.Props.C05", "DastardV.C05.C05_body_parses_back_ljh3"),
    ("DastardV.Props.C05", "DastardV.C05.C05_body_parses_back_off"),
    ("DastardV.Props.C05", "DastardV.C05.C05_header_fields"),
    ("DastardV.Props.C05", "DastardV.C05.C05_header_lengths"),
    ("DastardV.Props.C05", "DastardV.C05.off_matrix_block_roundtrip"),
    ("DastardV.Lemmas.ComposeFile", "DastardV.Compose.runOps_chan_len"),
    ("DastardV.Lemmas.ComposeFile", "DastardV.Compose.pipeline_to_ljh22_file"),
    ("DastardV.Lemmas.ComposeFile", "DastardV.Compose.pipeline_to_ljh3_file"),
    ("DastardV.Lemmas.ComposeFile", "DastardV.Compose.runOps_chanRecs_len"),
    ("DastardV.Lemmas.ComposeFile", "DastardV.Compose.pipeline_to_ljh22_file_weave"),
    ("DastardV.Lemmas.ComposeFile", "DastardV.Compose.records_to_off_file"),
    ("DastardV.Lemmas.ComposeFile", "DastardV.Compose.records_to_ljh3_file"),
    ("DastardV.Lemmas.ComposeFile", "DastardV.Compose.accepted_eq_published"),
    ("DastardV.Lemmas.ComposeFile", "DastardV.Compose.pipeline_to_ljh22_file_any_history"),
    ("DastardV.Lemmas.ComposeEndToEnd", "DastardV.Compose.abaco_to_ljh22_file"),
    ("DastardV.Lemmas.ComposeEndToEnd", "DastardV.Compose.lancero_to_ljh22_file"),
    ("DastardV.Lemmas.ComposeEndToEnd", "DastardV.Compose.prepared_source_to_ljh22_file"),
    ("DastardV.Lemmas.ComposeEndToEnd", "DastardV.Compose.lancero_card_to_files"),
    ("DastardV.Lemmas.ComposeEndToEnd", "DastardV.Compose.abaco_packets_to_files"),
    ("DastardV.Lemmas.EmtBounds", "DastardV.Compose.shouldRecord_le"),
    ("DastardV.Lemmas.EmtBounds", "DastardV.Compose.emtSpecs_le"),
    ("DastardV.Lemmas.EmtBounds", "DastardV.Compose.triggerData_recs_le"),
    ("DastardV.Lemmas.EmtBounds", "DastardV.Compose.opBlock_recs_le"),
    ("DastardV.Lemmas.EmtBounds", "DastardV.Compose.runOps_recs_le"),
    ("DastardV.Lemmas.EmtBounds", "DastardV.Compose.run_recs_le_len"),
    ("DastardV.Lemmas.EmtBounds", "DastardV.Compose.run_recs_le"),
    ("DastardV.Lemmas.EmtBounds", "DastardV.Compose.pipeline_to_ljh3_file_any_mode"),
]
