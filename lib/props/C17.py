# C17 — a running acquisition is free of data races
CLAIMED = True
NOT_YET = "check under construction (nothing is claimed for it yet)"

CFG = dict(
    rule="two kinds of case, both running the REAL pipeline under one control client (SourceControl.Start -> Start/CoreLoop; Triangle / SimPulse sources, "
         "an AbacoSource on a scripted packet producer with 1..3 channel groups incl. external-trigger packets, a LanceroSource on a scripted card; triggers firing (auto+edge, group "
         "trigger, err->FB coupling), LJH2.2+LJH3+OFF files written, the real RunClientUpdater status thread incl. its delayed save of the viper store, "
         "two StoreRawDataBlock archives, ConfigureTriggers / Projectors / WriteControl START-PAUSE-UNPAUSE-STOP / state label / comment / pulse lengths / "
         "SendAllStatus / WriteComment / ReadComment / Stop; a QUIET phase of 2.6 s without requests while files are written, so that the status thread's delayed "
         "save fires while core-loop status messages keep coming; a Triangle source with 2.5 s blocks, so that ONE block closes several 1-second trigger-rate periods). `kind trace`: hooks verifAcc/verifSync (build tag verif) log every access to the NAMED shared state (next frame number, "
         "external-trigger queue, block + segments, archive block, filled archive block, per-processor state, trigger state, broker connections / tables, "
         "trigger-rate slices, writing state, viper store, the status thread's table of last messages, the Abaco reader loop's working state) and every synchronisation operation, with random yields at the hook sites; the canonicalised trace must "
         "(1) pass the vector-clock analysis raceFree (else viol C17:race-<var>), (2) be a feasible linearisation, (3) be accepted by the ownership contracts of "
         "the skeleton (mkSpec; conformance). `kind race`: FAILING-SCHEDULE SEARCH ONLY — the same scenario in a child built once per run with `go build -race "
         "-tags verif` (verifPoint overlaid by a lock-free version, hooks quiet, random yields at all hook sites); every `WARNING: DATA RACE` is minimised to the "
         "two innermost dastard frames and becomes viol C17:race-<file:line>. A detector report is deterministic evidence of a violation; the ABSENCE of reports "
         "is NOT evidence of race freedom (schedules and memory not reached are not covered). Non-trivial = a traced run with requests, a second wave of "
         "per-channel goroutines, an archive hand-over, trigger-rate messages or a state save; or a race-detector run; distinct by input line + trace.",
    nontrivial=["secondWave", "archived", "trigRate", "requests", "stateSaved", "raceSearch"],
    jobs=seeds(1, 2),
    lean_files=["C17"],
    trusted_base=["Go memory model as assumed by the model: program order; k-th send happens before k-th receive on a channel; close before a receive that "
                  "observes it; unlock before a later lock; WaitGroup Done before the Wait it releases; go statement before the goroutine's first action; "
                  "nothing else orders two events",
                  "the hooks report truthfully: release-type operations are logged before, acquire-type after the operation, all entries under one lock (total "
                  "order); a synchronisation hook line is separate from the operation it marks (deleting a Lock but keeping its hook is caught only by the "
                  "race-detector half)",
                  "Go race detector (ThreadSanitizer) for the search half; it only sees schedules that ran and keeps a bounded access history"],
    assumptions=["PARTIAL: the theorems are about the synchronisation skeleton over the NAMED shared state; memory the skeleton does not name (record buffers, "
                 "asyncbufio write queues, ZMQ publisher goroutines, logging, third-party libraries) is covered only by the race-detector search",
                 "one control client (requests are issued sequentially); SetExperimentStateLabel is used with WaitForError (its fire-and-forget form starts a "
                 "second client goroutine)",
                 "Abaco/Lancero block objects are merged into one variable per role (sound: merging only adds conflicts); wait groups reused for the two waves "
                 "of ProcessSegments are split at each Wait (sound: drops only edges implied by transitivity)"],
    timeout=dict(quick=900, thorough=3600),
)

MANIFEST = dict(
    text="PARTIAL (synchronisation skeleton). Lean theorems, for ALL traces / interleavings: raceFree_sound (the decidable vector-clock analysis raceFree accepts "
         "only traces without a data race w.r.t. the declarative happens-before HB = transitive closure of program order, k-th send/k-th recv, close/recv-closed, "
         "unlock/lock, Done/Wait, spawn/start); ownership_transfer (a trace in which every variable is accessed only by a thread holding its permission tokens — "
         "one to read, all to write — with tokens moving only at those synchronisation edges, is accepted by raceFree; any contracts); typed_interleavings_owned "
         "(if every thread program is well typed ON ITS OWN against the contracts then EVERY feasible interleaving respects ownership; wait groups by a counting "
         "argument); skeleton_ok + C17_skeleton_race_free / C17_skeleton_no_race (the skeleton of a running acquisition — control client, status thread, producer / "
         "reader loop, block assembly + per-channel assembly workers, core loop, two waves of per-channel processing goroutines, archive writers; for ANY number of "
         "channels n, ANY number of blocks k, the three source kinds, any placement of the first request, any request kinds, any secondary-trigger pattern — is "
         "well typed, hence every feasible interleaving is race free), by induction, not enumeration. Counterexample skeletons (decide) for the five real races "
         "found and repaired. Tie on every run: logged traces of the real pipeline must be feasible, race free by raceFree and accepted by the SAME contracts "
         "(mkSpec); a -race build of the same scenarios searches for failing schedules.",
    note="Trusted: Lean 4.33 kernel (axioms propext, Classical.choice, Quot.sound only; audited every run). PARTIAL and the weakest kind of property for a proof: the "
         "theorems are about an explicit synchronisation skeleton over the named shared state and assume the Go memory model's edges; the skeleton is tied to the code "
         "only by trace conformance of logged runs (differential testing, not a proof) and the hook lines are separate from the operations they mark. Memory the "
         "skeleton does not name is covered ONLY by the Go race detector, which is a search for a failing schedule, never the proof: no report is not evidence. "
         "Races found on the unchanged tree and repaired: block.nSamp written by every assembly goroutine (7ebfa00), Abaco reader loop vs block assembly on "
         "nextFrameNum / external-trigger queue / group frame timing (821fc6b), raw-data-block archive read by its writer while the core loop goes on (fd364a5), "
         "viper store written by the status thread's save while PrepareRun reads it (76a28af), ComputeState (ReadComment on the client's goroutine) reading the "
         "core loop's running external-trigger counter (caab03b).",
    technique="Lean 4: vector-clock soundness, permission-token ownership, thread-local typing => all interleavings; tied to the Go code by logged-trace conformance; Go race detector as failing-schedule search",
)

THEOREMS = [
    ("DastardV.Props.C17", "DastardV.C17.raceFree_sound"),
    ("DastardV.Props.C17", "DastardV.C17.ownership_transfer"),
    ("DastardV.Props.C17", "DastardV.C17.typed_interleavings_owned"),
    ("DastardV.Props.C17", "DastardV.C17.skeleton_ok"),
    ("DastardV.Props.C17", "DastardV.C17.C17_skeleton_race_free"),
    ("DastardV.Props.C17", "DastardV.C17.C17_skeleton_no_race"),
    ("DastardV.Props.C17", "DastardV.C17.C17_logged_trace_no_race"),
    ("DastardV.Props.C17", "DastardV.C17.C17_known_races_detected"),
]
