# lib/props/C13.py — per-record analysis values equal their definitions.
CLAIMED = True

CFG = dict(
    rule="records built by the harness (kinds: constant, near-constant at full scale with long pre-trigger, full-scale alternation, "
         "signed wrap-around region, uniform, positive/negative pulses, every post-trigger sample below the baseline, ramps, extremes, "
         "spike, steps; signed and unsigned; npre from 1 (allowed minimum 3) up to ~6000, 1..1500 post-trigger samples) are analysed by the "
         "REAL AnalyzeData through dastard.VerifAnalyze (fresh DataStreamProcessor, real SetProjectorsBasis) - 45% with projectors/basis of "
         "1..8 rows x nsamp (random moderate/wide-exponent float64 entries, selection rows, sparse with +-0, small integers, a realistic "
         "constant/ramp/exponential model with projectors = scaled transpose), 12% of those with incompatible shapes - and ~10% of the cases "
         "are records published by the real pipeline (PrepareRun, ConfigureProjectorsBases, ProcessSegments -> TriggerData -> AnalyzeData), "
         "half of them in edge-multi VARIABLE-LENGTH mode (real ConfigureTriggers RPC, closely spaced pulses on a sloping baseline: real records "
         "with a pre-trigger section and length shorter than configured); 35% of the direct cases analyse a record whose own presamples / length "
         "differ from the processor's configured NPresamples / NSamples (shorter, longer, different split); 12% of all cases use a model whose "
         "basis does NOT span a constant (pulse shapes, projectors orthogonal to a constant) on well-fitted high-baseline records, so the "
         "residual has a mean of tens of thousands and a spread below one count; the residual standard deviation is judged against the exact "
         "population variance within the rounding of the correct two-pass algorithm (relative ~L*2^-53 plus the measured effect of the rounded "
         "coefficients, about 1e-9; derivation in Model/C13.lean residBand and notes/C13.md); 10% of all cases hit exact-zero intermediate values "
         "(signed records whose pre- and/or post-trigger samples cancel to sum 0, all-zero and constant records, peak exactly at the baseline), "
         "mostly with projectors loaded; 6% of the iterations are HISTORIES on one processor (load a model, analyse, load a revised model "
         "of the same shape and description / another description / another number of components / a refused shape / remove / pulse-length "
         "request, REFUSED requests of every kind (bad projector width; good projectors + bad basis height/width; same/other nbases; as the "
         "first request; after a removal), analyse again - judged against the last ACCEPTED model or 'no model'; a panic inside AnalyzeData "
         "is caught and is a violation), and the pipeline cases re-load models between blocks. "
         "Every float64 result crosses as its IEEE bit pattern; the Lean driver turns it into an exact rational, evaluates the DEFINITIONS "
         "exactly (Rat) on the integer record and the exact value of every matrix entry and demands agreement within the stated rounding "
         "tolerances (RMS and residual std-dev on squares); NaN/Inf where the definition is finite is a violation; the float32 values of the "
         "real summary message are checked against the float64 fields. Non-trivial = the record is not constant or projectors are loaded; "
         "distinct by input line.",
    nontrivial=["varied", "proj"],
    jobs=seeds(1, 4),
    trusted_base=["IEEE-754 binary64/binary32 bit patterns decoded by f64OfBits/f32OfBits in Model/C13.lean (sanity-checked by #guard)",
                  "Go's uint16->int16->float64 conversions as transcribed (toInt16)",
                  "the rounding tolerances are standard forward error bounds with a safety factor, stated in Model/C13.lean; they are "
                  "part of the oracle, not proved"],
    assumptions=["records reach AnalyzeData with len(data) = the processor's NSamples (edge-multi 'short records' with projectors loaded hit "
                 "the deliberate panic 'projections for variable length records not implemented' - outside the statement's 'compatible shape')",
                 "npre <= 2^17 and N <= 2^20 so that the code's running sums are exact in binary64 (generator stays far below)",
                 "matrix entries are finite with binary exponents in [-30,20]: products stay far inside the binary64/binary32 range",
                 "IEEE rounding and gonum's MulVec/SubVec kernels are NOT modelled: covered only by the tolerance comparison"],
    lean_files=["C13", "ComposeAnalysis"],
    timeout=dict(quick=600, thorough=3600),
)

MANIFEST = dict(
    text="PARTIAL. Proved (Lean 4, for all records, all pre-trigger/record lengths and all projector/basis matrices, over the rationals): the "
         "one-pass formulas of AnalyzeData, transcribed loop for loop, equal the definitions - pre-trigger mean; 12*sum((y_i-y_0)(i-xbar))/(n(n+1)) "
         "= least-squares slope x (n-1) for n>=2; sum/N - m = mean(y-m); sum2/N - 2m*sum/N + m^2 = mean((y-m)^2) (and the clamp before the "
         "square root is a no-op exactly); running maximum - m = the attained maximum of y-m, of either sign; int16 reinterpretation = "
         "two's complement; MulVec rows = sum_j P_kj x_j; SubVec + two-pass stdDev = population variance of x - B(Px); SetProjectorsBasis "
         "accepts exactly the compatible shapes (umbrella: C13_formulas_equal_definitions); the run-time oracle accepts every output that "
         "reports exactly these values (C13_oracle_accepts_exact). The real AnalyzeData (directly and through the "
         "block-processing pipeline), its float64 results and the float32 values of the real summary message are compared on every run "
         "with the exactly evaluated definitions within stated rounding tolerances.",
    note="Trusted: Lean 4.33 kernel (axioms propext, Classical.choice, Quot.sound only; audited every run); the hand-written model is tied "
         "to the Go code only by differential testing with seeded generators (not a proof). PARTIAL BY NATURE: the theorems are about the "
         "formulas over Q; IEEE-754 rounding, the float64->float32 narrowing and gonum's matrix kernels are not verified, only tested "
         "against exact rational references within tolerances that are themselves part of the trusted oracle (standard forward error bounds "
         "x safety factor 2-4, absolute for differences of rounded operands). OFF-file fields are float32() of the same record fields "
         "(layout: C05) and are not re-read here. Two defects were found by this check and repaired (peak clamped at 0 below the baseline; "
         "pulse RMS = NaN when rounding made the one-pass mean square negative).",
    technique="Lean 4 theorems over an executable rational model (formulas = definitions); real code compared with the exactly evaluated "
              "definitions by a differential run with rounding tolerances",
)

THEOREMS = [
    ("DastardV.Props.C13", "DastardV.C13.C13_formulas_equal_definitions"),
    ("DastardV.Props.C13", "DastardV.C13.signed_interp"),
    ("DastardV.Props.C13", "DastardV.C13.ptm_formula"),
    ("DastardV.Props.C13", "DastardV.C13.ptdelta_formula"),
    ("DastardV.Props.C13", "DastardV.C13.ptdelta_nan_iff"),
    ("DastardV.Props.C13", "DastardV.C13.avg_formula"),
    ("DastardV.Props.C13", "DastardV.C13.rms_formula_raw"),
    ("DastardV.Props.C13", "DastardV.C13.rms_formula"),
    ("DastardV.Props.C13", "DastardV.C13.meanSquare_nonneg"),
    ("DastardV.Props.C13", "DastardV.C13.peak_def"),
    ("DastardV.Props.C13", "DastardV.C13.isPeak_unique"),
    ("DastardV.Props.C13", "DastardV.C13.peak_old_is_clamped"),
    ("DastardV.Props.C13", "DastardV.C13.peak_old_def_of_reaches_baseline"),
    ("DastardV.Props.C13", "DastardV.C13.peak_clamp_counterexample"),
    ("DastardV.Props.C13", "DastardV.C13.setPB_shapes"),
    ("DastardV.Props.C13", "DastardV.C13.coefs_def"),
    ("DastardV.Props.C13", "DastardV.C13.stdDevSq_def"),
    ("DastardV.Props.C13", "DastardV.C13.popVar_alt"),
    ("DastardV.Props.C13", "DastardV.C13.resid_std_def"),
    ("DastardV.Props.C13", "DastardV.C13.C13_oracle_accepts_exact"),
    ("DastardV.Props.C13", "DastardV.C13.analyze_record_only"),
    ("DastardV.Props.C13", "DastardV.C13.analyze_record_only_len"),
    ("DastardV.Props.C13", "DastardV.C13.C13_refused_model_is_identity"),
    ("DastardV.Props.C13", "DastardV.C13.C13_accepted_model_is_installed"),
    ("DastardV.Lemmas.ComposeAnalysis", "DastardV.Compose.chanRecs_signed"),
    ("DastardV.Lemmas.ComposeAnalysis", "DastardV.Compose.record_is_stream_excerpt"),
    ("DastardV.Lemmas.ComposeAnalysis", "DastardV.Compose.analysis_of_stream_excerpt"),
    ("DastardV.Lemmas.ComposeAnalysis", "DastardV.Compose.analysis_values_of_stream_excerpt"),
    ("DastardV.Lemmas.ComposeAnalysis", "DastardV.Compose.analyze_of_stream_excerpt"),
]
