# C11 — control requests: serialised with data, answered once, never wedge or crash
CLAIMED = True
NOT_YET = "check under construction (nothing is claimed for it yet)"

CFG = dict(
    rule="case 0 re-reads rpc_server.go with go/ast: every closure handed to runLaterIfActive, its acyclic paths and the sends on queuedResults per path "
         "(must be exactly 1). The reader is interprocedural: calls to package functions / methods on the same receiver that can reply are inlined "
         "(bounded depth); a closure it still cannot classify is reported with the ok-tag static-reader-unrecognised and left to the behavioural tie, never guessed. Other cases run the REAL SourceControl RPC methods in-process (one child "
         "process per chunk, a crash becomes the output PANIC) on a running real source (real Start + CoreLoop, scripted VerifLoopSource): `hist` = 1-8 requests "
         "with fuzzed arguments (ConfigureTriggers, ConfigurePulseLengths, ConfigureProjectorsBasis incl. malformed base64/matrix bytes, WriteControl with 10 "
         "request strings x 3 path kinds x file-type flags, SetExperimentStateLabel(wait), WriteComment, FB/err coupling, group-trigger coupling, "
         "StopTriggerCoupling, StoreRawDataBlock; ~30% negative / out-of-range / huge indices and sizes) interleaved with blocks, Stop, self-termination; 30% of the histories begin with accepted projectors on a channel, a pulse-length "
         "change (record length only / presamples only / both / same) and triggered records on that channel "
         "(error block, stale active flag) and flag refresh; `pair` = 2-6 rounds of TWO requests in flight at once from two goroutines, one that must fail and one that must succeed "
         "(fixed requests whose reply does not depend on the other), gated so that the first caller is parked between handing over its request and receiving its "
         "result while the second is let through first whenever it gets that far; each caller's reply must be the model's reply to ITS request; "
         "`hw` = the real AbacoSource on a scripted packet producer and the real LanceroSource on a simulated card (getNextBlock launches an "
         "assembler goroutine per call), started/stopped through the real SourceControl: blocks, 1-5 requests of different kinds (each answered once, replies = model), more "
         "blocks (progress), Stop - or, one case per quick run, the Abaco packet stream ending by itself; further source kinds of `hw`: the real RoachSource over loopback UDP (ConfigureRoachSource + sender goroutine) and the simulated sources through their RPCs; half of the `hw` cases and 5 fixed ones (one per source kind) are pixel-map histories: op M npix loads a map, WriteControl START/STOP and other requests follow; the request semantics say what START answers per source kind (pixels = nchan / channelsPerPixel: 2 for Lancero, 1 otherwise; every channel number needs a pixel: ROACH and simulated sources number from 0 and are always refused; a refusal unloads the map); "
         "`timing` = every gate site gated and a seeded scheduler choosing when 1-4 callers, 0-2 Stops, "
         "blocks and the source's own end happen; `fault` = comment file uncreatable, data-drop file uncreatable while a block is processed, WriteControl START below a base path so long that the run directory / only the experiment-state file cannot be created (then a request, a block, a second START), pixel map vs "
         "channel numbers, Lancero mix requests through the real request consumer (indices, list lengths). Each reply is compared with the Lean request "
         "semantics / validators, the verifPoint trace must be a run of the transition system with every eff.* call inside a closure (or ProcessSegments inside "
         "block processing), every caller must return (watchdog), and a block fed afterwards must be processed. Non-trivial = a request was rejected, arrived "
         "after the source ended, hit an I/O failure, or the schedule was gated; distinct by input line + trace.",
    nontrivial=["rejected", "afterEnd", "requestAfterEnd", "ioFail", "gated", "facts"],
    jobs=seeds(1, 4),
    lean_files=["C10", "C11"],
    trusted_base=["Go runtime semantics assumed by the transition system (see C10): atomic critical sections, rendezvous channels, fair select",
                  "the go/ast reader of harness/c11.go (statement kinds it follows: send, call, assignment, if/else, return, defer, block; anything else is reported as "
                  "unrecognised); calls inside a closure are assumed to return (panics inside handlers are what the validator theorems and the fuzz are about)",
                  "net/rpc + JSON decoding are outside: requests are made by direct method call on SourceControl"],
    assumptions=["liveness (every caller returns, data keeps flowing) is proved for the model and observed on the explored schedules with a watchdog",
                 "the fire-and-forget mode of SetExperimentStateLabel is excluded (documented to abort on error)",
                 "memory exhaustion by absurd sizes (StoreRawDataBlock with ~2^40 samples) is not modelled",
                 "Lancero-only requests are exercised at the validator + request-consumer level (no Lancero hardware): ConfigureMixFraction"],
    timeout=dict(quick=900, thorough=3600),
)

MANIFEST = dict(
    text="PARTIAL (concurrency skeleton). Lean theorems: C11_one_reply_per_path (soundness of the decidable check run on the closure table that is regenerated from "
         "rpc_server.go by go/ast on every run: every acyclic path of every closure passed to runLaterIfActive sends exactly one result), C11_validators_total (for "
         "ALL argument values - negative, out-of-range, huge indices, mismatched list lengths - acceptance implies every slice access of the handler / request "
         "consumer is in range; no panic), C11_one_reply_each (every request of every history gets exactly one reply, result or error), C11_reply_is_own (hand-over model with caller identities and unbuffered channels: in every interleaving each caller receives the result of its own closure; with a one-slot buffer a foreign reply is reachable), C11_mutex_with_blocks "
         "(processing configuration changes only when the core loop takes a request in its select, at its exit, or in a Stop caller's clean-up when no loop exists - "
         "never while a block is processed), C11_no_wedge (in EVERY reachable state of the life-cycle/rendezvous transition system - m callers, k Stops, "
         "self-termination, stale active flag - the loop never blocks on a reply nobody reads, a waiting caller's closure is running, a caller facing a dead loop "
         "takes the source-gone branch, so some step is always enabled; with C10_stop_measure the wait is bounded). C11_no_crash holds under E; its unrestricted "
         "form is refuted by the deliberate panic on an I/O failure inside block processing (known finding). Tie: the real SourceControl methods are called on a "
         "running real source with fuzzed arguments, steered arrival times and injected file-creation failures; replies, traces and progress are compared with the model.",
    note="Trusted: Lean 4.33 kernel (axioms propext, Classical.choice, Quot.sound only; audited every run); model tied to the Go code only by differential testing "
         "(replies, trace conformance on explored schedules) and by the regenerated closure table - not a proof of the Go code. Liveness is proved for the MODEL and only "
         "OBSERVED (watchdog) on the real code; Go scheduler/channel/sync semantics are assumptions. net/rpc JSON decoding is outside (direct method calls). Defects found and "
         "repaired: request after self-termination blocks for ever (cce8e17), WriteComment double reply (e4a15ea), negative trigger index (0d7f1f3), pixel-map index (3823cb5), "
         "negative raw-block size (1ef2c53), Lancero mix list lengths (188973c); known finding: deliberate panic when a data-drop / external-trigger file cannot be created.",
    technique="Lean 4 invariants over a labelled transition system + total validator functions + a decidable check on facts regenerated from the source; tied to the Go code by "
              "differential runs of the real RPC methods under steered interleavings and fault injection",
)

THEOREMS = [
    ("DastardV.Props.C11", "DastardV.C11.C11_one_reply_per_path"),
    ("DastardV.Props.C11", "DastardV.C11.C11_table_paths_wf"),
    ("DastardV.Props.C11", "DastardV.C11.C11_validators_total"),
    ("DastardV.Props.C11", "DastardV.C11.C11_one_reply_each"),
    ("DastardV.Props.C11", "DastardV.C11.C11_reply_is_own"),
    ("DastardV.Props.C11", "DastardV.C11.C11_buffered_reply_can_be_foreign"),
    ("DastardV.Props.C11", "DastardV.C11.C11_after_end_error"),
    ("DastardV.Props.C11", "DastardV.C11.C11_misfit_map_refused"),
    ("DastardV.Props.C11", "DastardV.C11.C11_mutex_with_blocks"),
    ("DastardV.Props.C11", "DastardV.C11.C11_no_wedge"),
    ("DastardV.Props.C11", "DastardV.C11.C11_no_crash_partial"),
    ("DastardV.Props.C11", "DastardV.C11.C11_no_crash_counterexample"),
    ("DastardV.Props.C10", "DastardV.C10.C10_stop_measure"),
    ("DastardV.Props.C10", "DastardV.C10.lc_inv"),
]
