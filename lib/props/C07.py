# C07 — file writing is record-atomic and order-preserving under any disk timing.
CLAIMED = True

CFG = dict(
    rule="three kinds of cases, each in a child process (a hang or crash is an observed output). AB (~95%): the REAL asyncbufio.Writer with queue "
         "depth 1..8 and flush ticker 100us..1ms or none, on top of a gate the harness opens/closes (disk runs / stalls); scripts of 3..30 steps: "
         "records chunked the way the real writers chunk theirs (Write count per WriteRecord re-counted from ljh.go/off.go with go/ast on every run and "
         "written on the line), gate close followed by cap-1..cap+3 records (exactly-full / over-full), gate open, Flush/Close (also issued under a stall), "
         "looks at the file, pauses; the PERIODIC flush is a first-class event: with tickers of 3..5 ms the harness waits until the ticker branch is blocked in the closed gate (`tb`), "
         "lets 0..cap+1 writes land while it is stalled, lets the disk resume just long enough for that periodic flush to finish (`te`, before the next tick) and then calls "
         "Flush at once / looks at the file / or calls Flush while it is still stalled (3 fixed cases + ~12% of script steps); single writes of about / more than 64 KiB (65535/65536/65537, 2x, 3x, random 1..200000 bytes) against a stalled queue with 0..3 free slots (4 fixed + 4% of cases; also long LJH3 records on the stalled pipe); long payloads run-length encoded on the line; 25% multi-chunk clients (2/3/5/8 chunks, model = implementation only), 12% use after Close; the schedule the real "
         "goroutine took is read back exactly (queue length accessor + gate length) and replayed step by step by the Lean model. LJH22/LJH3/OFF (3 fixed + "
         "~2.5%): the REAL ljh.Writer / ljh.Writer3 / off.Writer writing to a named pipe with a 4 KiB kernel buffer that the harness drains or not, "
         "until the 1000-deep queue is full and 1..60 records have been rejected per stall phase, then resume, Flush, Close; three directed cases per quick run (3 s; 36 per thorough run, 3..5 s) keep the pipe stalled for SECONDS after Close (30%: also after a Flush) was issued with the queue full — longer than any plausible give-up timeout; they run concurrently in different worker chunks; expected record bytes come "
         "from a second never-stalled writer of the same type. PD (2 fixed + ~0.5%): records pushed through the real ProcessSegments -> processSegment -> "
         "PublishData with the channel's LJH2.2/LJH3/OFF writers on stalled pipes. PUB (3 fixed + ~6%): a real DataPublisher with real writers on regular files, histories of PublishData / Flush / SetPause(true|false) / publish while paused / Remove*, every file read immediately after each Flush/SetPause/Remove return. The oracle chkC07 (file at every Flush/Close return = header ++ whole "
         "accepted records in order; prefix otherwise) judges the real observations. Non-trivial = the queue was full at least once (a Write rejected); "
         "distinct by input line.",
    nontrivial=["full"],
    jobs=seeds(1, 3),
    timeout=dict(quick=600, thorough=3000),
    trusted_base=["Go buffered-channel semantics (non-blocking send fails iff the channel holds cap elements; FIFO) and bufio.Writer (bytes leave in order, "
                  "Flush empties it) are the model's assumptions",
                  "goroutine scheduling is abstracted to explicit consumer steps (pop/sync) in the schedule; the theorems quantify over all schedules",
                  "pipe / file-system semantics under the os.File (bytes written are read back in order)"],
    assumptions=["one producer goroutine per writer (dastard: the channel's processing goroutine; Write and Flush are never concurrent on one writer)",
                 "queue capacity >= 1 (dastard: 1000); use after Close is outside the statement (modelled and compared, not judged)",
                 "write errors of the underlying file (disk full, EIO) are not part of 'disk timing' and are not modelled"],
)

MANIFEST = dict(
    text="Theorems over a transition-system model of asyncbufio.Writer (bounded FIFO of chunks, non-blocking Write, consumer receives, bufio hand-over, "
         "periodic ticker flush as its own interruptible step tick/tickDone, Flush/Close rendezvous) and of the writers' record discipline (chunk writes in order, abort at the first error), for ALL queue capacities and "
         "ALL schedules (any interleaving; a stall is any stretch without consumer steps): q_fifo (file ++ bufio ++ channel = accepted chunks in order, "
         "channel <= cap), flush_post (at Flush/Close return everything accepted is in the file), C07_whole_records_only (one Write per record => the "
         "run-time oracle accepts: file = header ++ whole accepted records, every rejected record entirely absent), C07_header_accepted; the hypothesis "
         "is shown necessary (C07_multichunk_counterexample, and for every cap >= 1: C07_multichunk_torn_any_cap), which was the defect of the unrepaired "
         "writers (3/5/8 Writes per record; reproduced on the real code, fixed in 158fbfb). The Write count per record is re-counted from the source every "
         "run; the model is replayed against the real asyncbufio.Writer and the real LJH/OFF writers under stalled pipes and the same oracle judges "
         "their files.",
    note="Trusted: Lean 4.33 kernel (axioms propext, Classical.choice, Quot.sound only; audited every run); the hand-written model is tied to the Go code "
         "only by differential testing with seeded generators (not a proof). PARTIAL: Go channel semantics, bufio and goroutine scheduling are assumptions "
         "of the model; the real runs explore the schedules the harness can force (stall/resume through a gate or an undrained pipe), the theorems cover all. "
         "Known finding kept: PublishData returns a rejected OFF record's error and processSegment panics (C07_publish_crash_counterexample).",
    technique="Lean 4 theorems over an executable model; model tied to the Go code by a differential correspondence run",
)

THEOREMS = [
    ("DastardV.Props.C07", "DastardV.C07.q_fifo"),
    ("DastardV.Props.C07", "DastardV.C07.file_prefix_of_accepted"),
    ("DastardV.Props.C07", "DastardV.C07.flush_post"),
    ("DastardV.Props.C07", "DastardV.C07.flush_post'"),
    ("DastardV.Props.C07", "DastardV.C07.flush_post_in_tick"),
    ("DastardV.Props.C07", "DastardV.C07.C07_whole_records_state"),
    ("DastardV.Props.C07", "DastardV.C07.C07_whole_records_only"),
    ("DastardV.Props.C07", "DastardV.C07.C07_multichunk_counterexample"),
    ("DastardV.Props.C07", "DastardV.C07.C07_multichunk_torn_any_cap"),
    ("DastardV.Props.C07", "DastardV.C07.C07_header_accepted"),
    ("DastardV.Props.C07", "DastardV.C07.C07_publish_crash_counterexample"),
    ("DastardV.Props.C07", "DastardV.C07.C07_publish_partial"),
    ("DastardV.Lemmas.C07Oracle", "DastardV.C07.firstDiffTok_none_iff"),
    ("DastardV.Lemmas.C07Oracle", "DastardV.C07.firstDiffTok_some_ge"),
]
