CLAIMED = False
NOT_YET = "correspondence and oracle run green; theorems in progress (nothing is claimed yet)"

CFG = dict(
    rule="four case kinds, each against the real code. F (1 per run): go/ast re-reads saveState's ordered file-system steps with their error "
         "policy, the no-publish / no-save tag sets and the keys saveState inserts; compared with the model's constants. "
         "H: a real RunClientUpdater fed through the real clientMessageChan (1..7 tags drawn from all real tags incl. no-publish, no-save, "
         "NEWDASTARD and unknown ones; 1..3 values per tag so repeats and unchanged values are frequent; 1..30 ops, thorough up to 120; SENDALL "
         "anywhere), observed by a real ZeroMQ SUB socket on the status port (live messages and SENDALL replies separated by in-band markers); "
         "in ~20% of the histories the config file the updater saves by itself (2 s after a change) is read back. "
         "K: real saveState in a child process killed at every step boundary the source contains (and inside the write of the temporary file: "
         "0, 1/4, 1/2, 3/4 of its bytes), after 0..2 complete saves, from directories with empty/old main file, with/without backup, with/without "
         "stale complete or partial temporary file; the directory is then read by the real start-up (cmd/dastard built with -tags verif: "
         "makeFileExist + setupViper). R: typed source configurations (SimPulse, Triangle, Lancero, Abaco, Roach), record lengths, trigger "
         "settings and base path saved by the real saveState (optionally over a file of an earlier run) and restored by the real start-up "
         "(setupViper, RunRPCServer, PrepareRun), compared field by field. Non-trivial = a SENDALL reply with several topics after repeated "
         "updates, a read-back of a self-made save, a kill strictly inside the save, a kill inside the write, or a typed round trip; distinct by input line.",
    nontrivial=["replay-multi-repeat", "saved", "crash-mid", "inwrite", "R"],
    jobs=seeds(1, 3),
    trusted_base=["POSIX semantics of rename(2) (atomic replace), link(2), unlink(2) and of a write that a kill can cut at any byte, as transcribed in "
                  "Model/C16.lean (three-file model; durability after power loss / fsync is not modelled: the property is about a process kill)",
                  "viper / YAML / mapstructure round trip of the persisted structures is a trusted parameter of the model (read back = written); "
                  "it is exercised on the real save -> real start-up path by the R cases, not proved",
                  "ZeroMQ PUB/SUB delivery (in order, lossless on one established connection) is trusted; a status object is identified with its JSON text",
                  "Go map iteration order is irrelevant: SENDALL replies and saved settings are compared as sorted sets"],
    assumptions=["every status value is JSON-marshalable (non-empty JSON text); all of dastard's status structures are plain data",
                 "status tags are distinct after lower-casing (all real tags are upper case; viper keys are case-insensitive)",
                 "the config file exists when a save starts (the start-up of the saving run created it)",
                 "EdgeMulti and the edge-multi parameters are deliberately not restored (issue #271 in the code comments) and are excluded from 'same trigger settings'; "
                 "for Lancero/Abaco the fields Configure fills in from the hardware (DastardOutput, AvailableCards) are not settings and are excluded",
                 "source configurations in the round trip are ones their Configure accepts (a rejected request is published and saved too, and is altered at start-up)"],
    timeout=dict(quick=900, thorough=3600),
)

MANIFEST = dict(text="", note="", technique="")
THEOREMS = []
