CLAIMED = True

CFG = dict(
    rule="five case kinds, each against the real code. T (startDuringSave, ~7 per quick run): an earlier run persisted non-default trigger settings; in the "
         "next run a save is HELD at a step boundary inside the real saveState (observer at the verifC16Point site, so the configuration lock is held) "
         "while a source is started (real Sample/PrepareChannels/PrepareRun); the save is released; the trigger state the started source reports must be "
         "the saved one, and after that state has been published and saved (as SourceControl.Start does) the next real start-up must still restore the "
         "saved triggers. F (1 per run): one real saveState is run in a child process with an observer at the verifC16Point sites; the "
         "directory is photographed at every site and the file-system steps are inferred from the differences, together with the keys saveState "
         "inserts and which probe topics a save writes; compared with the model's saveOps / saveAdds / noSave (primary tie, survives refactoring). "
         "The go/ast reader of saveState (steps with error policy, no-publish / no-save sets) is a secondary cross-check, compared in full when it "
         "recognises the code and reported as the ok-tag static-reader-unrecognised when it does not. "
         "H: a real RunClientUpdater fed through the real clientMessageChan (1..7 tags drawn from all real tags incl. no-publish, no-save, "
         "NEWDASTARD and unknown ones; 1..3 values per tag so repeats and unchanged values are frequent; 1..30 ops, thorough up to 120; SENDALL "
         "anywhere), observed by a real ZeroMQ SUB socket on the status port (live messages and SENDALL replies separated by in-band markers); "
         "in ~40% of the histories the harness waits for the updater's OWN save points (the 2 s delayed save after the last change; when that is overdue up "
         "to 7 s, in the thorough tier in some cases 63 s so that the 1-minute periodic save has fired too) and reads the config file back; a quarter of "
         "the H cases are aimed at the save-debounce window: 2..4 persistent topics get a first value and are saved, then inside ONE window some change "
         "for good, some change away and back to the value already saved (possibly as the last update of the window), some flip twice or are repeated "
         "unchanged, interleaved with no-save topics and SENDALLs, then the save points are awaited; the oracle demands the latest value of EVERY "
         "persistent topic in the file whatever path the code took. "
         "K: real saveState in a child process killed at every step boundary the source contains (and inside the write of the temporary file: "
         "0, 1/4, 1/2, 3/4 of its bytes), or (12% of the K cases, fault injection without a kill) with a write of the temporary file that FAILS after the "
         "file was created/truncated (a status value the YAML encoder refuses, as a full disk or I/O error would), after 0..2 complete saves, from directories with empty/old main file, with/without backup, with/without "
         "stale complete or partial temporary file; the directory is then read by the real start-up (cmd/dastard built with -tags verif: "
         "makeFileExist + setupViper). R: typed source configurations (SimPulse, Triangle, Lancero, Abaco, Roach), record lengths (ordinary pairs, the boundary "
         "Nsamples = Npresamp+1 with Npresamp 1/2/3/500/random, large values, and illegal saved pairs for which the start-up's defaulting rule "
         "400 / 2*Npresamp is modelled in Lean and compared), trigger "
         "settings and base path saved by the real saveState (optionally over a file of an earlier run) and restored by the real start-up "
         "(setupViper, RunRPCServer, PrepareRun), compared field by field. Non-trivial = a SENDALL reply with several topics after repeated "
         "updates, a read-back of a self-made save, a save window with a change plus a return-to-saved-value of another topic, a kill strictly inside the save, a kill inside the write, or a typed round trip; distinct by input line.",
    nontrivial=["replay-multi-repeat", "saved", "window-revert", "window-multi", "crash-mid", "inwrite", "write-fails", "R", "start-during-save"],
    jobs=seeds(1, 3),
    trusted_base=["POSIX semantics of rename(2) (atomic replace), link(2), unlink(2) and of a write that a kill can cut at any byte, as transcribed in "
                  "Model/C16.lean (three-file model; durability after power loss / fsync is not modelled: the property is about a process kill)",
                  "viper / YAML / mapstructure round trip of the persisted structures is a trusted parameter of the model (read back = written); "
                  "it is exercised on the real save -> real start-up path by the R cases, not proved",
                  "ZeroMQ PUB/SUB delivery (in order, lossless on one established connection) is trusted; a status object is identified with its JSON text",
                  "Go map iteration order is irrelevant: SENDALL replies and saved settings are compared as sorted sets"],
    assumptions=["every status value is JSON-marshalable (non-empty JSON text); all of dastard's status structures are plain data",
                 "status tags are distinct after lower-casing (all real tags are upper case; viper keys are case-insensitive)",
                 "the config file exists when a save starts (the start-up of the saving run created it)",
                 "EdgeMulti and the edge-multi parameters are deliberately not restored (issue #271 in the code comments) and are excluded from 'same trigger settings'; "
                 "for Lancero/Abaco the fields Configure fills in from the hardware (DastardOutput, AvailableCards) are not settings and are excluded",
                 "source configurations in the round trip are ones their Configure accepts (a rejected request is published and saved too, and is altered at start-up)"],
    timeout=dict(quick=900, thorough=3600),
)

MANIFEST = dict(
    text="Lean 4 theorems over an executable model of (i) the replay cache of RunClientUpdater and (ii) the file-system steps of saveState. "
         "(i) For ALL histories of status updates (any tags incl. no-publish / no-save / NEWDASTARD / unknown ones, repeats, unchanged values, "
         "SENDALL and save timers anywhere): every SENDALL reply holds exactly one message per topic ever published, namely its most recent one "
         "(C16_sendall_latest, C16_sendall_exact), and the settings a save hands to the config file hold the latest value of every persistent "
         "topic (C16_saved_has_latest); every change of a topic not on the no-save list arms the delayed save and only a save disarms it, so whenever no "
         "save is pending the saved settings already hold the latest value of every persistent topic, however the changes of one debounce window "
         "interleave (C16_saved_when_quiet). (ii) For ALL directory states, contents and kill points (after any number of completed steps, or any "
         "number of bytes into the non-atomic write of the temporary file, after any number of earlier complete saves): the file the next start-up "
         "reads existed and is the complete old or the complete new version (C16_crash_safe, C16_crash_safe_history), proved through a general "
         "theorem for every step list of a decidable 'safe shape' (C16_crash_safe_of_shape); an uninterrupted save installs the new content and "
         "keeps the old one as backup. The step list is RE-OBSERVED on every run (a real saveState watched at its crash sites; plus a go/ast reading "
         "of the source as cross-check where it recognises the code) and compared with the model's constants, so a reordering of saveState breaks "
         "the correspondence (and, once transcribed, the safe-shape obligation). Tie to the code on every run: real RunClientUpdater + real ZeroMQ SUB socket (live stream, SENDALL replies, "
         "self-made saves read back); real saveState killed in a child process at every step boundary / inside the write, then the real "
         "start-up path of cmd/dastard; typed save -> real start-up restore round trips. Two defects were found by this check and repaired: "
         "the standard file was missing between the two renames of saveState (fix b58e5d8; C16_crash_unsafe_before_fix proves the old list "
         "unsafe), and start-up panicked on a saved rejected SimPulse/Triangle request (fix b90050c).",
    note="Trusted: Lean 4.33 kernel (axioms propext, Classical.choice, Quot.sound only; audited every run); the hand-written model is tied "
         "to the Go code only by differential testing with seeded generators and the go/ast fact reader (not a proof); POSIX rename/link/unlink "
         "atomicity and 'a kill cuts a write at any byte' are modelled, durability after power loss (fsync) is not; the viper/YAML/mapstructure "
         "round trip of the persisted structures is a trusted parameter (exercised, not proved); ZeroMQ delivery trusted; a status object is "
         "identified with its JSON text; tags are assumed distinct after lower-casing; values that json.Marshal rejects are outside the domain "
         "(C16_sendall_needs_json_text shows the guard is necessary in the faithful model; the code path is still compared). EdgeMulti settings "
         "(issue #271) and hardware-filled fields (Lancero DastardOutput, Abaco AvailableCards) are excluded from 'same settings'.",
    technique="Lean 4 theorems (invariant over all update histories; general crash-safety theorem for step lists of a decidable shape) over an "
              "executable model; model tied to the Go code by a differential correspondence run (real updater over ZeroMQ, child-process kills, "
              "real start-up binary) and by facts re-read from the source with go/ast on every run",
)

THEOREMS = [
    ("DastardV.Props.C16", "DastardV.C16.C16_sendall_latest"),
    ("DastardV.Props.C16", "DastardV.C16.C16_sendall_exact"),
    ("DastardV.Props.C16", "DastardV.C16.C16_sendall_needs_json_text"),
    ("DastardV.Props.C16", "DastardV.C16.C16_saved_has_latest"),
    ("DastardV.Props.C16", "DastardV.C16.C16_saved_when_quiet"),
    ("DastardV.Props.C16", "DastardV.C16.C16_start_restores_saved_triggers"),
    ("DastardV.Props.C16", "DastardV.C16.C16_lengths_legal_restored"),
    ("DastardV.Props.C16", "DastardV.C16.C16_lengths_sanitized_legal"),
    ("DastardV.Props.C16", "DastardV.C16.C16_crash_safe_of_shape"),
    ("DastardV.Props.C16", "DastardV.C16.C16_crash_safe"),
    ("DastardV.Props.C16", "DastardV.C16.C16_crash_safe_history"),
    ("DastardV.Props.C16", "DastardV.C16.C16_crash_unsafe_before_fix"),
    ("DastardV.Props.C16", "DastardV.C16.C16_failed_write_keeps_old"),
    ("DastardV.Props.C16", "DastardV.C16.C16_failed_write_safe"),
    ("DastardV.Props.C16", "DastardV.C16.C16_save_complete"),
    ("DastardV.Props.C16", "DastardV.C16.C16_save_keeps_backup"),
]
