# C19 — channel identity is unique and consistent everywhere it is reported.
CLAIMED = True

CFG = dict(
    rule="generated source configurations run through the REAL numbering code: 25% HISTORIES of 2..6 steps on ONE source object "
         "(Lancero: reconfigure with other column/card separation, first row, active-card subset/order/extra card, row count, a wholly "
         "different configuration, the same configuration again, or PrepareChannels again without reconfiguring; Abaco/simulated/ROACH "
         "re-prepared with other layouts / channel counts; simulated sources also get Configure requests that are accepted, refused at once, or "
         "refused for the buffer length AFTER the channel count was stored — shrink, grow, never configured — followed by Sample+PrepareChannels) with the tables judged after EVERY step; ~5% of all cases go through the REAL LanceroSource.Configure (cringeGlobals.json written by the hook) with ActiveCards lists that are sorted, unsorted, repeat a card adjacently / one apart / first-last / three times, name a missing card, or are empty, each answer and the active cards it leaves compared with the model, followed by Sample-equivalent+PrepareChannels (+START); 50% single Lancero (0..12 faked cards with distinct device numbers in "
         "sorted or shuffled order, 0..10 columns, 0..256 rows, equal or mixed geometries, first-row numbers incl. 0/negative/1e6, column and card "
         "separations 0 / exactly large enough / one too small / larger / tiny / negative / random; PrepareChannels called twice without "
         "reconfiguring, so the state a rejection leaves behind is exercised), 20% Abaco (1..12 channel groups announced by sampled packets "
         "over 1..3 producers in any order: adjacent, gapped, overlapping, same first channel, exact repeats; real Sample + PrepareChannels), "
         "8% simulated sources (Configure + Sample + default AnySource.PrepareChannels, incl. nchan<1), 4% ROACH; one source per run just past "
         "the 16-bit limit of the row/column code. For ~11% of cases (<=96 streams) the Start path continues with the real PrepareRun and a real "
         "WriteControl START and the identity given to every file writer is read back. The oracle judges the real tables (lengths, err/fb "
         "partners, number collisions, name collisions, groups cover exactly as a multiset — every number in use in exactly one reported group, no group member that is not in use —, codes decode to the true geometry, file names distinct, header "
         "identity = reported tables); the model must reproduce names, numbers, codes, groups and accept/reject exactly. Non-trivial = an accepted "
         "configuration with at least 4 streams, or a rejected one whose numbering would have collided; distinct by input line.",
    nontrivial=["multi", "would-collide", "regroup"],
    jobs=seeds(1, 4),
    trusted_base=["Go int modelled as unbounded Int (no 64-bit overflow in channel-number arithmetic)",
                  "fmt.Sprintf(\"%d\") transcribed as fmtInt and the %s.%s tail of the file-name pattern as list append (compared with the real strings every run)",
                  "Lancero device numbers are distinct: proved for the modelled Configure (C19_configure_devnums_distinct) and the real Configure is "
                  "driven with arbitrary ActiveCards lists every run; cases that set the active cards directly use distinct numbers",
                  "sort.Sort on group keys modelled by insertion sort (results agree whenever first channels differ, which the overlap check enforces)"],
    assumptions=["Lancero cards are faked (geometry fields set directly, nchan computed as LanceroSource.Sample does); Abaco packets come from a "
                 "scripted PacketProducer; ROACH nchan set directly",
                 "the directory/date/run prefix of file names (makeDirectory) is not part of channel identity and is stripped before comparison"],
)

MANIFEST = dict(
    text="Theorems over a loop-for-loop transcription of LanceroSource.PrepareChannels (validation + numbering with card/column separations), "
         "the group bookkeeping of AbacoSource.Sample/PrepareChannels, the default and ROACH numbering, rcCode pack/unpack and name / file-name "
         "formation, for ALL configurations: an accepted Lancero configuration numbers every (card,column,row) exactly once and injectively, "
         "error/feedback partners share the number, names (hence file names for every extension) are pairwise distinct; any separations whose "
         "numbering would collide are rejected (exact acceptance condition proved); channel groups cover exactly the numbers in use for every "
         "source kind, and what one LanceroSource object reports after any history of reconfigurations and retries depends only on the configuration the call sees, never on the group list earlier calls left (history independence); Abaco accepts iff no channel is in two groups and then numbers uniquely; row/column codes round-trip under the 16-bit "
         "guards (guards shown necessary by a proved counterexample = the recorded known finding C19:rccode-overflow16); the model passes the run-time oracle. "
         "The model is compared with the real PrepareChannels/Sample/WriteControl START on generated configurations every run and the same oracle "
         "judges the real tables.",
    note="Trusted: Lean 4.33 kernel (axioms propext, Classical.choice, Quot.sound only; audited every run); the hand-written model is tied "
         "to the Go code only by differential testing with seeded generators (not a proof); Go int overflow is not modelled; Lancero hardware "
         "sampling (Sample/sampleCard), cringeGlobals and Configure are outside the model (device numbers assumed distinct as Configure enforces); "
         "file headers are checked at the level of the values handed to the LJH writers, not the bytes on disk (C05).",
    technique="Lean 4 theorems over an executable model; model tied to the Go code by a differential correspondence run",
)

THEOREMS = [
    ("DastardV.Props.C19", "DastardV.C19.C19_rccode_roundtrip"),
    ("DastardV.Props.C19", "DastardV.C19.C19_rccode_fields_mod"),
    ("DastardV.Props.C19", "DastardV.C19.C19_rccode_guards_needed"),
    ("DastardV.Props.C19", "DastardV.C19.C19_names_injective"),
    ("DastardV.Props.C19", "DastardV.C19.C19_filenames_distinct"),
    ("DastardV.Props.C19", "DastardV.C19.C19_lancero_injective"),
    ("DastardV.Props.C19", "DastardV.C19.C19_lancero_positions"),
    ("DastardV.Props.C19", "DastardV.C19.C19_accept_iff"),
    ("DastardV.Props.C19", "DastardV.C19.C19_rejects_collisions"),
    ("DastardV.Props.C19", "DastardV.C19.C19_rejects_bad_separations"),
    ("DastardV.Props.C19", "DastardV.C19.C19_abaco_unique"),
    ("DastardV.Props.C19", "DastardV.C19.C19_groups_cover_list"),
    ("DastardV.Props.C19", "DastardV.C19.C19_groups_cover_exactly"),
    ("DastardV.Props.C19", "DastardV.C19.C19_codes_decode_partial"),
    ("DastardV.Props.C19", "DastardV.C19.C19_codes_decode_counterexample"),
    ("DastardV.Props.C19", "DastardV.C19.C19_header_identity_eq_status"),
    ("DastardV.Props.C19", "DastardV.C19.C19_model_passes_oracle"),
    ("DastardV.Props.C19", "DastardV.C19.C19_oracle_sound"),
    ("DastardV.Props.C19", "DastardV.C19.fits16_iff"),
    ("DastardV.Props.C19", "DastardV.C19.C19_groups_history_independent"),
    ("DastardV.Props.C19", "DastardV.C19.C19_history_independent"),
    ("DastardV.Props.C19", "DastardV.C19.C19_generic_history_independent"),
    ("DastardV.Props.C19", "DastardV.C19.C19_generic_start_consistent"),
    ("DastardV.Props.C19", "DastardV.C19.C19_configure_devnums_distinct"),
]
