# C06 — write control: reported writing state always matches what channels really do
CLAIMED = True

CFG = dict(
    rule="(30% of the cases also send the RPC SourceControl.ConfigurePulseLengths before 8..30% of the requests: same / other valid / invalid lengths, "
         "while inactive, while active and - the hot spot - while PAUSED followed by UNPAUSE and publication; the reported lengths are compared after every step) "
         "each case = a scripted source running under the REAL Start/CoreLoop (requests, blocks and every access to the processors go through the "
         "loop's queue / block channel; in 25% of the cases the source ENDS BY ITSELF (error block) before 4..15% of the requests - also while writing "
         "is paused - and is started again through the real Start, with requests, redundant starts/ends in between; case 4 of every run is scripted) "
         "(real AnySource/PrepareRun, 1..4 channels, 4 record sizes, projectors on none/all/some channels, "
         "0..8 pre-existing run directories under two base paths) + a history of 1..40 requests sent through the real SourceControl.WriteControl RPC "
         "(request queue serviced as the core loop does): START over all 8 subsets of {LJH2.2, OFF, LJH3} with path given / omitted, STOP, PAUSE, "
         "UNPAUSE, 'UNPAUSE label', malformed UNPAUSE, invalid words, mixed case and suffixed words (PAUSED, STOP now, ...); 0..70% of the requests are "
         "illegal or redundant in the current state (PAUSE before START, START while active, label while inactive, START without base path, OFF "
         "without projectors); 12% of the cases begin with a pause that precedes an OFF-only START (the repaired defect); projectors are also loaded "
         "mid-history; in 35% of the cases the source has chosen channel numbers (from 0 as AnySource numbers them, a gap such as {1,2,9,3} with the "
         "offending channel NOT first, a permutation of 1..n, odd numbers, or 1..n) and pixel maps are loaded/unloaded before 10..60% of the requests "
         "(right length, off by one, empty), so that STARTs arrive with a good map, a map of the wrong length, or a map lacking a pixel for the "
         "first / a later channel (cases 2 and 3 of every run are scripted map histories). Between requests 0..3 publications: blocks through the real ProcessSegments (auto-triggered channels) or 0..20 records "
         "handed to one channel's real AnalyzeData+PublishData. After EVERY step: real ComputeWritingState (active, paused, 3 type flags, base "
         "path, file pattern parsed to (base, run number)), per-channel numberWritten, record count of every .ljh/.ljh3/.off file in every run "
         "directory (files parsed from disk after a flush), file descriptors held below the output directory. The Lean oracle judges the "
         "observations alone (stored <=> reported active & not paused & type enabled & channel eligible; rejected => nothing changed; accepted "
         "START => fresh directory under the requested path; accepted STOP => nothing left open) and the Lean model must reproduce every "
         "observation. Non-trivial = the history contains both a publication that stored records and one that was withheld; distinct by input line.",
    nontrivial=["both"],
    jobs=seeds(2, 6),
    lean_files=["C06", "ComposeWriteControl"],
    trusted_base=["request strings are ASCII (Go strings.ToUpper on non-ASCII input is not modelled)",
                  "a run directory is the pair (base path, 4-digit number); the date component of the path is whatever day the run happens on",
                  "the data files are modelled as record counts per (run directory, channel, type): record CONTENT is C05's subject; a file with no "
                  "record is not distinguished from no file (lazy creation is not part of the statement)",
                  "os/bufio/asyncbufio: a flush makes everything written so far visible on disk (queue overflow is C07's subject; cases publish at most ~100 records between flushes)"],
    assumptions=["of the I/O failures inside START only 'the run directory cannot be made' is in the histories (a base path below a regular file, 9% of the STARTs; base path 2 of the model's `blocked` list); file-creation failures after the directory exists are outside the quantifier",
                 "one channel per pixel (channelsPerPixel = 1, the AnySource default); pixel coordinates in file headers are C05's subject; record lengths change only through the RPC SourceControl.ConfigurePulseLengths (refused while writing is active, paused or not: C06_lengths_fixed_while_active), so the model's publication does not compare record and file lengths",
                 "the map a request is judged against is the one the server holds when it arrives (a map error also unloads the map: observed, not modelled)",
                 "a channel is OFF-eligible iff it had projectors when the START was accepted (projectors loaded later do not open a file)"],
    timeout=dict(quick=900, thorough=3600),
)

MANIFEST = dict(
    text="Invariant proof over ALL histories (any request strings incl. PAUSE before START, START while active, UNPAUSE with labels, malformed "
         "words; all type subsets; any paths; any channels with/without projectors; any existing run directories; publications and projector loads "
         "interleaved): on every channel, writers and pause flag are functions of the reported state (Good), hence records are stored in the file "
         "(current run directory, channel, type) exactly when the reported state says active, not paused, type enabled, channel eligible - and "
         "nowhere else (C06_stored_iff_reported, C06_agree_invariant); the model passes the run-time oracle at every step of every history "
         "(C06_agree_all_histories); a rejected request leaves the whole state unchanged; an accepted START creates a directory that did not exist, "
         "under the requested/remembered path, and reports exactly the requested types; STOP removes every writer and leaves no file open. "
         "WriteControl's string parsing, writeControlStart's checks, makeDirectory, SetLJH22/SetLJH3/SetOFF/Remove*/SetPause/PublishData and "
         "WritingState.Start/Stop are transcribed; the model is compared with the real code after every step of generated histories on every run.",
    note="Trusted: Lean 4.33 kernel (axioms propext, Classical.choice, Quot.sound only; audited every run); the hand-written model is tied "
         "to the Go code only by differential testing with seeded generators (not a proof). Files are record counts (content: C05), ASCII requests, "
         "no I/O failures. The defect found (SetOFF left the channel pause flag set: PAUSE ... START{OFF only} reported "
         "active/unpaused but stored nothing) was repaired (fix: 29d6aef) and the theorems are about the repaired behaviour.",
    technique="Lean 4 theorems over an executable model; model tied to the Go code by a differential correspondence run",
)

THEOREMS = [
    ("DastardV.Props.C06", "DastardV.C06.C06_agree_all_histories"),
    ("DastardV.Props.C06", "DastardV.C06.C06_agree_invariant"),
    ("DastardV.Props.C06", "DastardV.C06.C06_stored_iff_reported"),
    ("DastardV.Props.C06", "DastardV.C06.C06_rejected_is_noop"),
    ("DastardV.Props.C06", "DastardV.C06.C06_start_fresh_dir"),
    ("DastardV.Props.C06", "DastardV.C06.C06_stop_closes_all"),
    ("DastardV.Props.C06", "DastardV.C06.C06_bad_map_refused"),
    ("DastardV.Props.C06", "DastardV.C06.C06_source_end_stops_writing"),
    ("DastardV.Props.C06", "DastardV.C06.C06_uncreatable_path_refused"),
    ("DastardV.Props.C06", "DastardV.C06.C06_lengths_fixed_while_active"),
    ("DastardV.Props.C06", "DastardV.C06.C06_length_change_refused_while_active"),
    ("DastardV.Lemmas.ComposeWriteControl", "DastardV.ComposeWC.writeControl_simulates"),
    ("DastardV.Lemmas.ComposeWriteControl", "DastardV.ComposeWC.stored_eq_published"),
    ("DastardV.Lemmas.ComposeWriteControl", "DastardV.ComposeWC.stored_eq_accepted"),
    ("DastardV.Lemmas.ComposeWriteControl", "DastardV.ComposeWC.file_holds_the_counted_records"),
    ("DastardV.Lemmas.ComposeWriteControl", "DastardV.ComposeWC.sim_run"),
    ("DastardV.Lemmas.ComposeWriteControl", "DastardV.ComposeWC.project_append"),
    ("DastardV.Lemmas.ComposeWriteControl", "DastardV.ComposeWC.shapes_project"),
    ("DastardV.Lemmas.C06Oracle", "DastardV.C06.firstBad_sound"),
    ("DastardV.Lemmas.C06Oracle", "DastardV.C06.sameFiles_iff"),
]
