#!/usr/bin/env python3
"""Validate MANIFEST.json and every evidence/*.json against the schemas (run with python3-vt)."""
import json, sys, glob, os
import jsonschema
V = os.path.dirname(os.path.dirname(os.path.abspath(__file__)))
ok = True
def val(p, s):
    global ok
    try:
        jsonschema.validate(json.load(open(p)), json.load(open(s)))
        print("valid  ", p)
    except Exception as e:
        ok = False
        print("INVALID", p, str(e)[:400])
val(os.path.join(V, "MANIFEST.json"), "/root/.vp/MANIFEST.schema.json")
for p in sorted(glob.glob(os.path.join(V, "evidence", "*.json"))):
    val(p, "/root/.vp/EVIDENCE.schema.json")
sys.exit(0 if ok else 1)
