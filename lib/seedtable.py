#!/usr/bin/env python3
"""Markdown table of the seeded changes under /verif/seeded (for DESIGN.md §13)."""
import json, glob, os
rows = []
for p in sorted(glob.glob(os.path.join(os.path.dirname(os.path.dirname(os.path.abspath(__file__))), "seeded", "*", "meta.json"))):
    sid = p.split("/")[-2]
    m = json.load(open(p))
    v = m.get("validation", {})
    summ = (m.get("summary") or m.get("needs_to_manifest") or "")
    if isinstance(summ, list): summ = " ".join(map(str, summ))
    summ = " ".join(str(summ).split())[:150]
    checks = []
    for c, r in v.get("checks", {}).items():
        nf = any("no-failing-input-found" in l for l in r.get("violation_lines", []))
        checks.append(f"{c}: " + ("VIOLATION" + (" (no-failing-input-found)" if nf else "") if r.get("exit") == 1 else "exit %s" % r.get("exit")))
    files = m.get("files_changed", "")
    if isinstance(files, list): files = ", ".join(files)
    if m.get("kind") == "harmless":
        checks = [f"{c}: " + ("ALARM" if (r.get("exit") != 0 or r.get("violation_lines")) else "quiet") for c, r in v.get("checks", {}).items()]
        res = "quiet (good)" if not v.get("false_alarms") else "FALSE ALARM " + ",".join(v["false_alarms"])
        rows.append(f"| {sid} (harmless) | {files} | {summ} | {'; '.join(checks)} | {res} |")
        continue
    rows.append(f"| {sid} | {files} | {summ} | {'; '.join(checks)} | {'detected' if v.get('detected') else 'MISSED'} |")
print("| seed | file(s) | what it breaks / needs | our checks | result |")
print("|---|---|---|---|---|")
print("\n".join(rows))
