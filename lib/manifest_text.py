"""Texts for MANIFEST.json (level claimed / notes) per property."""
HOOK_COMMITS = []
NOTES = ("Technique family: machine-checked proof in Lean 4. Each check rebuilds harness+extractor from /repo's working tree, "
         "re-checks the theorems (lake build + #print axioms audit), and runs the correspondence. See DESIGN.md.")
NOT_YET = {}
COMMON_NOTE = ("Trusted: Lean 4.33 kernel (axioms propext, Classical.choice, Quot.sound only; no sorry/native_decide/bv_decide, audited every run); "
               "the hand-written model is tied to the Go code only by differential testing with seeded generators (not a proof); "
               "Go runtime/stdlib semantics as transcribed in the model. ")
CHECKS = {
    "C12": dict(
        text="Theorems over a faithful transcription of NewPhaseUnwrapper/UnwrapInPlace (all sequences, all call splits, all valid parameter "
             "sets): output = input + k quanta, step rule within [bias-pi,bias+pi], reset rule (step and global form), split independence. "
             "The model is compared bit-for-bit with the real PhaseUnwrapper on generated sequences every run.",
        note=COMMON_NOTE + "Theorems assume |bias| <= half a quantum after bit drop (proved for the Abaco parameter sets by evaluation in the kernel).",
    ),
    "C14": dict(
        text="Round-trip theorems for all records: decoding the model's encoding of messageRecords/messageSummaries at the offsets of "
             "doc/BINARY_FORMATS.md recovers every field (36/48-byte headers, payload length, channel prefix). The model encoder is compared "
             "byte-for-byte with the real builders and the real bytes are decoded by the same doc-derived decoder on every run.",
        note=COMMON_NOTE + "Floats are opaque bit patterns; float64->float32 narrowing of summary values is Go's and not modelled.",
    ),
    "C18": dict(
        text="Refinement proof: the raw region holds the last cap bytes of the logical write stream (Rep invariant, split-at-wrap copies "
             "transcribed); Read returns exactly the next window; for every cap>=2 and every op sequence the concatenated reads are the "
             "accepted stream restricted to non-discarded positions (prefix when no discard), ReadMultipleOf returns multiples, DiscardStride "
             "lands on a stride boundary. The forward-discard hypothesis is shown necessary by a proved counterexample, which is the recorded "
             "known finding. Model compared op-by-op with the real shared-memory RingBuffer each run.",
        note=COMMON_NOTE + "Pointers are unbounded naturals; shm/mmap trusted; chunk/stride 0 excluded (Go divides by zero).",
    ),
    "C09": dict(
        text="Invariant + refinement proof over all request histories (arbitrary indices): the connection list is duplicate-free, in range, "
             "counter = cardinality (fast path sound), membership equals the set-theoretic specification; Distribute never indexes out of range "
             "and gives each receiver exactly the multiset union of its sources' primaries (none without incoming connection); the reported "
             "state is the set used. The real broker is driven through AnySource/LanceroSource entry points and compared after every op.",
        note=COMMON_NOTE + "Secondary record contents are checked in C01. The defect found (out-of-range source accepted -> Distribute panic) was repaired (fix: 1bd1040).",
    ),
}
