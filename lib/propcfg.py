"""Per-property configuration of ./check: what counts as non-trivial, trusted base, jobs."""


def seeds(n_quick, n_thorough):
    def f(tier, seed):
        n = n_thorough if tier == "thorough" else n_quick
        return [dict(seed=seed * 1000 + i) for i in range(n)]
    return f


PROPS = {
    "C12": dict(
        rule="generated 16-bit sequences (noise, drifts, half-quantum boundary steps, pulses, extremes) x random "
             "splits into calls x parameter sets (Abaco 16/4, ROACH 14/2, any 1<=drop<fb<=16; bias off / +-0.38 phi0 / "
             "any |bias|<=pi; reset 1..20000; inversion). Non-trivial = unwrapping enabled and at least one sample "
             "left the home offset (a wrap was applied); distinct by input line. In addition `grp` cases build a REAL Abaco channel "
             "group (NewAbacoGroup with generated AbacoUnwrapOptions: RescaleRaw/Unwrap/Bias/ResetAfter/PulseSign/InvertChan, groups "
             "starting at channel 0,1,2,4,8,12,100, InvertChan listing numbers inside / outside the group / small indices) and run the real "
             "demuxData on real 16- and 32-bit packets over 1..4 calls; every channel must receive what its own configured unwrapper "
             "(inverted iff its channel NUMBER is listed) yields. `roach` / `rdev` cases (3 quick, 12 per job thorough) run a REAL RoachDevice "
             "(NewRoachDevice, samplePacket, readPackets with its 100 ms bundling) on a loopback UDP port fed with ROACH datagrams (2- and 4-byte words, "
             "1..3 channels, 1..500 frames per packet) in 2..4 bursts, one case staying away from home longer than the 20000-sample reset interval across "
             "blocks: per channel the raw stream cut at the block boundaries the device chose vs. its unwrapped blocks (`roach`), and the datagrams of "
             "each bundle vs. the blocks made from them - first frame index and every channel's samples (`rdev`, Model/C12Roach.lean).",
        nontrivial=["wrapped", "group"],
        lean_files=["C12", "C12Roach", "RoachDevice", "ComposeRoachFiles", "C12Oracle"],
        jobs=seeds(1, 8),
        trusted_base=["Go uint16/int16 conversion semantics as transcribed in Model/C12.lean (toInt16, mod 65536)"],
        assumptions=["the PhaseUnwrapper is only driven through NewPhaseUnwrapper/UnwrapInPlace (Abaco: NewAbacoGroup/demuxData, exercised; "
                     "ROACH: samplePacket/readPackets, exercised on a loopback UDP port)",
                     "theorems assume |bias| <= half a quantum: proved for every caller (group_params_valid, roach_params_valid - the latter only since the ROACH bias fix 9cf407d)",
                     "ROACH cases: loopback UDP keeps datagram order and loses nothing at these rates; inconsistent ROACH headers (channel count changing, uint16 overflow of Nchan*Nsamp) are not generated"],
    ),
    "C14": dict(
        rule="generated records (channel 0..65535 incl. boundaries, lengths 0..600 (thorough: up to 70000), signed/unsigned, extreme "
             "frames/times (0, +-2^63, -1, random), arbitrary float32/float64 bit patterns incl. NaN/Inf, 0..40 coefficients); the real "
             "messageRecords/messageSummaries bytes are decoded by the doc-derived Lean decoder and compared with the record, and "
             "compared byte-for-byte with the model encoder; in addition batches of 1..4 records go through the REAL publisher goroutine "
             "(startSocket, pulse port and summary port) and a ZMQ SUB socket must receive exactly one two-part message per record, in order, "
             "equal to that record's header and payload; and, because dastard builds record and summary messages in two goroutines at the same time, two goroutines call the two real builders concurrently (20000 calls each per case) and every result must equal what the builder returns alone. Non-trivial = every case (each decodes a full message); distinct by input line.",
        lean_files=["C14", "ComposeWire"],
        nontrivial=[],
        jobs=seeds(1, 4),
        trusted_base=["float32()/float64 conversions and bit patterns are taken from Go's math package (opaque bit strings in the model)",
                      "ZeroMQ itself (libzmq delivery of multipart messages over local TCP) is trusted; what dastard hands to it is observed by a subscriber"],
        assumptions=["records reach messageRecords/messageSummaries unchanged from the publisher (pipeline covered by C01)"],
    ),
    "C18": dict(
        rule="real RingBuffer on POSIX shared memory (writer handle + reader handle), buffer sizes {2,3,4,5,7,8,16,17,64,100,255,256} and "
             "random 2..4096, the reader handle closed and re-opened at random points and right after exactly-filling writes (op O: nothing may change), plus 3% rings larger than the packet size recorded in the buffer description (8193..24581, chunk sizes = that packet size and its neighbours), histories of 1..40 ops Write/Read/ReadMultipleOf/ReadAll/DiscardStride with exact-fill, over-fill, exact-empty, "
             "negative and over-capacity read sizes; 8% of histories may contain rewinding discards (the known finding) and 8% are directed: writes of more than half the ring each followed by a read of everything, "
             "reads past a stride boundary, a discard back onto the boundary, then a write of the true room plus 1..5 bytes and a read of everything — after a "
             "coherent backwards move (fewer than cap bytes re-exposed, theorem discard_spec_coherent) the oracle keeps judging from the new position, so a "
             "different failure later in the history is still reported under its own signature; in addition 3 (quick) / 10 per job (thorough) LARGE rings of 4..9 MB (production Abaco rings are 256 MB) with reader backlogs beyond 4 MiB and chunk sizes that divide no power of two: bytes come from a fixed recurrence, writes are reported as start/length/accepted and reads as length + 32-bit polynomial hash, the oracle regenerates the accepted stream and judges FIFO content by hash and lengths by the length-level model `L.*` (theorems Props/C18Len: the projection of the full model); RING -> PACKETS (abaco.go, the glue to the ingest): 150 quick / 3000 per job thorough `pad` cases run the real packets.ReadPacketPlusPad loop on streams of real padded packets with strides 1..8192 (wrong / short padding, truncation, junk tails) and compare every reader position, packet and the final error with Model/RingPackets.lean; 12 / 150 `rpk` cases run the real NewAbacoRing + AbacoRing.start + ReadAllPackets on a shared-memory ring that a producer fills with padded real packets (stale slots before start, packets of up to exactly one slot, wraps; 25% dirty streams with unpadded writes): on clean streams the packets handed out must be a prefix of the packets written whole (`C18:ring-packets-not-fifo / -error / -lost`, theorem ring_packets_fifo), all cases are compared with the model packet for packet; a panic inside an "
             "operation is an observed output; after every discard BytesReadable tells where the real read position landed. Chunk size / stride 0 "
             "is excluded (the Go code divides by zero: outside the statement's domain). Non-trivial = the logical stream wrapped around the "
             "end of the buffer at least once; distinct by input line.",
        nontrivial=["wrap"],
        lean_files=["C18", "RingPackets", "C18Len", "ComposeRing"],
        jobs=seeds(1, 6),
        trusted_base=["uint64 pointers modelled as Nat (guard < 2^64)", "mmap / POSIX shm; single-threaded use of the two handles"],
        assumptions=["writer and reader are not concurrent in the correspondence run (the property is about op sequences)"],
    ),
    "C09": dict(
        rule="a prepared scripted source (real PrepareRun -> real TriggerBroker) with 1..8 channels; histories of 1..14 requests through the real "
             "ChangeGroupTrigger (add/delete, 1..4 pairs each, ~25% out-of-range / negative / self / repeated indices), StopTriggerCoupling, "
             "LanceroSource.SetCoupling (err->fb, fb->err, none) and Distribute with random primary frames per channel; after every op the "
             "reported ComputeGroupTriggerState, the broker counter and the distribution are compared with the model and judged by the "
             "set-theoretic oracle. In addition `pipe` cases (250 quick / 1500 per job thorough, child processes) run the REAL pipeline — ConfigureTriggers, "
             "ChangeGroupTrigger add/delete between blocks, StopTriggerCoupling, ProcessSegments on trigger-rich streams of 2..4 channels with chains, "
             "fans, cycles and self connections — and every block's published records are judged by the source-level statement of the property "
             "(theorem Pipe.C09_source_level): what a channel published beyond its own primaries is exactly the multiset of its connected sources' "
             "primary frames of that cycle; the model is compared record for record as well. "
             "Non-trivial = a distribution that delivered at least one secondary list, or a pipeline case with secondary records; distinct by input line.",
        nontrivial=["dist", "pipeline-secondaries"],
        lean_files=["C09", "C09Pipe", "PipeGroup", "C09Oracle"],
        jobs=seeds(1, 6),
        trusted_base=["Go map semantics (a set of sources per receiver) modelled as a duplicate-free pair list; map iteration order is irrelevant "
                      "because outputs are sorted before comparison"],
        assumptions=["record content of secondaries (receiver's own samples at the frame) is covered by the C01 pipeline check, not here",
                     "in the pipeline cases the primaries are those of the model's trigger pass on the same data (compared record for record by C01); "
                     "a case whose implementation primaries are not all present is left to the correspondence difference"],
    ),
}


# ---------------------------------------------------------------------------------------------
# Per-property files lib/props/Cxx.py (one per property, so properties can be developed
# independently).  Each defines:
#   CFG       dict like the entries above (rule, nontrivial, jobs, trusted_base, assumptions, extra, ...)
#   MANIFEST  dict(text=..., note=..., technique=...) for MANIFEST.json
#   THEOREMS  list of (module, fully-qualified theorem name)
#   CLAIMED   bool: listed under checks (True) or not_applicable (False) in MANIFEST.json
#   NOT_YET   optional reason string used while CLAIMED is False
import importlib.util as _ilu, os as _os, json as _json, glob as _glob

_HERE = _os.path.dirname(_os.path.abspath(__file__))
MODS = {}
for _p in sorted(_glob.glob(_os.path.join(_HERE, "props", "C*.py"))):
    _id = _os.path.basename(_p)[:-3]
    _spec = _ilu.spec_from_file_location("props_" + _id, _p)
    _m = _ilu.module_from_spec(_spec)
    _m.seeds = seeds
    _spec.loader.exec_module(_m)
    MODS[_id] = _m
    PROPS[_id] = _m.CFG


def theorems(prop):
    if prop in MODS:
        return [dict(module=m, name=n) for (m, n) in MODS[prop].THEOREMS]
    pj = _json.load(open(_os.path.join(_os.path.dirname(_HERE), "lean", "props.json")))
    return pj.get(prop, [])


def claimed(prop):
    if prop in MODS:
        return bool(getattr(MODS[prop], "CLAIMED", False))
    return prop in PROPS
