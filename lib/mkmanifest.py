#!/usr/bin/env python3
"""Regenerate MANIFEST.json from lib/propcfg.py (claimed properties) and lib/manifest_text.py."""
import json, os, sys
V = os.path.dirname(os.path.dirname(os.path.abspath(__file__)))
sys.path.insert(0, os.path.join(V, "lib"))
import propcfg, manifest_text as mt

import subprocess
def hook_commits():
    try:
        o = subprocess.run(["git", "-C", "/repo", "log", "--format=%h %s", "--grep=^verif hooks"], capture_output=True, text=True).stdout
        return [l.strip() for l in o.splitlines() if l.strip()][::-1]
    except Exception:
        return mt.HOOK_COMMITS

ids = [json.loads(l)["id"] for l in open(os.path.join(V, "properties.jsonl"))]
checks, na = [], []
for pid in ids:
    if pid in propcfg.MODS and propcfg.claimed(pid):
        mt.CHECKS[pid] = propcfg.MODS[pid].MANIFEST
    if pid in propcfg.PROPS and pid in mt.CHECKS and propcfg.claimed(pid):
        c = mt.CHECKS[pid]
        checks.append(dict(
            property_id=pid,
            quick_cmd=f"./check {pid} --tier quick",
            thorough_cmd=f"./check {pid} --tier thorough",
            evidence_file=f"evidence/{pid}.json",
            replay_cmd_template=f"./check {pid} --replay {{path}}",
            engine="lean4-proof+correspondence",
            level_claimed=dict(category="proof", text=c["text"], design_ref=c.get("design_ref", "DESIGN.md §5 " + pid)),
            level_note=c.get("note", mt.COMMON_NOTE),
            technique=c.get("technique", "Lean 4 theorems over an executable model; model tied to the Go code by a differential correspondence run"),
        ))
    else:
        na.append(dict(property_id=pid, reason=getattr(propcfg.MODS.get(pid), "NOT_YET", None) or mt.NOT_YET.get(pid, "check not yet built in this round; design in DESIGN.md §5 (nothing is claimed for it)")))
m = dict(
    version=1,
    setup_cmd="cd /verif && ./setup.sh",
    hooks=dict(guard="verif", enable="go build -tags verif (harness module replaces github.com/usnistgov/dastard => /repo)",
               baseline_off_cmd="cd /repo && GOFLAGS=-mod=mod GOPROXY=off GOSUMDB=off GOTOOLCHAIN=local go test -vet=off -count=1 -timeout 25m ./...",
               source_commits=hook_commits(), add_only=True),
    engines=[dict(name="lean4-proof+correspondence", path="check",
                  serves_properties=[c["property_id"] for c in checks],
                  kind_free_text="Lean 4 machine-checked theorems about executable models (lean/DastardV), audited with #print axioms; "
                                 "models tied to /repo on every run by a Go harness (harness/, built -tags verif from the working tree) "
                                 "whose case lines are replayed through the compiled Lean model driver (dvdriver), plus facts regenerated from the source (extract/)")],
    checks=checks,
    notes=mt.NOTES,
    not_applicable=na,
)
json.dump(m, open(os.path.join(V, "MANIFEST.json"), "w"), indent=1)
print("claimed:", [c["property_id"] for c in checks], "not claimed:", [n["property_id"] for n in na])
