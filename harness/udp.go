package main

import (
	"fmt"
	"net"
	"os"
	"strings"
	"time"

	dastard "github.com/usnistgov/dastard"
	"github.com/usnistgov/dastard/packets"
)

// Datagrams -> packets: the real AbacoUDPReceiver (socket on the loopback interface, its reader goroutine and
// ReadAllPackets) fed with datagrams the harness sends; judged by Model/UdpPackets.lean (`udp` lines of C03).

func init() { gens["C03"] = genUDP }

func genUDP(r *Rng, tier string, o *Out) {
	n := 10
	if tier == "thorough" {
		n = 80
	}
	for i := 0; i < n; i++ {
		udpCase(r, i, o)
	}
}

func udpCase(r *Rng, idx int, o *Out) {
	var dev *dastard.AbacoUDPReceiver
	var host string
	for try := 0; ; try++ {
		port := 20000 + (os.Getpid()*131+idx*17+try*7919)%30000
		host = fmt.Sprintf("127.0.0.1:%d", port)
		d, err := dastard.NewAbacoUDPReceiver(host)
		if err == nil {
			if err = dastard.VerifUDPStart(d); err == nil {
				dev = d
				break
			}
		}
		if try > 20 {
			panic(err)
		}
	}
	wedged := false
	defer func() {
		if !wedged {
			dastard.VerifUDPStop(dev)
		}
	}()
	addr, _ := net.ResolveUDPAddr("udp", host)
	conn, err := net.DialUDP("udp", nil, addr)
	if err != nil {
		panic(err)
	}
	defer conn.Close()

	clean := !r.Chance(35)
	nmsg := r.Range(1, 24)
	seq := uint32(r.Range(0, 5000))
	var msgs [][]byte
	// the slices ReadAllPackets returns are kept AS RETURNED (not copied) and looked at only at the end, as the
	// Abaco reader loop keeps them while the goroutine is already filling its next queue
	var batches [][]*packets.Packet
	ngot := 0
	prevLen := 0
	// ReadAllPackets under a watchdog: if the receiver's reader goroutine has ended, the call blocks for ever
	readAll := func() []*packets.Packet {
		if wedged {
			return nil
		}
		ch := make(chan []*packets.Packet, 1)
		go func() {
			ps, _ := dev.ReadAllPackets()
			ch <- ps
		}()
		select {
		case ps := <-ch:
			return ps
		case <-time.After(3 * time.Second):
			wedged = true
			return nil
		}
	}
	collect := func(want int) {
		deadline := time.Now().Add(5 * time.Second)
		for ngot < want && time.Now().Before(deadline) && !wedged {
			ps := readAll()
			batches = append(batches, ps)
			ngot += len(ps)
			if ngot < want {
				time.Sleep(5 * time.Millisecond)
			}
		}
	}
	pending := 0
	bad := 0
	for i := 0; i < nmsg; i++ {
		nv := r.Pick(1, 2, 4, 8, 30, 100, r.Range(1, 400))
		if r.Chance(10) {
			nv = r.Pick(2000, 4000, 4060, 4072)
		}
		b := append([]byte{}, rpkPacket(r, seq, nv).Bytes()...)
		seq++
		if !clean {
			switch r.Intn(4) {
			case 0:
				// cut short: the missing tail is whatever the previous datagrams left in the reader's buffer
				// (only when those bytes exist and the header stays whole, so that the result still decodes)
				if prevLen >= len(b) && len(b) > 60 {
					b = b[:len(b)-r.Range(1, 8)]
				}
			case 1:
				if len(msgs) > 0 {
					b = []byte{} // an empty datagram: the buffer still holds the previous packet
				}
			case 2:
				// a datagram that is no packet at all (long enough to overwrite the header in the buffer): it must
				// be dropped, and the receiver must go on (before the repair 588eaa1 it ended the reader goroutine
				// and the next ReadAllPackets blocked for ever)
				b = c15Rand(r, r.Range(16, 60))
				b[4] ^= 0x55 // never the magic number
				bad++
			}
		}
		if len(b) > prevLen {
			prevLen = len(b)
		}
		if _, err := conn.Write(b); err != nil {
			panic(err)
		}
		msgs = append(msgs, b)
		pending += len(b) + 64
		if pending > 60000 || r.Chance(20) {
			collect(len(msgs) - bad) // stay far below the socket's receive buffer; also varies the queue boundaries
			pending = 0
		}
	}
	collect(len(msgs) - bad)
	// nothing more may arrive
	time.Sleep(30 * time.Millisecond)
	batches = append(batches, readAll())
	var got []*packets.Packet
	for _, b := range batches {
		got = append(got, b...)
	}

	var sb strings.Builder
	fmt.Fprintf(&sb, "udp msgs %d", len(msgs))
	for _, m := range msgs {
		fmt.Fprintf(&sb, " %s", hexs(m))
	}
	c := 0
	if clean {
		c = 1
	}
	fmt.Fprintf(&sb, " clean %d OUT %d", c, len(got))
	for _, p := range got {
		fmt.Fprintf(&sb, " %s", rpkView(p))
	}
	if wedged {
		sb.WriteString(" WEDGED")
	}
	o.Case("%s", sb.String())
}
