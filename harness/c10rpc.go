package main

// C10 at the RPC layer: the life cycle driven through the real SourceControl.Start / SourceControl.Stop (which
// keep the isSourceActive flag), on the sources SourceControl owns: ErroringSource (ends by itself), TriangleSource
// and SimPulseSource (configured through the real Configure... requests).

import (
	"fmt"
	"time"

	"github.com/usnistgov/dastard"
)

// lcRPC: rounds of  Start request -> (the source ends by itself, before / while / not at all) -> 1..3 concurrent
// Stop requests -> next round's Start request on the same SourceControl, with NO status refresh in between other
// than what Start and Stop do themselves.  Sometimes a second Start request is issued while the source runs (it
// must be refused).  Gate: the erroring producer is parked before it sends its error block, so the moment of
// self-termination is chosen by the schedule.
func lcRPC(kind string, idx, rounds int, r *Rng) string {
	h := lcNew("err", idx)
	sc := dastard.VerifNewSourceControl(dastard.NewErroringSource(), 8, 32)
	sc.VerifSetActive(false)
	h.sc = sc
	name := map[string]string{"err": "ERRORINGSOURCE", "tri": "TRIANGLESOURCE", "sim": "SIMPULSESOURCE"}[kind]
	var ok bool
	switch kind {
	case "tri":
		sc.ConfigureTriangleSource(&dastard.TriangleSourceConfig{Nchan: 2, SampleRate: 20000, Min: 100, Max: 150}, &ok)
	case "sim":
		sc.ConfigureSimPulseSource(&dastard.SimPulseSourceConfig{Nchan: 2, SampleRate: 20000, Pedestal: 1000,
			Amplitudes: []float64{5000}, Nsamp: 100}, &ok)
	}
	dastard.VerifPointsOn()
	dastard.VerifGate("prod.sendError")
	startRPC := func() *lcCall {
		h.nS++
		return h.spawn(fmt.Sprintf("S%d", h.nS), func() error {
			var reply bool
			return sc.Start(&name, &reply)
		})
	}
	stopRPC := func() *lcCall {
		h.nK++
		role := fmt.Sprintf("K%d", h.nK)
		c := &lcCall{role: role, done: make(chan struct{}), ret: 2}
		reg := make(chan struct{})
		go func() {
			h.setRole(dastard.VerifGoID(), role)
			close(reg)
			var reply bool
			var dummy string
			if err := sc.Stop(&dummy, &reply); err != nil {
				c.ret = 1
			} else {
				c.ret = 0
			}
			dastard.VerifNote(fmt.Sprintf("note.ret%d", c.ret))
			close(c.done)
		}()
		<-reg
		h.calls = append(h.calls, c)
		return c
	}
	// the erroring producer is released only once it is really parked in front of its error block (under load it
	// may get there late: releasing "nobody" would leave it parked and the Stop callers waiting)
	releaseProducer := func() {
		lcWaitTrace(3*time.Second, func([]dastard.VerifEvent) bool {
			for _, w := range dastard.VerifParked() {
				if w.Site == "prod.sendError" {
					return true
				}
			}
			return false
		})
		h.release("P")
	}
	for rd := 0; rd < rounds; rd++ {
		s := startRPC()
		if !s.wait(3*time.Second) || s.ret != 0 {
			break
		}
		h.ds = sc.VerifActiveSource()
		if kind != "err" && r.Chance(25) {
			startRPC().wait(3 * time.Second) // a Start request while the source runs: refused, and rightly so
		}
		if kind != "err" {
			base := lcCount(dastard.VerifTrace(0), "loop.processed")
			lcWaitTrace(300*time.Millisecond, func(tr []dastard.VerifEvent) bool { return lcCount(tr, "loop.processed") > base })
		}
		when := r.Intn(3) // 0: the source ends by itself before the Stops, 1: while they are in flight, 2: after they were issued
		if kind == "err" && when == 0 {
			releaseProducer()
			lcWaitTrace(time.Second, func(tr []dastard.VerifEvent) bool {
				return lcCount(tr, "run.deactivate") > rd
			})
			lcSettle()
		}
		k := r.Range(1, 3)
		var ks []*lcCall
		for i := 0; i < k; i++ {
			ks = append(ks, stopRPC())
			if kind == "err" && when == 1 && i == 0 {
				releaseProducer()
			}
		}
		if kind == "err" && when == 2 {
			lcSettle()
			releaseProducer()
		}
		allBack := true
		for _, c := range ks {
			if !c.wait(3 * time.Second) {
				allBack = false
			}
		}
		lcSettle()
		if !allBack {
			break // a Stop request is still in flight: no further Start (the oracle reports the hang)
		}
	}
	if h.ds == nil {
		h.ds = dastard.NewErroringSource()
	}
	return h.finish(true)
}
