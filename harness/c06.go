package main

// C06 — write control: reported writing state = what the channels really do.
// A prepared scripted source (real PrepareRun) driven through the real SourceControl.WriteControl
// RPC (request queue serviced as the core loop does); records are published between requests, either
// through the real ProcessSegments (auto-triggered blocks) or handed straight to the channel's real
// PublishData.  After every step: the real ComputeWritingState, the per-channel written counters,
// the number of records in every data file on disk (all run directories), and the number of file
// descriptors the process holds inside the case's output directory.

import (
	"bytes"
	"encoding/binary"
	"encoding/json"
	"fmt"
	"os"
	"path/filepath"
	"regexp"
	"sort"
	"strconv"
	"strings"
	"time"

	"github.com/spf13/viper"
	"github.com/usnistgov/dastard"
)

const c06NBases = 2

type c06Op struct {
	kind         string // Q B D P M
	req          string
	pid          int
	l22, off, l3 bool
	nsamples     int // B
	ch, n        int // D, P
}

type c06Case struct {
	idx   int
	nch   int
	npre  int
	nsamp int
	proj  []bool
	trig  []bool
	pre   [][2]int // pre-existing (pid, run) directories
	nums  []int    // channel numbers (chanNumbers)
	ops   []c06Op
}

func c06Workdir(prefix string, idx int) string {
	base := os.Getenv("VERIF_WORKDIR")
	if base == "" {
		base = filepath.Join(os.TempDir(), "dvh_work")
	}
	return filepath.Join(base, fmt.Sprintf("%s_%d_%d", prefix, idx, os.Getpid()))
}

func (c *c06Case) input() string {
	var sb strings.Builder
	fmt.Fprintf(&sb, "nch %d npre %d nsamp %d proj", c.nch, c.npre, c.nsamp)
	for _, p := range c.proj {
		fmt.Fprintf(&sb, " %d", b2i(p))
	}
	sb.WriteString(" nums")
	for _, n := range c.nums {
		fmt.Fprintf(&sb, " %d", n)
	}
	fmt.Fprintf(&sb, " pre %d", len(c.pre))
	for _, p := range c.pre {
		fmt.Fprintf(&sb, " %d %d", p[0], p[1])
	}
	sb.WriteString(" blocked 1 2") // base path 2 lies below a regular file: no directory can be made there
	fmt.Fprintf(&sb, " ops %d", len(c.ops))
	for _, op := range c.ops {
		switch op.kind {
		case "Q":
			fmt.Fprintf(&sb, " Q %s %d %d %d %d", hexs([]byte(op.req)), op.pid, b2i(op.l22), b2i(op.off), b2i(op.l3))
		case "B":
			fmt.Fprintf(&sb, " B %d", op.nsamples)
		case "D":
			fmt.Fprintf(&sb, " D %d %d", op.ch, op.n)
		case "P":
			fmt.Fprintf(&sb, " P %d", op.ch)
		case "M":
			fmt.Fprintf(&sb, " M %d", op.n)
		case "L":
			fmt.Fprintf(&sb, " L %d %d", op.nsamples, op.n)
		case "X":
			sb.WriteString(" X")
		case "R":
			sb.WriteString(" R")
		}
	}
	return sb.String()
}

// c06CountRecords parses one data file and returns its number of records (-1 = malformed).
func c06CountRecords(path string, nsamp int) int {
	b, err := os.ReadFile(path)
	if err != nil {
		return -1
	}
	switch {
	case strings.HasSuffix(path, ".ljh"):
		marker := []byte("#End of Header\n")
		k := bytes.Index(b, marker)
		if k < 0 {
			if len(b) == 0 {
				return 0
			}
			return -1
		}
		rest := len(b) - k - len(marker)
		// the record length of an LJH 2.2 file is the one in its own header
		if m := c06TotalSamples.FindSubmatch(b[:k]); m != nil {
			nsamp, _ = strconv.Atoi(string(m[1]))
		}
		rs := 16 + 2*nsamp
		if rest%rs != 0 {
			return -1
		}
		return rest / rs
	case strings.HasSuffix(path, ".ljh3"):
		if len(b) == 0 {
			return 0
		}
		dec := json.NewDecoder(bytes.NewReader(b))
		var v map[string]interface{}
		if err := dec.Decode(&v); err != nil {
			return -1
		}
		pos := int(dec.InputOffset())
		if pos >= len(b) || b[pos] != '\n' {
			return -1
		}
		pos++
		n := 0
		for pos < len(b) {
			if pos+24 > len(b) {
				return -1
			}
			l := int(int32(binary.LittleEndian.Uint32(b[pos:])))
			if l < 0 {
				return -1
			}
			pos += 24 + 2*l
			if pos > len(b) {
				return -1
			}
			n++
		}
		return n
	case strings.HasSuffix(path, ".off"):
		if len(b) == 0 {
			return 0
		}
		dec := json.NewDecoder(bytes.NewReader(b))
		var v map[string]interface{}
		if err := dec.Decode(&v); err != nil {
			return -1
		}
		pos := int(dec.InputOffset())
		if pos >= len(b) || b[pos] != '\n' {
			return -1
		}
		pos++
		nb := c06NBases
		if f, ok := v["NumberOfBases"].(float64); ok {
			nb = int(f)
		}
		if f, ok := v["MaxSamples"].(float64); ok {
			nsamp = int(f)
		}
		pos += 2 * 8 * nb * nsamp
		if pos > len(b) {
			return -1
		}
		rs := 36 + 4*nb
		if (len(b)-pos)%rs != 0 {
			return -1
		}
		return (len(b) - pos) / rs
	}
	return -1
}

var c06TotalSamples = regexp.MustCompile(`(?m)^Total Samples: ([0-9]+)\r?$`)

type c06Key struct{ pid, run, ch, ty int }

// c06Scan lists every data file with at least one record below root/p<pid>/<date>/<run>/.
func c06Scan(root string, nsamp int) map[c06Key]int {
	out := map[c06Key]int{}
	for pid := 0; pid < 2; pid++ {
		dates, _ := os.ReadDir(filepath.Join(root, fmt.Sprintf("p%d", pid)))
		for _, d := range dates {
			runs, _ := os.ReadDir(filepath.Join(root, fmt.Sprintf("p%d", pid), d.Name()))
			for _, rd := range runs {
				run, err := strconv.Atoi(rd.Name())
				if err != nil {
					continue
				}
				files, _ := os.ReadDir(filepath.Join(root, fmt.Sprintf("p%d", pid), d.Name(), rd.Name()))
				for _, f := range files {
					name := f.Name()
					ty := -1
					switch {
					case strings.HasSuffix(name, ".ljh"):
						ty = 0
					case strings.HasSuffix(name, ".ljh3"):
						ty = 1
					case strings.HasSuffix(name, ".off"):
						ty = 2
					}
					if ty < 0 {
						continue
					}
					k := strings.LastIndex(name, "_chan")
					dot := strings.LastIndex(name, ".")
					ch := -1
					if k >= 0 && dot > k {
						ch, _ = strconv.Atoi(name[k+5 : dot])
					}
					n := c06CountRecords(filepath.Join(root, fmt.Sprintf("p%d", pid), d.Name(), rd.Name(), name), nsamp)
					if n < 0 {
						n = 999999999 // malformed file: never what the model predicts
					}
					if n != 0 {
						out[c06Key{pid, run, ch, ty}] = n
					}
				}
			}
		}
	}
	return out
}

// c06OpenFds counts this process's file descriptors that point below root.
func c06OpenFds(root string) int {
	ents, err := os.ReadDir("/proc/self/fd")
	if err != nil {
		return -1
	}
	n := 0
	for _, e := range ents {
		t, err := os.Readlink(filepath.Join("/proc/self/fd", e.Name()))
		if err == nil && strings.HasPrefix(t, root+"/") {
			n++
		}
	}
	return n
}

// c06Pattern maps a FilenamePattern to (pid, run); ("",) -> (-1,-1); anything unexpected -> (-2,-2).
func c06Pattern(root, pat string) (int, int) {
	if pat == "" {
		return -1, -1
	}
	rel, err := filepath.Rel(root, pat)
	if err != nil {
		return -2, -2
	}
	parts := strings.Split(rel, string(filepath.Separator))
	if len(parts) != 4 || len(parts[0]) != 2 || parts[0][0] != 'p' {
		return -2, -2
	}
	pid, err1 := strconv.Atoi(parts[0][1:])
	run, err2 := strconv.Atoi(parts[2])
	if err1 != nil || err2 != nil || len(parts[2]) != 4 {
		return -2, -2
	}
	if parts[3] != fmt.Sprintf("%s_run%04d_%%s.%%s", parts[1], run) {
		return -2, -2
	}
	if st, err := os.Stat(filepath.Dir(pat)); err != nil || !st.IsDir() {
		return -2, -2
	}
	return pid, run
}

// c06PathOf is the base path with the given id: p0, p1, or (2) a path below the regular file "blocker".
func c06PathOf(root string, pid int) string {
	if pid == 2 {
		return filepath.Join(root, "blocker", "sub")
	}
	return filepath.Join(root, fmt.Sprintf("p%d", pid))
}

func c06BasePid(root, base string) int {
	switch base {
	case "":
		return -1
	case filepath.Join(root, "p0"):
		return 0
	case filepath.Join(root, "p1"):
		return 1
	case c06PathOf(root, 2):
		return 2
	}
	return -2
}

func (c *c06Case) run() string {
	dastard.VerifStartClientDrain()
	root := c06Workdir("c06", c.idx)
	os.RemoveAll(root)
	if err := os.MkdirAll(root, 0755); err != nil {
		return "PANIC workdir"
	}
	defer os.RemoveAll(root)
	if err := os.WriteFile(filepath.Join(root, "blocker"), []byte("a regular file\n"), 0644); err != nil {
		return "PANIC workdir"
	}
	today := time.Now().Format("20060102")
	for _, p := range c.pre {
		os.MkdirAll(filepath.Join(root, fmt.Sprintf("p%d", p[0]), today, fmt.Sprintf("%04d", p[1])), 0755)
	}
	var fts []dastard.FullTriggerState
	for ch := 0; ch < c.nch; ch++ {
		if c.trig[ch] {
			var ts dastard.TriggerState
			ts.AutoTrigger = true
			ts.AutoDelay = 0
			fts = append(fts, dastard.FullTriggerState{ChannelIndices: []int{ch}, TriggerState: ts})
		}
	}
	viper.Set("trigger", fts)
	// The source runs under the real Start / CoreLoop; requests reach it through the SourceControl's
	// queue exactly as in the server.  Everything that touches the processors runs inside the loop.
	vs := dastard.NewVerifSource(c.nch, 10000)
	sc := dastard.VerifNewSourceControl(vs, c.npre, c.nsamp)
	queue := sc.VerifQueue()
	if err := vs.VerifC06Start(queue, c.npre, c.nsamp); err != nil {
		return "PANIC start-error"
	}
	running := true
	inLoop := func(f func()) {
		if !running {
			f()
			return
		}
		done := make(chan struct{})
		queue <- func() { f(); close(done) }
		<-done
	}
	defer func() { // end the loop (the scripted producer does not react to Stop)
		if running {
			vs.VerifC06EndByItself()
		}
	}()
	perr := false
	inLoop(func() {
		for ch, p := range c.proj {
			if p && vs.VerifC06LoadProjectors(ch, c06NBases) != nil {
				perr = true
			}
		}
		vs.VerifC06SetChanNumbers(c.nums)
	})
	if perr {
		return "PANIC projectors-error"
	}
	var sb strings.Builder
	fmt.Fprintf(&sb, "%d", len(c.ops))
	prev := map[c06Key]int{}
	frame := int64(100000)
	t0 := int64(1700000000) * 1e9
	for _, op := range c.ops {
		switch op.kind {
		case "Q":
			cfg := dastard.WriteControlConfig{Request: op.req, WriteLJH22: op.l22, WriteOFF: op.off, WriteLJH3: op.l3}
			if op.pid >= 0 {
				cfg.Path = c06PathOf(root, op.pid)
			}
			var reply bool
			mapLen := sc.VerifC06MapLen() // the map this request will be handed by the RPC layer
			err := sc.WriteControl(&cfg, &reply)
			fmt.Fprintf(&sb, " E %d %d", b2i(err != nil), mapLen)
		case "M":
			sc.VerifC06SetMap(op.n)
			sb.WriteString(" -")
		case "B":
			data := make([][]dastard.RawType, c.nch)
			for ch := range data {
				d := make([]dastard.RawType, op.nsamples)
				for j := range d {
					d[j] = dastard.RawType(2000 + ch)
				}
				data[ch] = d
			}
			cnt := make([]int, c.nch)
			if running { // a producer only delivers blocks while the source runs
				cnt = vs.VerifC06PushBlock(queue, frame, t0, 100000, data)
			}
			frame += int64(op.nsamples)
			t0 += int64(op.nsamples) * 100000
			fmt.Fprintf(&sb, " R %s", ints(cnt))
		case "D":
			var err error
			if running {
				inLoop(func() { err = vs.VerifC06PublishDirect(op.ch, op.n, frame, t0) })
			}
			if err != nil {
				return "PANIC publish-error"
			}
			sb.WriteString(" -")
		case "P":
			var err error
			inLoop(func() { err = vs.VerifC06LoadProjectors(op.ch, c06NBases) })
			fmt.Fprintf(&sb, " E %d", b2i(err != nil))
		case "X": // the device fails: the producer reports an error, the CoreLoop ends on its own
			if running {
				vs.VerifC06EndByItself()
				var dummy string
				var ok bool
				sc.WaitForStopTestingOnly(&dummy, &ok) // the server notices that the source is gone
				running = false
			}
			sb.WriteString(" -")
		case "L": // the RPC that changes the record lengths
			var reply bool
			err := sc.ConfigurePulseLengths(dastard.SizeObject{Nsamp: op.nsamples, Npre: op.n}, &reply)
			fmt.Fprintf(&sb, " E %d", b2i(err != nil))
		case "R": // the source is started (again) through the real Start, with the lengths the server holds
			curNsamp, curNpre := sc.VerifC06Lengths()
			err := vs.VerifC06Start(queue, curNpre, curNsamp)
			if err == nil {
				running = true
				sc.VerifSetActive(true)
				inLoop(func() { vs.VerifC06SetChanNumbers(c.nums) })
			}
			fmt.Fprintf(&sb, " E %d", b2i(err != nil))
		}
		// observation
		var ws *dastard.WritingState
		var nw []int
		inLoop(func() {
			ws = vs.ComputeWritingState()
			nw = vs.VerifNumberWritten()
			vs.VerifC06FlushWriters()
		})
		pp, pr := c06Pattern(root, ws.FilenamePattern)
		fmt.Fprintf(&sb, " S %d %d %d %d %d %d %d %d", b2i(ws.Active), b2i(ws.Paused), b2i(ws.WriteLJH22), b2i(ws.WriteOFF),
			b2i(ws.WriteLJH3), c06BasePid(root, ws.BasePath), pp, pr)
		fmt.Fprintf(&sb, " NW %s", ints(nw))
		fmt.Fprintf(&sb, " FD %d", c06OpenFds(root))
		lenS, lenP := sc.VerifC06Lengths()
		fmt.Fprintf(&sb, " LEN %d %d", lenS, lenP)
		cur := c06Scan(root, c.nsamp)
		var changed []c06Key
		for k, n := range cur {
			if prev[k] != n {
				changed = append(changed, k)
			}
		}
		for k := range prev {
			if _, ok := cur[k]; !ok {
				changed = append(changed, k)
			}
		}
		sort.Slice(changed, func(a, b int) bool {
			x, y := changed[a], changed[b]
			if x.pid != y.pid {
				return x.pid < y.pid
			}
			if x.run != y.run {
				return x.run < y.run
			}
			if x.ch != y.ch {
				return x.ch < y.ch
			}
			return x.ty < y.ty
		})
		fmt.Fprintf(&sb, " F %d", len(changed))
		for _, k := range changed {
			fmt.Fprintf(&sb, " %d %d %d %d %d", k.pid, k.run, k.ch, k.ty, cur[k])
		}
		prev = cur
	}
	// leave nothing open behind (the child process runs many cases)
	var reply bool
	stop := dastard.WriteControlConfig{Request: "STOP"}
	sc.WriteControl(&stop, &reply)
	return sb.String()
}

// ---------------------------------------------------------------------------------------------
// generator

func c06ReqString(r *Rng, word string) string {
	switch r.Intn(10) {
	case 0:
		return strings.ToLower(word)
	case 1:
		return strings.ToUpper(word[:1]) + strings.ToLower(word[1:])
	case 2:
		b := []byte(strings.ToLower(word))
		for i := range b {
			if r.Bool() {
				b[i] -= 32
			}
		}
		return string(b)
	case 3:
		if word != "UNPAUSE" { // a suffix turns UNPAUSE into a (possibly malformed) label request
			return word + []string{"D", "PED", " now", "x", "!"}[r.Intn(5)]
		}
	}
	return word
}

func c06Label(r *Rng) string {
	return []string{"A", "calib", "state 7", " ", "  x", "UNPAUSE", "Zz~", "stop", "a,b", "two\nlines", "cr\r"}[r.Intn(11)]
}

func c06Invalid(r *Rng) string {
	return []string{"", "GO", "S", "STA", " START", "UNPAUS", "PAUS", "STO", "star", "unpaus e", "xSTOP", "RESUME", "\tPAUSE", "P"}[r.Intn(14)]
}

// c06Scripted: the first cases of every run are the minimal histories of the repaired defect
// (fix 29d6aef): a PAUSE that precedes, or survives a STOP before, an OFF-only START.
func c06Scripted(idx int) *c06Case {
	q := func(w string, pid int, l22, off, l3 bool) c06Op {
		return c06Op{kind: "Q", req: w, pid: pid, l22: l22, off: off, l3: l3}
	}
	c := &c06Case{idx: idx, nch: 2, npre: 3, nsamp: 8, proj: []bool{true, false}, trig: []bool{true, true}, nums: []int{1, 2}}
	switch idx {
	case 2: // a START with a pixel map that lacks a pixel for the LAST channel's number is refused: nothing may change
		c = &c06Case{idx: idx, nch: 4, npre: 3, nsamp: 8, proj: []bool{true, true, false, true}, trig: []bool{true, true, true, true},
			nums: []int{1, 2, 3, 9}}
		c.ops = []c06Op{{kind: "M", n: 4}, q("START", 0, true, true, true), {kind: "D", ch: 0, n: 2}, {kind: "B", nsamples: 24},
			q("START", 0, true, false, false), {kind: "D", ch: 1, n: 1}, q("STOP", -1, false, false, false),
			{kind: "M", n: 4}, q("START", 0, false, false, true), {kind: "D", ch: 2, n: 3}, q("STOP", -1, false, false, false)}
	case 4: // the source ends by itself while writing is PAUSED, is started again, and writing resumes
		c = &c06Case{idx: idx, nch: 2, npre: 3, nsamp: 8, proj: []bool{false, false}, trig: []bool{true, true}, nums: []int{1, 2}}
		c.ops = []c06Op{q("START", 0, true, false, true), {kind: "D", ch: 0, n: 1}, q("PAUSE", -1, false, false, false),
			{kind: "X"}, q("UNPAUSE", -1, false, false, false), {kind: "R"}, q("UNPAUSE", -1, false, false, false), {kind: "D", ch: 1, n: 2},
			{kind: "B", nsamples: 24}, q("START", -1, true, false, false), {kind: "D", ch: 0, n: 3}, {kind: "X"}, {kind: "R"}, {kind: "R"},
			q("START", -1, false, false, true), {kind: "B", nsamples: 16}, q("STOP", -1, false, false, false)}
	case 5: // a START whose Path cannot be created is refused and must not change the remembered base path
		c = &c06Case{idx: idx, nch: 1, npre: 3, nsamp: 8, proj: []bool{false}, trig: []bool{true}, nums: []int{1}}
		c.ops = []c06Op{q("START", 2, true, false, false), q("START", -1, true, false, false), q("START", 0, true, false, false),
			{kind: "D", ch: 0, n: 1}, q("STOP", -1, false, false, false), q("START", 2, false, false, true), {kind: "D", ch: 0, n: 2},
			q("START", -1, false, false, true), {kind: "D", ch: 0, n: 3}, q("START", 2, true, false, false), q("STOP", -1, false, false, false)}
	case 6: // record lengths: changed while inactive (accepted), while active and while PAUSED (refused), then writing resumes
		c = &c06Case{idx: idx, nch: 2, npre: 3, nsamp: 8, proj: []bool{true, false}, trig: []bool{true, true}, nums: []int{1, 2}}
		c.ops = []c06Op{{kind: "L", nsamples: 16, n: 4}, {kind: "P", ch: 0}, q("START", 0, true, true, false), {kind: "D", ch: 0, n: 1},
			{kind: "L", nsamples: 8, n: 3}, q("PAUSE", -1, false, false, false), {kind: "L", nsamples: 8, n: 3}, {kind: "L", nsamples: 16, n: 4},
			q("UNPAUSE", -1, false, false, false), {kind: "D", ch: 0, n: 2}, {kind: "D", ch: 1, n: 1}, {kind: "B", nsamples: 48},
			q("STOP", -1, false, false, false), {kind: "L", nsamples: 8, n: 3}, q("START", -1, true, false, true), {kind: "D", ch: 1, n: 2},
			q("STOP", -1, false, false, false)}
	case 3: // a good map: accepted
		c = &c06Case{idx: idx, nch: 3, npre: 3, nsamp: 8, proj: []bool{false, true, false}, trig: []bool{true, true, true},
			nums: []int{3, 1, 2}}
		c.ops = []c06Op{{kind: "M", n: 3}, q("START", 1, true, true, false), {kind: "D", ch: 1, n: 2}, {kind: "M", n: 2},
			q("STOP", -1, false, false, false), q("START", -1, true, false, false), {kind: "D", ch: 0, n: 1}, q("START", -1, true, false, false)}
	case 0:
		c.ops = []c06Op{q("PAUSE", -1, false, false, false), q("START", 0, false, true, false), {kind: "D", ch: 0, n: 2},
			{kind: "B", nsamples: 24}, q("STOP", -1, false, false, false)}
	default:
		c.ops = []c06Op{q("START", 0, true, false, false), {kind: "D", ch: 1, n: 1}, q("PAUSE", -1, false, false, false),
			q("STOP", -1, false, false, false), q("START", -1, false, true, false), {kind: "D", ch: 0, n: 2}, {kind: "D", ch: 1, n: 2},
			q("STOP", -1, false, false, false)}
	}
	return c
}

func genC06(r *Rng, tier string, idx int) *c06Case {
	if idx < 7 {
		return c06Scripted(idx)
	}
	c := &c06Case{idx: idx}
	c.nch = r.Pick(1, 2, 2, 3, 3, 4)
	sz := [][2]int{{3, 8}, {4, 16}, {2, 5}, {8, 32}}[r.Intn(4)]
	c.npre, c.nsamp = sz[0], sz[1]
	c.proj = make([]bool, c.nch)
	switch r.Intn(7) { // projectors over all subsets of the channels
	case 0: // none
	case 1:
		for i := range c.proj {
			c.proj[i] = true
		}
	case 2: // only on the last channel
		c.proj[c.nch-1] = true
	case 3: // everywhere but on channel 0
		for i := 1; i < c.nch; i++ {
			c.proj[i] = true
		}
	default:
		for i := range c.proj {
			c.proj[i] = r.Bool()
		}
	}
	c.nums = make([]int, c.nch)
	for i := range c.nums {
		c.nums[i] = i + 1
	}
	mapPct := 0 // how often a map is (re)loaded before a request
	if r.Chance(35) {
		mapPct = r.Pick(10, 30, 60)
		switch r.Intn(6) {
		case 0: // numbering from 0, as AnySource.PrepareChannels does: the first channel has no pixel
			for i := range c.nums {
				c.nums[i] = i
			}
		case 1: // a gap: one channel (not the first when there are several) numbered beyond the map
			c.nums[r.Range(min(1, c.nch-1), c.nch-1)] = c.nch + r.Range(1, 9)
		case 2: // a permutation of 1..nch: fine
			for i := c.nch - 1; i > 0; i-- {
				j := r.Intn(i + 1)
				c.nums[i], c.nums[j] = c.nums[j], c.nums[i]
			}
		case 3: // odd numbers only (Lancero-style), fine only for the first ones
			for i := range c.nums {
				c.nums[i] = 2*i + 1
			}
		default: // contiguous from 1: fine
		}
	}
	c.trig = make([]bool, c.nch)
	for i := range c.trig {
		c.trig[i] = r.Chance(80)
	}
	if r.Chance(40) {
		for pid := 0; pid < 2; pid++ {
			for run := 0; run < 4; run++ {
				if r.Chance(35) {
					c.pre = append(c.pre, [2]int{pid, run})
				}
			}
		}
	}
	nreq := r.Range(1, 40)
	if r.Chance(30) {
		nreq = r.Range(1, 8)
	}
	illegalPct := r.Pick(0, 15, 30, 30, 45, 70)
	// generator-side guess of the state, to steer towards meaningful sequences
	active, paused, haveBase := false, false, false
	types := func() (bool, bool, bool) {
		switch r.Intn(10) {
		case 0:
			return false, false, false
		case 1, 2:
			return false, true, false // OFF only
		case 3:
			return true, false, false
		case 4:
			return false, false, true
		default:
			m := r.Range(1, 7)
			return m&1 != 0, m&2 != 0, m&4 != 0
		}
	}
	addReq := func(word string, pid int, l22, off, l3 bool) {
		c.ops = append(c.ops, c06Op{kind: "Q", req: word, pid: pid, l22: l22, off: off, l3: l3})
	}
	srcRunning := true
	lifePct := 0 // how often the source ends by itself before a request
	if r.Chance(25) {
		lifePct = r.Pick(4, 8, 15)
	}
	lenPct := 0 // how often the record lengths are (tried to be) changed before a request
	if r.Chance(30) {
		lenPct = r.Pick(8, 15, 30)
	}
	publish := func() {
		if !srcRunning { // no producer, no blocks
			return
		}
		k := r.Pick(0, 1, 1, 1, 2, 3)
		for i := 0; i < k; i++ {
			if r.Chance(60) {
				c.ops = append(c.ops, c06Op{kind: "B", nsamples: r.Pick(1, c.nsamp-1, c.nsamp, c.nsamp+1, 2*c.nsamp, 3*c.nsamp+2, 5*c.nsamp)})
			} else {
				c.ops = append(c.ops, c06Op{kind: "D", ch: r.Intn(c.nch), n: r.Pick(0, 1, 1, 2, 3, 7, 20)})
			}
		}
	}
	if r.Chance(12) { // hot start: a pause that precedes the first START, or survives a STOP
		switch r.Intn(3) {
		case 0:
			addReq("PAUSE", -1, false, false, false)
		case 1:
			addReq("START", 0, true, false, r.Bool())
			publish()
			addReq("PAUSE", -1, false, false, false)
			addReq("STOP", -1, false, false, false)
			active = false
		case 2:
			addReq("pause", -1, false, false, false)
			addReq("STOP", -1, false, false, false)
		}
		publish()
		addReq("START", r.Pick(0, 1), false, true, false)
		active, haveBase = true, true
		publish()
	}
	for q := 0; q < nreq; q++ {
		if r.Chance(6) {
			c.ops = append(c.ops, c06Op{kind: "P", ch: r.Intn(c.nch)})
		}
		if srcRunning && r.Chance(lifePct) { // the device fails: the source ends on its own
			c.ops = append(c.ops, c06Op{kind: "X"})
			srcRunning, active, paused = false, false, false
		} else if !srcRunning && r.Chance(70) {
			c.ops = append(c.ops, c06Op{kind: "R"})
			srcRunning = true
		} else if lifePct > 0 && r.Chance(3) { // redundant: start a running source / end an ended one
			c.ops = append(c.ops, c06Op{kind: []string{"R", "X"}[b2i(!srcRunning)]})
		}
		if srcRunning && r.Chance(lenPct) { // the RPC that changes the record lengths (must be refused while writing)
			sz := [][2]int{{3, 8}, {4, 16}, {3, 5}, {8, 32}, {c.npre, c.nsamp}, {c.npre, c.nsamp}, {0, 8}, {4, 4}, {2, 9}, {-1, 8}, {5, 0}}[r.Intn(11)]
			if paused && active && r.Chance(60) { // the hot spot: paused writing, other lengths, then resume
				sz = [][2]int{{3, 8}, {4, 16}, {8, 32}}[r.Intn(3)]
				c.ops = append(c.ops, c06Op{kind: "L", nsamples: sz[1], n: sz[0]})
				addReq("UNPAUSE", -1, false, false, false)
				paused = false
				publish()
			} else {
				c.ops = append(c.ops, c06Op{kind: "L", nsamples: sz[1], n: sz[0]})
			}
		}
		if r.Chance(mapPct) { // load a map (right length, off by one, empty) or unload it
			c.ops = append(c.ops, c06Op{kind: "M", n: r.Pick(c.nch, c.nch, c.nch, c.nch, c.nch+1, c.nch-1, 0, -1)})
		}
		illegal := r.Chance(illegalPct)
		var word string
		if !illegal { // a request that makes sense in the guessed state
			switch {
			case !active:
				word = "START"
			case paused:
				word = []string{"UNPAUSE", "UNPAUSE", "UNPAUSEL", "STOP"}[r.Intn(4)]
			default:
				word = []string{"PAUSE", "PAUSE", "STOP", "STOP", "UNPAUSEL", "START"}[r.Intn(6)] // START while active: must be refused
			}
		} else {
			word = []string{"START", "STOP", "PAUSE", "UNPAUSE", "UNPAUSEL", "UNPAUSEBAD", "INVALID", "INVALID"}[r.Intn(8)]
		}
		pid := -1
		l22, off, l3 := false, false, false
		if r.Chance(10) { // fields are ignored for non-START requests
			l22, off, l3 = types()
			pid = r.Pick(-1, 0, 1)
		}
		switch word {
		case "START":
			l22, off, l3 = types()
			switch {
			case !haveBase && !illegal:
				pid = r.Pick(0, 0, 1)
			default:
				pid = r.Pick(-1, -1, 0, 1)
			}
			if r.Chance(9) { // a path below a regular file: the run directory cannot be made
				pid = 2
			}
			addReq(c06ReqString(r, "START"), pid, l22, off, l3)
			if pid == 2 {
				// refused
			} else if !active && (l22 || off || l3) && (pid >= 0 || haveBase) { // a guess: OFF may still be refused
				active, paused, haveBase = true, false, true
			}
		case "STOP":
			addReq(c06ReqString(r, "STOP"), pid, l22, off, l3)
			active, paused = false, false
		case "PAUSE":
			addReq(c06ReqString(r, "PAUSE"), pid, l22, off, l3)
			paused = true
		case "UNPAUSE":
			addReq(c06ReqString(r, "UNPAUSE"), pid, l22, off, l3)
			paused = false
		case "UNPAUSEL":
			addReq(c06ReqString(r, "UNPAUSE")+" "+c06Label(r), pid, l22, off, l3)
			if active {
				paused = false
			}
		case "UNPAUSEBAD":
			addReq(c06ReqString(r, "UNPAUSE")+[]string{" ", "x", "-label", "D", ":a"}[r.Intn(5)], pid, l22, off, l3)
		default:
			addReq(c06Invalid(r), pid, l22, off, l3)
		}
		publish()
	}
	return c
}

func c06Count(quick, thorough int) func(string) int {
	return func(tier string) int {
		if tier == "thorough" {
			return thorough
		}
		return quick
	}
}

func init() {
	caseGens["C06"] = caseGen{count: c06Count(1000, 6000), gen: func(r *Rng, tier string, idx int) (string, func() string) {
		c := genC06(r, tier, idx)
		return c.input(), c.run
	}}
}
