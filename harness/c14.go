package main

import (
	"bytes"
	"fmt"
	"math"
	"net"
	"strings"
	"sync"
	"time"

	"github.com/pebbe/zmq4"
	"github.com/usnistgov/dastard"
)

func init() { gens["C14"] = genC14 }

func extremeI64(r *Rng) int64 {
	switch r.Intn(8) {
	case 0:
		return 0
	case 1:
		return math.MaxInt64
	case 2:
		return math.MinInt64
	case 3:
		return -1
	case 4:
		return int64(r.U64())
	default:
		return int64(r.U64() >> uint(r.Range(1, 60)))
	}
}

func weirdF64(r *Rng) float64 {
	switch r.Intn(8) {
	case 0:
		return math.NaN()
	case 1:
		return math.Inf(1)
	case 2:
		return math.Inf(-1)
	case 3:
		return 0
	case 4:
		return math.Float64frombits(r.U64())
	default:
		return float64(r.Range(-70000, 70000)) + float64(r.Intn(1000))/1000
	}
}

// c14Record draws one record (extreme field values included) and the bit patterns of its coefficients.
func c14Record(r *Rng, tier string) (dastard.VerifRecord, []uint64) {
	var v dastard.VerifRecord
	v.ChannelIndex = r.Pick(0, 1, 255, 256, 32767, 32768, 65535, r.Intn(65536))
	v.Signed = r.Bool()
	ln := r.Pick(0, 1, 2, 3, 10, 100, r.Intn(600))
	if tier == "thorough" && r.Chance(1) {
		ln = r.Range(10000, 70000)
	}
	v.Data = make([]dastard.RawType, ln)
	for j := range v.Data {
		v.Data[j] = dastard.RawType(r.Pick(0, 65535, 32767, 32768, r.Intn(65536)))
	}
	v.Presamples = r.Pick(0, 1, ln/4, ln, r.Intn(1<<20))
	// any bit pattern, with the special ones (zeros of either sign, subnormals, infinities, NaNs, the default
	// scale 1/65535) drawn often: the message carries the record's own value, whatever it is
	f32bits := func() uint32 {
		if r.Chance(30) {
			specials := []uint32{0, 0x80000000, 1, 0x80000001, 0x007fffff, 0x00800000, 0x7f800000, 0xff800000, 0x7fc00000,
				0xffc00001, 0x3f800000, 0xbf800000, math.Float32bits(1. / 65535.0), 0x7f7fffff}
			return specials[r.Intn(len(specials))]
		}
		return uint32(r.U64())
	}
	v.SampPeriod = math.Float32frombits(f32bits())
	v.VoltsPerArb = math.Float32frombits(f32bits())
	v.TrigFrame = extremeI64(r)
	v.TrigTimeNs = extremeI64(r)
	v.PretrigMean, v.PeakValue, v.PulseRMS, v.PulseAverage, v.ResidualStdDev = weirdF64(r), weirdF64(r), weirdF64(r), weirdF64(r), weirdF64(r)
	nc := r.Pick(0, 0, 1, 3, 8, r.Intn(40))
	v.ModelCoefs = make([]float64, nc)
	coefBits := make([]uint64, nc)
	for j := range v.ModelCoefs {
		v.ModelCoefs[j] = weirdF64(r)
		coefBits[j] = math.Float64bits(v.ModelCoefs[j])
	}
	return v, coefBits
}

// c14Line renders a record with the bytes the real message builders produce for it.
func c14Line(v dastard.VerifRecord, coefBits []uint64) string {
	s, _ := c14LineOK(v, coefBits)
	return s
}

// c14LineOK: ok is false when a message builder panicked on the record; the panic is an observed output
// (`OUT PANIC <which>`), and such a record must not be handed to the publisher goroutine.
func c14LineOK(v dastard.VerifRecord, coefBits []uint64) (line string, ok bool) {
	f32 := func(x float64) uint32 { return math.Float32bits(float32(x)) }
	in := fmt.Sprintf("ch %d signed %d npre %d data %s period %d vpa %d time %d frame %d sum %d %d %d %d %d coefs %s OUT",
		v.ChannelIndex, b2i(v.Signed), v.Presamples, ints(v.Data), math.Float32bits(v.SampPeriod), math.Float32bits(v.VoltsPerArb),
		v.TrigTimeNs, v.TrigFrame, f32(v.PretrigMean), f32(v.PeakValue), f32(v.PulseRMS), f32(v.PulseAverage), f32(v.ResidualStdDev),
		ints(coefBits))
	which := "records"
	var rm, sm [][]byte
	panicked := func() (p bool) {
		defer func() {
			if e := recover(); e != nil {
				p = true
			}
		}()
		rm = dastard.VerifMessageRecords(v)
		which = "summaries"
		sm = dastard.VerifMessageSummaries(v)
		return false
	}()
	if panicked || len(rm) != 2 || len(sm) != 2 {
		if !panicked {
			which = "parts"
		}
		return in + " PANIC " + which, false
	}
	return fmt.Sprintf("%s rh %s rp %s sh %s sp %s", in, hexs(rm[0]), hexs(rm[1]), hexs(sm[0]), hexs(sm[1])), true
}

// c14Wire: batches of 1..4 records go through the REAL publisher goroutine (startSocket) and a ZMQ SUB
// socket receives what is put on the wire: one message per record, in order, each with exactly the two
// parts the message builder makes for that record.
func c14Wire(r *Rng, tier string, o *Out, nbatch int) {
	for _, summaries := range []bool{false, true} {
		l, err := net.Listen("tcp", "127.0.0.1:0")
		if err != nil {
			panic(err)
		}
		port := l.Addr().(*net.TCPAddr).Port
		l.Close()
		send, stop, err := dastard.VerifStartSocket(port, summaries)
		if err != nil {
			panic(err)
		}
		sub, err := zmq4.NewSocket(zmq4.SUB)
		if err != nil {
			panic(err)
		}
		sub.SetSubscribe("")
		sub.SetRcvtimeo(200 * time.Millisecond)
		if err := sub.Connect(fmt.Sprintf("tcp://127.0.0.1:%d", port)); err != nil {
			panic(err)
		}
		// slow joiner: publish single warm-up records until one arrives, then drain
		// a record on which a message builder panics (reported by its own case line) must not reach the
		// publisher goroutine: the panic there would take the whole harness down
		draw := func() (dastard.VerifRecord, []uint64, string, bool) {
			for try := 0; try < 50; try++ {
				v, cb := c14Record(r, "quick")
				if ln, ok := c14LineOK(v, cb); ok {
					return v, cb, ln, true
				}
			}
			return dastard.VerifRecord{}, nil, "", false
		}
		warm, _, _, wok := draw()
		if !wok {
			stop()
			sub.Close()
			continue
		}
		joined := false
		for k := 0; k < 100 && !joined; k++ {
			send([]dastard.VerifRecord{warm})
			if _, err := sub.RecvMessageBytes(0); err == nil {
				joined = true
			}
		}
		for {
			if _, err := sub.RecvMessageBytes(0); err != nil {
				break
			}
		}
		sub.SetRcvtimeo(5 * time.Second)
		for b := 0; b < nbatch && joined; b++ {
			k := r.Pick(1, 2, 2, 3, 4)
			recs := make([]dastard.VerifRecord, k)
			var sb strings.Builder
			fmt.Fprintf(&sb, "wire sum %d n %d", b2i(summaries), k)
			allok := true
			for i := range recs {
				v, _, ln, ok := draw()
				if !ok {
					allok = false
					break
				}
				recs[i] = v
				sb.WriteString(" " + ln)
			}
			if !allok {
				break
			}
			send(recs)
			var msgs [][][]byte
			for i := 0; i < k; i++ {
				m, err := sub.RecvMessageBytes(0)
				if err != nil {
					break
				}
				msgs = append(msgs, m)
			}
			// anything beyond the expected messages (a duplicated or split message)
			sub.SetRcvtimeo(30 * time.Millisecond)
			for len(msgs) < 16 {
				m, err := sub.RecvMessageBytes(0)
				if err != nil {
					break
				}
				msgs = append(msgs, m)
			}
			sub.SetRcvtimeo(5 * time.Second)
			fmt.Fprintf(&sb, " WIRE %d", len(msgs))
			for _, m := range msgs {
				fmt.Fprintf(&sb, " %d", len(m))
				for _, part := range m {
					sb.WriteString(" " + hexs(part))
				}
			}
			o.Case("%s", sb.String())
		}
		if !joined {
			o.Case("wire sum %d n 0 WIRE-NOT-JOINED", b2i(summaries))
		}
		sub.Close()
		stop()
	}
}

// genC14 builds records, calls the real message builders, and writes the bytes.
func genC14(r *Rng, tier string, o *Out) {
	n := 1000
	if tier == "thorough" {
		n = 40000
	}
	for i := 0; i < n; i++ {
		v, coefBits := c14Record(r, tier)
		o.Case("%s", c14Line(v, coefBits))
	}
	nb := 25
	if tier == "thorough" {
		nb = 400
	}
	c14Wire(r, tier, o, nb)
	nc := 6
	if tier == "thorough" {
		nc = 60
	}
	for i := 0; i < nc; i++ {
		c14Concurrent(r, o)
	}
}

// c14Concurrent: dastard runs the record publisher and the summary publisher as two goroutines that build
// their messages at the same time (PublishData hands every batch to both).  Two goroutines call the two
// real builders in tight loops on two different records; every result must equal what the same builder
// returns for the same record when called alone (that value is judged by the ordinary cases).
func c14Concurrent(r *Rng, o *Out) {
	var v1, v2 dastard.VerifRecord
	var l1, l2 string
	for try := 0; ; try++ {
		var cb1, cb2 []uint64
		v1, cb1 = c14Record(r, "quick")
		v2, cb2 = c14Record(r, "quick")
		var ok1, ok2 bool
		l1, ok1 = c14LineOK(v1, cb1)
		l2, ok2 = c14LineOK(v2, cb2)
		if ok1 && ok2 {
			break
		}
		if try > 50 {
			return
		}
	}
	_, _ = l1, l2
	wantR := dastard.VerifMessageRecords(v1)
	wantS := dastard.VerifMessageSummaries(v2)
	const iters = 20000
	same := func(a, b [][]byte) bool {
		if len(a) != len(b) {
			return false
		}
		for i := range a {
			if !bytes.Equal(a[i], b[i]) {
				return false
			}
		}
		return true
	}
	var badR, badS int
	var wg sync.WaitGroup
	wg.Add(2)
	go func() {
		defer wg.Done()
		defer func() {
			if recover() != nil {
				badR += iters
			}
		}()
		for i := 0; i < iters; i++ {
			if !same(dastard.VerifMessageRecords(v1), wantR) {
				badR++
			}
		}
	}()
	go func() {
		defer wg.Done()
		defer func() {
			if recover() != nil {
				badS += iters
			}
		}()
		for i := 0; i < iters; i++ {
			if !same(dastard.VerifMessageSummaries(v2), wantS) {
				badS++
			}
		}
	}()
	wg.Wait()
	o.Case("conc iters %d badrec %d badsum %d frame1 %d frame2 %d", iters, badR, badS, v1.TrigFrame, v2.TrigFrame)
}
