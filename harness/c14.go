package main

import (
	"fmt"
	"math"

	"github.com/usnistgov/dastard"
)

func init() { gens["C14"] = genC14 }

func extremeI64(r *Rng) int64 {
	switch r.Intn(8) {
	case 0:
		return 0
	case 1:
		return math.MaxInt64
	case 2:
		return math.MinInt64
	case 3:
		return -1
	case 4:
		return int64(r.U64())
	default:
		return int64(r.U64() >> uint(r.Range(1, 60)))
	}
}

func weirdF64(r *Rng) float64 {
	switch r.Intn(8) {
	case 0:
		return math.NaN()
	case 1:
		return math.Inf(1)
	case 2:
		return math.Inf(-1)
	case 3:
		return 0
	case 4:
		return math.Float64frombits(r.U64())
	default:
		return float64(r.Range(-70000, 70000)) + float64(r.Intn(1000))/1000
	}
}

// genC14 builds records, calls the real message builders, and writes the bytes.
func genC14(r *Rng, tier string, o *Out) {
	n := 1000
	if tier == "thorough" {
		n = 40000
	}
	for i := 0; i < n; i++ {
		var v dastard.VerifRecord
		v.ChannelIndex = r.Pick(0, 1, 255, 256, 32767, 32768, 65535, r.Intn(65536))
		v.Signed = r.Bool()
		ln := r.Pick(0, 1, 2, 3, 10, 100, r.Intn(600))
		if tier == "thorough" && r.Chance(1) {
			ln = r.Range(10000, 70000)
		}
		v.Data = make([]dastard.RawType, ln)
		for j := range v.Data {
			v.Data[j] = dastard.RawType(r.Pick(0, 65535, 32767, 32768, r.Intn(65536)))
		}
		v.Presamples = r.Pick(0, 1, ln/4, ln, r.Intn(1<<20))
		v.SampPeriod = math.Float32frombits(uint32(r.U64()))
		v.VoltsPerArb = math.Float32frombits(uint32(r.U64()))
		v.TrigFrame = extremeI64(r)
		v.TrigTimeNs = extremeI64(r)
		v.PretrigMean, v.PeakValue, v.PulseRMS, v.PulseAverage, v.ResidualStdDev = weirdF64(r), weirdF64(r), weirdF64(r), weirdF64(r), weirdF64(r)
		nc := r.Pick(0, 0, 1, 3, 8, r.Intn(40))
		v.ModelCoefs = make([]float64, nc)
		coefBits := make([]uint64, nc)
		for j := range v.ModelCoefs {
			v.ModelCoefs[j] = weirdF64(r)
			coefBits[j] = math.Float64bits(v.ModelCoefs[j])
		}
		rm := dastard.VerifMessageRecords(v)
		sm := dastard.VerifMessageSummaries(v)
		f32 := func(x float64) uint32 { return math.Float32bits(float32(x)) }
		o.Case("ch %d signed %d npre %d data %s period %d vpa %d time %d frame %d sum %d %d %d %d %d coefs %s OUT rh %s rp %s sh %s sp %s",
			v.ChannelIndex, b2i(v.Signed), v.Presamples, ints(v.Data), math.Float32bits(v.SampPeriod), math.Float32bits(v.VoltsPerArb),
			v.TrigTimeNs, v.TrigFrame, f32(v.PretrigMean), f32(v.PeakValue), f32(v.PulseRMS), f32(v.PulseAverage), f32(v.ResidualStdDev),
			ints(coefBits), hexs(rm[0]), hexs(rm[1]), hexs(sm[0]), hexs(sm[1]))
		_ = fmt.Sprint
	}
}
