package main

// C10 — source life cycle.  Real sources (TriangleSource, SimPulseSource, ErroringSource, the scripted
// VerifLoopSource, AbacoSource on a UDP port nobody sends to) are started and stopped through the real
// Start(ds, …) / ds.Stop(); the verifPoint hooks (build tag verif) log every life-cycle step and let the
// harness park goroutines at chosen sites.  One line per case: the schedule script (input) and the trace,
// the return value of every call and the final observations (output).

import (
	"fmt"
	"net"
	"os"
	"path/filepath"
	"runtime"
	"strings"
	"sync"
	"time"

	"github.com/usnistgov/dastard"
)

func init() {
	caseGens["C10"] = caseGen{count: c10Count, gen: c10Gen}
}

func c10Count(tier string) int {
	if tier == "thorough" {
		return 800
	}
	return 240
}

var lcOnce sync.Once
var lcDump func()

// lcInit prepares the process-wide plumbing the real code needs: somebody reading the client-message
// channel and the publisher channels (instead of the ZMQ sockets on fixed ports).
func lcInit() {
	lcOnce.Do(func() {
		dastard.VerifStartClientDrain()
		rec := make(chan []*dastard.DataRecord, 256)
		sum := make(chan []*dastard.DataRecord, 256)
		dastard.PubRecordsChan = rec
		dastard.PubSummariesChan = sum
		go func() {
			for range rec {
			}
		}()
		go func() {
			for range sum {
			}
		}()
		if wd := os.Getenv("VERIF_WORKDIR"); wd != "" {
			os.Setenv("HOME", wd)
		}
	})
}

func lcWorkdir() string {
	wd := os.Getenv("VERIF_WORKDIR")
	if wd == "" {
		wd = filepath.Join(os.TempDir(), fmt.Sprintf("dvh_lc_%d", os.Getpid()))
	}
	os.MkdirAll(wd, 0755)
	return wd
}

// gate sites: all outside the source-state lock
var lcStartGates = []string{"start.enter", "start.beforeSample", "start.sampled", "start.channelsPrepared",
	"start.runPrepared", "start.activated", "start.runStarted"}
var lcAllGates = append(append([]string{}, lcStartGates...), "loop.start", "loop.select", "stop.enter", "stop.beforeWait",
	"stop.waited", "prod.tick", "prod.send", "prod.sendError", "rpc.enter", "rpc.beforeSend")

type lcCall struct {
	role string
	done chan struct{}
	ret  int // 0 nil, 1 error, 2 not returned
}

type lcH struct {
	ds     dastard.DataSource
	kind   string
	port   int
	mu     sync.Mutex
	roles  map[uint64]string
	calls  []*lcCall
	sc     *dastard.SourceControl
	nS, nK int
	nR     int
	loop   *dastard.VerifLoopSource
	feedWG sync.WaitGroup
	wrDir  string
	abaco  *dastard.AbacoSource
	ports  []int
	stray  map[uint64]bool // goroutines left over by an earlier case of this process (only after a hang there)
}

func lcNew(kind string, idx int) *lcH {
	lcInit()
	h := &lcH{kind: kind, roles: map[uint64]string{}, stray: lcWorkers()}
	switch kind {
	case "tri":
		ts := dastard.NewTriangleSource()
		if err := ts.Configure(&dastard.TriangleSourceConfig{Nchan: 2, SampleRate: 20000, Min: 100, Max: 150}); err != nil {
			panic(err)
		}
		h.ds = ts
	case "sim":
		sp := dastard.NewSimPulseSource()
		if err := sp.Configure(&dastard.SimPulseSourceConfig{Nchan: 2, SampleRate: 20000, Pedestal: 1000,
			Amplitudes: []float64{5000}, Nsamp: 100}); err != nil {
			panic(err)
		}
		h.ds = sp
	case "err":
		h.ds = dastard.NewErroringSource()
	case "loop":
		h.loop = dastard.NewVerifLoopSource(2, 10000)
		h.ds = h.loop
	case "udp":
		as, _ := dastard.NewAbacoSource()
		h.abaco = as
		h.port = 21000 + (os.Getpid()*13+idx*7)%30000
		h.ds = as
		h.configureUDP()
	default:
		panic("kind " + kind)
	}
	h.roles[dastard.VerifGoID()] = "H"
	h.sc = dastard.VerifNewSourceControl(h.ds, 8, 32)
	h.sc.VerifSetActive(false)
	return h
}

// configureUDP (re)configures the Abaco source to listen on h.port (and on the extra ports).
func (h *lcH) configureUDP() {
	hp := []string{fmt.Sprintf("127.0.0.1:%d", h.port)}
	for _, p := range h.ports {
		hp = append(hp, fmt.Sprintf("127.0.0.1:%d", p))
	}
	if err := h.abaco.Configure(&dastard.AbacoSourceConfig{HostPortUDP: hp}); err != nil {
		panic(err)
	}
}

func (h *lcH) setRole(gid uint64, role string) {
	h.mu.Lock()
	h.roles[gid] = role
	h.mu.Unlock()
}

func (h *lcH) roleOf(gid uint64, site string) string {
	h.mu.Lock()
	defer h.mu.Unlock()
	if r, ok := h.roles[gid]; ok {
		return r
	}
	switch {
	case strings.HasPrefix(site, "loop."):
		h.roles[gid] = "L"
		return "L"
	case strings.HasPrefix(site, "prod."), site == "asm.send", site == "asm.close":
		h.roles[gid] = "P"
		return "P"
	case site == "run.deactivate":
		h.roles[gid] = "L"
		return "L"
	}
	return "X"
}

func lcSettle() { dastard.VerifSettle(400*time.Microsecond, 60*time.Millisecond) }

// spawn runs f in a new goroutine registered under role; it returns once the goroutine is registered
// and the trace is quiet again.
func (h *lcH) spawn(role string, f func() error) *lcCall {
	c := &lcCall{role: role, done: make(chan struct{}), ret: 2}
	reg := make(chan struct{})
	go func() {
		h.setRole(dastard.VerifGoID(), role)
		close(reg)
		err := f()
		if err != nil {
			c.ret = 1
		} else {
			c.ret = 0
		}
		dastard.VerifNote(fmt.Sprintf("note.ret%d", c.ret)) // the return of the call, in trace order
		close(c.done)
	}()
	<-reg
	h.calls = append(h.calls, c)
	lcSettle()
	return c
}

func (h *lcH) spawnStart() *lcCall {
	h.nS++
	return h.spawn(fmt.Sprintf("S%d", h.nS), func() error { return dastard.Start(h.ds, h.sc.VerifQueue(), 8, 32) })
}

func (h *lcH) spawnStop() *lcCall {
	h.nK++
	return h.spawn(fmt.Sprintf("K%d", h.nK), func() error { return h.ds.Stop() })
}

// spawnRequest issues a control request through the real runLaterIfActive; the closure runs f inside the
// core loop and replies once.
func (h *lcH) spawnRequest(f func() error) *lcCall {
	h.nR++
	return h.spawn(fmt.Sprintf("R%d", h.nR), func() error {
		return h.sc.VerifRunLater(func() { h.sc.VerifReply(f()) })
	})
}

// flagOn: what SourceControl.Start does after a successful Start.
func (h *lcH) flagOn() {
	h.sc.VerifSetActive(true)
	dastard.VerifNote("flag.on")
}

func (c *lcCall) isDone() bool {
	select {
	case <-c.done:
		return true
	default:
		return false
	}
}

func (c *lcCall) wait(d time.Duration) bool {
	select {
	case <-c.done:
		return true
	case <-time.After(d):
		return false
	}
}

// parked lists the parked goroutines with their roles.
func (h *lcH) parked() (ws []dastard.VerifWaiter, roles []string) {
	ws = dastard.VerifParked()
	for _, w := range ws {
		roles = append(roles, h.roleOf(w.Gid, w.Site))
	}
	return
}

// release lets the goroutine of the given role pass its gate; false when it is not parked.
func (h *lcH) release(role string) bool {
	ws, roles := h.parked()
	for i, w := range ws {
		if roles[i] == role {
			dastard.VerifRelease(w.ID)
			lcSettle()
			return true
		}
	}
	return false
}

// runTo releases role until it is parked at site (true) or it cannot be released any more (false).
func (h *lcH) runTo(role, site string) bool {
	for n := 0; n < 40; n++ {
		ws, roles := h.parked()
		found := false
		for i, w := range ws {
			if roles[i] == role {
				if w.Site == site {
					return true
				}
				found = true
				dastard.VerifRelease(w.ID)
				lcSettle()
				break
			}
		}
		if !found {
			return false
		}
	}
	return false
}

// openGates removes every gate and releases everybody.
func (h *lcH) openGates() {
	dastard.VerifGate()
	for _, w := range dastard.VerifParked() {
		dastard.VerifRelease(w.ID)
	}
}

// lcWorkers lists the ids of the goroutines that belong to a source's life cycle (core loop, producers,
// Abaco readers, Stop callers).
func lcWorkers() map[uint64]bool {
	buf := make([]byte, 4<<20)
	n := runtime.Stack(buf, true)
	out := map[uint64]bool{}
	for _, g := range strings.Split(string(buf[:n]), "\n\n") {
		if strings.Contains(g, "dastard.CoreLoop") || strings.Contains(g, "Source).StartRun") ||
			strings.Contains(g, "readerMainLoop") || strings.Contains(g, "AbacoUDPReceiver") ||
			strings.Contains(g, "(*AbacoSource)") || strings.Contains(g, "(*AnySource).Stop") {
			var id uint64
			fmt.Sscanf(g, "goroutine %d ", &id)
			out[id] = true
		}
	}
	return out
}

// census counts the life-cycle goroutines that did not exist before this case.
func (h *lcH) census() int {
	cnt := 0
	for id := range lcWorkers() {
		if !h.stray[id] {
			cnt++
		}
	}
	return cnt
}

func (h *lcH) resHeld() int {
	if h.kind != "udp" {
		return 0
	}
	addr, _ := net.ResolveUDPAddr("udp", fmt.Sprintf("127.0.0.1:%d", h.port))
	c, err := net.ListenUDP("udp", addr)
	if err != nil {
		return 1
	}
	c.Close()
	return 0
}

// waitTrace waits until pred holds for the trace (polled) or the timeout expires.
func lcWaitTrace(d time.Duration, pred func([]dastard.VerifEvent) bool) bool {
	deadline := time.Now().Add(d)
	for {
		if pred(dastard.VerifTrace(0)) {
			return true
		}
		if time.Now().After(deadline) {
			return false
		}
		time.Sleep(300 * time.Microsecond)
	}
}

func lcCount(tr []dastard.VerifEvent, site string) int {
	n := 0
	for _, e := range tr {
		if e.Site == site {
			n++
		}
	}
	return n
}

// feedBlocks hands n data blocks (then an error block when errAfter) to the scripted source in the background.
func (h *lcH) feedBlocks(n int, errAfter bool) {
	if h.loop == nil {
		return
	}
	h.feedWG.Add(1)
	go func() {
		defer h.feedWG.Done()
		h.setRole(dastard.VerifGoID(), "F")
		data := [][]dastard.RawType{make([]dastard.RawType, 64), make([]dastard.RawType, 64)}
		for i := 0; i < n; i++ {
			if !h.loop.VerifFeed(int64(100000+64*i), data, 0, nil, 0, 400*time.Millisecond) {
				return
			}
		}
		if errAfter {
			h.loop.VerifFeed(0, nil, 0, nil, 1, 400*time.Millisecond)
		}
	}()
}

// writingOn asks the core loop (through the request queue) to start writing LJH files.
func (h *lcH) writingOn(tag string) *lcCall {
	h.wrDir = filepath.Join(lcWorkdir(), "wr_"+tag)
	os.MkdirAll(h.wrDir, 0755)
	cfg := &dastard.WriteControlConfig{Request: "START", Path: h.wrDir, WriteLJH22: true}
	return h.spawnRequest(func() error {
		err := h.ds.WriteControl(cfg)
		if err == nil {
			dastard.VerifNote("note.writingOn")
		}
		return err
	})
}

// finish opens the gates, stops the source if it still runs, waits for every call (watchdog) and
// renders the output part of the line.
func (h *lcH) finish(finalStop bool) string {
	h.openGates()
	for _, c := range h.calls {
		if !c.wait(300 * time.Millisecond) {
			break
		}
	}
	if finalStop && h.ds.GetState() != dastard.Inactive {
		h.spawnStopNoSettle().wait(3 * time.Second)
	}
	hang := 0
	for _, c := range h.calls {
		if !c.wait(3 * time.Second) {
			hang = 1
		}
	}
	h.feedWG.Wait()
	census := 0
	for i := 0; i < 600; i++ { // goroutines need a moment to unwind after their last log entry (up to 3 s under load)
		census = h.census()
		if census == 0 || hang == 1 {
			break
		}
		time.Sleep(5 * time.Millisecond)
	}
	if census != 0 && lcDump != nil {
		lcDump()
	}
	st := int(h.ds.GetState())
	wrA, wrW := h.writingLeft()
	wr := b2i(wrA != 0 || wrW != 0)
	res := h.resHeld()
	tr := dastard.VerifTrace(0)
	dastard.VerifPointsOff()
	if h.wrDir != "" {
		os.RemoveAll(h.wrDir)
	}
	var sb strings.Builder
	fmt.Fprintf(&sb, "TR %d", len(tr))
	n := 0
	var tb strings.Builder
	for _, e := range tr {
		if h.stray[e.Gid] {
			continue
		}
		if hang == 1 && n >= 4000 {
			break // (a hang with a runaway goroutine: the head of the trace is evidence enough)
		}
		n++
		fmt.Fprintf(&tb, " %s:%s", h.roleOf(e.Gid, e.Site), e.Site)
	}
	sb.Reset()
	fmt.Fprintf(&sb, "TR %d%s", n, tb.String())
	fmt.Fprintf(&sb, " CALLS %d", len(h.calls))
	for _, c := range h.calls {
		fmt.Fprintf(&sb, " %s %d", c.role, c.ret)
	}
	fmt.Fprintf(&sb, " FIN st %d go %d wr %d res %d hang %d", st, census, wr, res, hang)
	return sb.String()
}

// ------------------------------------------------------------------------------------------------

func c10Gen(r *Rng, tier string, idx int) (string, func() string) {
	kinds := []string{"tri", "sim", "err", "loop"}
	kind := kinds[r.Intn(len(kinds))]
	c := r.Intn(100)
	switch {
	case idx == 0:
		return "src udp opens 1 sched udpFail", func() string { return lcUDPFail(idx, false) }
	case idx == 1:
		return "src udp opens 1 sched udpBusy", func() string { return lcUDPFail(idx, true) }
	case idx == 40 || (tier == "thorough" && idx%61 == 17):
		variant := r.Intn(6)
		bias := b2i(r.Bool())
		k := r.Range(1, 2)
		return fmt.Sprintf("src roach opens 0 sched roachSrc variant %d bias %d k %d", variant, bias, k),
			func() string { return lcRoachSrc(idx, variant, bias == 1, k) }
	case idx == 80 || (tier == "thorough" && idx%167 == 19):
		k := r.Range(1, 2)
		return fmt.Sprintf("src abaco opens 1 sched abacoRPC k %d", k), func() string { return lcAbacoRPC(idx, k) }
	case idx == 20 || idx == 110 || (tier == "thorough" && idx%131 == 13):
		k := 1 + idx%3
		hold := b2i(idx%2 == 0)
		return fmt.Sprintf("src tri opens 0 sched fastTri k %d hold %d", k, hold), func() string { return lcFastTri(idx, k, hold == 1) }
	case idx == 170 || (tier == "thorough" && idx%149 == 11):
		variant := idx % 2
		return fmt.Sprintf("src abaco opens 1 sched udpBad variant %d", variant), func() string { return lcUDPBad(idx, variant) }
	case idx == 60 || idx == 100 || (tier == "thorough" && idx%53 == 9):
		// configure-error histories on the Lancero source: every failing Configure is eventually followed by a
		// valid one and a Start that must succeed
		var ops []string
		rounds := r.Range(1, 2)
		for i := 0; i < rounds; i++ {
			for j := r.Range(1, 2); j > 0; j-- {
				ops = append(ops, []string{"cfgBad", "cfgDup"}[r.Intn(2)])
			}
			if r.Chance(60) {
				ops = append(ops, "start")
			}
			ops = append(ops, "cfgGood")
			if r.Chance(30) {
				ops = append(ops, "cfgGood")
			}
			ops = append(ops, "start", "stop")
		}
		return fmt.Sprintf("src lancero opens 1 sched cfgErr ops %s", strings.Join(ops, ",")),
			func() string { return lcCfgErr(idx, ops) }
	case idx == 200 || (tier == "thorough" && idx%211 == 7):
		return "src abaco opens 1 sched abacoSelfEnd", func() string { return lcAbacoSelfEnd(idx) }
	case idx == 2 || idx == 130 || (tier == "thorough" && idx%97 == 5):
		kd := []string{"tri", "loop", "sim"}[idx%3]
		holdMs := 3200 + 300*(idx%3)
		if tier == "thorough" && idx != 2 && idx != 130 {
			holdMs = 3500 + 500*(idx%4)
		}
		at := idx % 2
		return fmt.Sprintf("src %s opens 0 sched holdStop at %d holdms %d", kd, at, holdMs),
			func() string { return lcHoldStop(kd, idx, at, holdMs) }
	case c < 4:
		rounds := r.Range(1, 2)
		nreq := r.Range(1, 3)
		k := r.Range(1, 2)
		return fmt.Sprintf("src abaco opens 1 sched asmReq rounds %d nreq %d k %d", rounds, nreq, k),
			func() string { return lcAsmReq(idx, rounds, nreq, k) }
	case c < 9:
		nfail := r.Pick(1, 1, 2)
		req := b2i(r.Chance(50))
		k := r.Range(1, 2)
		first := b2i(r.Chance(40))
		return fmt.Sprintf("src loop opens 0 sched startRunFail nfail %d req %d k %d first %d", nfail, req, k, first),
			func() string { return lcStartRunFail(idx, nfail, req == 1, k, first == 1) }
	case c < 25:
		k := r.Range(1, 4)
		rounds := r.Range(1, 3)
		wr := b2i(r.Chance(35) && kind != "err")
		blocks := r.Range(0, 3)
		return fmt.Sprintf("src %s opens 0 sched seq k %d rounds %d wr %d blocks %d", kind, k, rounds, wr, blocks),
			func() string { return lcSeq(kind, idx, k, rounds, wr == 1, blocks) }
	case c < 31:
		kd := []string{"err", "loop"}[r.Intn(2)]
		second := b2i(r.Chance(40))
		return fmt.Sprintf("src %s opens 0 sched stopDecided second %d", kd, second),
			func() string { return lcStopDecided(kd, idx, second == 1) }
	case c < 40:
		kd := []string{"err", "err", "tri", "sim"}[r.Intn(4)]
		rounds := r.Range(1, 3)
		ss := r.U64() % 1000000
		return fmt.Sprintf("src %s opens 0 sched rpc rounds %d sseed %d", kd, rounds, ss),
			func() string { return lcRPC(kd, idx, rounds, NewRng(ss)) }
	case c < 82:
		k := r.Range(1, 4)
		rounds := r.Range(1, 2)
		wr := b2i(r.Chance(30) && kind != "err")
		selfEnd := b2i(kind == "loop" && r.Chance(40))
		ss := r.U64() % 1000000
		return fmt.Sprintf("src %s opens 0 sched rnd k %d rounds %d wr %d selfend %d sseed %d", kind, k, rounds, wr, selfEnd, ss),
			func() string { return lcRnd(kind, idx, k, rounds, wr == 1, selfEnd == 1, NewRng(ss)) }
	case c < 90:
		site := r.Intn(len(lcStartGates))
		return fmt.Sprintf("src %s opens 0 sched stopAt %d", kind, site),
			func() string { return lcStopAt(kind, idx, site) }
	case c < 94:
		if kind == "err" {
			kind = "tri"
		}
		return fmt.Sprintf("src %s opens 0 sched reuse", kind), func() string { return lcReuse(kind, idx) }
	default:
		when := r.Intn(2)
		pause := r.Intn(2)
		return fmt.Sprintf("src loop opens 0 sched selfW when %d pause %d", when, pause), func() string { return lcSelfW(idx, when, pause == 1) }
	}
}

// lcSeq: no gates (log mode): start, some blocks, optionally writing, k Stops racing each other (and, for
// the self-terminating sources, the source's own end); repeated on the same object.
func lcSeq(kind string, idx, k, rounds int, wr bool, blocks int) string {
	h := lcNew(kind, idx)
	dastard.VerifPointsOn()
	for rd := 0; rd < rounds; rd++ {
		s := h.spawnStart()
		s.wait(3 * time.Second)
		if s.ret != 0 {
			break
		}
		h.flagOn()
		if kind == "loop" {
			h.feedBlocks(blocks, false)
		}
		if blocks > 0 && kind != "err" {
			base := lcCount(dastard.VerifTrace(0), "loop.processed")
			lcWaitTrace(500*time.Millisecond, func(tr []dastard.VerifEvent) bool { return lcCount(tr, "loop.processed") >= base+blocks })
		}
		if wr {
			w := h.writingOn(fmt.Sprintf("%d_%d", idx, rd))
			w.wait(2 * time.Second)
		}
		var ks []*lcCall
		for i := 0; i < k; i++ {
			ks = append(ks, h.spawnStopNoSettle())
		}
		for _, c := range ks {
			c.wait(3 * time.Second)
		}
		h.feedWG.Wait()
	}
	return h.finish(true)
}

// spawnStopNoSettle starts a Stop call without waiting for the trace to become quiet (real race).
func (h *lcH) spawnStopNoSettle() *lcCall {
	h.nK++
	role := fmt.Sprintf("K%d", h.nK)
	c := &lcCall{role: role, done: make(chan struct{}), ret: 2}
	reg := make(chan struct{})
	go func() {
		h.setRole(dastard.VerifGoID(), role)
		close(reg)
		if err := h.ds.Stop(); err != nil {
			c.ret = 1
		} else {
			c.ret = 0
		}
		close(c.done)
	}()
	<-reg
	h.calls = append(h.calls, c)
	return c
}

// lcRnd: every gate site is gated; a seeded scheduler chooses which parked goroutine moves next and when
// the k Stop calls (and the writing request) are issued.  Start and Stop calls do not overlap each other
// (discipline E of the model); Stops overlap each other, the requests and the source's own termination.
func lcRnd(kind string, idx, k, rounds int, wr, selfEnd bool, r *Rng) string {
	h := lcNew(kind, idx)
	dastard.VerifPointsOn()
	dastard.VerifGate(lcAllGates...)
	for rd := 0; rd < rounds; rd++ {
		s := h.spawnStart()
		// the Start call runs alone (gated, so every step is a separate scheduling decision)
		for n := 0; n < 60 && !s.isDone(); n++ {
			ws, _ := h.parked()
			if len(ws) == 0 {
				lcSettle()
				if len(dastard.VerifParked()) == 0 && !s.isDone() {
					s.wait(50 * time.Millisecond)
				}
				continue
			}
			w := ws[r.Intn(len(ws))]
			dastard.VerifRelease(w.ID)
			lcSettle()
		}
		if !s.wait(2*time.Second) || s.ret != 0 {
			break
		}
		h.flagOn()
		if kind == "loop" {
			h.feedBlocks(r.Range(1, 3), selfEnd)
		}
		var ks []*lcCall
		var w *lcCall
		wrLeft := wr
		for n := 0; n < 400; n++ {
			allDone := len(ks) == k
			for _, c := range ks {
				if !c.isDone() {
					allDone = false
				}
			}
			if allDone && (w == nil || w.isDone()) {
				break
			}
			ws, _ := h.parked()
			nopt := len(ws)
			canStop := len(ks) < k
			canWr := wrLeft && len(ks) == 0
			opts := nopt + b2i(canStop) + b2i(canWr)
			if opts == 0 {
				lcSettle()
				time.Sleep(200 * time.Microsecond)
				continue
			}
			c := r.Intn(opts)
			switch {
			case c < nopt:
				dastard.VerifRelease(ws[c].ID)
				lcSettle()
			case canStop && c == nopt:
				ks = append(ks, h.spawnStop())
			default:
				wrLeft = false
				w = h.writingOn(fmt.Sprintf("%d_%d", idx, rd))
			}
		}
		// let this round finish before the next Start is issued
		dastard.VerifGate()
		for _, p := range dastard.VerifParked() {
			dastard.VerifRelease(p.ID)
		}
		bad := false
		for _, c := range h.calls {
			if !c.wait(3 * time.Second) {
				bad = true
			}
		}
		h.feedWG.Wait()
		if bad {
			break
		}
		if rd+1 < rounds {
			lcWaitTrace(time.Second, func([]dastard.VerifEvent) bool { return h.ds.GetState() == dastard.Inactive })
			lcSettle()
			dastard.VerifGate(lcAllGates...)
		}
	}
	return h.finish(true)
}

// lcStopAt: a Stop call issued while the Start call is parked between two of its steps.
func lcStopAt(kind string, idx, site int) string {
	h := lcNew(kind, idx)
	dastard.VerifPointsOn()
	dastard.VerifGate(lcStartGates...)
	s := h.spawnStart()
	h.runTo(s.role, lcStartGates[site])
	k := h.spawnStop()
	k.wait(100 * time.Millisecond)
	h.openGates()
	s.wait(3 * time.Second)
	k.wait(3 * time.Second)
	if kind == "loop" {
		h.feedBlocks(1, false)
	}
	return h.finish(true)
}

// lcReuse: Stop A is parked between its lock section and its wait; the run ends, Stop B reports, a new Start
// succeeds, then A is released: it must return at once (it waits for the run IT stopped), with the new run
// untouched.  (Before the repair d9d435f its wait referred to the new run.)
func lcReuse(kind string, idx int) string {
	h := lcNew(kind, idx)
	dastard.VerifPointsOn()
	s1 := h.spawnStart()
	s1.wait(3 * time.Second)
	h.flagOn()
	if kind == "loop" {
		h.feedBlocks(1, false)
	}
	dastard.VerifGate("stop.beforeWait")
	a := h.spawnStop()
	lcWaitTrace(2*time.Second, func([]dastard.VerifEvent) bool { return h.ds.GetState() == dastard.Inactive })
	dastard.VerifGate()
	b := h.spawnStop()
	b.wait(2 * time.Second)
	s2 := h.spawnStart()
	s2.wait(3 * time.Second)
	if kind == "loop" {
		h.feedBlocks(1, false)
	}
	h.release(a.role)
	// its run is over: it must return now, although a new run is active (1.5 s: generous under load; a Stop
	// attached to the new run stays blocked until that run is stopped)
	blocked := !a.wait(1500 * time.Millisecond)
	dastard.VerifNote(fmt.Sprintf("obs.reuse.%d.%d", b2i(blocked), int(h.ds.GetState())))
	return h.finish(true)
}

// obsFailed records, after a failed Start, what the real object says about its completion barrier: state,
// whether runDone.Wait() returns (counter 0) and the run-done channel (0 nil, 1 open, 2 closed).
func (h *lcH) obsFailed() {
	o, ok := h.ds.(interface {
		VerifRunDoneState(time.Duration) (bool, int)
	})
	if !ok {
		return
	}
	idle, done := o.VerifRunDoneState(150 * time.Millisecond)
	dastard.VerifNote(fmt.Sprintf("obs.failed.%d.%d.%d", int(h.ds.GetState()), 1-b2i(idle), done))
}

// lcStartRunFail: StartRun fails (after RunDoneActivate) nfail times, then a Start succeeds on the same object,
// optionally a request is served, then k Stops.  With first: a complete start/stop round comes before.
func lcStartRunFail(idx, nfail int, withReq bool, k int, first bool) string {
	h := lcNew("loop", idx)
	dastard.VerifPointsOn()
	if first {
		s := h.spawnStart()
		s.wait(3 * time.Second)
		h.flagOn()
		h.feedBlocks(1, false)
		h.feedWG.Wait()
		h.spawnStop().wait(3 * time.Second)
		h.sc.VerifRefresh()
		dastard.VerifNote("flag.refresh")
	}
	h.loop.VerifFailStartRun(nfail)
	for i := 0; i < nfail; i++ {
		s := h.spawnStart()
		s.wait(3 * time.Second)
		h.obsFailed()
	}
	s := h.spawnStart()
	if s.wait(3*time.Second) && s.ret == 0 {
		h.flagOn()
		h.feedBlocks(1, false)
		h.feedWG.Wait()
		if withReq {
			b := false
			var reply bool
			h.nR++
			h.spawn(fmt.Sprintf("R%d", h.nR), func() error { return h.sc.CoupleErrToFB(&b, &reply) }).wait(3 * time.Second)
		}
		var ks []*lcCall
		for i := 0; i < k; i++ {
			ks = append(ks, h.spawnStopNoSettle())
		}
		for _, c := range ks {
			c.wait(3 * time.Second)
		}
	}
	return h.finish(true)
}

// lcStopDecided: a Stop call is parked INSIDE its lock section, after it has decided "the source is Active" and
// before it writes Stopping (site stop.onActive), while the source ends by itself (error block).  With the lock
// held the core loop's RunDoneDeactivate cannot run until Stop is released, so the write lands on an Active
// source.  Nothing here may touch the state lock while Stop is parked (no GetState): the harness waits on the
// trace and on a short arrival timeout instead.  Afterwards the same object must be startable again.
func lcStopDecided(kind string, idx int, second bool) string {
	h := lcNew(kind, idx)
	dastard.VerifPointsOn()
	dastard.VerifGate("prod.sendError", "stop.onActive")
	s := h.spawnStart()
	if !s.wait(3*time.Second) || s.ret != 0 {
		return h.finish(true)
	}
	h.flagOn()
	if kind == "loop" {
		h.feedBlocks(0, true)
	}
	lcWaitTrace(time.Second, func(tr []dastard.VerifEvent) bool { return lcCount(tr, "prod.sendError") > 0 })
	k := h.spawnStop() // parks at stop.onActive, holding the state lock
	h.release("P")     // the error block reaches the loop: it leaves its loop and heads for RunDoneDeactivate
	lcWaitTrace(time.Second, func(tr []dastard.VerifEvent) bool { return lcCount(tr, "loop.gotError") > 0 })
	time.Sleep(30 * time.Millisecond) // arrival timeout: a deactivation blocked on the state lock does not arrive
	h.release(k.role)
	k.wait(3 * time.Second)
	if second {
		h.spawnStop().wait(3 * time.Second)
	}
	lcWaitTrace(time.Second, func(tr []dastard.VerifEvent) bool { return lcCount(tr, "run.deactivate") > 0 })
	lcSettle()
	h.spawnStart().wait(3 * time.Second) // the same object must be startable again
	return h.finish(true)
}

// lcHoldStop: the core loop is held at a gate (at 0: in front of its select, at 1: right after it has taken a block,
// i.e. "inside" block processing) for longer than any plausible timeout while a Stop call is pending.  Stop must
// not return during the hold: the run is still alive.  After the release the usual post-conditions are checked
// and the same object is started again.
func lcHoldStop(kind string, idx, at, holdMs int) string {
	h := lcNew(kind, idx)
	dastard.VerifPointsOn()
	s := h.spawnStart()
	if !s.wait(3*time.Second) || s.ret != 0 {
		return h.finish(true)
	}
	h.flagOn()
	site := []string{"loop.select", "loop.gotBlock"}[at]
	dastard.VerifGate(site)
	if kind == "loop" {
		h.feedBlocks(3, false) // after the gate is set: the loop reaches the site again with these blocks
	}
	// wait until the loop is parked there
	parked := lcWaitTrace(3*time.Second, func([]dastard.VerifEvent) bool {
		for _, w := range dastard.VerifParked() {
			if w.Site == site {
				return true
			}
		}
		return false
	})
	if !parked { // (cannot happen unless the machine is badly overloaded) no hold, no claim
		dastard.VerifNote("note.holdSkipped")
		return h.finish(true)
	}
	k := h.spawnStopNoSettle()
	returned := k.wait(time.Duration(holdMs) * time.Millisecond)
	// what the real object says while the loop is still held
	dastard.VerifNote(fmt.Sprintf("obs.hold.%d.%d", b2i(returned), int(h.ds.GetState())))
	h.openGates()
	k.wait(5 * time.Second)
	lcWaitTrace(2*time.Second, func(tr []dastard.VerifEvent) bool { return h.ds.GetState() == dastard.Inactive })
	h.feedWG.Wait()
	lcSettle()
	if h.ds.GetState() == dastard.Inactive {
		h.spawnStart().wait(3 * time.Second) // restartable
	}
	return h.finish(true)
}

// writingLeft reports what is left of the run's writing on the real object, not through WritingIsActive (the
// method under test): the Active flag of the reported writing state and the channels with a writer installed.
func (h *lcH) writingLeft() (active, writers int) {
	active = b2i(h.ds.ComputeWritingState().Active)
	if o, ok := h.ds.(interface{ VerifWritersInstalled() int }); ok {
		writers = o.VerifWritersInstalled()
	}
	return
}

// lcFastTri: a real TriangleSource that cannot keep up with its own schedule (2 samples per buffer at 10 MHz, 8
// channels: every buffer is due before the previous one is processed).  A few blocks, optionally the loop held at
// `loop.processed` for a few ms (many buffer periods), then k concurrent Stops: they must return, the source must
// end Inactive with its goroutines gone, and it must be startable again.
func lcFastTri(idx, k int, hold bool) string {
	h := lcNew("tri", idx)
	ts := dastard.NewTriangleSource()
	if err := ts.Configure(&dastard.TriangleSourceConfig{Nchan: 8, SampleRate: 1e7, Min: 0, Max: 1}); err != nil {
		panic(err)
	}
	h.ds = ts
	h.sc = dastard.VerifNewSourceControl(ts, 8, 32)
	h.sc.VerifSetActive(false)
	dastard.VerifPointsOn()
	for round := 0; round < 2; round++ {
		s := h.spawnStart()
		if !s.wait(3*time.Second) || s.ret != 0 {
			break
		}
		h.flagOn()
		base := lcCount(dastard.VerifTrace(0), "loop.processed")
		lcWaitTrace(time.Second, func(tr []dastard.VerifEvent) bool { return lcCount(tr, "loop.processed") >= base+5 })
		if hold && round == 0 {
			dastard.VerifGate("loop.processed")
			lcWaitTrace(time.Second, func([]dastard.VerifEvent) bool { return len(dastard.VerifParked()) > 0 })
			time.Sleep(3 * time.Millisecond) // thousands of buffer periods: the producer is far behind
		}
		var ks []*lcCall
		for i := 0; i < k; i++ {
			ks = append(ks, h.spawnStopNoSettle())
		}
		if hold && round == 0 {
			h.openGates()
		}
		back := true
		for _, c := range ks {
			if !c.wait(3 * time.Second) {
				back = false
			}
		}
		if !back {
			dastard.VerifPointsOff() // a runaway producer would fill the trace; what is logged so far is the evidence
			break
		}
		h.sc.VerifRefresh()
		dastard.VerifNote("flag.refresh")
		lcSettle()
	}
	return h.finish(true)
}

// lcSelfW: the scripted source ends by itself (error block) while writing is active — or active and PAUSED —; then
// Stop is called.  Once the run is Inactive nothing of its writing may be left (state inactive, no writer installed
// on any channel), and a restart of the same object must be clean.
func lcSelfW(idx, when int, pause bool) string {
	h := lcNew("loop", idx)
	dastard.VerifPointsOn()
	s := h.spawnStart()
	s.wait(3 * time.Second)
	h.flagOn()
	h.feedBlocks(1, false)
	h.feedWG.Wait()
	w := h.writingOn(fmt.Sprintf("%d_s", idx))
	w.wait(2 * time.Second)
	if pause {
		h.spawnRequest(func() error { return h.ds.WriteControl(&dastard.WriteControlConfig{Request: "PAUSE"}) }).wait(2 * time.Second)
	}
	if when == 0 {
		// the source ends first, Stop afterwards
		h.feedBlocks(0, true)
		lcWaitTrace(2*time.Second, func([]dastard.VerifEvent) bool { return h.ds.GetState() == dastard.Inactive })
		a, wr := h.writingLeft()
		dastard.VerifNote(fmt.Sprintf("obs.selfw.%d.%d.%d", int(h.ds.GetState()), a, wr))
		k := h.spawnStop()
		k.wait(2 * time.Second)
	} else {
		// Stop first: the normal path cleans up
		k := h.spawnStop()
		k.wait(2 * time.Second)
		a, wr := h.writingLeft()
		dastard.VerifNote(fmt.Sprintf("obs.selfw.%d.%d.%d", int(h.ds.GetState()), a, wr))
	}
	// restart of the same object: starts with no writing inherited
	if h.ds.GetState() == dastard.Inactive {
		s2 := h.spawnStart()
		if s2.wait(3*time.Second) && s2.ret == 0 {
			a, wr := h.writingLeft()
			dastard.VerifNote(fmt.Sprintf("obs.selfw.%d.%d.%d", 0, a, wr))
		}
	}
	return h.finish(true)
}

// lcUDPFail: an Abaco source on a UDP port nobody sends to: Start fails (no packets within the sampling
// time).  With busy: a second port of the configuration is already bound by somebody else, so one receiver
// fails to start while the other one has opened its socket.  Is the source back to a state from which
// it can be configured and started (the ports free again, no reader goroutines left)?
func lcUDPFail(idx int, busy bool) string {
	h := lcNew("udp", idx)
	var hold *net.UDPConn
	if busy {
		other := h.port + 1
		addr, _ := net.ResolveUDPAddr("udp", fmt.Sprintf("127.0.0.1:%d", other))
		hold, _ = net.ListenUDP("udp", addr)
		h.ports = []int{other}
		h.configureUDP()
	}
	dastard.VerifPointsOn()
	s1 := h.spawnStart()
	s1.wait(8 * time.Second)
	h.obsFailed()
	if h.resHeld() == 1 {
		dastard.VerifNote("note.portStillBound")
	}
	if hold != nil {
		hold.Close()
	}
	if h.ds.GetState() == dastard.Inactive {
		h.configureUDP() // a client configures before every start
	}
	s2 := h.spawnStart()
	s2.wait(8 * time.Second)
	return h.finish(false)
}
