package main

// Canonicalisation of a logged C17 trace: goroutine ids -> thread ids by role, object ids -> variables /
// synchronisation objects in the encoding of lean/DastardV/Model/C17.lean (`mkSpec`).
//
//   thread  = (b*n + i)*16 + kind           kinds: 0 R (control client)  1 L (core loop)  2 P (producer / reader)
//             3 S (status thread)  4 A (block assembly, b)  5 AW (assembly worker b,i)
//             6 W1a 7 W1b (first-wave worker b,i; a = before L took its first request, b = after)
//             8 W2a 9 W2b (second wave)  10 AR (archive writer j)  11 other
//   var     = idx*16 + class                classes: 1 nfn 2 etq 3 blk 4 seg 5 arch 6 afill 7 pst 8 ptrig 9 bcon
//             10 trs 11 wsa 12 wsc 13 vip 14 bst 15 lastm 0 rloc
//   object  = idx*16 + class                classes: 1 nb 2 bufc 3 qreq 4 qres 5 cm 6 cmpl 7 fl 8 wsm 9 cfg 10 wga
//             11 wgp 12 rund 13 abort 14 rundone
//
// Sources whose blocks are built while the previous one is still being processed (tri, sim: the producer does not
// wait for the core loop) get one variable per block object and one logical channel per message (single sender,
// single receiver: the k-th send is the k-th receive).  Abaco / Lancero build block b+1 only after the core loop
// has finished block b (getNextBlock is called after ProcessSegments), so their block objects are merged into one
// variable `blk` / `seg i`: merging can only add conflicts, never hide one.

import (
	"fmt"
	"strconv"
	"strings"

	"github.com/usnistgov/dastard"
)

func c17Enc(cls, idx int) int { return idx*16 + cls }

var c17Var = map[string]int{"nfn": 1, "etq": 2, "blk": 3, "seg": 4, "arch": 5, "afill": 6, "pst": 7, "ptrig": 8, "bcon": 9,
	"trs": 10, "wsa": 11, "wsc": 12, "vip": 13, "bst": 14, "lastm": 15, "rloc": 0}
var c17Obj = map[string]int{"nb": 1, "bufc": 2, "qreq": 3, "qres": 4, "cm": 5, "cmpl": 6, "fl": 7, "wsm": 8, "cfg": 9, "wga": 10,
	"wgp": 11, "rund": 12, "abort": 13, "rundone": 14}
var c17Ev = map[string]int{"rd": 0, "wr": 1, "send": 2, "recv": 3, "close": 4, "recvc": 5, "lock": 6, "unlock": 7, "wgadd": 8,
	"wgdone": 9, "wgwait": 10, "spawn": 11, "start": 12}

type c17E struct {
	gid        uint64
	kind, name string // kind: rd wr send recv ...
	id         int
}

func c17ParseSite(e dastard.VerifEvent) (c17E, bool) {
	s := e.Site
	var pre string
	switch {
	case strings.HasPrefix(s, "acc.r."):
		pre, s = "rd", s[6:]
	case strings.HasPrefix(s, "acc.w."):
		pre, s = "wr", s[6:]
	case strings.HasPrefix(s, "syn."):
		s = s[4:]
		k := strings.IndexByte(s, '.')
		if k < 0 {
			return c17E{}, false
		}
		pre, s = s[:k], s[k+1:]
	default:
		return c17E{}, false
	}
	h := strings.IndexByte(s, '#')
	if h < 0 {
		return c17E{}, false
	}
	id, _ := strconv.Atoi(s[h+1:])
	return c17E{e.Gid, pre, s[:h], id}, true
}

// c17Canon returns "n <nchan> nblk <..> ntrs <..> narch <..> merged <0|1> EVS <count> tid ev arg ..." + the run summary
func c17Canon(tr []dastard.VerifEvent, sum string, cfg c17Cfg) string {
	if os17dbg != "" {
		for _, e := range tr {
			fmt.Fprintf(os17err, "%d %s\n", e.Gid, e.Site)
		}
	}
	merged := cfg.src == "abaco" || cfg.src == "lancero"
	var evs []c17E
	var rgid uint64
	for _, e := range tr {
		if e.Site == "start.enter" && rgid == 0 {
			rgid = e.Gid
		}
		if ce, ok := c17ParseSite(e); ok {
			evs = append(evs, ce)
		}
	}
	// children of spawns: k-th spawn of (role,id) <-> k-th start of (role,id)
	type key struct {
		name string
		id   int
	}
	starts := map[key][]uint64{}
	for _, e := range evs {
		if e.kind == "start" {
			k := key{e.name, e.id}
			starts[k] = append(starts[k], e.gid)
		}
	}
	nspawn := map[key]int{}
	tid := map[uint64]int{rgid: 0}
	for _, e := range evs { // the status thread: receives client messages / saves the configuration
		if e.gid != rgid && ((e.name == "cm" && e.kind == "recv") || (e.name == "cfg" && e.kind == "lock") || e.name == "lastm") {
			tid[e.gid] = c17Enc(3, 0)
			break
		}
	}
	other := 0
	tidOf := func(g uint64) int {
		if t, ok := tid[g]; ok {
			return t
		}
		other++
		tid[g] = c17Enc(11, other)
		return tid[g]
	}
	dspIdx := map[int]int{}
	dsp := func(id int) int {
		if i, ok := dspIdx[id]; ok {
			return i
		}
		dspIdx[id] = len(dspIdx)
		return dspIdx[id]
	}
	blkIdx, segIdx, afIdx, trsIdx, cmplIdx, wgaIdx := map[int]int{}, map[int][2]int{}, map[int]int{}, map[int]int{}, map[int]int{}, map[int]int{}
	first := func(m map[int]int, id int) int {
		if i, ok := m[id]; ok {
			return i
		}
		m[id] = len(m)
		return m[id]
	}
	segInBlk := 0
	seg := func(id int) [2]int {
		if v, ok := segIdx[id]; ok {
			return v
		}
		b := len(blkIdx) - 1
		if b < 0 {
			b = 0
		}
		segIdx[id] = [2]int{b, segInBlk}
		segInBlk++
		return segIdx[id]
	}
	wgpEpoch := map[int]int{} // wait-group object -> current epoch (0 = none open)
	nEpoch := 0
	asmCount, arCount := 0, 0
	asmOf := map[uint64]int{}  // A goroutine -> b
	asmwN := map[uint64]int{}  // A goroutine -> workers spawned
	lRecvNb, lRecvReq := 0, 0  // counters of L
	pSendNb, rSendReq := 0, 0  // counters of P, R
	var lgid, pgid uint64
	var out []int
	emit := func(t, ev, arg int) { out = append(out, t, ev, arg) }
	nchan := 0
	{
		seen := map[int]bool{}
		for _, e := range evs {
			if e.name == "pst" || e.name == "ptrig" || e.name == "w1" || e.name == "w2" {
				seen[e.id] = true
			}
		}
		nchan = len(seen)
	}
	for _, e := range evs {
		if e.kind == "rd" || e.kind == "wr" {
			cls, ok := c17Var[e.name]
			if !ok {
				continue
			}
			idx := 0
			switch e.name {
			case "blk":
				if _, seen := blkIdx[e.id]; !seen && e.kind == "wr" {
					segInBlk = 0
				}
				b := first(blkIdx, e.id)
				if !merged {
					idx = b + 1
				}
			case "seg":
				v := seg(e.id)
				idx = v[1]
				if !merged {
					idx = (v[0]+1)*nchan + v[1]
				}
			case "afill":
				idx = first(afIdx, e.id)
			case "trs":
				idx = first(trsIdx, e.id)
			case "pst", "ptrig":
				idx = dsp(e.id)
			}
			emit(tidOf(e.gid), c17Ev[e.kind], c17Enc(cls, idx))
			continue
		}
		switch e.kind {
		case "spawn":
			parent := tidOf(e.gid)
			k := key{e.name, e.id}
			n := nspawn[k]
			nspawn[k]++
			var child uint64
			if n < len(starts[k]) {
				child = starts[k][n]
			}
			ct := 0
			switch e.name {
			case "loop":
				ct = c17Enc(1, 0)
				lgid = child
			case "prod":
				ct = c17Enc(2, 0)
				pgid = child
			case "asm":
				ct = c17Enc(4, asmCount*nchan)
				asmOf[child] = asmCount
				asmCount++
			case "asmw":
				b := asmOf[e.gid]
				i := asmwN[e.gid]
				asmwN[e.gid]++
				seg(e.id)
				ct = c17Enc(5, b*nchan+i)
			case "w1", "w2":
				kind := 6
				if e.name == "w2" {
					kind = 8
				}
				if lRecvReq > 0 {
					kind++
				}
				i := dsp(e.id)
				ct = c17Enc(kind, (lRecvNb-1)*nchan+i)
			case "arw":
				ct = c17Enc(10, first(cmplIdx, e.id))
				arCount++
			default:
				other++
				ct = c17Enc(11, other)
			}
			if child != 0 {
				tid[child] = ct
			}
			emit(parent, c17Ev["spawn"], ct)
			continue
		case "start":
			emit(tidOf(e.gid), c17Ev["start"], 0)
			continue
		}
		cls, ok := c17Obj[e.name]
		if !ok {
			continue
		}
		idx := 0
		t := tidOf(e.gid)
		switch e.name {
		case "nb":
			if !merged {
				switch {
				case e.kind == "send" && e.gid == pgid:
					pSendNb++
					idx = pSendNb
				case e.kind == "recv" && e.gid == lgid:
					idx = lRecvNb + 1
				}
			}
			if e.kind == "recv" && e.gid == lgid {
				lRecvNb++
			}
		case "qreq":
			if e.kind == "send" {
				rSendReq++
				idx = rSendReq
			} else if e.kind == "recv" {
				lRecvReq++
				idx = lRecvReq
			}
		case "cm":
			idx = first(trsIdx, e.id)
		case "cmpl":
			idx = first(cmplIdx, e.id)
		case "wga":
			idx = first(wgaIdx, e.id)
		case "wgp":
			if wgpEpoch[e.id] == 0 {
				nEpoch++
				wgpEpoch[e.id] = nEpoch
			}
			idx = wgpEpoch[e.id]
			if e.kind == "wgwait" {
				wgpEpoch[e.id] = 0
			}
		}
		emit(t, c17Ev[e.kind], c17Enc(cls, idx))
	}
	var sb strings.Builder
	fmt.Fprintf(&sb, "n %d nblk %d ntrs %d narch %d merged %d EVS %d", nchan, len(blkIdx), len(trsIdx), len(cmplIdx), b2i(merged), len(out)/3)
	for _, v := range out {
		sb.WriteByte(' ')
		sb.WriteString(strconv.Itoa(v))
	}
	sb.WriteString(" RUN " + strings.ReplaceAll(sum, " ", ","))
	return sb.String()
}
