package main

import (
	"fmt"
	"sort"
	"strings"

	"github.com/usnistgov/dastard"
)

func init() { gens["C09"] = genC09 }

func pairsStr(ps [][2]int) string {
	var sb strings.Builder
	fmt.Fprintf(&sb, "%d", len(ps))
	for _, p := range ps {
		fmt.Fprintf(&sb, " %d %d", p[0], p[1])
	}
	return sb.String()
}

// genC09 drives the real ChangeGroupTrigger / StopTriggerCoupling / SetCoupling / Distribute /
// ComputeGroupTriggerState of a prepared source through generated edit histories.
func genC09(r *Rng, tier string, o *Out) {
	n := 600
	if tier == "thorough" {
		n = 20000
	}
	for i := 0; i < n; i++ {
		nch := r.Pick(1, 2, 2, 3, 4, 4, 6, 8)
		vs := dastard.NewVerifSource(nch, 10000)
		if err := vs.VerifPrepare(4, 8); err != nil {
			panic(err)
		}
		dastard.VerifDrainClientMessages()
		b := vs.VerifBroker()
		nops := r.Range(1, 14)
		var sb strings.Builder
		fmt.Fprintf(&sb, "n %d ops %d", nch, nops)
		idx := func() int {
			switch c := r.Intn(100); {
			case c < 75:
				return r.Intn(nch)
			case c < 85:
				return -1 - r.Intn(3)
			case c < 95:
				return nch + r.Intn(3)
			default:
				return r.Pick(99, 1000000, -1000000)
			}
		}
		for k := 0; k < nops; k++ {
			distOut := "-"
			switch c := r.Intn(100); {
			case c < 35, c < 55:
				turnon := c < 35
				np := r.Range(1, 4)
				ps := make([][2]int, 0, np)
				conn := make(map[int][]int)
				for j := 0; j < np; j++ {
					s, rx := idx(), idx()
					if r.Chance(10) {
						rx = s // self connection
					}
					conn[s] = append(conn[s], rx)
				}
				// protocol order: sources ascending (edits within one request commute)
				keys := make([]int, 0, len(conn))
				for s := range conn {
					keys = append(keys, s)
				}
				sort.Ints(keys)
				for _, s := range keys {
					for _, rx := range conn[s] {
						ps = append(ps, [2]int{s, rx})
					}
				}
				gts := dastard.GroupTriggerState{Connections: conn}
				vs.ChangeGroupTrigger(turnon, &gts)
				if turnon {
					fmt.Fprintf(&sb, " A %s", pairsStr(ps))
				} else {
					fmt.Fprintf(&sb, " X %s", pairsStr(ps))
				}
			case c < 62:
				vs.StopTriggerCoupling()
				sb.WriteString(" S")
			case c < 72:
				mode := r.Range(1, 3)
				if nch%2 == 1 { // TDM sources always have an even number of channels
					vs.StopTriggerCoupling()
					sb.WriteString(" S")
				} else {
					dastard.VerifLanceroCoupling(b, nch, dastard.CouplingStatus(mode))
					fmt.Fprintf(&sb, " C %d", mode)
				}
			default:
				prim := make(map[int][]int64)
				fmt.Fprintf(&sb, " D %d", nch)
				for ch := 0; ch < nch; ch++ {
					m := r.Pick(0, 0, 1, 2, 3)
					fr := make([]int64, m)
					base := int64(r.Intn(1000))
					for j := range fr {
						base += int64(r.Range(0, 50))
						fr[j] = base
					}
					prim[ch] = fr
					sb.WriteString(" " + ints(fr))
				}
				func() {
					defer func() {
						if e := recover(); e != nil {
							distOut = "P"
						}
					}()
					res := dastard.VerifBrokerDistribute(b, prim)
					rxs := make([]int, 0, len(res))
					for rx := range res {
						rxs = append(rxs, rx)
					}
					sort.Ints(rxs)
					var ds strings.Builder
					fmt.Fprintf(&ds, "M %d", len(rxs))
					for _, rx := range rxs {
						fmt.Fprintf(&ds, " %d %s", rx, ints(res[rx]))
					}
					distOut = ds.String()
				}()
			}
			// observation: reported state (sorted), counter, distribution
			st := vs.ComputeGroupTriggerState().Connections
			var ps [][2]int
			for s, rxs := range st {
				for _, rx := range rxs {
					ps = append(ps, [2]int{s, rx})
				}
			}
			sort.Slice(ps, func(a, b int) bool {
				if ps[a][0] != ps[b][0] {
					return ps[a][0] < ps[b][0]
				}
				return ps[a][1] < ps[b][1]
			})
			fmt.Fprintf(&sb, " => %s %d %s", pairsStr(ps), dastard.VerifBrokerCount(b), distOut)
		}
		o.Case("%s", sb.String())
	}
}
