// dvh — correspondence harness: generates cases from one PRNG seed, runs the real dastard
// code in-process and writes one protocol line per case (input + implementation output).
package main

import (
	"bufio"
	"flag"
	"fmt"
	"os"
	"sort"
	"strings"
)

// Rng is a splitmix64 generator: every random choice of a run derives from one seed.
type Rng struct{ s uint64 }

func NewRng(seed uint64) *Rng { return &Rng{s: seed*0x9E3779B97F4A7C15 + 0x1234567} }
func (r *Rng) U64() uint64 {
	r.s += 0x9E3779B97F4A7C15
	z := r.s
	z = (z ^ (z >> 30)) * 0xBF58476D1CE4E5B9
	z = (z ^ (z >> 27)) * 0x94D049BB133111EB
	return z ^ (z >> 31)
}
func (r *Rng) Intn(n int) int {
	if n <= 0 {
		return 0
	}
	return int(r.U64() % uint64(n))
}
func (r *Rng) Range(lo, hi int) int { return lo + r.Intn(hi-lo+1) } // inclusive
func (r *Rng) Bool() bool           { return r.U64()&1 == 1 }
func (r *Rng) Chance(pct int) bool  { return r.Intn(100) < pct }
func (r *Rng) Pick(xs ...int) int   { return xs[r.Intn(len(xs))] }

// Out collects the case lines.
type Out struct {
	w    *bufio.Writer
	prop string
	seed uint64
	n    int
}

func (o *Out) Case(format string, a ...interface{}) {
	fmt.Fprintf(o.w, "%s %d %d ", o.prop, o.n, o.seed)
	fmt.Fprintf(o.w, format, a...)
	o.w.WriteByte('\n')
	o.n++
}

func ints[T ~int | ~int64 | ~int32 | ~uint16 | ~uint32 | ~uint64 | ~uint8 | ~int16](xs []T) string {
	var sb strings.Builder
	fmt.Fprintf(&sb, "%d", len(xs))
	for _, x := range xs {
		fmt.Fprintf(&sb, " %d", x)
	}
	return sb.String()
}

func b2i(b bool) int {
	if b {
		return 1
	}
	return 0
}

func hexs(b []byte) string {
	if len(b) == 0 {
		return "-"
	}
	return fmt.Sprintf("%x", b)
}

type genFunc func(r *Rng, tier string, o *Out)

var gens = map[string]genFunc{}

func main() {
	seed := flag.Uint64("seed", 1, "PRNG seed")
	tier := flag.String("tier", "quick", "quick|thorough")
	outp := flag.String("out", "-", "output file")
	flag.Parse()
	if flag.NArg() < 1 {
		names := []string{}
		for k := range gens {
			names = append(names, k)
		}
		sort.Strings(names)
		fmt.Fprintln(os.Stderr, "usage: dvh [-seed N] [-tier T] [-out F] <prop>; props:", names)
		os.Exit(2)
	}
	prop := flag.Arg(0)
	g, ok := gens[prop]
	if !ok {
		fmt.Fprintln(os.Stderr, "unknown property", prop)
		os.Exit(2)
	}
	f := os.Stdout
	if *outp != "-" {
		var err error
		f, err = os.Create(*outp)
		if err != nil {
			fmt.Fprintln(os.Stderr, err)
			os.Exit(2)
		}
		defer f.Close()
	}
	w := bufio.NewWriterSize(f, 1<<20)
	o := &Out{w: w, prop: prop, seed: *seed}
	g(NewRng(*seed), *tier, o)
	w.Flush()
}
