// dvh — correspondence harness: generates cases from one PRNG seed, runs the real dastard
// code in-process and writes one protocol line per case (input + implementation output).
package main

import (
	"bufio"
	"bytes"
	"flag"
	"fmt"
	"io"
	"log"
	"os"
	"os/exec"
	"sort"
	"strings"
	"syscall"
	"time"
)

// Rng is a splitmix64 generator: every random choice of a run derives from one seed.
type Rng struct{ s uint64 }

func NewRng(seed uint64) *Rng { return &Rng{s: seed*0x9E3779B97F4A7C15 + 0x1234567} }
func (r *Rng) U64() uint64 {
	r.s += 0x9E3779B97F4A7C15
	z := r.s
	z = (z ^ (z >> 30)) * 0xBF58476D1CE4E5B9
	z = (z ^ (z >> 27)) * 0x94D049BB133111EB
	return z ^ (z >> 31)
}
func (r *Rng) Intn(n int) int {
	if n <= 0 {
		return 0
	}
	return int(r.U64() % uint64(n))
}
func (r *Rng) Range(lo, hi int) int { return lo + r.Intn(hi-lo+1) } // inclusive
func (r *Rng) Bool() bool           { return r.U64()&1 == 1 }
func (r *Rng) Chance(pct int) bool  { return r.Intn(100) < pct }
func (r *Rng) Pick(xs ...int) int   { return xs[r.Intn(len(xs))] }

// Out collects the case lines.
type Out struct {
	w    *bufio.Writer
	prop string
	seed uint64
	n    int
}

func (o *Out) Case(format string, a ...interface{}) {
	fmt.Fprintf(o.w, "%s %d %d ", o.prop, o.n, o.seed)
	fmt.Fprintf(o.w, format, a...)
	o.w.WriteByte('\n')
	o.n++
}

func ints[T ~int | ~int64 | ~int32 | ~uint16 | ~uint32 | ~uint64 | ~uint8 | ~int16](xs []T) string {
	var sb strings.Builder
	fmt.Fprintf(&sb, "%d", len(xs))
	for _, x := range xs {
		fmt.Fprintf(&sb, " %d", x)
	}
	return sb.String()
}

func b2i(b bool) int {
	if b {
		return 1
	}
	return 0
}

func hexs(b []byte) string {
	if len(b) == 0 {
		return "-"
	}
	return fmt.Sprintf("%x", b)
}

type genFunc func(r *Rng, tier string, o *Out)

var gens = map[string]genFunc{}

// A caseGen produces case number idx from its own PRNG (seeded from the run seed and idx), so any
// single case can be regenerated alone.  It returns the input part of the line and a function that
// runs the real code and returns the output part.  Cases run in child processes: when the real code
// crashes (a panic in a goroutine cannot be recovered) the parent records `OUT PANIC <class>` for
// that case and continues with the next one.
type caseGen struct {
	count func(tier string) int
	gen   func(r *Rng, tier string, idx int) (in string, run func() string)
}

var caseGens = map[string]caseGen{}

func caseSeed(seed uint64, idx int) uint64 { return seed*1000003 + uint64(idx)*7919 + 17 }

// runChild executes cases [from,to) in this process, flushing the input before running the code.
func runChild(prop string, cg caseGen, seed uint64, tier string, from, to int) {
	w := bufio.NewWriter(protoOut)
	for i := from; i < to; i++ {
		in, run := cg.gen(NewRng(caseSeed(seed, i)), tier, i)
		fmt.Fprintf(w, "%s %d %d %s", prop, i, seed, in)
		w.Flush()
		res := make(chan string, 1)
		go func() { res <- run() }()
		select {
		case out := <-res:
			fmt.Fprintf(w, " OUT %s\n", out)
			w.Flush()
		case <-time.After(caseTimeout):
			// a hang is an observed output; the process cannot be reused (a goroutine is stuck)
			fmt.Fprintf(w, " OUT HANG\n")
			w.Flush()
			os.Exit(3)
		}
	}
}

var caseTimeout = 20 * time.Second

// protoOut is where protocol lines go.  The real code prints and logs to stdout, so stdout is
// re-pointed to /dev/null at start-up and the original stdout kept here.
var protoOut *os.File = os.Stdout

func silenceStdout() {
	fd, err := syscall.Dup(1)
	if err != nil {
		return
	}
	protoOut = os.NewFile(uintptr(fd), "proto")
	if null, err := os.OpenFile(os.DevNull, os.O_WRONLY, 0); err == nil {
		syscall.Dup2(int(null.Fd()), 1)
	}
	log.SetOutput(io.Discard)
}

func panicClass(stderr string) string {
	for _, ln := range strings.Split(stderr, "\n") {
		if strings.HasPrefix(ln, "panic:") || strings.HasPrefix(ln, "fatal error:") {
			ln = strings.TrimSpace(strings.TrimPrefix(strings.TrimPrefix(ln, "panic:"), "fatal error:"))
			switch {
			case strings.Contains(ln, "slice bounds out of range"):
				return "slice-bounds"
			case strings.Contains(ln, "index out of range"):
				return "index-range"
			case strings.Contains(ln, "nil pointer"):
				return "nil-deref"
			case strings.Contains(ln, "divide by zero"):
				return "div-zero"
			case strings.Contains(ln, "all goroutines are asleep"):
				return "deadlock"
			}
			f := strings.Fields(ln)
			if len(f) > 6 {
				f = f[:6]
			}
			return "other:" + strings.Join(f, "_")
		}
	}
	return "exit-without-panic-message"
}

// runParent splits [0,n) over worker children and stitches their output, turning crashes into outputs.
func runParent(prop string, cg caseGen, seed uint64, tier string, w *bufio.Writer) {
	n := cg.count(tier)
	workers := 12
	if n < 200 {
		workers = 2
	}
	type chunk struct{ from, to int }
	chunks := []chunk{}
	per := (n + workers - 1) / workers
	for a := 0; a < n; a += per {
		b := a + per
		if b > n {
			b = n
		}
		chunks = append(chunks, chunk{a, b})
	}
	results := make([][]byte, len(chunks))
	done := make(chan int)
	self, _ := os.Executable()
	for ci, c := range chunks {
		go func(ci int, c chunk) {
			var acc bytes.Buffer
			next := c.from
			crashes := 0
			for next < c.to {
				cmd := exec.Command(self, "-child", "-seed", fmt.Sprint(seed), "-tier", tier,
					"-from", fmt.Sprint(next), "-to", fmt.Sprint(c.to), prop)
				var so, se bytes.Buffer
				cmd.Stdout, cmd.Stderr = &so, &se
				err := cmd.Run()
				out := so.Bytes()
				if err == nil {
					acc.Write(out)
					break
				}
				// crashed.  Usually the last line is incomplete (input only).  It can also be complete:
				// after a HANG, or when a panicking worker goroutine ran its deferred wg.Done() and the
				// main goroutine finished the case before the runtime tore the process down.
				idx := bytes.LastIndexByte(out, '\n')
				if idx == len(out)-1 && idx >= 0 {
					prev := bytes.LastIndexByte(out[:idx], '\n')
					lastLine := string(out[prev+1 : idx])
					f := strings.Fields(lastLine)
					if len(f) < 2 {
						fmt.Fprintf(os.Stderr, "child crashed, unparsable last line: %s\n", se.String())
						break
					}
					var id int
					fmt.Sscan(f[1], &id)
					if strings.HasSuffix(lastLine, " OUT HANG") {
						acc.Write(out)
					} else {
						// re-run that case alone: a crash there is attributed to it
						acc.Write(out[:prev+1])
						one := exec.Command(self, "-child", "-seed", fmt.Sprint(seed), "-tier", tier,
							"-from", fmt.Sprint(id), "-to", fmt.Sprint(id+1), prop)
						var so1, se1 bytes.Buffer
						one.Stdout, one.Stderr = &so1, &se1
						if err1 := one.Run(); err1 != nil {
							in := lastLine
							if k := strings.Index(in, " OUT "); k >= 0 {
								in = in[:k]
							}
							acc.WriteString(in + " OUT PANIC " + panicClass(se1.String()) + "\n")
						} else {
							acc.WriteString(lastLine + "\n")
						}
					}
					next = id + 1
					crashes++
					if crashes > 200 {
						break
					}
					continue
				}
				acc.Write(out[:idx+1])
				last := string(out[idx+1:])
				f := strings.Fields(last)
				if len(f) < 2 {
					fmt.Fprintf(os.Stderr, "child crashed before writing a case: %s\n", se.String())
					break
				}
				var id int
				fmt.Sscan(f[1], &id)
				if k := strings.Index(last, " OUT "); k >= 0 { // died while writing the output
					last = last[:k]
				}
				acc.WriteString(last + " OUT PANIC " + panicClass(se.String()) + "\n")
				next = id + 1
				crashes++
				if crashes > 200 {
					fmt.Fprintln(os.Stderr, "too many crashes in one chunk; giving up on it")
					break
				}
			}
			results[ci] = acc.Bytes()
			done <- ci
		}(ci, c)
	}
	for range chunks {
		<-done
	}
	// dastard has wall-clock watchdogs that panic on purpose when its real-time reader loops are not scheduled for
	// seconds (Lancero "too long since last succesful read", the Abaco block assembler's "timeout, no data", the
	// Lancero card's WaitForError).  When the machine is overloaded (several thorough checks in parallel) they fire
	// although nothing is wrong with the code.  A case that ended in one of them is run again, ALONE and after all
	// other cases have finished, up to two times; a genuine wedge is deterministic and panics again.
	starved := []string{" OUT PANIC other:too_long_since_last_succesful_read", " OUT PANIC other:timeout,_no_data_from_Abaco",
		" OUT PANIC other:error_with_WaitForError"}
	for ri, r := range results {
		lines := strings.SplitAfter(string(r), "\n")
		changed := false
		for li, ln := range lines {
			hit := false
			for _, s := range starved {
				if strings.Contains(ln, s) {
					hit = true
				}
			}
			if !hit {
				continue
			}
			f := strings.Fields(ln)
			if len(f) < 2 {
				continue
			}
			var id int
			fmt.Sscan(f[1], &id)
			for try := 0; try < 2; try++ {
				one := exec.Command(self, "-child", "-seed", fmt.Sprint(seed), "-tier", tier,
					"-from", fmt.Sprint(id), "-to", fmt.Sprint(id+1), prop)
				var so1 bytes.Buffer
				one.Stdout = &so1
				if err := one.Run(); err == nil && strings.HasSuffix(so1.String(), "\n") && strings.Count(so1.String(), "\n") == 1 {
					fmt.Fprintf(os.Stderr, "case %d: watchdog panic under load, re-run alone completed\n", id)
					lines[li] = so1.String()
					changed = true
					break
				}
			}
		}
		if changed {
			results[ri] = []byte(strings.Join(lines, ""))
		}
	}
	for _, r := range results {
		w.Write(r)
	}
}

func main() {
	seed := flag.Uint64("seed", 1, "PRNG seed")
	tier := flag.String("tier", "quick", "quick|thorough")
	outp := flag.String("out", "-", "output file")
	child := flag.Bool("child", false, "internal: run cases [from,to) in this process")
	from := flag.Int("from", 0, "internal")
	to := flag.Int("to", 0, "internal")
	flag.Parse()
	silenceStdout()
	if flag.NArg() < 1 {
		names := []string{}
		for k := range gens {
			names = append(names, k)
		}
		for k := range caseGens {
			names = append(names, k)
		}
		sort.Strings(names)
		fmt.Fprintln(os.Stderr, "usage: dvh [-seed N] [-tier T] [-out F] <prop>; props:", names)
		os.Exit(2)
	}
	prop := flag.Arg(0)
	cg, isCase := caseGens[prop]
	if isCase && *child {
		runChild(prop, cg, *seed, *tier, *from, *to)
		return
	}
	g, ok := gens[prop]
	if !ok && !isCase {
		fmt.Fprintln(os.Stderr, "unknown property", prop)
		os.Exit(2)
	}
	f := protoOut
	if *outp != "-" {
		var err error
		f, err = os.Create(*outp)
		if err != nil {
			fmt.Fprintln(os.Stderr, err)
			os.Exit(2)
		}
		defer f.Close()
	}
	w := bufio.NewWriterSize(f, 1<<20)
	if ok { // a property may have both kinds of generator: the in-process one runs first
		o := &Out{w: w, prop: prop, seed: *seed}
		g(NewRng(*seed), *tier, o)
		w.Flush()
	}
	if isCase {
		runParent(prop, cg, *seed, *tier, w)
	}
	w.Flush()
}
