package main

import (
	"encoding/binary"
	"fmt"
	"net"
	"os"
	"strings"
	"time"

	dastard "github.com/usnistgov/dastard"
)

// c12Roach: the unwrappers as the ROACH source wires them.  A real RoachDevice (NewRoachDevice, samplePacket,
// readPackets with its 100 ms bundling) receives ROACH datagrams on a loopback port in several bursts, so that
// it makes several data blocks; per channel, the raw stream cut at the block boundaries the device chose and the
// unwrapped samples of its blocks form one case of the existing call-splitting format (prefix `roach`).
func c12Roach(r *Rng, idx int, long bool, o *Out) {
	nchan := r.Pick(1, 2, 3)
	total := r.Range(150, 1200)
	fpp := r.Pick(1, 5, 10, 50)
	nburst := r.Range(2, 4)
	if long { // away from home for more than the 20000 samples of the ROACH reset interval, over several blocks
		nchan, total, fpp, nburst = 1, r.Range(21000, 23000), 500, 3
	}
	opts := dastard.AbacoUnwrapOptions{Bias: r.Chance(40), PulseSign: r.Pick(1, 1, -1)}
	var v *dastard.VerifRoach
	var host string
	for try := 0; ; try++ {
		port := 20000 + (os.Getpid()*137+idx*19+try*7907+11)%30000
		host = fmt.Sprintf("127.0.0.1:%d", port)
		var err error
		if v, err = dastard.NewVerifRoach(host, 1e5, opts); err == nil {
			break
		}
		if try > 20 {
			panic(err)
		}
	}
	defer v.Close()
	addr, _ := net.ResolveUDPAddr("udp", host)
	conn, err := net.DialUDP("udp", nil, addr)
	if err != nil {
		panic(err)
	}
	defer conn.Close()

	const twoPiRaw = 1 << 14
	sign := opts.PulseSign
	raw := make([][]uint16, nchan)
	for ch := range raw {
		raw[ch] = make([]uint16, total)
		x := r.Intn(65536)
		mode := r.Intn(4)
		if long {
			mode = 9
		}
		for j := range raw[ch] {
			switch mode {
			case 0: // slow drift with wraps
				x = (x + r.Range(-twoPiRaw/8, twoPiRaw/8) + 65536) % 65536
			case 1: // pulses: big jump then decay
				if r.Chance(10) {
					x = (x + sign*r.Range(twoPiRaw/4, twoPiRaw*3) + 65536*8) % 65536
				} else {
					x = (x - sign*r.Range(0, twoPiRaw/16+1) + 65536*8) % 65536
				}
			case 2: // steps near half a quantum
				x = (x + r.Pick(-1, 1)*r.Range(twoPiRaw/2-6, twoPiRaw/2+6) + 65536) % 65536
			case 9: // one wrap away from home early on, then flat
				if j == 3 {
					x = (x + sign*(twoPiRaw/2+twoPiRaw/8) + 65536*4) % 65536
				}
			default:
				x = r.Intn(65536)
			}
			raw[ch][j] = uint16(x)
		}
	}
	wide := !long && r.Chance(35) // 4-byte words: the device keeps the upper half of each
	base := uint64(r.Pick(1000, 0, 1<<33, 123456789))
	type sentPkt struct {
		bytes []byte
		n     int
	}
	var sentPkts []sentPkt
	packet := func(f0, n int) []byte {
		w := 2
		if wide {
			w = 4
		}
		b := make([]byte, 16+w*nchan*n)
		b[0] = byte(r.Intn(256))
		b[1] = byte(r.Intn(256))
		binary.BigEndian.PutUint16(b[2:], uint16(nchan))
		binary.BigEndian.PutUint16(b[4:], uint16(n))
		flags := uint16(r.Intn(1<<14))<<2 | 1 // only the two low bits matter
		if wide {
			flags = flags&^3 | 2
		}
		binary.BigEndian.PutUint16(b[6:], flags)
		binary.BigEndian.PutUint64(b[8:], base+uint64(f0))
		for j := 0; j < n; j++ {
			for ch := 0; ch < nchan; ch++ {
				if wide {
					binary.BigEndian.PutUint16(b[16+4*(ch+nchan*j):], raw[ch][f0+j])
					binary.BigEndian.PutUint16(b[16+4*(ch+nchan*j)+2:], uint16(r.U64()))
				} else {
					binary.BigEndian.PutUint16(b[16+2*(ch+nchan*j):], raw[ch][f0+j])
				}
			}
		}
		return b
	}
	// the start-up packet (samplePacket reads it for the channel count; its data are not part of the stream)
	go func() {
		time.Sleep(20 * time.Millisecond)
		conn.Write(packet(0, 1))
	}()
	if err := v.Sample(); err != nil {
		panic(err)
	}
	v.Start()
	time.Sleep(10 * time.Millisecond)
	sent := 0
	for b := 0; b < nburst; b++ {
		upto := total * (b + 1) / nburst
		for sent < upto {
			n := fpp
			if sent+n > upto {
				n = upto - sent
			}
			pb := packet(sent, n)
			conn.Write(pb)
			sentPkts = append(sentPkts, sentPkt{pb, n})
			sent += n
			if long && (sent/n)%8 == 0 {
				time.Sleep(200 * time.Microsecond) // do not overrun the socket buffer
			}
		}
		time.Sleep(170 * time.Millisecond) // longer than the 100 ms bundling time: the device closes a block
	}
	var blocks [][][]dastard.RawType
	var firsts []int64
	got := 0
	for got < total {
		d, f, err := v.NextBlock(3 * time.Second)
		if err != nil {
			break
		}
		blocks = append(blocks, d)
		firsts = append(firsts, f)
		if len(d) > 0 {
			got += len(d[0])
		}
	}
	for ch := 0; ch < nchan; ch++ {
		var in, out strings.Builder
		fmt.Fprintf(&in, "roach biasopt %d sign %d calls %d", b2i(opts.Bias), opts.PulseSign, len(blocks))
		fmt.Fprintf(&out, "%d", len(blocks))
		pos := 0
		for _, b := range blocks {
			n := len(b[ch])
			if pos+n > total {
				n = total - pos // more samples than were sent: the OUT side shows it
			}
			fmt.Fprintf(&in, " %d", n)
			for _, x := range raw[ch][pos : pos+n] {
				fmt.Fprintf(&in, " %d", x)
			}
			pos += n
			out.WriteString(" " + ints(b[ch]))
		}
		o.Case("%s OUT %s", in.String(), out.String())
	}
	// the same run at the level of the device: the datagrams of each bundle and the blocks made from them
	// (first frame index, every channel's samples), judged by Model/C12Roach.lean
	if !long {
		var in, out strings.Builder
		fmt.Fprintf(&in, "rdev biasopt %d sign %d nchan %d bundles %d", b2i(opts.Bias), opts.PulseSign, nchan, len(blocks))
		fmt.Fprintf(&out, "%d", len(blocks))
		k := 0
		for bi, b := range blocks {
			n := 0
			if len(b) > 0 {
				n = len(b[0])
			}
			var hx []string
			for cnt := 0; cnt < n && k < len(sentPkts); k++ {
				hx = append(hx, hexs(sentPkts[k].bytes))
				cnt += sentPkts[k].n
			}
			fmt.Fprintf(&in, " %d %s", len(hx), strings.Join(hx, " "))
			fmt.Fprintf(&out, " %d %d", firsts[bi], len(b))
			for _, ch := range b {
				out.WriteString(" " + ints(ch))
			}
		}
		o.Case("%s OUT %s", in.String(), out.String())
	}
}
