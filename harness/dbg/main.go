package main

import (
	"bufio"
	"fmt"
	"os"
	"strconv"
	"strings"

	"github.com/usnistgov/dastard"
)

func main() {
	b, _ := os.ReadFile(os.Args[1])
	t := strings.Fields(string(b))
	// find " B " then parse first block ch0 data
	i := 0
	for t[i] != "B" {
		i++
	}
	i += 4 + 2
	n, _ := strconv.Atoi(t[i])
	raw := make([]dastard.RawType, n)
	for k := 0; k < n; k++ {
		v, _ := strconv.Atoi(t[i+1+k])
		raw[k] = dastard.RawType(v)
	}
	w := bufio.NewWriter(os.Stderr)
	for p := 4; p+3 < n && p < 30; p++ {
		fmt.Fprintf(w, "zt(%d)=%d ", p, int(dastard.VerifZeroThreshold(raw, int32(p)))-p)
	}
	fmt.Fprintln(w)
	w.Flush()
	dastard.VerifStartClientDrain()
	vs := dastard.NewVerifSource(1, 1000)
	vs.VerifPrepare(8, 20)
	sc := dastard.VerifNewSourceControl(vs, 8, 20)
	var ts dastard.TriggerState
	ts.EdgeMulti = true
	ts.EdgeMultiMakeContaminatedRecords = true
	fts := dastard.FullTriggerState{ChannelIndices: []int{0}, TriggerState: ts}
	var reply bool
	done := make(chan error, 1)
	go func() { done <- sc.ConfigureTriggers(&fts, &reply) }()
	f := <-sc.VerifQueue()
	f()
	fmt.Fprintln(os.Stderr, "reply", <-done)
	recs, err := vs.VerifProcessBlock(1000, 0, 1000000, [][]dastard.RawType{raw}, []bool{false}, nil, 0)
	fmt.Fprintln(os.Stderr, "nrec", len(recs[0]), err)
	for _, r := range recs[0][:min(3, len(recs[0]))] {
		fmt.Fprintln(os.Stderr, r.TrigFrame, r.Presamples, len(r.Data))
	}
}
