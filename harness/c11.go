package main

// C11 — control requests.  (1) FACT case: a go/ast reader re-derives, from /repo/rpc_server.go as it is now,
// every closure handed to runLaterIfActive and enumerates its acyclic paths with the sends on queuedResults.
// (2) histories of real SourceControl RPC methods with fuzzed arguments on a running real source (real Start +
// CoreLoop), (3) gated schedules that steer when requests arrive relative to blocks, Stop and the source's own
// termination, (4) single I/O faults (uncreatable comment / data-drop file) and the index validators that cannot
// be reached through a simulated source (pixel map, Lancero mix).  Crash-prone: every case runs in a child.

import (
	"encoding/base64"
	"fmt"
	"go/ast"
	"go/parser"
	"go/token"
	"os"
	"path/filepath"
	"sort"
	"strings"
	"time"

	"github.com/usnistgov/dastard"
	"gonum.org/v1/gonum/mat"
)

func init() {
	caseGens["C11"] = caseGen{count: c11Count, gen: c11Gen}
}

func c11Count(tier string) int {
	if tier == "thorough" {
		return 1500
	}
	return 360
}

func c11Repo() string {
	if r := os.Getenv("VERIF_REPO"); r != "" {
		return r
	}
	return "/repo"
}

// ------------------------------------------------------------------------------------------------
// Closure facts (go/ast)

// c11Paths enumerates the acyclic paths of a statement list.  Each path is a string of action letters:
// r = send on queuedResults, n = send on clientUpdates, c = other call, U = a construct this reader does not
// follow (loop, switch, select, goto, a call with sends in a position it cannot inline, …).  `done` marks paths
// that ended in a return.  Calls to functions of the package / methods on the same receiver whose body
// (transitively, bounded depth) sends on queuedResults are INLINED: the paths run through the callee.
type c11Path struct {
	acts string
	done bool
}

type c11Fn struct {
	recvType string // "" for a plain function
	recvName string
	decl     *ast.FuncDecl
}

// c11Reader holds the package's function declarations.
type c11Reader struct {
	fns map[string]*c11Fn // key: recvType + "." + name
}

const c11MaxDepth = 4

func c11RecvType(fd *ast.FuncDecl) (typ, name string) {
	if fd.Recv == nil || len(fd.Recv.List) == 0 {
		return "", ""
	}
	f := fd.Recv.List[0]
	if len(f.Names) > 0 {
		name = f.Names[0].Name
	}
	t := f.Type
	if st, ok := t.(*ast.StarExpr); ok {
		t = st.X
	}
	if id, ok := t.(*ast.Ident); ok {
		typ = id.Name
	}
	return
}

// callee resolves a call made inside a function whose receiver is (recvType, recvName): `recvName.m(...)` is the
// method m of the same type, `f(...)` a package-level function.  Anything else (calls through fields, interfaces,
// other packages) is not followed.
func (rd *c11Reader) callee(call *ast.CallExpr, cur *c11Fn) *c11Fn {
	switch f := call.Fun.(type) {
	case *ast.Ident:
		return rd.fns["."+f.Name]
	case *ast.SelectorExpr:
		if id, ok := f.X.(*ast.Ident); ok && cur != nil && cur.recvName != "" && id.Name == cur.recvName {
			return rd.fns[cur.recvType+"."+f.Sel.Name]
		}
	}
	return nil
}

// sends reports whether executing the node (not the bodies of function literals in it) can send a reply on
// queuedResults, directly or through followed calls.
func (rd *c11Reader) sends(n ast.Node, cur *c11Fn, depth int) bool {
	found := false
	ast.Inspect(n, func(x ast.Node) bool {
		if found {
			return false
		}
		switch v := x.(type) {
		case *ast.FuncLit:
			return false
		case *ast.SendStmt:
			if sel, ok := v.Chan.(*ast.SelectorExpr); ok && sel.Sel.Name == "queuedResults" {
				found = true
			}
		case *ast.CallExpr:
			if depth < c11MaxDepth {
				if cal := rd.callee(v, cur); cal != nil && cal.decl.Body != nil && rd.sends(cal.decl.Body, cal, depth+1) {
					found = true
				}
			}
		}
		return true
	})
	return found
}

func c11Calls(n ast.Node) int {
	cnt := 0
	ast.Inspect(n, func(x ast.Node) bool {
		switch x.(type) {
		case *ast.FuncLit:
			return false
		case *ast.CallExpr:
			cnt++
		}
		return true
	})
	return cnt
}

func (rd *c11Reader) stmts(stmts []ast.Stmt, in []c11Path, cur *c11Fn, depth int) []c11Path {
	paths := in
	for _, st := range stmts {
		var next []c11Path
		for _, p := range paths {
			if p.done {
				next = append(next, p)
				continue
			}
			next = append(next, rd.stmt(st, p, cur, depth)...)
		}
		paths = next
	}
	return paths
}

// other: a statement that is not a plain call statement: calls in it are 'c' unless they can send (then 'U')
func (rd *c11Reader) other(n ast.Node, p c11Path, cur *c11Fn, depth int) []c11Path {
	if n == nil {
		return []c11Path{p}
	}
	if rd.sends(n, cur, depth) {
		return []c11Path{{p.acts + "U", false}}
	}
	if c11Calls(n) > 0 {
		return []c11Path{{p.acts + "c", false}}
	}
	return []c11Path{p}
}

func (rd *c11Reader) stmt(st ast.Stmt, p c11Path, cur *c11Fn, depth int) []c11Path {
	add := func(s string) []c11Path { return []c11Path{{p.acts + s, false}} }
	switch s := st.(type) {
	case *ast.SendStmt:
		name := ""
		if sel, ok := s.Chan.(*ast.SelectorExpr); ok {
			name = sel.Sel.Name
		}
		switch name {
		case "queuedResults":
			return add("r")
		case "clientUpdates":
			return add("n")
		}
		return add("c") // a send on some other channel: not a reply
	case *ast.ExprStmt:
		if call, ok := s.X.(*ast.CallExpr); ok {
			if cal := rd.callee(call, cur); cal != nil && cal.decl.Body != nil && rd.sends(cal.decl.Body, cal, depth+1) {
				for _, a := range call.Args { // arguments are evaluated first
					if rd.sends(a, cur, depth) {
						return add("U")
					}
				}
				if depth >= c11MaxDepth {
					return add("U")
				}
				out := rd.stmts(cal.decl.Body.List, []c11Path{{p.acts, false}}, cal, depth+1)
				for i := range out {
					out[i].done = false // a return inside the callee ends the callee, not the closure
				}
				return out
			}
		}
		return rd.other(s, p, cur, depth)
	case *ast.AssignStmt, *ast.DeclStmt, *ast.IncDecStmt:
		return rd.other(s, p, cur, depth)
	case *ast.DeferStmt:
		if rd.sends(s.Call, cur, depth) {
			return add("U")
		}
		return add("")
	case *ast.EmptyStmt:
		return add("")
	case *ast.ReturnStmt:
		out := rd.other(s, p, cur, depth)
		out[0].done = true
		return out
	case *ast.BlockStmt:
		return rd.stmts(s.List, []c11Path{p}, cur, depth)
	case *ast.IfStmt:
		q := p
		if s.Init != nil {
			q = rd.other(s.Init, q, cur, depth)[0]
		}
		q = rd.other(s.Cond, q, cur, depth)[0]
		out := rd.stmts(s.Body.List, []c11Path{q}, cur, depth)
		switch e := s.Else.(type) {
		case nil:
			out = append(out, q)
		case *ast.BlockStmt:
			out = append(out, rd.stmts(e.List, []c11Path{q}, cur, depth)...)
		case *ast.IfStmt:
			out = append(out, rd.stmt(e, q, cur, depth)...)
		}
		return out
	default:
		if rd.sends(st, cur, depth) {
			return add("U")
		}
		if c11Calls(st) > 0 {
			return add("c")
		}
		return add("")
	}
}

// c11Facts parses the package (non-test files of the repository root) and returns "name npaths path…" groups for
// every closure passed to runLaterIfActive in rpc_server.go.
func c11Facts() string {
	fset := token.NewFileSet()
	files, _ := filepath.Glob(filepath.Join(c11Repo(), "*.go"))
	rd := &c11Reader{fns: map[string]*c11Fn{}}
	var rpc *ast.File
	for _, fn := range files {
		base := filepath.Base(fn)
		if strings.HasSuffix(base, "_test.go") || strings.HasPrefix(base, "verif_") {
			continue
		}
		f, err := parser.ParseFile(fset, fn, nil, 0)
		if err != nil {
			continue
		}
		if base == "rpc_server.go" {
			rpc = f
		}
		for _, d := range f.Decls {
			if fd, ok := d.(*ast.FuncDecl); ok {
				typ, name := c11RecvType(fd)
				rd.fns[typ+"."+fd.Name.Name] = &c11Fn{typ, name, fd}
			}
		}
	}
	if rpc == nil {
		return "facts 0 ERR parse"
	}
	type fact struct {
		name  string
		paths []string
	}
	var facts []fact
	for _, d := range rpc.Decls {
		fd, ok := d.(*ast.FuncDecl)
		if !ok || fd.Body == nil {
			continue
		}
		typ, rname := c11RecvType(fd)
		cur := &c11Fn{typ, rname, fd}
		lits := map[string]*ast.FuncLit{} // local closures by variable name
		ast.Inspect(fd.Body, func(n ast.Node) bool {
			if as, ok := n.(*ast.AssignStmt); ok && len(as.Lhs) == 1 && len(as.Rhs) == 1 {
				if id, ok := as.Lhs[0].(*ast.Ident); ok {
					if fl, ok := as.Rhs[0].(*ast.FuncLit); ok {
						lits[id.Name] = fl
					}
				}
			}
			return true
		})
		ast.Inspect(fd.Body, func(n ast.Node) bool {
			call, ok := n.(*ast.CallExpr)
			if !ok || len(call.Args) != 1 {
				return true
			}
			sel, ok := call.Fun.(*ast.SelectorExpr)
			if !ok || sel.Sel.Name != "runLaterIfActive" {
				return true
			}
			var body []ast.Stmt
			in := cur
			switch a := call.Args[0].(type) {
			case *ast.FuncLit:
				body = a.Body.List
			case *ast.Ident:
				if fl := lits[a.Name]; fl != nil {
					body = fl.Body.List
				}
			case *ast.SelectorExpr: // a method value: s.method
				if id, ok := a.X.(*ast.Ident); ok && id.Name == rname {
					if cal := rd.fns[typ+"."+a.Sel.Name]; cal != nil && cal.decl.Body != nil {
						body, in = cal.decl.Body.List, cal
					}
				}
			}
			fc := fact{name: fd.Name.Name}
			if body == nil {
				fc.paths = []string{"U"}
			} else {
				for _, p := range rd.stmts(body, []c11Path{{"", false}}, in, 0) {
					a := p.acts
					if a == "" {
						a = "-"
					}
					fc.paths = append(fc.paths, a)
				}
			}
			facts = append(facts, fc)
			return true
		})
	}
	sort.SliceStable(facts, func(a, b int) bool { return facts[a].name < facts[b].name })
	var sb strings.Builder
	fmt.Fprintf(&sb, "facts %d", len(facts))
	for _, fc := range facts {
		fmt.Fprintf(&sb, " %s %d", fc.name, len(fc.paths))
		for _, p := range fc.paths {
			sb.WriteString(" " + p)
		}
	}
	return sb.String()
}

// ------------------------------------------------------------------------------------------------
// request histories

type c11Req struct {
	text string                     // tokens for the line
	call func(h *lcH) (error, bool) // runs the RPC method; bool = a 64-sample block must follow (raw block request)
}

func c11Index(r *Rng, n int) int {
	switch c := r.Intn(100); {
	case c < 70:
		return r.Intn(n)
	case c < 82:
		return -1 - r.Intn(3)
	case c < 94:
		return n + r.Intn(3)
	default:
		return r.Pick(99, 1<<40, -(1 << 40))
	}
}

func c11Matrix(rows, cols int) string {
	m := mat.NewDense(rows, cols, nil)
	b, _ := m.MarshalBinary()
	return base64.StdEncoding.EncodeToString(b)
}

// c11GenReq draws one request.  dir is the case's scratch directory.
func c11GenReq(r *Rng, nchan, nsamp int, dir string) c11Req {
	var reply bool
	switch c := r.Intn(100); {
	case c < 16: // ConfigureTriggers
		n := r.Pick(0, 1, 1, 2, 3)
		idx := make([]int, n)
		for i := range idx {
			idx[i] = c11Index(r, nchan)
		}
		nilIdx := n == 0 && r.Bool()
		return c11Req{fmt.Sprintf("T %s", ints(idx)), func(h *lcH) (error, bool) {
			st := &dastard.FullTriggerState{ChannelIndices: idx}
			if nilIdx {
				st.ChannelIndices = nil
			}
			st.AutoTrigger = true
			st.AutoDelay = time.Second
			st.LevelTrigger = true // the fed blocks step from 0 to 5000: primary triggers on these channels
			st.LevelRising = true
			st.LevelLevel = 1000
			return h.sc.ConfigureTriggers(st, &reply), false
		}}
	case c < 26: // ConfigurePulseLengths
		ns := r.Pick(-1, 0, 1, 3, 4, 16, 32, 32, 64, 100)
		np := r.Pick(-1, 0, 1, 2, 3, 8, 8, 15, 31, 32, 64)
		if r.Chance(30) {
			// around and beyond the 32-bit boundary: the handlers keep 32-bit copies of these lengths; pairs whose
			// low 32 bits look like a valid (nsamp, npre) while the 64-bit values are not must be refused
			big := [][2]int{{50, 1<<32 + 20}, {1<<32 + 5, 1<<33 + 4}, {1<<32 + 50, 1<<33 + 20}, {100, 1<<32 + 8},
				{1<<31 - 1, 8}, {1 << 31, 8}, {1 << 32, 8}, {1<<32 + 50, 8}, {1<<33 + 40, 1<<32 + 8}, {64, 1 << 31},
				{1<<32 + 64, 1<<32 + 8}, {1<<31 - 1, 1<<31 - 2}, {32, 1 << 32}, {1<<32 + 32, 1<<32 + 32}}
			p := big[r.Intn(len(big))]
			ns, np = p[0], p[1]
		}
		return c11Req{fmt.Sprintf("L %d %d", ns, np), func(h *lcH) (error, bool) {
			return h.sc.ConfigurePulseLengths(dastard.SizeObject{Nsamp: ns, Npre: np}, &reply), false
		}}
	case c < 38: // ConfigureProjectorsBasis
		idx := c11Index(r, nchan)
		bad := r.Pick(0, 0, 0, 0, 1, 2)
		rows := r.Pick(1, 2, 3)
		cols := r.Pick(nsamp, nsamp, nsamp, 16, 64)
		brows := r.Pick(nsamp, nsamp, nsamp, 16)
		bcols := r.Pick(rows, rows, rows, rows+1)
		return c11Req{fmt.Sprintf("P %d %d %d %d %d %d", idx, bad, rows, cols, brows, bcols), func(h *lcH) (error, bool) {
			pbo := &dastard.ProjectorsBasisObject{ChannelIndex: idx, ProjectorsBase64: c11Matrix(rows, cols),
				BasisBase64: c11Matrix(brows, bcols), ModelDescription: "verif"}
			switch bad {
			case 1:
				pbo.ProjectorsBase64 = "!!not base64!!"
			case 2:
				raw, _ := base64.StdEncoding.DecodeString(pbo.BasisBase64)
				pbo.BasisBase64 = base64.StdEncoding.EncodeToString(raw[:len(raw)/2])
			}
			return h.sc.ConfigureProjectorsBasis(pbo, &reply), false
		}}
	case c < 60: // WriteControl
		req := r.Pick(0, 0, 0, 0, 1, 1, 2, 3, 4, 5, 6, 7, 8, 9)
		path := r.Pick(0, 0, 0, 0, 1, 2)
		flags := r.Pick(1, 1, 1, 0, 2, 4, 3, 5, 7)
		reqs := []string{"START", "STOP", "PAUSE", "UNPAUSE", "UNPAUSE lbl", "UNPAUSEx", "UNPAUSE ", "bogus", "", "start"}
		return c11Req{fmt.Sprintf("W %d %d %d", req, path, flags), func(h *lcH) (error, bool) {
			cfg := &dastard.WriteControlConfig{Request: reqs[req], WriteLJH22: flags&1 != 0, WriteOFF: flags&2 != 0, WriteLJH3: flags&4 != 0}
			switch path {
			case 0:
				cfg.Path = filepath.Join(dir, "data")
			case 2:
				cfg.Path = filepath.Join(dir, "afile", "sub")
			}
			return h.sc.WriteControl(cfg, &reply), false
		}}
	case c < 67: // SetExperimentStateLabel (waiting form)
		k := r.Pick(0, 1, 1, 1)
		return c11Req{fmt.Sprintf("S %d", k), func(h *lcH) (error, bool) {
			lab := []string{"", "STATE_A"}[k]
			return h.sc.SetExperimentStateLabel(&dastard.StateLabelConfig{Label: lab, WaitForError: true}, &reply), false
		}}
	case c < 74: // WriteComment
		k := r.Pick(0, 1, 1, 1)
		return c11Req{fmt.Sprintf("C %d", k), func(h *lcH) (error, bool) {
			txt := []string{"", "a comment"}[k]
			return h.sc.WriteComment(&txt, &reply), false
		}}
	case c < 80: // FB/err coupling
		which := r.Intn(2)
		b := r.Bool()
		return c11Req{fmt.Sprintf("E %d %d", which, b2i(b)), func(h *lcH) (error, bool) {
			if which == 0 {
				return h.sc.CoupleErrToFB(&b, &reply), false
			}
			return h.sc.CoupleFBToErr(&b, &reply), false
		}}
	case c < 88: // group trigger coupling
		add := r.Bool()
		np := r.Range(1, 3)
		conn := map[int][]int{}
		var flat []int
		for i := 0; i < np; i++ {
			s, rx := c11Index(r, nchan), c11Index(r, nchan)
			if r.Chance(35) { // boundary: the first out-of-range source with a valid receiver
				s, rx = nchan, r.Intn(nchan)
			} else if r.Chance(15) {
				s, rx = r.Intn(nchan), nchan
			}
			conn[s] = append(conn[s], rx)
			flat = append(flat, s, rx)
		}
		return c11Req{fmt.Sprintf("G %d %s", b2i(add), ints(flat)), func(h *lcH) (error, bool) {
			gts := dastard.GroupTriggerState{Connections: conn}
			if add {
				return h.sc.AddGroupTriggerCoupling(gts, &reply), false
			}
			return h.sc.DeleteGroupTriggerCoupling(&gts, &reply), false
		}}
	case c < 91:
		return c11Req{"X", func(h *lcH) (error, bool) {
			var d bool
			return h.sc.StopTriggerCoupling(&d, &reply), false
		}}
	default: // StoreRawDataBlock
		n := r.Pick(-5, -1, 0, 1, 30, 64, 100, 200)
		return c11Req{fmt.Sprintf("R %d", n), func(h *lcH) (error, bool) {
			var name string
			err := h.sc.StoreRawDataBlock(n, &name)
			return err, err == nil
		}}
	}
}

func c11Dir(idx int) string {
	d := filepath.Join(lcWorkdir(), fmt.Sprintf("c11_%d_%d", os.Getpid(), idx))
	os.MkdirAll(d, 0755)
	os.WriteFile(filepath.Join(d, "afile"), []byte("x"), 0644)
	os.Setenv("TMPDIR", d)
	return d
}

// c11Start starts a loop source with nchan channels through the real Start and marks it active in the RPC layer.
func c11Start(idx, nchan int) (*lcH, bool) {
	h := lcNew("loop", idx)
	h.loop = dastard.NewVerifLoopSource(nchan, 10000)
	h.ds = h.loop
	h.sc = dastard.VerifNewSourceControl(h.ds, 8, 32)
	h.sc.VerifSetActive(false)
	dastard.VerifPointsOn()
	s := h.spawnStart()
	if !s.wait(3*time.Second) || s.ret != 0 {
		return h, false
	}
	h.flagOn()
	return h, true
}

// c11Feed hands one block of nsamp samples per channel to the source and waits until the loop processed it.
func (h *lcH) c11Feed(nchan, frame, dropped int) bool {
	if h.ds.GetState() != dastard.Active {
		return false
	}
	base := lcCount(dastard.VerifTrace(0), "loop.processed")
	data := make([][]dastard.RawType, nchan)
	for i := range data {
		data[i] = make([]dastard.RawType, 64)
		for j := 20; j < 64; j++ {
			data[i][j] = 5000 // a step in every block: level triggers fire when enabled
		}
	}
	if !h.loop.VerifFeed(int64(frame), data, dropped, nil, 0, 3*time.Second) {
		return false
	}
	return lcWaitTrace(3*time.Second, func(tr []dastard.VerifEvent) bool { return lcCount(tr, "loop.processed") > base })
}

// timed runs f as a registered request caller with a watchdog: 0 ok, 1 error, 2 no reply.
func (h *lcH) timed(f func() error) int {
	h.nR++
	c := h.spawn(fmt.Sprintf("R%d", h.nR), f)
	if !c.wait(3 * time.Second) {
		return 2
	}
	return c.ret
}

type c11Op struct {
	kind string // req | blk | stop | selfend | refresh
	text string
	req  c11Req
}

// c11GenOps draws a history from its own seed (the same draw gives the line text and, at run time, the calls).
func c11GenOps(seed uint64, nchan int, dir string) []c11Op {
	r := NewRng(seed)
	m := r.Range(1, 8)
	var ops []c11Op
	{ // every history begins by enabling a level trigger on all channels, so that later blocks carry primary triggers
		all := make([]int, nchan)
		for i := range all {
			all[i] = i
		}
		var reply bool
		ops = append(ops, c11Op{"req", fmt.Sprintf("T %s", ints(all)), c11Req{"", func(h *lcH) (error, bool) {
			st := &dastard.FullTriggerState{ChannelIndices: all}
			st.LevelTrigger = true
			st.LevelRising = true
			st.LevelLevel = 1000
			return h.sc.ConfigureTriggers(st, &reply), false
		}}})
	}
	for i := 0; i < m; i++ {
		switch c := r.Intn(100); {
		case c < 80:
			rq := c11GenReq(r, nchan, 32, dir)
			ops = append(ops, c11Op{"req", rq.text, rq})
		case c < 90:
			ops = append(ops, c11Op{kind: "blk", text: "B"})
		case c < 94:
			ops = append(ops, c11Op{kind: "stop", text: "K"})
		case c < 97:
			ops = append(ops, c11Op{kind: "selfend", text: "Z"})
		default:
			ops = append(ops, c11Op{kind: "refresh", text: "F"})
		}
	}
	ops = append(ops, c11Op{kind: "blk", text: "B"}, c11Op{kind: "blk", text: "B"})
	if r.Chance(30) {
		// directed: projectors accepted on a channel, then a pulse-length request (record length only / presamples
		// only / both / unchanged), then blocks whose step triggers a record on that channel.  Placed right after
		// the opening trigger request, where the lengths are still (32, 8) and writing is off.
		ch := r.Intn(nchan)
		rows := r.Pick(1, 2, 3)
		lens := [][2]int{{16, 8}, {64, 8}, {32, 4}, {32, 16}, {16, 4}, {64, 16}, {32, 8},
			{50, 1<<32 + 20}, {1<<32 + 5, 1<<33 + 4}, {100, 1<<32 + 8}}[r.Intn(10)]
		var reply bool
		proj := c11Req{fmt.Sprintf("P %d 0 %d 32 32 %d", ch, rows, rows), func(h *lcH) (error, bool) {
			pbo := &dastard.ProjectorsBasisObject{ChannelIndex: ch, ProjectorsBase64: c11Matrix(rows, 32),
				BasisBase64: c11Matrix(32, rows), ModelDescription: "verif"}
			return h.sc.ConfigureProjectorsBasis(pbo, &reply), false
		}}
		length := c11Req{fmt.Sprintf("L %d %d", lens[0], lens[1]), func(h *lcH) (error, bool) {
			return h.sc.ConfigurePulseLengths(dastard.SizeObject{Nsamp: lens[0], Npre: lens[1]}, &reply), false
		}}
		directed := []c11Op{{"req", proj.text, proj}, {"blk", "B", c11Req{}}, {"req", length.text, length},
			{"blk", "B", c11Req{}}, {"blk", "B", c11Req{}}, {"blk", "B", c11Req{}}}
		ops = append(ops[:1], append(directed, ops[1:]...)...)
	}
	if r.Chance(25) {
		// directed: a positive length pair that only the source refuses, then the IDENTICAL request again (a refused
		// request changes nothing, so it must be refused again), then Stop, a Start with the lengths the RPC layer
		// has on record, triggers on, and blocks.  Appended at the end (the source may or may not still run).
		bad := [][2]int{{100, 200}, {10, 2}, {5, 5}, {3, 7}, {40, 40}}[r.Intn(5)]
		var reply bool
		mk := func() c11Op {
			q := c11Req{fmt.Sprintf("L %d %d", bad[0], bad[1]), func(h *lcH) (error, bool) {
				return h.sc.ConfigurePulseLengths(dastard.SizeObject{Nsamp: bad[0], Npre: bad[1]}, &reply), false
			}}
			return c11Op{"req", q.text, q}
		}
		all := make([]int, nchan)
		for i := range all {
			all[i] = i
		}
		trig := c11Req{fmt.Sprintf("T %s", ints(all)), func(h *lcH) (error, bool) {
			st := &dastard.FullTriggerState{ChannelIndices: all}
			st.LevelTrigger, st.LevelRising, st.LevelLevel = true, true, 1000
			st.EdgeTrigger, st.EdgeRising, st.EdgeLevel = true, true, 1000
			return h.sc.ConfigureTriggers(st, &reply), false
		}}
		ops = append(ops, mk(), mk(), c11Op{kind: "stop", text: "K"}, c11Op{kind: "start", text: "A"},
			c11Op{"req", trig.text, trig}, c11Op{kind: "blk", text: "B"}, c11Op{kind: "blk", text: "B"})
	}
	return ops
}

func c11Hist(idx int, r *Rng) (string, func() string) {
	nchan := r.Pick(1, 2, 4)
	seed := r.U64()
	var sb strings.Builder
	ops0 := c11GenOps(seed, nchan, "")
	fmt.Fprintf(&sb, "kind hist nchan %d ops %d", nchan, len(ops0))
	for _, o := range ops0 {
		sb.WriteString(" " + o.text)
	}
	in := sb.String()
	return in, func() string {
		dirp := c11Dir(idx)
		defer os.RemoveAll(dirp)
		h, ok := c11Start(idx, nchan)
		if !ok {
			return "RET 0 PROBE 0 " + h.finish(true)
		}
		ops := c11GenOps(seed, nchan, dirp)
		rets := make([]int, len(ops))
		frame := 100000
		for i, o := range ops {
			switch o.kind {
			case "req":
				follow := false
				rets[i] = h.timed(func() error {
					err, f := o.req.call(h)
					follow = f
					return err
				})
				if follow && rets[i] == 0 {
					h.c11Feed(nchan, frame, 0)
					frame += 64
				}
			case "blk":
				rets[i] = 1 - b2i(h.c11Feed(nchan, frame, 0))
				frame += 64
			case "stop":
				rets[i] = h.timed(func() error { return h.ds.Stop() })
				h.sc.VerifRefresh()
				dastard.VerifNote("flag.refresh")
			case "selfend":
				ok := h.ds.GetState() == dastard.Active && h.loop.VerifFeed(0, nil, 0, nil, 1, 3*time.Second)
				if ok {
					lcWaitTrace(3*time.Second, func([]dastard.VerifEvent) bool { return h.ds.GetState() == dastard.Inactive })
				}
				rets[i] = 1 - b2i(ok)
			case "refresh":
				h.sc.VerifRefresh()
				dastard.VerifNote("flag.refresh")
			case "start":
				// what SourceControl.Start does: the real Start with the lengths the RPC layer has on record
				npre, nsamp := h.sc.VerifStatusLengths()
				h.nS++
				c := h.spawn(fmt.Sprintf("S%d", h.nS), func() error {
					return dastard.Start(h.ds, h.sc.VerifQueue(), npre, nsamp)
				})
				if !c.wait(3 * time.Second) {
					rets[i] = 2
				} else {
					rets[i] = c.ret
					if c.ret == 0 {
						h.flagOn()
					}
				}
			}
			if rets[i] == 2 {
				break
			}
		}
		// progress probe: data still flows after the history (when the source still runs)
		probe := 0
		if h.ds.GetState() == dastard.Active {
			probe = 1 + b2i(h.c11Feed(nchan, frame, 0))
		}
		return fmt.Sprintf("RET %s PROBE %d %s", ints(rets), probe, h.finish(true))
	}
}

// ------------------------------------------------------------------------------------------------
// gated schedules: when do requests arrive?

func c11Timing(idx int, r *Rng) (string, func() string) {
	m := r.Range(1, 4)
	k := r.Pick(0, 1, 1, 2)
	selfEnd := r.Chance(35)
	refresh := r.Chance(50)
	ss := r.U64() % 1000000
	in := fmt.Sprintf("kind timing callers %d stops %d selfend %d refresh %d sseed %d", m, k, b2i(selfEnd), b2i(refresh), ss)
	return in, func() string {
		r := NewRng(ss)
		c11Dir(idx)
		h, ok := c11Start(idx, 2)
		if !ok {
			return h.finish(true)
		}
		dastard.VerifGate(lcAllGates...)
		h.feedBlocks(r.Range(1, 3), selfEnd)
		var reply bool
		var calls []*lcCall
		nStops := 0
		refreshLeft := refresh
		for n := 0; n < 500; n++ {
			done := len(calls) == m && nStops == k
			for _, c := range h.calls {
				if !c.isDone() {
					done = false
				}
			}
			if done {
				break
			}
			ws, _ := h.parked()
			nopt := len(ws)
			canCall := len(calls) < m
			canStop := nStops < k
			opts := nopt + b2i(canCall) + b2i(canStop) + b2i(refreshLeft)
			if opts == 0 {
				lcSettle()
				time.Sleep(200 * time.Microsecond)
				continue
			}
			c := r.Intn(opts)
			switch {
			case c < nopt:
				dastard.VerifRelease(ws[c].ID)
				lcSettle()
			case canCall && c == nopt:
				h.nR++
				which := r.Intn(3)
				calls = append(calls, h.spawn(fmt.Sprintf("R%d", h.nR), func() error {
					switch which {
					case 0:
						b := false
						return h.sc.CoupleErrToFB(&b, &reply)
					case 1:
						st := &dastard.FullTriggerState{ChannelIndices: []int{0, 1}}
						return h.sc.ConfigureTriggers(st, &reply)
					default:
						var d bool
						return h.sc.StopTriggerCoupling(&d, &reply)
					}
				}))
			case canStop && c == nopt+b2i(canCall):
				nStops++
				h.spawnStop()
			default:
				refreshLeft = false
				h.sc.VerifRefresh()
				dastard.VerifNote("flag.refresh")
			}
		}
		return h.finish(true)
	}
}

// ------------------------------------------------------------------------------------------------
// single faults and the validators outside the simulated sources

// c11LongBase builds (and creates) a directory path of exactly n characters under dir.
func c11LongBase(dir string, n int) string {
	base := dir
	for len(base)+1 < n {
		k := n - len(base) - 1
		if k > 200 {
			k = 200
		}
		if k == 201 || n-len(base)-1-k == 1 { // never leave a remainder of one character ("/" + nothing)
			k--
		}
		base = base + string(filepath.Separator) + strings.Repeat("d", k)
	}
	os.MkdirAll(base, 0755)
	return base
}

func c11Fault(idx int, r *Rng) (string, func() string) {
	switch r.Intn(6) {
	case 5: // WriteControl START below a base path so long that the run directory or only the state file cannot be created
		n := r.Pick(4030, 4040, 4043, 4044, 4050, 4060, 4070, 4081, 4082, 4090)
		return fmt.Sprintf("kind fault longPath len %d", n), func() string {
			dirp := c11Dir(idx)
			defer os.RemoveAll(dirp)
			h, ok := c11Start(idx, 2)
			if !ok {
				return "RET 0 PROBE 0 " + h.finish(true)
			}
			base := c11LongBase(dirp, n)
			var reply bool
			cfg := &dastard.WriteControlConfig{Request: "START", Path: base, WriteLJH22: true}
			r0 := h.timed(func() error { return h.sc.WriteControl(cfg, &reply) })
			b := false
			r1 := h.timed(func() error { return h.sc.CoupleErrToFB(&b, &reply) })
			probe := 1 + b2i(h.c11Feed(2, 100000, 0))
			cfg2 := &dastard.WriteControlConfig{Request: "START", Path: filepath.Join(dirp, "data"), WriteLJH22: true}
			r2 := h.timed(func() error { return h.sc.WriteControl(cfg2, &reply) })
			return fmt.Sprintf("NUMS 1 %d RET 3 %d %d %d PROBE %d %s", len(base), r0, r1, r2, probe, h.finish(true))
		}
	case 0: // comment file cannot be created
		return "kind fault commentFail", func() string {
			dirp := c11Dir(idx)
			defer os.RemoveAll(dirp)
			h, ok := c11Start(idx, 2)
			if !ok {
				return "RET 0 PROBE 0 " + h.finish(true)
			}
			var reply bool
			cfg := &dastard.WriteControlConfig{Request: "START", Path: filepath.Join(dirp, "data"), WriteLJH22: true}
			r0 := h.timed(func() error { return h.sc.WriteControl(cfg, &reply) })
			os.RemoveAll(filepath.Join(dirp, "data"))
			txt := "a comment"
			r1 := h.timed(func() error { return h.sc.WriteComment(&txt, &reply) })
			probe := 1 + b2i(h.c11Feed(2, 100000, 0))
			return fmt.Sprintf("RET 2 %d %d PROBE %d %s", r0, r1, probe, h.finish(true))
		}
	case 1: // data-drop file cannot be created while a block is processed
		return "kind fault dropFail", func() string {
			dirp := c11Dir(idx)
			defer os.RemoveAll(dirp)
			h, ok := c11Start(idx, 2)
			if !ok {
				return "RET 0 PROBE 0 " + h.finish(true)
			}
			var reply bool
			cfg := &dastard.WriteControlConfig{Request: "START", Path: filepath.Join(dirp, "data"), WriteLJH22: true}
			r0 := h.timed(func() error { return h.sc.WriteControl(cfg, &reply) })
			os.RemoveAll(filepath.Join(dirp, "data"))
			probe := 1 + b2i(h.c11Feed(2, 100000, 3)) // 3 dropped frames: HandleDataDrop creates its file
			time.Sleep(20 * time.Millisecond)
			return fmt.Sprintf("RET 1 %d PROBE %d %s", r0, probe, h.finish(true))
		}
	case 2: // pixel map loaded: writeControlStart indexes Pixels[channelNumber-1]
		nchan := r.Pick(1, 2, 4)
		npix := r.Pick(nchan, nchan, nchan-1, nchan+1, 0)
		return fmt.Sprintf("kind fault mapPix nchan %d npix %d", nchan, npix), func() string {
			dirp := c11Dir(idx)
			defer os.RemoveAll(dirp)
			h, ok := c11Start(idx, nchan)
			if !ok {
				return "RET 0 PROBE 0 " + h.finish(true)
			}
			nums := h.loop.VerifChanNumbers()
			h.sc.VerifLoadMap(npix)
			var reply bool
			cfg := &dastard.WriteControlConfig{Request: "START", Path: filepath.Join(dirp, "data"), WriteLJH22: true}
			r0 := h.timed(func() error { return h.sc.WriteControl(cfg, &reply) })
			probe := 1 + b2i(h.c11Feed(nchan, 100000, 0))
			return fmt.Sprintf("NUMS %s RET 1 %d PROBE %d %s", ints(nums), r0, probe, h.finish(true))
		}
	default: // Lancero mix request: indices and list lengths
		nmix := r.Pick(2, 4, 8)
		n := r.Range(0, 3)
		idxs := make([]int, n)
		for i := range idxs {
			if r.Chance(60) {
				idxs[i] = 2*r.Intn(nmix/2) + 1 // a valid odd (feedback) index
			} else {
				idxs[i] = c11Index(r, nmix)
			}
		}
		nf := r.Pick(n, n, n, n+1, n-1, 0)
		if nf < 0 {
			nf = 0
		}
		return fmt.Sprintf("kind fault mix nmix %d idx %s nfrac %d", nmix, ints(idxs), nf), func() string {
			lcInit()
			ok := dastard.VerifLanceroMix(nmix, idxs, make([]float64, nf))
			return fmt.Sprintf("ACC %d", b2i(ok))
		}
	}
}

// ------------------------------------------------------------------------------------------------
// two callers at once: is every reply the caller's own?

// c11FixedReq builds a request whose reply does not depend on what else is going on: kinds 0-3 must be answered
// with an error, kinds 4-7 with success.
func c11FixedReq(kind, nchan int) c11Req {
	var reply bool
	trig := func(idx int) c11Req {
		return c11Req{fmt.Sprintf("T 1 %d", idx), func(h *lcH) (error, bool) {
			return h.sc.ConfigureTriggers(&dastard.FullTriggerState{ChannelIndices: []int{idx}}, &reply), false
		}}
	}
	couple := func(b bool) c11Req {
		return c11Req{fmt.Sprintf("E 0 %d", b2i(b)), func(h *lcH) (error, bool) { return h.sc.CoupleErrToFB(&b, &reply), false }}
	}
	switch kind {
	case 0:
		return trig(-1)
	case 1:
		return trig(nchan)
	case 2:
		return c11Req{fmt.Sprintf("P %d 0 1 32 32 1", nchan), func(h *lcH) (error, bool) {
			pbo := &dastard.ProjectorsBasisObject{ChannelIndex: nchan, ProjectorsBase64: c11Matrix(1, 32),
				BasisBase64: c11Matrix(32, 1), ModelDescription: "verif"}
			return h.sc.ConfigureProjectorsBasis(pbo, &reply), false
		}}
	case 3:
		return couple(true)
	case 4:
		return trig(0)
	case 5:
		return couple(false)
	case 6:
		return c11Req{"C 1", func(h *lcH) (error, bool) {
			txt := "a comment"
			return h.sc.WriteComment(&txt, &reply), false
		}}
	default:
		return c11Req{"X", func(h *lcH) (error, bool) {
			var d bool
			return h.sc.StopTriggerCoupling(&d, &reply), false
		}}
	}
}

// c11Pair: rounds of two control requests in flight at once from two goroutines, one that must fail and one that
// must succeed.  Gated rounds force the order that would expose a reply handed to the wrong caller: the first
// caller is parked right after handing over its request (rpc.sent, before it receives its result); the second
// one is released meanwhile and, whenever it also gets as far as rpc.sent, is let through FIRST.
func c11Pair(idx int, r *Rng) (string, func() string) {
	nchan := r.Pick(1, 2, 4)
	rounds := r.Range(2, 6)
	gated := r.Chance(70)
	kinds := make([][2]int, rounds)
	var sb strings.Builder
	fmt.Fprintf(&sb, "kind pair nchan %d gated %d reqs %d", nchan, b2i(gated), 2*rounds)
	for i := range kinds {
		bad, good := r.Intn(4), 4+r.Intn(4)
		if r.Bool() {
			kinds[i] = [2]int{bad, good}
		} else {
			kinds[i] = [2]int{good, bad}
		}
		sb.WriteString(" " + c11FixedReq(kinds[i][0], nchan).text + " " + c11FixedReq(kinds[i][1], nchan).text)
	}
	return sb.String(), func() string {
		dirp := c11Dir(idx)
		defer os.RemoveAll(dirp)
		h, ok := c11Start(idx, nchan)
		if !ok {
			return "RET 0 PROBE 0 " + h.finish(true)
		}
		var rets []int
		caller := func(q c11Req) *lcCall {
			h.nR++
			role := fmt.Sprintf("R%d", h.nR)
			c := &lcCall{role: role, done: make(chan struct{}), ret: 2}
			reg := make(chan struct{})
			go func() {
				h.setRole(dastard.VerifGoID(), role)
				close(reg)
				if err, _ := q.call(h); err != nil {
					c.ret = 1
				} else {
					c.ret = 0
				}
				close(c.done)
			}()
			<-reg
			h.calls = append(h.calls, c)
			return c
		}
		for _, k := range kinds {
			if gated {
				dastard.VerifGate("rpc.beforeSend", "rpc.sent")
			}
			a := caller(c11FixedReq(k[0], nchan))
			if gated {
				lcSettle()
				h.release(a.role) // hands its request to the loop, then parks at rpc.sent
			}
			b := caller(c11FixedReq(k[1], nchan))
			if gated {
				lcSettle()
				h.release(b.role)
				for n := 0; n < 50 && !(a.isDone() && b.isDone()); n++ {
					if !h.release(b.role) && !h.release(a.role) {
						lcSettle()
						time.Sleep(200 * time.Microsecond)
					}
				}
				dastard.VerifGate()
				for _, p := range dastard.VerifParked() {
					dastard.VerifRelease(p.ID)
				}
			}
			a.wait(3 * time.Second)
			b.wait(3 * time.Second)
			rets = append(rets, a.ret, b.ret)
			if a.ret == 2 || b.ret == 2 {
				break
			}
		}
		probe := 0
		if h.ds.GetState() == dastard.Active {
			probe = 1 + b2i(h.c11Feed(nchan, 100000, 0))
		}
		return fmt.Sprintf("RET %s PROBE %d %s", ints(rets), probe, h.finish(true))
	}
}

func c11Gen(r *Rng, tier string, idx int) (string, func() string) {
	if idx == 0 {
		return "kind facts", func() string { return c11Facts() }
	}
	if idx == 150 {
		return c11HW(idx, r, 1) // the one (6 s) case in which the Abaco packet stream ends by itself
	}
	if idx >= 151 && idx <= 155 {
		return c11HW(idx, r, idx-149) // pixel-map histories on every source kind: roach, lancero, abaco, tri, sim
	}
	switch c := r.Intn(100); {
	case c < 5:
		return c11HW(idx, r, 0)
	case c < 12:
		return c11Pair(idx, r)
	case c < 50:
		return c11Hist(idx, r)
	case c < 82:
		return c11Timing(idx, r)
	default:
		return c11Fault(idx, r)
	}
}
