package main

// C04 — Lancero ingest.  Two kinds of case:
//
//	R  the REAL launchLanceroReader + getNextBlock + distributeData against a scripted in-memory card
//	   (c04Card implements lancero.Lanceroer): the harness chooses the byte stream (well-formed frames,
//	   optionally with byte ranges cut out, rarely malformed), how many bytes become visible at each
//	   reader tick, the card's time stamps and an up-front mix configuration.
//	D  the REAL getNextBlock/distributeData/ConfigureMixFraction driven directly: a history of buffer
//	   messages (readout-order slices of generated frames, time stamp, data-drop flag) interleaved with
//	   mix requests.
//
// Observable: the blocks (per-channel data, first frame, droppedFrames, external trigger counts).
// Times are in milliseconds with a 1000 Hz frame rate, so the wall-clock based dropped-frame estimate
// of the code is the integer difference of the scripted times.

import (
	"fmt"
	"io"
	"math"
	"strings"
	"sync"
	"time"

	"github.com/usnistgov/dastard"
)

func init() {
	caseGens["C04"] = caseGen{
		count: func(tier string) int {
			if tier == "thorough" {
				return 20000
			}
			return 4000
		},
		gen: genC04,
	}
}

// ---------------------------------------------------------------------------------------------
// scripted card

type c04Card struct {
	mu       sync.Mutex
	stream   []byte
	avail    int
	released int
	sched    []int
	times    []int64 // ms
	call     int
	gate     chan struct{} // the first read waits for it
	done     chan struct{} // closed when the reader asks beyond the schedule (all ticks processed)
	doneOnce sync.Once
	overRel  bool
}

func (c *c04Card) ChangeRingBuffer(int, int) error                { return nil }
func (c *c04Card) Close() error                                   { return nil }
func (c *c04Card) StartAdapter(int, int) error                    { return nil }
func (c *c04Card) StopAdapter() error                             { return nil }
func (c *c04Card) CollectorConfigure(int, int, uint32, int) error { return nil }
func (c *c04Card) StartCollector(bool) error                      { return nil }
func (c *c04Card) StopCollector() error                           { return nil }
func (c *c04Card) InspectAdapter() uint32                         { return 0 }
func (c *c04Card) Wait() (time.Time, time.Duration, error)        { return time.Now(), 0, nil }

func (c *c04Card) AvailableBuffer() ([]byte, time.Time, error) {
	<-c.gate
	c.mu.Lock()
	defer c.mu.Unlock()
	k := c.call
	c.call++
	if k >= len(c.sched) {
		// the previous tick has been processed completely (its block is on the buffers channel)
		c.doneOnce.Do(func() { close(c.done) })
		return []byte{}, time.Unix(0, c.times[len(c.times)-1]*1e6), nil
	}
	c.avail += c.sched[k]
	if c.avail > len(c.stream) {
		c.avail = len(c.stream)
	}
	b := make([]byte, c.avail-c.released)
	copy(b, c.stream[c.released:c.avail])
	return b, time.Unix(0, c.times[k]*1e6), nil
}

func (c *c04Card) ReleaseBytes(n int) error {
	c.mu.Lock()
	defer c.mu.Unlock()
	c.released += n
	if c.released > c.avail || n < 0 {
		c.overRel = true
		if c.released > c.avail {
			c.released = c.avail
		}
	}
	return nil
}

// ---------------------------------------------------------------------------------------------
// generators

func c04Geom(r *Rng, tier string) (int, int) {
	nc := r.Pick(1, 1, 2, 2, 3, 4)
	nr := r.Range(2, 8)
	if tier == "thorough" && r.Chance(25) {
		nr = r.Pick(9, 12, 16, 24, 31, 32)
	}
	return nc, nr
}

func c04Err(r *Rng) uint16 {
	switch r.Intn(8) {
	case 0:
		return uint16(r.Pick(0, 1, 0x7fff, 0x8000, 0x8001, 0xffff, 0xfffe))
	case 1:
		return uint16(r.Intn(40))             // small positive
	case 2:
		return uint16(0x10000 - r.Range(1, 40)) // small negative
	default:
		return uint16(r.Intn(65536))
	}
}

func c04Fb(r *Rng) uint16 {
	switch r.Intn(8) {
	case 0:
		return uint16(r.Pick(0, 3, 4, 0xfffc, 0xffff, 0x8000))
	case 1:
		return uint16(r.Intn(64))
	case 2:
		return uint16(65535 - r.Intn(64))
	default:
		return uint16(r.Intn(65536))
	}
}

// c04Flags gives the external-trigger level for every (frame,row) in time order: runs of every length.
func c04Flags(r *Rng, n, nr int) []bool {
	fl := make([]bool, n)
	switch r.Intn(10) {
	case 0: // never
		return fl
	case 1: // always
		for i := range fl {
			fl[i] = true
		}
		return fl
	}
	maxRun := r.Pick(1, 2, 3, nr, nr+1, 2*nr+2)
	level := r.Bool()
	i := 0
	for i < n {
		run := r.Range(1, maxRun)
		for k := 0; k < run && i < n; k++ {
			fl[i] = level
			i++
		}
		level = !level
	}
	return fl
}

// c04Frames builds nf well-formed frames (frame bit on row 0, ext flag per row) as bytes.
// uniform=false: the ext flag differs between the columns of a row (not what the card does).
func c04Frames(r *Rng, nc, nr, nf int, uniform bool) []byte {
	flags := c04Flags(r, nf*nr, nr)
	out := make([]byte, 0, nf*nc*nr*4)
	for f := 0; f < nf; f++ {
		for row := 0; row < nr; row++ {
			for col := 0; col < nc; col++ {
				e := c04Err(r)
				fb := c04Fb(r) &^ 3
				if row == 0 {
					fb |= 1
				}
				fl := flags[f*nr+row]
				if !uniform && col > 0 {
					fl = r.Bool()
				}
				if fl {
					fb |= 2
				}
				out = append(out, byte(e), byte(e>>8), byte(fb), byte(fb>>8))
			}
		}
	}
	return out
}

var c04Fractions = []float64{0, 0, 0.5, -0.5, 1, -1, 0.11, -0.37, 2.5, 7, -7, 1e3, -1e3, 1e6, -1e6, 1e300, -1e300, 1e-300, math.Copysign(0, -1)}

func c04MixReq(r *Rng, nchan int) ([]int, []float64) {
	k := r.Range(1, 3)
	var idx []int
	var fr []float64
	for j := 0; j < k; j++ {
		ch := 2*r.Intn(nchan/2) + 1
		if r.Chance(6) {
			ch = r.Pick(0, 2, nchan, nchan+1, -1, -3, nchan-2)
		}
		idx = append(idx, ch)
		f := c04Fractions[r.Intn(len(c04Fractions))]
		if r.Chance(20) {
			f = (float64(r.Intn(2000)) - 1000) / 64
		}
		fr = append(fr, f)
	}
	return idx, fr
}

func c04MixStr(idx []int, fr []float64) string {
	var sb strings.Builder
	fmt.Fprintf(&sb, "%d", len(idx))
	for i := range idx {
		fmt.Fprintf(&sb, " %d %d", idx[i], math.Float64bits(fr[i]))
	}
	return sb.String()
}

func c04Hex16(d []dastard.RawType) string {
	if len(d) == 0 {
		return "-"
	}
	b := make([]byte, 0, 2*len(d))
	for _, x := range d {
		b = append(b, byte(x), byte(x>>8))
	}
	return fmt.Sprintf("%x", b)
}

func c04BlockStr(b dastard.VerifLanceroBlock) string {
	var sb strings.Builder
	same := 1
	for i := range b.FirstFrame {
		if b.FirstFrame[i] != b.FirstFrame[0] || b.Dropped[i] != b.Dropped[0] {
			same = 0
		}
	}
	first, dropped := int64(0), 0
	if len(b.FirstFrame) > 0 {
		first, dropped = b.FirstFrame[0], b.Dropped[0]
	}
	fmt.Fprintf(&sb, "%d %d %d %d %s %d", first, same, dropped, b.NSamp, ints(b.Ext), len(b.Data))
	for _, d := range b.Data {
		sb.WriteString(" " + c04Hex16(d))
	}
	return sb.String()
}

func c04Quiet() {
	if dastard.ProblemLogger != nil {
		dastard.ProblemLogger.SetOutput(io.Discard)
	}
}

func genC04(r *Rng, tier string, idx int) (string, func() string) {
	if idx%5 == 0 {
		return genC04Reader(r, tier)
	}
	return genC04Dist(r, tier)
}

// ---------------------------------------------------------------------------------------------
// R cases

func genC04Reader(r *Rng, tier string) (string, func() string) {
	nc, nr := c04Geom(r, tier)
	fs := nc * nr * 4
	nsamp := r.Pick(1, 1, 2, 4, 16)
	first := int64(r.Pick(0, 1, 100, 99999, 1<<40))
	if r.Chance(30) {
		first = int64(r.Intn(1000000))
	}
	t0 := int64(r.Range(1000, 2000000))
	nf := r.Range(3, 16)
	if r.Chance(20) {
		nf = r.Range(1, 40)
	}
	kind := r.Intn(100)
	orig := c04Frames(r, nc, nr, nf, !r.Chance(8))
	type gap struct{ pos, ln int }
	var gaps []gap
	mkGap := func(lo int) gap {
		// position: every offset class within a frame; length: every class relative to row / frame
		fr := r.Intn(nf)
		off := r.Pick(0, 4, 4*nc-4, 4*nc, 4*nc+4, fs/2/4*4, fs-4)
		if r.Chance(30) {
			off = 4 * r.Intn(nc*nr)
		}
		pos := fr*fs + off
		if pos < lo {
			pos = lo
		}
		ln := r.Pick(4, 4*nc, 4*nc+4, fs-4, fs, fs+4, 2*fs+8, fs/2/4*4)
		if r.Chance(30) {
			ln = 4 * r.Range(1, 3*nc*nr)
		}
		if ln <= 0 {
			ln = 4
		}
		if pos > len(orig) {
			pos = len(orig) / 4 * 4
		}
		if pos+ln > len(orig) {
			ln = len(orig) - pos
		}
		return gap{pos, ln}
	}
	switch {
	case kind < 50: // loss-free
	case kind < 88: // one gap
		g := mkGap(0)
		if g.ln > 0 {
			gaps = append(gaps, g)
		}
	case kind < 93: // two gaps
		g1 := mkGap(0)
		if g1.ln > 0 {
			gaps = append(gaps, g1)
			g2 := mkGap(g1.pos + g1.ln + 4)
			if g2.ln > 0 && g2.pos >= g1.pos+g1.ln {
				gaps = append(gaps, g2)
			}
		}
	default: // malformed: frame bits flipped at random places, or random bytes
		if r.Bool() {
			for k := r.Range(1, 6); k > 0 && len(orig) > 4; k-- {
				w := r.Intn(len(orig) / 4)
				orig[4*w+2] ^= 1
			}
		} else {
			for i := range orig {
				orig[i] = byte(r.Intn(256))
			}
			if r.Bool() { // no frame bits at all / everywhere
				v := byte(r.Intn(2))
				for w := 0; w < len(orig)/4; w++ {
					orig[4*w+2] = orig[4*w+2]&^1 | v
				}
			}
		}
	}
	stream := append([]byte{}, orig...)
	for i := len(gaps) - 1; i >= 0; i-- {
		stream = append(stream[:gaps[i].pos:gaps[i].pos], stream[gaps[i].pos+gaps[i].ln:]...)
	}
	// schedule: bytes becoming visible per tick
	var sched []int
	var times []int64
	mode := r.Intn(6)
	left := len(stream)
	t := t0
	for left > 0 && len(sched) < 90 {
		var c int
		switch mode {
		case 0: // tiny: 1 word .. 1 row
			c = 4 * r.Range(1, nc)
		case 1: // below the 3-frame minimum
			c = 4 * r.Range(1, 3*nc*nr-1)
		case 2: // 3..5 frames, frame aligned
			c = fs * r.Range(3, 5)
		case 3: // anything from one word to five frames
			c = 4 * r.Range(1, 5*nc*nr)
		case 4: // byte granular
			c = r.Range(1, 5*fs)
		default:
			c = r.Pick(4, fs-4, fs, fs+4, 3*fs-4, 3*fs, 3*fs+4, 5*fs)
		}
		if len(sched) >= 80 {
			c = left
		}
		if c > left {
			c = left
		}
		left -= c
		t += int64(r.Range(1, 5))
		sched = append(sched, c)
		times = append(times, t)
	}
	for k := r.Range(1, 2); k > 0; k-- { // idle ticks at the end
		t += int64(r.Range(1, 5))
		sched = append(sched, 0)
		times = append(times, t)
	}
	var mixIdx []int
	var mixFr []float64
	if r.Chance(50) {
		mixIdx, mixFr = c04MixReq(r, nc*nr*2)
	}
	var sb strings.Builder
	fmt.Fprintf(&sb, "R %d %d %d %d %d mix %s orig %s gaps %d", nc, nr, nsamp, first, t0, c04MixStr(mixIdx, mixFr), hexs(orig), len(gaps))
	for _, g := range gaps {
		fmt.Fprintf(&sb, " %d %d", g.pos, g.ln)
	}
	fmt.Fprintf(&sb, " ticks %d", len(sched))
	for i := range sched {
		fmt.Fprintf(&sb, " %d %d", sched[i], times[i])
	}
	run := func() string {
		c04Quiet()
		dastard.VerifReadPeriod = 150 * time.Microsecond
		card := &c04Card{stream: stream, sched: sched, times: times, gate: make(chan struct{}), done: make(chan struct{})}
		v := dastard.NewVerifLancero(card, nc, nr, nsamp, 1000.0, first, t0*1e6)
		v.LaunchReader()
		v.BeginBlock()
		mixres := 1
		if len(mixIdx) > 0 {
			if _, err := v.ConfigureMix(mixIdx, mixFr); err != nil {
				mixres = 0
			}
		}
		close(card.gate)
		go func() {
			<-card.done
			v.Abort()
		}()
		var blocks []string
		for {
			b := v.EndBlock()
			if b.Closed {
				break
			}
			blocks = append(blocks, c04BlockStr(b))
			v.BeginBlock()
		}
		var ob strings.Builder
		fmt.Fprintf(&ob, "mixres %d blocks %d", mixres, len(blocks))
		for _, b := range blocks {
			ob.WriteString(" " + b)
		}
		if card.overRel {
			return "PANIC over-release"
		}
		return ob.String()
	}
	return sb.String(), run
}

// ---------------------------------------------------------------------------------------------
// D cases

func genC04Dist(r *Rng, tier string) (string, func() string) {
	nc, nr := c04Geom(r, tier)
	nchan := nc * nr * 2
	nsamp := r.Pick(1, 1, 2, 4, 16)
	first := int64(r.Pick(0, 1, 100, 99999, 1<<40))
	if r.Chance(30) {
		first = int64(r.Intn(1000000))
	}
	t0 := int64(r.Range(1000, 2000000))
	nsteps := r.Range(1, 9)
	uniform := !r.Chance(8)
	dropPct := r.Pick(0, 0, 15, 40)
	type step struct {
		isMix  bool
		idx    []int
		fr     []float64
		nf     int
		t      int64
		drop   bool
		frames []byte
	}
	var steps []step
	t := t0
	// one flag sequence across the whole history so that pulses straddle block boundaries
	var sb strings.Builder
	fmt.Fprintf(&sb, "D %d %d %d %d %d steps %d", nc, nr, nsamp, first, t0, nsteps)
	for k := 0; k < nsteps; k++ {
		if r.Chance(30) {
			idx, fr := c04MixReq(r, nchan)
			steps = append(steps, step{isMix: true, idx: idx, fr: fr})
			fmt.Fprintf(&sb, " M %s", c04MixStr(idx, fr))
			continue
		}
		nf := r.Pick(1, 1, 2, 3, 5, 8, 13)
		if r.Chance(10) {
			nf = r.Range(1, 30)
		}
		dt := int64(r.Range(1, 60))
		if r.Chance(4) {
			dt = -int64(r.Range(0, 20)) // a clock that steps back: negative estimate
		}
		t += dt
		st := step{nf: nf, t: t, drop: r.Chance(dropPct), frames: c04Frames(r, nc, nr, nf, uniform)}
		steps = append(steps, st)
		fmt.Fprintf(&sb, " B %d %d %d %s", nf, t, b2i(st.drop), hexs(st.frames))
	}
	run := func() string {
		c04Quiet()
		v := dastard.NewVerifLancero(nil, nc, nr, nsamp, 1000.0, first, t0*1e6)
		v.BeginBlock()
		var ob strings.Builder
		fmt.Fprintf(&ob, "res %d", len(steps))
		for _, st := range steps {
			if st.isMix {
				ok := 1
				if _, err := v.ConfigureMix(st.idx, st.fr); err != nil {
					ok = 0
				}
				fmt.Fprintf(&ob, " M %d", ok)
				continue
			}
			// readout-order slices of the frames (what the reader's demultiplexing loop produces)
			dc := make([][]dastard.RawType, nchan)
			for i := range dc {
				dc[i] = make([]dastard.RawType, st.nf)
				for j := 0; j < st.nf; j++ {
					o := 2 * (i + j*nchan)
					dc[i][j] = dastard.RawType(st.frames[o]) | dastard.RawType(st.frames[o+1])<<8
				}
			}
			v.Feed(dc, st.t*1e6, st.nf*nc*nr*4, st.drop)
			b := v.EndBlock()
			fmt.Fprintf(&ob, " B %s", c04BlockStr(b))
			v.BeginBlock()
		}
		v.CloseBuffers()
		v.EndBlock()
		return ob.String()
	}
	return sb.String(), run
}
