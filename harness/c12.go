package main

import (
	"fmt"
	"strings"

	"github.com/usnistgov/dastard"
)

func init() { gens["C12"] = genC12 }

// genC12 drives the real PhaseUnwrapper on generated 16-bit sequences split into calls.
func genC12(r *Rng, tier string, o *Out) {
	n := 1500
	if tier == "thorough" {
		n = 60000
	}
	nlong := 4 // long runs away from the home offset with reset intervals around and beyond 2^15 and 2^16
	if tier == "thorough" {
		nlong = 40
	}
	for i := 0; i < n; i++ {
		long := i < nlong
		// parameter sets: the two real ones (Abaco 16/4, ROACH 14/2) plus any valid one
		var fb, drop uint
		switch r.Intn(4) {
		case 0:
			fb, drop = 16, 4
		case 1:
			fb, drop = 14, 2
		default:
			fb = uint(r.Range(2, 16))
			drop = uint(r.Range(1, int(fb)-1))
		}
		enable := r.Chance(85)
		if r.Chance(5) {
			drop = 0
			enable = false
		}
		sign := r.Pick(1, -1)
		bias := 0
		switch r.Intn(3) {
		case 0:
			bias = 24904 * sign // calcBiasLevel()
			if fb == 14 {
				bias >>= 2 // scaled to the ROACH quantum (see DESIGN: ROACH bias finding)
			}
			if fb != 16 && fb != 14 {
				bias = 0
			}
		case 1:
			// any bias within half a quantum (after the bit drop)
			if fb > drop+1 {
				onePi := 1 << (fb - drop - 1)
				bias = r.Range(-onePi, onePi) << drop
			}
		}
		reset := r.Pick(1, 2, 3, 5, 20, 20000)
		invert := r.Chance(20)
		total := r.Range(1, 60)
		kind := r.Intn(5)
		if long {
			enable = true
			if drop == 0 || fb <= drop+1 {
				fb, drop = 16, 4
			}
			reset = r.Pick(32766, 32767, 32768, 40000, 65535, 65536, 70000)
			total = reset + r.Range(5, 80)
			kind = 5
		}
		data := make([]dastard.RawType, total)
		x := r.Intn(65536)
		twoPiRaw := 1 << fb
		for j := range data {
			switch kind {
			case 0: // uniform noise
				x = r.Intn(65536)
			case 1: // slow drift with wraps
				x = (x + r.Range(-twoPiRaw/8-1, twoPiRaw/8+1) + 65536*4) % 65536
			case 2: // steps near the half-quantum decision boundary
				x = (x + r.Pick(1, -1)*(twoPiRaw/2+r.Range(-(1<<drop)*2, (1<<drop)*2)) + 65536*4) % 65536
			case 3: // pulses: big jump then decay
				if r.Chance(15) {
					x = (x + sign*r.Range(twoPiRaw/4, twoPiRaw*3) + 65536*8) % 65536
				} else {
					x = (x - sign*r.Range(0, twoPiRaw/16+1) + 65536*8) % 65536
				}
			case 4: // extremes
				x = r.Pick(0, 65535, 32767, 32768, 1, 65534)
			case 5: // one wrap away from home early on, then (nearly) flat for longer than the reset interval
				if j == 3 {
					x = (x + sign*(twoPiRaw/2+twoPiRaw/8) + 65536*4) % 65536
				} else if j > 3 && r.Chance(1) {
					x = (x + r.Range(-1, 1)*(1<<drop) + 65536) % 65536
				}
			}
			data[j] = dastard.RawType(x)
		}
		// split into calls
		var calls [][]dastard.RawType
		rest := data
		for len(rest) > 0 {
			k := len(rest)
			if r.Chance(70) {
				k = r.Range(1, len(rest))
			}
			c := make([]dastard.RawType, k)
			copy(c, rest[:k])
			calls = append(calls, c)
			rest = rest[k:]
		}
		if r.Chance(10) {
			calls = append(calls, []dastard.RawType{}) // empty call
		}
		var in strings.Builder
		fmt.Fprintf(&in, "fb %d drop %d en %d bias %d reset %d sign %d inv %d calls %d", fb, drop, b2i(enable), bias, reset, sign, b2i(invert), len(calls))
		for _, c := range calls {
			in.WriteString(" " + ints(c))
		}
		u := dastard.NewPhaseUnwrapper(fb, drop, enable, bias, reset, sign, invert)
		var out strings.Builder
		fmt.Fprintf(&out, "%d", len(calls))
		for _, c := range calls {
			u.UnwrapInPlace(&c)
			out.WriteString(" " + ints(c))
		}
		o.Case("%s OUT %s", in.String(), out.String())
	}
}
