package main

import (
	"fmt"
	"strings"

	"github.com/usnistgov/dastard"
	"github.com/usnistgov/dastard/packets"
)

func init() { gens["C12"] = genC12 }

// genC12 drives the real PhaseUnwrapper on generated 16-bit sequences split into calls.
func genC12(r *Rng, tier string, o *Out) {
	n := 1500
	if tier == "thorough" {
		n = 60000
	}
	nlong := 4 // long runs away from the home offset with reset intervals around and beyond 2^15 and 2^16
	nramp := 8 // ramps once around the 16-bit output range (see below)
	if tier == "thorough" {
		nlong = 40
		nramp = 60
	}
	ngrp := 150 // the unwrappers as the Abaco source wires them: NewAbacoGroup + demuxData on real packets
	if tier == "thorough" {
		ngrp = 6000
	}
	for i := 0; i < ngrp; i++ {
		c12Group(r, o)
	}
	nroach := 3 // the unwrappers as the ROACH source wires them: a real RoachDevice on a loopback UDP port
	if tier == "thorough" {
		nroach = 12
	}
	for i := 0; i < nroach; i++ {
		c12Roach(r, i, i == 0, o)
	}
	for i := 0; i < n; i++ {
		long := i < nlong
		// parameter sets: the two real ones (Abaco 16/4, ROACH 14/2) plus any valid one
		var fb, drop uint
		switch r.Intn(4) {
		case 0:
			fb, drop = 16, 4
		case 1:
			fb, drop = 14, 2
		default:
			fb = uint(r.Range(2, 16))
			drop = uint(r.Range(1, int(fb)-1))
		}
		enable := r.Chance(85)
		if r.Chance(5) {
			drop = 0
			enable = false
		}
		sign := r.Pick(1, -1)
		bias := 0
		switch r.Intn(3) {
		case 0:
			bias = 24904 * sign // calcBiasLevel()
			if fb == 14 {
				bias >>= 2 // scaled to the ROACH quantum (see DESIGN: ROACH bias finding)
			}
			if fb != 16 && fb != 14 {
				bias = 0
			}
		case 1:
			// any bias within half a quantum (after the bit drop)
			if fb > drop+1 {
				onePi := 1 << (fb - drop - 1)
				bias = r.Range(-onePi, onePi) << drop
			}
		}
		reset := r.Pick(1, 2, 3, 5, 20, 20000)
		invert := r.Chance(20)
		total := r.Range(1, 60)
		kind := r.Intn(5)
		if long {
			enable = true
			if drop == 0 || fb <= drop+1 {
				fb, drop = 16, 4
			}
			reset = r.Pick(32766, 32767, 32768, 40000, 65535, 65536, 70000)
			total = reset + r.Range(5, 80)
			kind = 5
		}
		// directed share: a steady RAMP that carries the unwrap offset once around the whole 16-bit output range
		// (2^(16-fb+drop) quanta in one direction) within fewer samples than the reset interval, a pause at what
		// is - modulo 2^16 - the home offset again, one more flux jump, and then a flat stretch longer than the
		// reset interval: the automatic return must come reset+1 samples after the LAST departure from home
		ramp := !long && i >= nlong && i < nlong+nramp
		if ramp {
			pr := [][2]uint{{16, 4}, {14, 2}, {16, 1}, {15, 1}, {16, 2}, {13, 1}}[r.Intn(6)]
			fb, drop = pr[0], pr[1]
			enable, invert, bias = true, false, 0
			reset = r.Pick(20, 50, 200)
			kind = 6
		}
		data := make([]dastard.RawType, total)
		x := r.Intn(65536)
		twoPiRaw := 1 << fb
		if ramp {
			mask := twoPiRaw - 1
			post := func(raw int) int { return (raw & mask) >> drop }
			onePi := 1 << (fb - drop - 1)
			turn := 1 << (16 - fb + drop)
			data = data[:0]
			dir := r.Pick(1, -1)
			jumps, last := 0, 0
			x &= mask
			for first := true; jumps < turn; first = false {
				if !first {
					x = (x + dir*(twoPiRaw*6/10) + 4*twoPiRaw) & mask
				}
				v := post(x)
				if !first && (v-last > onePi || v-last < -onePi) {
					jumps++
				}
				last = v
				data = append(data, dastard.RawType(x))
			}
			for k := r.Range(1, reset/2); k > 0; k-- { // back "home" modulo 2^16
				data = append(data, dastard.RawType(x))
			}
			x = (x + dir*(twoPiRaw*6/10) + 4*twoPiRaw) & mask // one more jump (or not: both are fine)
			for k := reset + r.Range(3, 12); k > 0; k-- {
				data = append(data, dastard.RawType(x))
			}
			total = len(data)
		}
		for j := range data {
			if ramp {
				break
			}
			switch kind {
			case 0: // uniform noise
				x = r.Intn(65536)
			case 1: // slow drift with wraps
				x = (x + r.Range(-twoPiRaw/8-1, twoPiRaw/8+1) + 65536*4) % 65536
			case 2: // steps near the half-quantum decision boundary
				x = (x + r.Pick(1, -1)*(twoPiRaw/2+r.Range(-(1<<drop)*2, (1<<drop)*2)) + 65536*4) % 65536
			case 3: // pulses: big jump then decay
				if r.Chance(15) {
					x = (x + sign*r.Range(twoPiRaw/4, twoPiRaw*3) + 65536*8) % 65536
				} else {
					x = (x - sign*r.Range(0, twoPiRaw/16+1) + 65536*8) % 65536
				}
			case 4: // extremes
				x = r.Pick(0, 65535, 32767, 32768, 1, 65534)
			case 5: // one wrap away from home early on, then (nearly) flat for longer than the reset interval
				if j == 3 {
					x = (x + sign*(twoPiRaw/2+twoPiRaw/8) + 65536*4) % 65536
				} else if j > 3 && r.Chance(1) {
					x = (x + r.Range(-1, 1)*(1<<drop) + 65536) % 65536
				}
			}
			data[j] = dastard.RawType(x)
		}
		// split into calls
		var calls [][]dastard.RawType
		rest := data
		for len(rest) > 0 {
			k := len(rest)
			if r.Chance(70) {
				k = r.Range(1, len(rest))
			}
			c := make([]dastard.RawType, k)
			copy(c, rest[:k])
			calls = append(calls, c)
			rest = rest[k:]
		}
		if r.Chance(10) {
			calls = append(calls, []dastard.RawType{}) // empty call
		}
		var in strings.Builder
		fmt.Fprintf(&in, "fb %d drop %d en %d bias %d reset %d sign %d inv %d calls %d", fb, drop, b2i(enable), bias, reset, sign, b2i(invert), len(calls))
		for _, c := range calls {
			in.WriteString(" " + ints(c))
		}
		u := dastard.NewPhaseUnwrapper(fb, drop, enable, bias, reset, sign, invert)
		var out strings.Builder
		fmt.Fprintf(&out, "%d", len(calls))
		for _, c := range calls {
			u.UnwrapInPlace(&c)
			out.WriteString(" " + ints(c))
		}
		o.Case("%s OUT %s", in.String(), out.String())
	}
}

// c12Group builds a real channel group with generated unwrap options (NewAbacoGroup), feeds it real
// packets in several demuxData calls and reports what every channel of the group receives.
func c12Group(r *Rng, o *Out) {
	first := r.Pick(0, 0, 1, 2, 4, 8, 12, 100)
	nch := r.Range(1, 6)
	if r.Chance(25) { // larger groups, sizes that are no multiple of anything convenient
		nch = r.Pick(7, 9, 11, 13, 16, 17, 23, 31, 33)
	}
	opt := dastard.AbacoUnwrapOptions{RescaleRaw: r.Chance(88), ResetAfter: r.Pick(1, 2, 3, 5, 20, 20000), PulseSign: r.Pick(1, -1, 1, -1, 0, 2, -2, 5, -7)} // only the sign counts (0 counts as not negative / not positive)
	opt.Unwrap = opt.RescaleRaw && r.Chance(80)
	opt.Bias = r.Chance(50)
	inv := []int{}
	switch r.Intn(4) {
	case 0: // none
	case 1: // channel numbers of this group
		for c := first; c < first+nch; c++ {
			if r.Chance(50) {
				inv = append(inv, c)
			}
		}
	case 2: // small numbers: indices within the group, which are channel numbers only when first == 0
		for c := 0; c < nch+2; c++ {
			if r.Chance(50) {
				inv = append(inv, c)
			}
		}
	default: // anything around the group, repeats allowed
		for k := r.Intn(5); k > 0; k-- {
			inv = append(inv, r.Range(0, first+nch+2))
		}
	}
	opt.InvertChan = inv
	wide := r.Chance(20)
	g := dastard.NewAbacoGroup(dastard.GroupIndex{Firstchan: first, Nchan: nch}, opt)
	ncalls := r.Range(1, 4)
	x := make([]int, nch)
	for c := range x {
		x[c] = r.Intn(65536)
	}
	kind := r.Intn(4)
	var in, out strings.Builder
	fmt.Fprintf(&in, "grp first %d nch %d resc %d unw %d bias %d reset %d sign %d inv %s wide %d calls %d",
		first, nch, b2i(opt.RescaleRaw), b2i(opt.Unwrap), b2i(opt.Bias), opt.ResetAfter, opt.PulseSign, ints(inv), b2i(wide), ncalls)
	fmt.Fprintf(&out, "%d", ncalls)
	seq := uint32(r.Intn(1000))
	for k := 0; k < ncalls; k++ {
		npk := r.Range(1, 3)
		frames := 0
		var pkts []*packets.Packet
		var all []int
		for q := 0; q < npk; q++ {
			fr := r.Range(1, 8)
			frames += fr
			vals := make([]int, 0, fr*nch)
			for f := 0; f < fr; f++ {
				for c := 0; c < nch; c++ {
					switch kind {
					case 0:
						x[c] = r.Intn(65536)
					case 1:
						x[c] = (x[c] + r.Range(-8193, 8193) + 65536*4) % 65536
					case 2:
						x[c] = (x[c] + r.Pick(1, -1)*(32768+r.Range(-32, 32)) + 65536*4) % 65536
					default:
						if r.Chance(15) {
							x[c] = (x[c] + opt.PulseSign*r.Range(16384, 3*65536) + 65536*8) % 65536
						} else {
							x[c] = (x[c] - opt.PulseSign*r.Range(0, 4097) + 65536*8) % 65536
						}
					}
					v := int(int16(uint16(x[c])))
					if wide { // the 16 bits above bit 15 carry the sample; the low half is anything
						v = int(int32(uint32(x[c])<<16 | uint32(r.Intn(65536))))
					}
					vals = append(vals, v)
				}
			}
			pk := packets.NewPacket(10, 20, seq, first)
			seq++
			var err error
			if wide {
				d := make([]int32, len(vals))
				for i, v := range vals {
					d[i] = int32(v)
				}
				err = pk.NewData(d, []int16{int16(nch)})
			} else {
				d := make([]int16, len(vals))
				for i, v := range vals {
					d[i] = int16(v)
				}
				err = pk.NewData(d, []int16{int16(nch)})
			}
			if err != nil {
				panic(err)
			}
			pkts = append(pkts, pk)
			all = append(all, vals...)
		}
		in.WriteString(" " + ints(all))
		dc := dastard.VerifGroupDemux(g, pkts, frames)
		fmt.Fprintf(&out, " %d", len(dc))
		for _, ch := range dc {
			out.WriteString(" " + ints(ch))
		}
	}
	o.Case("%s OUT %s", in.String(), out.String())
}
