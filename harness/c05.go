package main

// C05 — output files.  Real ljh.Writer / ljh.Writer3 / off.Writer (modes dir22, dir3, diroff), the real
// DataPublisher.PublishData with any subset of the three writers (mode pub) and the real
// AnySource.WriteControl START/PAUSE/UNPAUSE/STOP on a scripted source (mode wc) write files into a
// per-process directory under $VERIF_WORKDIR; the files are read back and sent as hex.
//
// line:  <mode> P <params> OPS n <op>... OUT res <0/1 string> f22 <A|hex> f3 <A|hex> foff <A|hex>
// ops:   C | H | F | X | Z | U | S sel | W22 frame ts data | W3 frs frame ts data
//        | WO nsamp npre frame ts ptm pd resid n coef... | P k (R npre frame timeNs ptm pd resid data n coef...)*k
//        | M nb  (wc mode: projectors/basis with nb bases set again on the channel through SetProjectorsBasis)
// `A` = the file does not exist.  Floats travel as IEEE bit patterns, strings and samples as hex.

import (
	"fmt"
	"io"
	"math"
	"os"
	"path/filepath"
	"strings"
	"time"

	"github.com/usnistgov/dastard"
	"github.com/usnistgov/dastard/ljh"
	"github.com/usnistgov/dastard/off"
	"gonum.org/v1/gonum/mat"
)

func init() {
	caseGens["C05"] = caseGen{
		count: func(tier string) int {
			if tier == "thorough" {
				return 3000
			}
			return 900
		},
		gen: genC05,
	}
}

type c05Params struct {
	ci, npre, nsamp, fps                                          int
	tb                                                            float64
	tsoff                                                         int64
	nrows, ncols, nchans, subdiv, row, col, suboff, chnum, px, py int
	src, chname, pxname, dver, ghash, desc                        string
	projR, projC                                                  int
	proj                                                          []float64
	basR, basC                                                    int
	bas                                                           []float64
}

func c05Str(s string) string { return hexs([]byte(s)) }

func c05F64s(xs []float64) string {
	var sb strings.Builder
	fmt.Fprintf(&sb, "%d", len(xs))
	for _, x := range xs {
		fmt.Fprintf(&sb, " %d", math.Float64bits(x))
	}
	return sb.String()
}

func (p *c05Params) line() string {
	return fmt.Sprintf("%d %d %d %d %d %d %d %d %d %d %d %d %d %d %d %d %s %s %s %s %s %s proj %d %d %s basis %d %d %s",
		p.ci, p.npre, p.nsamp, p.fps, math.Float64bits(p.tb), p.tsoff, p.nrows, p.ncols, p.nchans, p.subdiv,
		p.row, p.col, p.suboff, p.chnum, p.px, p.py,
		c05Str(p.src), c05Str(p.chname), c05Str(p.pxname), c05Str(p.dver), c05Str(p.ghash), c05Str(p.desc),
		p.projR, p.projC, c05F64s(p.proj), p.basR, p.basC, c05F64s(p.bas))
}

const c05Alpha = "abcdefghijklmnopqrstuvwxyzABCDEFGHIJKLMNOPQRSTUVWXYZ0123456789 _-.#:()/,"

func c05Name(r *Rng, weird bool) string {
	switch r.Intn(6) {
	case 0:
		return ""
	case 1:
		return fmt.Sprintf("chan%d", r.Intn(300))
	case 2:
		return c05PickS(r, "Lancero", "Abaco", "Roach", "SimPulses", "Triangles")
	}
	n := r.Range(1, 12)
	b := make([]byte, n)
	for i := range b {
		b[i] = c05Alpha[r.Intn(len(c05Alpha))]
	}
	if weird && r.Chance(30) { // JSON escapes: quote, backslash, <, >, &
		b[r.Intn(n)] = "\"\\<>&"[r.Intn(5)]
	}
	return string(b)
}

func c05PickS(r *Rng, xs ...string) string { return xs[r.Intn(len(xs))] }

func c05Int(r *Rng) int {
	switch r.Intn(8) {
	case 0:
		return 0
	case 1:
		return -1
	case 2:
		return math.MaxInt32
	case 3:
		return int(extremeI64(r))
	default:
		return r.Range(-5, 300)
	}
}

func c05Timebase(r *Rng) float64 {
	switch r.Intn(8) {
	case 0:
		return 1e-6
	case 1:
		return 6.4e-7
	case 2:
		return 5e-8
	case 3:
		return 1.0 / float64(r.Range(1, 2000000))
	case 4:
		return math.Float64frombits(r.U64()&0x7fefffffffffffff | 1) // any positive finite double
	case 5:
		return float64(r.Range(1, 1000)) * math.Pow(10, float64(r.Range(-12, 25)))
	case 6:
		return c05PickF(r, 1, 0.5, 9.6e-6, 9.9999995e-7, 1e21, 1e-7, 123456.789, 4.9e-324, math.MaxFloat64, 0.000001)
	default:
		return float64(r.Range(1, 100000)) * 1e-9
	}
}

func c05PickF(r *Rng, xs ...float64) float64 { return xs[r.Intn(len(xs))] }

func c05F64(r *Rng) float64 {
	switch r.Intn(8) {
	case 0:
		return 0
	case 1:
		return math.Float64frombits(r.U64())
	case 2:
		return c05PickF(r, math.Inf(1), math.Inf(-1), math.NaN(), 1, -1, math.MaxFloat64, 5e-324)
	default:
		return float64(r.Range(-70000, 70000)) + float64(r.Intn(1000))/1000
	}
}

func c05Matrix(r *Rng, rows, cols int) []float64 {
	d := make([]float64, rows*cols)
	for i := range d {
		d[i] = c05F64(r)
	}
	return d
}

func c05Samples(r *Rng, n int) []uint16 {
	d := make([]uint16, n)
	switch r.Intn(4) {
	case 0:
		v := uint16(r.Pick(0, 65535, 32768, 0x0a0d, 0x0d0a, 0x2345))
		for i := range d {
			d[i] = v
		}
	case 1:
		base := r.Intn(65536)
		for i := range d {
			d[i] = uint16(base + i*r.Range(0, 3))
		}
	default:
		for i := range d {
			d[i] = uint16(r.U64())
		}
	}
	return d
}

func c05DataHex(d []uint16) string { // big-endian words: not the byte order of the files
	if len(d) == 0 {
		return "-"
	}
	var sb strings.Builder
	for _, x := range d {
		fmt.Fprintf(&sb, "%04x", x)
	}
	return sb.String()
}

func c05Length(r *Rng, tier string) int {
	switch r.Intn(10) {
	case 0:
		return r.Pick(1, 2, 3)
	case 1:
		return r.Pick(255, 256, 1024, 4095, 4096)
	case 2:
		return r.Range(1, 4096)
	default:
		return r.Range(1, 64)
	}
}

type c05Rec struct {
	npre           int
	frame, timeNs  int64
	ptm, pd, resid float64
	data           []uint16
	coefs          []float64
}

func f32b(x float64) uint32 { return math.Float32bits(float32(x)) }

func (q *c05Rec) line() string {
	var sb strings.Builder
	fmt.Fprintf(&sb, "R %d %d %d %d %d %d %s %d", q.npre, q.frame, q.timeNs, f32b(q.ptm), f32b(q.pd), f32b(q.resid),
		c05DataHex(q.data), len(q.coefs))
	for _, c := range q.coefs {
		fmt.Fprintf(&sb, " %d", f32b(c))
	}
	return sb.String()
}

func c05I64(r *Rng) int64 {
	switch r.Intn(10) {
	case 0:
		return 0
	case 1:
		return 1 << 62
	case 2:
		return math.MaxInt64
	case 3:
		return int64(r.U64() >> 1)
	case 4:
		return extremeI64(r)
	default:
		return int64(r.U64() >> uint(r.Range(8, 60)))
	}
}

func c05ReadFile(name string) string {
	b, err := os.ReadFile(name)
	if err != nil {
		return "A"
	}
	return hexs(b)
}

func c05Dir() string {
	base := os.Getenv("VERIF_WORKDIR")
	if base == "" {
		base = filepath.Join(os.TempDir(), "c05_verif")
	}
	d := filepath.Join(base, fmt.Sprintf("c05_%d", os.Getpid()))
	os.MkdirAll(d, 0755)
	return d
}

// genParams draws the channel parameters.  geo16: geometry must fit the 16-bit row/column code (wc mode).
func c05GenParams(r *Rng, tier string, wantOff bool, geo16 bool) *c05Params {
	p := &c05Params{}
	p.nsamp = c05Length(r, tier)
	if wantOff && r.Chance(85) {
		p.nsamp = r.Range(1, 40)
	}
	p.npre = r.Pick(0, 1, p.nsamp/4, p.nsamp/2, p.nsamp-1, p.nsamp, r.Intn(p.nsamp+1))
	p.fps = r.Pick(1, 1, 1, 2, 4, r.Range(1, 64))
	p.tb = c05Timebase(r)
	p.tsoff = int64(c05PickU(r, 0, 1, 1789727353050576123, r.U64()>>2, r.U64()>>uint(r.Range(2, 40))))
	p.nrows = r.Pick(1, 2, 8, 32, 64, r.Range(1, 200))
	p.ncols = r.Pick(1, 1, 2, 4, 8, r.Range(1, 20))
	p.row = r.Intn(p.nrows)
	p.col = r.Intn(p.ncols)
	p.nchans = p.nrows * p.ncols * r.Pick(1, 1, 2)
	p.subdiv = r.Pick(0, 1, 2, p.nrows, 64, 128, r.Range(0, 1000))
	p.suboff = r.Pick(0, p.row, r.Intn(p.subdiv+1))
	p.ci = r.Intn(p.nchans)
	p.chnum = r.Pick(p.ci, p.ci+1, r.Intn(1000))
	p.px, p.py = r.Range(-500, 500), r.Range(-500, 500)
	if !geo16 && r.Chance(15) { // arbitrary ints: every header integer is printed with %d / JSON
		p.nrows, p.ncols, p.row, p.col = c05Int(r), c05Int(r), c05Int(r), c05Int(r)
		p.nchans, p.subdiv, p.suboff, p.ci, p.chnum, p.px, p.py = c05Int(r), c05Int(r), c05Int(r), c05Int(r), c05Int(r), c05Int(r), c05Int(r)
		p.fps = c05Int(r)
	}
	p.src = c05Name(r, false)
	p.chname = c05Name(r, false)
	p.pxname = c05Name(r, false)
	p.dver = c05PickS(r, "0.3.4", "0.2.15", c05Name(r, false))
	p.ghash = c05PickS(r, "85ab821", "no git hash computed", c05Name(r, false))
	p.desc = c05Name(r, true)
	if wantOff {
		nb := r.Range(1, 8)
		p.projR, p.projC = nb, p.nsamp
		p.basR, p.basC = p.nsamp, nb
	}
	return p
}

func c05PickU(r *Rng, xs ...uint64) uint64 { return xs[r.Intn(len(xs))] }
func c05Dense(rows, cols int, d []float64) *mat.Dense {
	return mat.NewDense(rows, cols, append([]float64{}, d...))
}

type c05Op struct {
	kind string
	sel  int
	// direct writes
	frs, nsampF, npreF int32
	frame, ts          int64
	ptm, pd, resid     float32
	data               []uint16
	coefs32            []float32
	recs               []*c05Rec
	// M: the channel's model is sent again (SetProjectorsBasis) while writing
	nb2         int
	proj2, bas2 []float64
}

func (o *c05Op) line() string {
	switch o.kind {
	case "S":
		return fmt.Sprintf("S %d", o.sel)
	case "M":
		return fmt.Sprintf("M %d", o.nb2)
	case "W22":
		return fmt.Sprintf("W22 %d %d %s", o.frame, o.ts, c05DataHex(o.data))
	case "W3":
		return fmt.Sprintf("W3 %d %d %d %s", o.frs, o.frame, o.ts, c05DataHex(o.data))
	case "WO":
		var sb strings.Builder
		fmt.Fprintf(&sb, "WO %d %d %d %d %d %d %d %d", o.nsampF, o.npreF, o.frame, o.ts,
			math.Float32bits(o.ptm), math.Float32bits(o.pd), math.Float32bits(o.resid), len(o.coefs32))
		for _, c := range o.coefs32 {
			fmt.Fprintf(&sb, " %d", math.Float32bits(c))
		}
		return sb.String()
	case "P":
		var sb strings.Builder
		fmt.Fprintf(&sb, "P %d", len(o.recs))
		for _, q := range o.recs {
			sb.WriteString(" " + q.line())
		}
		return sb.String()
	}
	return o.kind
}

// number of records of a whole history: 0..200, mostly small
func c05NRecords(r *Rng, tier string, nsamp int) int {
	max := 200
	if nsamp > 1024 && tier != "thorough" {
		max = 24
	}
	switch r.Intn(10) {
	case 0:
		return 0
	case 1:
		return r.Range(max/2, max)
	case 2:
		return max
	default:
		return r.Range(1, 20)
	}
}

func genC05(r *Rng, tier string, idx int) (string, func() string) {
	switch m := r.Intn(100); {
	case m < 6:
		return c05Reader(r, tier, idx)
	case m < 14:
		return c05Direct(r, tier, idx, "dir22")
	case m < 28:
		return c05Direct(r, tier, idx, "dir3")
	case m < 42:
		return c05Direct(r, tier, idx, "diroff")
	case m < 85:
		return c05Pub(r, tier, idx, false)
	default:
		return c05Pub(r, tier, idx, true)
	}
}

// ---- direct writers -------------------------------------------------------------------------

func c05Direct(r *Rng, tier string, idx int, mode string) (string, func() string) {
	p := c05GenParams(r, tier, mode == "diroff", false)
	if mode == "diroff" && r.Chance(30) { // off.NewWriter accepts any two matrices
		p.projC = r.Range(1, 12)
		p.basR, p.basC = r.Range(1, 12), r.Range(1, 8)
	}
	if mode == "diroff" {
		p.proj = c05Matrix(r, p.projR, p.projC)
		p.bas = c05Matrix(r, p.basR, p.basC)
	}
	nrec := c05NRecords(r, tier, p.nsamp)
	ops := []*c05Op{{kind: "C"}, {kind: "H"}}
	pendingChunks := 8
	for k := 0; k < nrec; k++ {
		if r.Chance(12) || pendingChunks > 880 {
			ops = append(ops, &c05Op{kind: "F"})
			pendingChunks = 0
		}
		if mode != "dir22" && r.Chance(3) {
			ops = append(ops, &c05Op{kind: "H"}) // second header: refused by Writer3 / off.Writer
		}
		o := &c05Op{frame: c05I64(r), ts: c05I64(r)}
		switch mode {
		case "dir22":
			o.kind = "W22"
			n := p.nsamp
			if r.Chance(6) {
				n = r.Pick(0, p.nsamp-1, p.nsamp+1, r.Range(0, 70))
			}
			o.data = c05Samples(r, n)
		case "dir3":
			o.kind = "W3"
			n := r.Pick(p.nsamp, p.nsamp, c05Length(r, tier), 0)
			o.data = c05Samples(r, n)
			o.frs = int32(r.Pick(0, 1, n/4+1, n, -1, math.MaxInt32, math.MinInt32, int(int32(r.U64()))))
		case "diroff":
			o.kind = "WO"
			nb := p.projR
			if r.Chance(6) {
				nb = r.Pick(0, nb-1, nb+1, r.Range(0, 12))
			}
			o.coefs32 = make([]float32, nb)
			for j := range o.coefs32 {
				o.coefs32[j] = math.Float32frombits(uint32(r.U64()))
			}
			o.nsampF = int32(r.Pick(p.nsamp, 0, -1, math.MaxInt32, int(int32(r.U64()))))
			o.npreF = int32(r.Pick(p.npre, 0, -1, math.MinInt32, int(int32(r.U64()))))
			o.ptm, o.pd, o.resid = math.Float32frombits(uint32(r.U64())), math.Float32frombits(uint32(r.U64())), float32(c05F64(r))
		}
		pendingChunks += 8
		ops = append(ops, o)
	}
	if r.Chance(30) {
		ops = append(ops, &c05Op{kind: "F"})
	}
	ops = append(ops, &c05Op{kind: "X"})
	in := c05Input(mode, p, ops)
	run := func() string {
		dir := c05Dir()
		name := filepath.Join(dir, fmt.Sprintf("d%d", idx))
		var res strings.Builder
		bit := func(err error) {
			if err != nil {
				res.WriteByte('1')
			} else {
				res.WriteByte('0')
			}
		}
		out := map[string]string{"f22": "A", "f3": "A", "foff": "A"}
		switch mode {
		case "dir22":
			w := ljh.Writer{ChannelIndex: p.ci, Presamples: p.npre, Samples: p.nsamp, FramesPerSample: p.fps,
				SubframeDivisions: p.subdiv, Timebase: p.tb, TimestampOffset: time.Unix(0, p.tsoff),
				NumberOfRows: p.nrows, NumberOfColumns: p.ncols, NumberOfChans: p.nchans, FileName: name + ".ljh",
				DastardVersion: p.dver, GitHash: p.ghash, SourceName: p.src, ChanName: p.chname,
				ChannelNumberMatchingName: p.chnum, ColumnNum: p.col, RowNum: p.row, SubframeOffset: p.suboff,
				PixelXPosition: p.px, PixelYPosition: p.py, PixelName: p.pxname}
			for _, o := range ops {
				switch o.kind {
				case "C":
					bit(w.CreateFile())
				case "H":
					bit(w.WriteHeader(time.Unix(0, o.ts)))
				case "F":
					w.Flush()
				case "X":
					w.Close()
				case "W22":
					bit(w.WriteRecord(o.frame, o.ts, o.data))
				}
			}
			out["f22"] = c05ReadFile(name + ".ljh")
			os.Remove(name + ".ljh")
		case "dir3":
			w := ljh.Writer3{ChannelIndex: p.ci, ChannelName: p.chname, ChannelNumberMatchingIndex: p.chnum, Timebase: p.tb,
				NumberOfRows: p.nrows, NumberOfColumns: p.ncols, SubframeDivisions: p.subdiv, Row: p.row, Column: p.col,
				SubframeOffset: p.suboff, FileName: name + ".ljh3"}
			for _, o := range ops {
				switch o.kind {
				case "C":
					bit(w.CreateFile())
				case "H":
					bit(w.WriteHeader())
				case "F":
					w.Flush()
				case "X":
					w.Close()
				case "W3":
					bit(w.WriteRecord(o.frs, o.frame, o.ts, o.data))
				}
			}
			out["f3"] = c05ReadFile(name + ".ljh3")
			os.Remove(name + ".ljh3")
		case "diroff":
			w := off.NewWriter(name+".off", p.ci, p.chname, p.chnum, p.npre, p.nsamp, p.tb,
				c05Dense(p.projR, p.projC, p.proj), c05Dense(p.basR, p.basC, p.bas), p.desc, p.dver, p.ghash, p.src,
				off.TimeDivisionMultiplexingInfo{NumberOfRows: p.nrows, NumberOfColumns: p.ncols, NumberOfChans: p.nchans,
					SubframeDivisions: p.subdiv, ColumnNum: p.col, RowNum: p.row, SubframeOffset: p.suboff},
				off.PixelInfo{XPosition: p.px, YPosition: p.py, Name: p.pxname})
			for _, o := range ops {
				switch o.kind {
				case "C":
					bit(w.CreateFile())
				case "H":
					bit(w.WriteHeader())
				case "F":
					w.Flush()
				case "X":
					w.Close()
				case "WO":
					bit(w.WriteRecord(o.nsampF, o.npreF, o.frame, o.ts, o.ptm, o.pd, o.resid, o.coefs32))
				}
			}
			out["foff"] = c05ReadFile(name + ".off")
			os.Remove(name + ".off")
		}
		return fmt.Sprintf("res %s f22 %s f3 %s foff %s", res.String(), out["f22"], out["f3"], out["foff"])
	}
	return in, run
}

func c05Input(mode string, p *c05Params, ops []*c05Op) string {
	var sb strings.Builder
	fmt.Fprintf(&sb, "%s P %s OPS %d", mode, p.line(), len(ops))
	for _, o := range ops {
		sb.WriteString(" " + o.line())
	}
	return sb.String()
}

// ---- DataPublisher / WriteControl -----------------------------------------------------------

func c05Pub(r *Rng, tier string, idx int, wc bool) (string, func() string) {
	sel := r.Pick(1, 2, 4, 3, 5, 6, 7, 7)
	p := c05GenParams(r, tier, sel&4 != 0, wc)
	p.dver, p.ghash = dastard.Build.Version, dastard.Build.Githash
	nch, obs := 1, 0
	rate := 1.0 / p.tb
	if wc {
		// the scripted source: nch channels; the observed one carries the generated facts
		nch = r.Range(1, 4)
		obs = r.Intn(nch)
		p.ci = obs
		p.nchans = nch
		p.fps = 1
		rate = c05PickF(r, 1e6, 156250, 125000, 1./6.4e-7, float64(r.Range(1000, 2000000)))
		p.tb = 1.0 / rate
		p.px, p.py, p.pxname = 0, 0, "" // no map
		p.chname = fmt.Sprintf("%s%d", c05PickS(r, "chan", "err", "fb"), r.Intn(500))
		p.src = c05PickS(r, "Lancero", "Abaco", "Roach", "SimPulses", "Triangles")
	}
	if sel&4 != 0 {
		p.proj = c05Matrix(r, p.projR, p.projC)
		p.bas = c05Matrix(r, p.basR, p.basC)
	}
	nrec := c05NRecords(r, tier, p.nsamp)
	var ops []*c05Op
	// a few publishes before START (no writer is set: they must leave no trace)
	if r.Chance(20) {
		ops = append(ops, &c05Op{kind: "P", recs: c05Batch(r, tier, p, sel, r.Range(1, 3))})
	}
	// pause (and sometimes unpause) before START: every Set<format> of START clears the flag, also for OFF alone
	if r.Chance(15) || (sel == 4 && r.Chance(25)) {
		ops = append(ops, &c05Op{kind: "Z"})
		if r.Chance(25) {
			ops = append(ops, &c05Op{kind: "U"})
		}
	}
	ops = append(ops, &c05Op{kind: "S", sel: sel})
	// the channel's model sent again while writing (ConfigureProjectorsBasis is allowed then): the OFF writer
	// must keep the matrices it was started with.  Same shape with other contents, or another number of bases.
	remodel := func() *c05Op {
		nb2 := p.projR
		if r.Chance(55) {
			nb2 = r.Range(1, 8)
		}
		return &c05Op{kind: "M", nb2: nb2, proj2: c05Matrix(r, nb2, p.nsamp), bas2: c05Matrix(r, p.nsamp, nb2)}
	}
	canRemodel := wc && sel&4 != 0
	if canRemodel && r.Chance(45) { // before the channel's first record: the file and its header do not exist yet
		if r.Chance(20) {
			ops = append(ops, &c05Op{kind: c05PickS(r, "F", "Z")})
			if ops[len(ops)-1].kind == "Z" {
				ops = append(ops, &c05Op{kind: "U"})
			}
		}
		ops = append(ops, remodel())
	}
	left := nrec
	pending := 8
	paused := false
	for left > 0 || r.Chance(40) {
		switch c := r.Intn(100); {
		case c < 6 && canRemodel: // any time later (after the first record it must not matter either)
			ops = append(ops, remodel())
		case c < 10:
			ops = append(ops, &c05Op{kind: "F"})
			pending = 0
		case c < 20:
			ops = append(ops, &c05Op{kind: "Z"})
			paused = true
			pending = 0
		case c < 32:
			ops = append(ops, &c05Op{kind: "U"})
			paused = false
			pending = 0
		default:
			k := r.Pick(0, 1, 1, 2, 3, r.Range(1, 12), r.Range(1, 100))
			if k > left {
				k = left
			}
			if k > 100 {
				k = 100
			}
			if pending+8*k > 880 {
				ops = append(ops, &c05Op{kind: "F"})
				pending = 0
			}
			ops = append(ops, &c05Op{kind: "P", recs: c05Batch(r, tier, p, sel, k)})
			if !paused {
				pending += 8 * k
				left -= k
			} else if r.Chance(50) {
				left -= k
			}
			if k == 0 && left == 0 {
				break
			}
		}
		if len(ops) > 400 {
			break
		}
	}
	ops = append(ops, &c05Op{kind: "X"})
	if r.Chance(25) { // after STOP nothing may reach the closed files
		ops = append(ops, &c05Op{kind: "P", recs: c05Batch(r, tier, p, sel, r.Range(1, 3))})
	}
	mode := "pub"
	if wc {
		mode = "wc"
	}
	in := c05Input(mode, p, ops)
	run := func() string {
		dir := c05Dir()
		var res strings.Builder
		bit := func(err error) {
			if err != nil {
				res.WriteByte('1')
			} else {
				res.WriteByte('0')
			}
		}
		toRecs := func(qs []*c05Rec) []dastard.VerifRecord {
			vs := make([]dastard.VerifRecord, len(qs))
			for i, q := range qs {
				d := make([]dastard.RawType, len(q.data))
				for j, x := range q.data {
					d[j] = dastard.RawType(x)
				}
				vs[i] = dastard.VerifRecord{Data: d, TrigFrame: q.frame, TrigTimeNs: q.timeNs, ChannelIndex: p.ci,
					Presamples: q.npre, PretrigMean: q.ptm, PretrigDelta: q.pd, ResidualStdDev: q.resid,
					ModelCoefs: append([]float64{}, q.coefs...)}
			}
			return vs
		}
		var f22, f3, foff string
		if !wc {
			base := filepath.Join(dir, fmt.Sprintf("p%d", idx))
			f22, f3, foff = base+".ljh", base+".ljh3", base+".off"
			dp := &dastard.DataPublisher{}
			for _, o := range ops {
				switch o.kind {
				case "S":
					// the call order of writeControlStart
					if o.sel&1 != 0 {
						dp.SetLJH22(p.ci, p.npre, p.nsamp, p.fps, p.tb, time.Unix(0, p.tsoff), p.nrows, p.ncols, p.nchans,
							p.subdiv, p.row, p.col, p.suboff, f22, p.src, p.chname, p.chnum,
							dastard.Pixel{X: p.px, Y: p.py, Name: p.pxname})
					}
					if o.sel&4 != 0 {
						dp.SetOFF(p.ci, p.npre, p.nsamp, p.fps, p.tb, time.Unix(0, p.tsoff), p.nrows, p.ncols, p.nchans,
							p.subdiv, p.row, p.col, p.suboff, foff, p.src, p.chname, p.chnum,
							c05Dense(p.projR, p.projC, p.proj), c05Dense(p.basR, p.basC, p.bas), p.desc,
							dastard.Pixel{X: p.px, Y: p.py, Name: p.pxname})
					}
					if o.sel&2 != 0 {
						dp.SetLJH3(p.ci, p.tb, p.nrows, p.ncols, p.subdiv, p.suboff, f3)
					}
				case "P":
					bit(dastard.VerifPublish(dp, toRecs(o.recs)))
				case "F":
					dp.Flush()
				case "Z":
					dp.SetPause(true)
				case "U":
					dp.SetPause(false)
				case "X":
					dp.RemoveLJH22()
					dp.RemoveOFF()
					dp.RemoveLJH3()
				}
			}
		} else {
			dastard.DastardStartTime = time.Unix(0, p.tsoff)
			vs := dastard.NewVerifSource(nch, rate)
			if err := vs.VerifPrepare(p.npre, p.nsamp); err != nil {
				return "res E-prepare f22 A f3 A foff A"
			}
			facts := make([]dastard.VerifChannelFacts, nch)
			for i := range facts {
				facts[i] = dastard.VerifChannelFacts{Row: 0, Col: i, Rows: 1, Cols: nch, Name: fmt.Sprintf("other%d", i), Number: i}
			}
			facts[obs] = dastard.VerifChannelFacts{Row: p.row, Col: p.col, Rows: p.nrows, Cols: p.ncols, Name: p.chname,
				Number: p.chnum, SubframeOffset: p.suboff}
			vs.VerifSetFacts(p.src, p.subdiv, facts)
			if p.tb != 1.0/vs.VerifChannelSampleRate(obs) {
				return "res E-rate f22 A f3 A foff A"
			}
			dp := vs.VerifChannelPublisher(obs)
			dp.PubRecordsChan, dp.PubSummariesChan = nil, nil // files only: nothing goes to the ZMQ channels
			root := filepath.Join(dir, fmt.Sprintf("wc%d", idx))
			for _, o := range ops {
				switch o.kind {
				case "S":
					if o.sel&4 != 0 {
						if err := vs.VerifSetProjectors(obs, c05Dense(p.projR, p.projC, p.proj), c05Dense(p.basR, p.basC, p.bas), p.desc); err != nil {
							return "res E-projectors f22 A f3 A foff A"
						}
					}
					err := vs.WriteControl(&dastard.WriteControlConfig{Request: "Start", Path: root,
						WriteLJH22: o.sel&1 != 0, WriteLJH3: o.sel&2 != 0, WriteOFF: o.sel&4 != 0})
					if err != nil {
						return "res E-start f22 A f3 A foff A"
					}
				case "P":
					bit(dastard.VerifPublish(dp, toRecs(o.recs)))
				case "M":
					if err := vs.VerifSetProjectors(obs, c05Dense(o.nb2, p.nsamp, o.proj2), c05Dense(p.nsamp, o.nb2, o.bas2), p.desc+" (resent)"); err != nil {
						return "res E-projectors2 f22 A f3 A foff A"
					}
				case "F":
					dp.Flush()
				case "Z":
					vs.WriteControl(&dastard.WriteControlConfig{Request: "Pause"})
				case "U":
					vs.WriteControl(&dastard.WriteControlConfig{Request: "Unpause"})
				case "X":
					vs.WriteControl(&dastard.WriteControlConfig{Request: "Stop"})
				}
			}
			find := func(ext string) string {
				m, _ := filepath.Glob(filepath.Join(root, "*", "*", "*_"+p.chname+"."+ext))
				if len(m) == 1 {
					return m[0]
				}
				return filepath.Join(root, "absent")
			}
			f22, f3, foff = find("ljh"), find("ljh3"), find("off")
			defer os.RemoveAll(root)
		}
		s := fmt.Sprintf("res %s f22 %s f3 %s foff %s", c05Dash(res.String()), c05ReadFile(f22), c05ReadFile(f3), c05ReadFile(foff))
		os.Remove(f22)
		os.Remove(f3)
		os.Remove(foff)
		return s
	}
	return in, run
}

func c05Dash(s string) string {
	if s == "" {
		return "-"
	}
	return s
}

func c05Batch(r *Rng, tier string, p *c05Params, sel int, k int) []*c05Rec {
	qs := make([]*c05Rec, k)
	for i := range qs {
		q := &c05Rec{}
		n := p.nsamp
		if r.Chance(5) {
			n = r.Pick(0, 1, p.nsamp-1, p.nsamp+1, r.Range(0, 70)) // LJH 2.2 refuses it, LJH3 takes any length
			if n < 0 {
				n = 0
			}
		}
		q.data = c05Samples(r, n)
		q.npre = r.Pick(p.npre, p.npre, p.npre, 0, -1, math.MaxInt32, math.MaxInt32+1, r.Intn(5000))
		q.frame = c05I64(r)
		q.timeNs = c05I64(r)
		q.ptm, q.pd, q.resid = c05F64(r), c05F64(r), c05F64(r)
		nb := p.projR
		if r.Chance(3) {
			nb = r.Pick(0, nb+1, nb-1) // the OFF writer refuses it
			if nb < 0 {
				nb = 0
			}
		}
		q.coefs = make([]float64, nb)
		for j := range q.coefs {
			q.coefs[j] = c05F64(r)
		}
		qs[i] = q
	}
	return qs
}

// ---- the repository's own LJH reader ---------------------------------------------------------
//
// mode rd: a file written by the real ljh.Writer (WriteHeader with generated parameters, 0..12 records, Close) is
// cut (CUT kind a: 0 = not at all, 1 = at a*len/1000 bytes, 2 = a bytes before the end), then opened with the real
// ljh.OpenReader and read to the end with NextPulse.
// line: rd P <params> OPS n C H (W22 ...|F)* X CUT kind a OUT res .. f22 <uncut file> f3 A foff A
//       rdr <ok|magic|version|noend|other> [ver ws npre ns ch <tsoff bits> <timebase bits> hlen rlen np (sub ts data)* <eof|ueof|other>]

func c05Reader(r *Rng, tier string, idx int) (string, func() string) {
	p := c05GenParams(r, tier, false, false)
	if r.Chance(80) {
		p.nsamp = r.Range(1, 24)
		p.npre = r.Intn(p.nsamp + 1)
	}
	nrec := r.Pick(0, 0, 1, 1, 2, 3, r.Range(1, 12))
	nlFirst := r.Chance(25) // the first body bytes are CR / LF characters (low bytes of the first sub-frame count)
	if nlFirst {
		p.subdiv, p.suboff = 1, 0
	}
	ops := []*c05Op{{kind: "C"}, {kind: "H"}}
	for k := 0; k < nrec; k++ {
		o := &c05Op{kind: "W22", frame: c05I64(r), ts: c05I64(r)}
		if nlFirst && k == 0 {
			o.frame = int64(r.Pick(10, 13, 0x0a0a, 0x0d0a, 0x0a0d, 0x0a0a0a, 0x0d0a0d0a, 0x100a))
		}
		n := p.nsamp
		if r.Chance(4) {
			n = p.nsamp + 1 // refused
		}
		o.data = c05Samples(r, n)
		if r.Chance(10) {
			ops = append(ops, &c05Op{kind: "F"})
		}
		ops = append(ops, o)
	}
	ops = append(ops, &c05Op{kind: "X"})
	recsize := 16 + 2*p.nsamp
	cutKind, cutA := 0, 0
	switch c := r.Intn(100); {
	case c < 50:
	case c < 70:
		cutKind, cutA = 1, r.Range(0, 1000)
	default:
		cutKind = 2
		cutA = r.Pick(1, 2*p.nsamp-1, 2*p.nsamp, 2*p.nsamp+1, 2*p.nsamp+7, 2*p.nsamp+8, 2*p.nsamp+9, recsize-1, recsize, recsize+1,
			r.Range(0, 2*recsize), r.Range(0, 40))
		if cutA < 0 {
			cutA = 0
		}
	}
	in := c05Input("rd", p, ops) + fmt.Sprintf(" CUT %d %d", cutKind, cutA)
	run := func() string {
		dir := c05Dir()
		name := filepath.Join(dir, fmt.Sprintf("r%d.ljh", idx))
		cutName := filepath.Join(dir, fmt.Sprintf("r%d_cut.ljh", idx))
		defer os.Remove(name)
		defer os.Remove(cutName)
		var res strings.Builder
		bit := func(err error) {
			if err != nil {
				res.WriteByte('1')
			} else {
				res.WriteByte('0')
			}
		}
		w := ljh.Writer{ChannelIndex: p.ci, Presamples: p.npre, Samples: p.nsamp, FramesPerSample: p.fps,
			SubframeDivisions: p.subdiv, Timebase: p.tb, TimestampOffset: time.Unix(0, p.tsoff),
			NumberOfRows: p.nrows, NumberOfColumns: p.ncols, NumberOfChans: p.nchans, FileName: name,
			DastardVersion: p.dver, GitHash: p.ghash, SourceName: p.src, ChanName: p.chname,
			ChannelNumberMatchingName: p.chnum, ColumnNum: p.col, RowNum: p.row, SubframeOffset: p.suboff,
			PixelXPosition: p.px, PixelYPosition: p.py, PixelName: p.pxname}
		for _, o := range ops {
			switch o.kind {
			case "C":
				bit(w.CreateFile())
			case "H":
				bit(w.WriteHeader(time.Unix(0, o.ts)))
			case "F":
				w.Flush()
			case "X":
				w.Close()
			case "W22":
				bit(w.WriteRecord(o.frame, o.ts, o.data))
			}
		}
		full, err := os.ReadFile(name)
		if err != nil {
			return "res E-read f22 A f3 A foff A rdr other"
		}
		cut := len(full)
		switch cutKind {
		case 1:
			cut = cutA * len(full) / 1000
		case 2:
			cut = len(full) - cutA
			if cut < 0 {
				cut = 0
			}
		}
		if err := os.WriteFile(cutName, full[:cut], 0644); err != nil {
			return "res E-write f22 A f3 A foff A rdr other"
		}
		var sb strings.Builder
		fmt.Fprintf(&sb, "res %s f22 %s f3 A foff A rdr ", res.String(), hexs(full))
		rd, err := ljh.OpenReader(cutName)
		if err != nil {
			if rd != nil {
				rd.Close()
			}
			switch msg := err.Error(); {
			case strings.Contains(msg, "must begin with"):
				sb.WriteString("magic")
			case strings.Contains(msg, "could not find"):
				sb.WriteString("noend")
			case strings.Contains(msg, "version number"):
				sb.WriteString("version")
			default:
				sb.WriteString("other")
			}
			return sb.String()
		}
		defer rd.Close()
		hl, rl := rd.VerifLengths()
		fmt.Fprintf(&sb, "ok %d %d %d %d %d %d %d %d %d", int(rd.VersionNumber), rd.WordSize, rd.Presamples, rd.Samples,
			rd.ChannelIndex, math.Float64bits(rd.TimestampOffset), math.Float64bits(rd.Timebase), hl, rl)
		var pulses []string
		end := "other"
		for len(pulses) <= nrec+2 {
			pr, err := rd.NextPulse()
			if err != nil {
				switch err {
				case io.EOF:
					end = "eof"
				case io.ErrUnexpectedEOF:
					end = "ueof"
				}
				break
			}
			pulses = append(pulses, fmt.Sprintf("%d %d %s", pr.SubframeCount, pr.TimeCode, c05DataHex(pr.Pulse)))
		}
		fmt.Fprintf(&sb, " %d", len(pulses))
		for _, q := range pulses {
			sb.WriteString(" " + q)
		}
		sb.WriteString(" " + end)
		return sb.String()
	}
	return in, run
}
