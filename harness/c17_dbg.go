package main

import "os"

var os17dbg = os.Getenv("C17_DEBUG")
var os17err = os.Stderr
