package main

// C13 — per-record analysis values.  Generates records (and projector/basis matrices), runs the REAL
// AnalyzeData (directly through dastard.VerifAnalyze, and through the whole block-processing pipeline
// of a scripted source), and writes the record, the matrices (float64 bit patterns) and every analysis
// value (float64 bit patterns) on one line.  The summary message built by the real messageSummaries is
// decoded (offsets from doc/BINARY_FORMATS.md) and its float32 header values / float64 payload are
// appended, so the values "as they appear in summary messages" are judged too.

import (
	"encoding/binary"
	"fmt"
	"math"
	"strings"

	"github.com/usnistgov/dastard"
)

func init() { gens["C13"] = genC13 }

// c13Float makes a float64 with a chosen binary exponent range: sign, exponent in [emin,emax], random mantissa.
func c13Float(r *Rng, emin, emax int) float64 {
	e := uint64(1023 + r.Range(emin, emax))
	mant := r.U64() & ((1 << 52) - 1)
	if r.Chance(30) {
		mant &^= (1 << uint(r.Range(20, 52))) - 1 // short mantissas: exact products
	}
	s := uint64(r.Intn(2))
	return math.Float64frombits(s<<63 | e<<52 | mant)
}

// c13Record makes one raw record of n samples; the kinds aim at the weak spots of one-pass formulas.
func c13Record(r *Rng, n, npre int, signed bool, force int) ([]dastard.RawType, string) {
	d := make([]dastard.RawType, n)
	wrap := func(v int) dastard.RawType { return dastard.RawType(((v % 65536) + 65536) % 65536) }
	kind := r.Intn(12)
	if force >= 0 {
		kind = force
	}
	name := ""
	switch kind {
	case 0: // constant (catastrophic cancellation: every difference is exactly 0)
		name = "const"
		c := r.Pick(0, 65535, 32767, 32768, 1, 65534, r.Intn(65536))
		for i := range d {
			d[i] = dastard.RawType(c)
		}
	case 1: // near constant at full scale: tiny variance against a huge mean
		name = "nearconst"
		c := r.Pick(65535, 65534, 32767, 32768, 40000, r.Range(30000, 65535))
		if signed {
			c = r.Pick(32767, 32768, 32769, 40000, 30000)
		}
		for i := range d {
			d[i] = dastard.RawType(c)
		}
		for k := r.Range(1, 3); k > 0; k-- {
			j := r.Intn(n)
			d[j] = wrap(int(d[j]) + r.Pick(-1, -1, 1))
			if signed { // do not cross the int16 wrap by accident here
				if d[j] == 32768 && c == 32767 || d[j] == 32767 && c == 32768 {
					d[j] = dastard.RawType(c)
				}
			}
		}
	case 2: // full-scale alternation
		name = "fullscale"
		a, b := 0, 65535
		if signed {
			a, b = 32768, 32767 // -32768, +32767
		}
		for i := range d {
			if r.Bool() {
				d[i] = dastard.RawType(a)
			} else {
				d[i] = dastard.RawType(b)
			}
		}
	case 3: // wrap-around region: small values either side of 0 / 65535 and of 32767 / 32768
		name = "wrap"
		centre := r.Pick(0, 0, 32768)
		amp := r.Pick(1, 3, 50, 2000)
		for i := range d {
			d[i] = wrap(centre + r.Range(-amp, amp))
		}
	case 4: // uniform random
		name = "uniform"
		for i := range d {
			d[i] = dastard.RawType(r.Intn(65536))
		}
	case 5, 6: // baseline + noise + exponential pulse (positive or negative going)
		name = "pulse"
		base := r.Pick(1000, 5000, 30000, 60000, 100)
		if signed {
			base = r.Pick(0, 100, -100, -20000, 20000)
		}
		noise := r.Pick(0, 1, 3, 20)
		amp := float64(r.Pick(50, 200, 1000, 5000, 30000) * r.Pick(1, 1, -1))
		decay := 0.5 + float64(r.Intn(49))/100
		p := 0.0
		for i := range d {
			if i == npre {
				p = amp
			}
			d[i] = wrap(base + int(p) + r.Range(-noise, noise))
			p *= decay
		}
	case 7: // every post-trigger sample below every pre-trigger sample
		name = "below"
		hi := r.Range(1000, 60000)
		if signed {
			hi = r.Range(-30000, 30000)
		}
		for i := range d {
			if i < npre {
				d[i] = wrap(hi + r.Range(0, 5))
			} else {
				d[i] = wrap(hi - r.Range(1, 900))
			}
		}
	case 8: // ramp (a real slope for the pre-trigger delta)
		name = "ramp"
		base := r.Range(2000, 30000)
		if signed {
			base = r.Range(-3000, 3000)
		}
		num, den := r.Range(-40, 40), r.Range(1, 9)
		noise := r.Pick(0, 0, 2)
		for i := range d {
			d[i] = wrap(base + i*num/den + r.Range(-noise, noise))
		}
	case 9: // extremes picked per sample
		name = "extremes"
		for i := range d {
			d[i] = dastard.RawType(r.Pick(0, 65535, 32767, 32768, 1, 65534, 32766, 32769))
		}
	case 10: // one spike on a flat record, anywhere
		name = "spike"
		c := r.Intn(65536)
		for i := range d {
			d[i] = dastard.RawType(c)
		}
		d[r.Intn(n)] = dastard.RawType(r.Intn(65536))
	default: // steps
		name = "steps"
		lv := r.Intn(65536)
		for i := range d {
			if r.Intn(max1(n/3)) == 0 {
				lv = r.Intn(65536)
			}
			d[i] = dastard.RawType(lv)
		}
	}
	return d, name
}

// c13Matrices makes projectors (k x n) and basis (n x k), row major.
func c13Matrices(r *Rng, k, n int) (proj, basis []float64) {
	proj = make([]float64, k*n)
	basis = make([]float64, n*k)
	switch r.Intn(6) {
	case 0: // moderate random entries
		for i := range proj {
			proj[i] = c13Float(r, -10, 6)
		}
		for i := range basis {
			basis[i] = c13Float(r, -6, 6)
		}
	case 1: // wide exponent range (stays far inside binary32/binary64 range after the products)
		for i := range proj {
			proj[i] = c13Float(r, -30, 20)
		}
		for i := range basis {
			basis[i] = c13Float(r, -30, 20)
		}
	case 2: // selection rows, as in the repository's own test: coefficient j = sample j
		for j := 0; j < k; j++ {
			col := r.Intn(n)
			proj[j*n+col] = 1
			basis[col*k+j] = 1
		}
	case 3: // sparse with zeros and negative zeros
		for i := range proj {
			if r.Chance(30) {
				proj[i] = c13Float(r, -8, 4)
			} else if r.Chance(10) {
				proj[i] = math.Copysign(0, -1)
			}
		}
		for i := range basis {
			if r.Chance(30) {
				basis[i] = c13Float(r, -4, 4)
			}
		}
	case 4: // small integers
		for i := range proj {
			proj[i] = float64(r.Range(-3, 3))
		}
		for i := range basis {
			basis[i] = float64(r.Range(-3, 3))
		}
	default: // a realistic model: constant, ramp, decaying pulses; projectors = scaled transpose, so the
		// residual is a small difference of large numbers
		cols := make([][]float64, k)
		for j := 0; j < k; j++ {
			c := make([]float64, n)
			tau := float64(r.Range(2, 40))
			for i := range c {
				switch j {
				case 0:
					c[i] = 1
				case 1:
					c[i] = float64(i)/float64(n) - 0.5
				default:
					c[i] = math.Exp(-float64(i) / tau / float64(j))
				}
			}
			cols[j] = c
		}
		for j := 0; j < k; j++ {
			var nn float64
			for i := 0; i < n; i++ {
				nn += cols[j][i] * cols[j][i]
			}
			for i := 0; i < n; i++ {
				basis[i*k+j] = cols[j][i]
				proj[j*n+i] = cols[j][i] / nn
			}
		}
	}
	return
}

func c13Bits(xs []float64) string {
	var sb strings.Builder
	for _, x := range xs {
		fmt.Fprintf(&sb, " %d", math.Float64bits(x))
	}
	return sb.String()
}

// c13Summary decodes the real summary message of a record: five float32 header fields (byte offsets
// 12,16,20,24,28) and the float64 payload.
func c13Summary(rec dastard.VerifRecord) string {
	msg := dastard.VerifMessageSummaries(rec)
	if len(msg) != 2 || len(msg[0]) < 32 {
		return "sum 0"
	}
	var sb strings.Builder
	sb.WriteString("sum 1")
	for off := 12; off <= 28; off += 4 {
		fmt.Fprintf(&sb, " %d", binary.LittleEndian.Uint32(msg[0][off:off+4]))
	}
	fmt.Fprintf(&sb, " %d", len(msg[1])/8)
	for i := 0; i+8 <= len(msg[1]); i += 8 {
		fmt.Fprintf(&sb, " %d", binary.LittleEndian.Uint64(msg[1][i:i+8]))
	}
	return sb.String()
}

func c13Out(rec dastard.VerifRecord, setErr bool) string {
	cb := make([]uint64, len(rec.ModelCoefs))
	for i, c := range rec.ModelCoefs {
		cb[i] = math.Float64bits(c)
	}
	return fmt.Sprintf("OUT seterr %d ptm %d ptd %d avg %d rms %d peak %d coefs %s rsd %d %s",
		b2i(setErr), math.Float64bits(rec.PretrigMean), math.Float64bits(rec.PretrigDelta),
		math.Float64bits(rec.PulseAverage), math.Float64bits(rec.PulseRMS), math.Float64bits(rec.PeakValue),
		ints(cb), math.Float64bits(rec.ResidualStdDev), c13Summary(rec))
}

func c13Mats(prows, pcols int, proj []float64, brows, bcols int, basis []float64) string {
	return fmt.Sprintf("pb 1 %d %d%s %d %d%s", prows, pcols, c13Bits(proj), brows, bcols, c13Bits(basis))
}

// c13Direct: one record through dastard.VerifAnalyze (fresh DataStreamProcessor, real SetProjectorsBasis,
// real AnalyzeData).
func c13Direct(r *Rng, tier string, o *Out) {
	maxLen := 400
	if tier == "thorough" {
		maxLen = 1200
	}
	var npre, npost int
	force := -1
	switch r.Intn(12) {
	case 10, 11: // a long pre-trigger on an almost constant, almost full-scale record: Σy²/N − 2m·Σy/N + m² cancels to
		// rounding noise of either sign (an unguarded square root of it is NaN)
		npre = r.Range(1800, 7000)
		force = 1
	case 0:
		npre = 3 // the allowed minimum (AnySource.ConfigurePulseLengths: npre >= 3, nsamp >= npre+1)
	case 1:
		npre = r.Pick(1, 2, 3, 4, 5) // 1 and 2 are reachable only through a start-up configuration
	case 2:
		npre = r.Range(600, 4*maxLen) // long pre-trigger: where the one-pass mean square cancels worst
	default:
		npre = r.Range(3, maxLen)
	}
	switch r.Intn(6) {
	case 0:
		npost = 1
	case 1:
		npost = r.Range(1, 4)
	default:
		npost = r.Range(1, maxLen)
	}
	n := npre + npost
	signed := r.Bool()
	if force == 1 {
		signed = r.Chance(25)
	}
	data, kind := c13Record(r, n, npre, signed, force)
	pb := "pb 0"
	var prows, pcols, brows, bcols int
	var proj, basis []float64
	incompatible := false
	if r.Chance(45) {
		k := r.Range(1, 8)
		if n > 700 {
			k = r.Range(1, 3)
		}
		prows, pcols, brows, bcols = k, n, n, k
		if r.Chance(12) { // incompatible shapes: SetProjectorsBasis must refuse them
			incompatible = true
			switch r.Intn(4) {
			case 0:
				pcols = n + r.Pick(-1, 1, 2)
			case 1:
				brows = n + r.Pick(-1, 1)
			case 2:
				bcols = k + 1
			default:
				prows, pcols = n, k // transposed
			}
			if pcols < 1 {
				pcols = 2
			}
			if brows < 1 {
				brows = 2
			}
			proj = make([]float64, prows*pcols)
			basis = make([]float64, brows*bcols)
			for i := range proj {
				proj[i] = float64(r.Range(-2, 2))
			}
			for i := range basis {
				basis[i] = float64(r.Range(-2, 2))
			}
		} else {
			proj, basis = c13Matrices(r, k, n)
		}
		pb = c13Mats(prows, pcols, proj, brows, bcols, basis)
	}
	// The processor's configured lengths need not be the record's: edge-multi variable-length records are
	// shorter than configured (both pre-trigger and total); every analysis value must come from the record.
	cfgNpre, cfgNsamp := npre, n
	if r.Chance(35) {
		switch r.Intn(4) {
		case 0: // record shorter than configured, as in variable-length mode
			cfgNpre = npre + r.Range(1, 3*npre+5)
			cfgNsamp = cfgNpre + npost + r.Range(0, npost)
		case 1: // configured shorter than the record
			cfgNpre = r.Range(1, npre)
			cfgNsamp = cfgNpre + r.Range(1, npost)
		case 2: // same total length, different split
			cfgNpre = r.Range(1, n-1)
		default:
			cfgNpre = r.Pick(1, 2, 3, npre+1, npre-1, 2*npre, 400)
			if cfgNpre < 1 {
				cfgNpre = 1
			}
			cfgNsamp = r.Pick(n, n, cfgNpre+1, cfgNpre+npost, 2*cfgNpre+7)
		}
		if prows > 0 && pcols == n && brows == n { // projectors of the record's shape stay loadable and usable
			cfgNsamp = n
		}
	}
	if cfgNsamp != n && prows > 0 {
		// projectors that SetProjectorsBasis would accept for cfgNsamp cannot be applied to this record (deliberate
		// panic in AnalyzeData); the incompatible-shape cases were built against n, so keep the processor at n
		cfgNsamp = n
	}
	in := append([]dastard.RawType{}, data...)
	src := "direct-" + kind
	if incompatible { // a fresh processor whose first request must be refused: a one-request history
		src = fmt.Sprintf("hist-after-refused:direct-%s:first-request:load(%dx%d,%dx%d)=refused;A", kind, prows, pcols, brows, bcols)
	}
	out := c13Guard(func() string {
		rec, setErr := dastard.VerifAnalyzeRecord(cfgNpre, cfgNsamp, npre, signed, in, prows, pcols, proj, brows, bcols, basis)
		return c13Out(rec, setErr)
	})
	o.Case("src %s npre %d cfgnpre %d nsamp %d signed %d data %s %s %s", src, npre, cfgNpre, cfgNsamp, b2i(signed), ints(data), pb, out)
}

// c13Guard runs an analysis of the real code; a panic in it (AnalyzeData runs in the calling goroutine) becomes the
// observed output `OUT PANIC <class>` instead of ending the harness.
func c13Guard(f func() string) (res string) {
	defer func() {
		if e := recover(); e != nil {
			res = "OUT PANIC " + panicClass("panic: "+fmt.Sprint(e))
		}
	}()
	return f()
}

// c13Pipe: records published by the real pipeline (PrepareRun, ConfigureProjectorsBases, ProcessSegments ->
// TriggerData -> AnalyzeData -> publisher) of a scripted source; every captured record becomes a case.
func c13Pipe(r *Rng, tier string, o *Out) {
	dastard.VerifStartClientDrain()
	nch := r.Range(1, 3)
	npre := r.Pick(3, 4, 5, 8, r.Range(3, 40))
	nsamp := npre + r.Pick(1, 2, 5, r.Range(1, 80))
	rate := 100000.0
	periodNs := int64(10000)
	signed := make([]bool, nch)
	var fts []dastard.FullTriggerState
	for ch := 0; ch < nch; ch++ {
		signed[ch] = r.Bool()
		ts := genTS(r, nsamp, false, false)
		if r.Chance(50) {
			ts = tsSpec{auto: true, autoDelaySamples: r.Pick(0, 0, nsamp/2)}
		}
		fts = append(fts, dastard.FullTriggerState{ChannelIndices: []int{ch}, TriggerState: ts.triggerState(periodNs)})
	}
	dastard.VerifSetSavedTriggers(fts)
	vs := dastard.NewVerifSource(nch, rate)
	if err := vs.VerifPrepare(npre, nsamp); err != nil {
		panic(err)
	}
	mats := make([]string, nch)
	matK := make([]int, nch)
	for ch := 0; ch < nch; ch++ {
		mats[ch] = "pb 0"
		if r.Chance(60) {
			k := r.Range(1, 8)
			matK[ch] = k
			proj, basis := c13Matrices(r, k, nsamp)
			if err := vs.VerifConfigureProjectorsBases(ch, k, nsamp, proj, basis); err != nil {
				panic(err)
			}
			mats[ch] = c13Mats(k, nsamp, proj, nsamp, k, basis)
		}
	}
	total := nsamp * r.Range(3, 8)
	streams := make([][]dastard.RawType, nch)
	for ch := range streams {
		streams[ch] = genStream(r, total, nsamp, signed[ch])
	}
	first := int64(1000000 + r.Intn(1000))
	pos := 0
	for _, bl := range partition(r, total, npre, nsamp) {
		data := make([][]dastard.RawType, nch)
		for ch := range data {
			data[ch] = append([]dastard.RawType{}, streams[ch][pos:pos+bl]...)
		}
		recs, err := vs.VerifProcessBlock(first+int64(pos), int64(pos)*periodNs, periodNs, data, signed, nil, 0)
		if err != nil {
			panic(err)
		}
		pos += bl
		for ch := 0; ch < nch; ch++ {
			for _, rec := range recs[ch] {
				o.Case("src pipe npre %d cfgnpre %d nsamp %d signed %d data %s %s %s", rec.Presamples, npre, nsamp, b2i(rec.Signed),
					ints(rec.Data), mats[ch], c13Out(rec, false))
			}
		}
		// between blocks: a revised model for some channels - usually the same shape, and always the same description
		// (the hook's); the following records must be analysed with the model loaded last
		for ch := 0; ch < nch; ch++ {
			if r.Chance(25) {
				k := r.Range(1, 8)
				if matK[ch] > 0 && r.Chance(70) {
					k = matK[ch]
				}
				proj, basis := c13Matrices(r, k, nsamp)
				if err := vs.VerifConfigureProjectorsBases(ch, k, nsamp, proj, basis); err != nil {
					panic(err)
				}
				mats[ch] = c13Mats(k, nsamp, proj, nsamp, k, basis)
				matK[ch] = k
			}
		}
	}
}

// c13Fixed: minimised past failures, run on the real code at the start of every run.
func c13Fixed(o *Out) {
	emit := func(kind string, npre int, signed bool, data []dastard.RawType) {
		in := append([]dastard.RawType{}, data...)
		rec, setErr := dastard.VerifAnalyze(npre, len(data), signed, in, 0, 0, nil, 0, 0, nil)
		o.Case("src direct-%s npre %d cfgnpre %d nsamp %d signed %d data %s pb 0 %s", kind, npre, npre, len(data), b2i(signed), ints(data), c13Out(rec, setErr))
	}
	// every post-trigger sample below the pre-trigger mean: peak = 90 - 100 = -10 (was reported as 0)
	emit("fixed-below", 3, false, []dastard.RawType{100, 100, 100, 90})
	// the same on a signed channel, a negative-going pulse: samples -1 -1 -1 | -300 -200
	emit("fixed-below", 3, true, []dastard.RawType{65535, 65535, 65535, 65236, 65336})
	// 2094 pre-trigger samples at 65535 except one at 65534, one post-trigger sample at 65535: the mean square of
	// (y - mean) is (1/2094)^2 > 0, the one-pass float64 formula gave a negative number and the RMS was NaN
	d := make([]dastard.RawType, 2095)
	for i := range d {
		d[i] = 65535
	}
	d[1] = 65534
	emit("fixed-rmsnan", 2094, false, d)
}

// c13PipeEMT: the real pipeline in edge-multi VARIABLE-LENGTH mode (EdgeMultiMakeShortRecords, requested through the
// real ConfigureTriggers RPC like the C08 profile of pipe.go): pulses closely behind each other on a sloping
// baseline, so that real records with a pre-trigger section shorter than the configured one (and a shorter total
// length) are triggered, analysed and published.  No projectors: they cannot be applied to short records.
func c13PipeEMT(r *Rng, tier string, o *Out) {
	dastard.VerifStartClientDrain()
	nch := r.Range(1, 2)
	npre := r.Pick(4, 6, 8, 12, 20, r.Range(4, 40))
	npost := r.Pick(4, 6, 10, 20, r.Range(4, 60))
	nsamp := npre + npost
	rate := 100000.0
	periodNs := int64(10000)
	dastard.VerifSetSavedTriggers(nil)
	vs := dastard.NewVerifSource(nch, rate)
	if err := vs.VerifPrepare(npre, nsamp); err != nil {
		panic(err)
	}
	sc := dastard.VerifNewSourceControl(vs, npre, nsamp)
	ts := tsSpec{edgeMulti: true, short: true, emLevel: r.Pick(60, 100, 200), emNMono: r.Pick(1, 1, 2), disableZT: r.Chance(60)}
	chans := make([]int, nch)
	for i := range chans {
		chans[i] = i
	}
	fts := dastard.FullTriggerState{ChannelIndices: chans, TriggerState: ts.triggerState(periodNs)}
	var reply bool
	if err := callRPC(sc, func() error { return sc.ConfigureTriggers(&fts, &reply) }); err != nil {
		panic(err)
	}
	total := nsamp * r.Range(6, 14)
	signed := make([]bool, nch)
	streams := make([][]dastard.RawType, nch)
	for ch := range streams {
		signed[ch] = r.Chance(30)
		g := make([]dastard.RawType, total)
		base := float64(r.Range(2000, 20000))
		if signed[ch] {
			base = float64(r.Range(-3000, 3000))
		}
		slope := float64(r.Pick(-7, -3, -1, 1, 2, 5, 9)) / float64(r.Pick(1, 2, 3)) // a sloping baseline, far below the trigger level
		pulse := 0.0
		decay := 0.80 + float64(r.Intn(18))/100
		next := npre + r.Range(2, nsamp)
		noise := r.Pick(0, 0, 1, 2)
		for i := range g {
			if i == next {
				pulse += float64(r.Pick(400, 900, 2500))
				// mostly closer than a full record: the next record's pre-trigger section is shortened
				next += r.Pick(npost+1, npost+2, npost+3, npost+npre/2, npost+npre-1, nsamp, nsamp+5, 2*nsamp, r.Range(2, 2*nsamp))
			}
			v := int(base+slope*float64(i)+pulse) + r.Range(-noise, noise)
			g[i] = dastard.RawType(((v % 65536) + 65536) % 65536)
			pulse *= decay
		}
		streams[ch] = g
	}
	first := int64(1000000 + r.Intn(1000))
	pos := 0
	for _, bl := range partition(r, total, npre, nsamp) {
		data := make([][]dastard.RawType, nch)
		for ch := range data {
			data[ch] = append([]dastard.RawType{}, streams[ch][pos:pos+bl]...)
		}
		recs, err := vs.VerifProcessBlock(first+int64(pos), int64(pos)*periodNs, periodNs, data, signed, nil, 0)
		if err != nil {
			panic(err)
		}
		pos += bl
		for ch := 0; ch < nch; ch++ {
			for _, rec := range recs[ch] {
				o.Case("src pipe-emt npre %d cfgnpre %d nsamp %d signed %d data %s pb 0 %s", rec.Presamples, npre, nsamp, b2i(rec.Signed),
					ints(rec.Data), c13Out(rec, false))
			}
		}
	}
}

// c13DCFree: a linear model whose basis does NOT span a constant (pulse shapes that are zero before the trigger;
// projectors = pseudo-inverse made orthogonal to a constant, so P·shape_k = e_k and P·1 = 0), applied to records on a
// HIGH baseline that the model fits well.  The residual is then "baseline + quantisation noise / a one-count glitch":
// a mean of tens of thousands with a spread below one count - where any one-pass <a^2> - <a>^2 loses 5..13 digits
// while the two-pass definition keeps full accuracy.
func c13DCFree(r *Rng, tier string, o *Out) {
	maxLen := 500
	if tier == "thorough" {
		maxLen = 1200
	}
	npre := r.Pick(3, 20, r.Range(3, maxLen/2), r.Range(50, maxLen/2))
	npost := r.Range(20, maxLen)
	n := npre + npost
	k := r.Pick(1, 1, 1, 2, 3)
	integerShape := r.Chance(35)
	shapes := make([][]float64, k)
	for j := range shapes {
		sh := make([]float64, n)
		t1 := float64(r.Range(npost/4+2, npost)) / float64(j+1)
		t2 := float64(r.Range(2, 12))
		for i := npre; i < n; i++ {
			x := float64(i - npre)
			if integerShape && j == 0 {
				sh[i] = math.Min(x, float64(n-i)) // triangular, integer valued: fitted exactly
			} else {
				sh[i] = math.Exp(-x/t1) - math.Exp(-x/t2)
			}
		}
		shapes[j] = sh
	}
	// projectors P = (C^T S)^-1 C^T with C = centred shapes: P·S = I, P·1 = 0
	cent := make([][]float64, k)
	for j := range cent {
		m := 0.0
		for _, v := range shapes[j] {
			m += v
		}
		m /= float64(n)
		cent[j] = make([]float64, n)
		for i, v := range shapes[j] {
			cent[j][i] = v - m
		}
	}
	g := make([][]float64, k) // g = C^T S (k x k), augmented with the identity
	for a := 0; a < k; a++ {
		g[a] = make([]float64, 2*k)
		for b := 0; b < k; b++ {
			for i := 0; i < n; i++ {
				g[a][b] += cent[a][i] * shapes[b][i]
			}
		}
		g[a][k+a] = 1
	}
	for c := 0; c < k; c++ { // Gauss-Jordan
		piv := c
		for a := c + 1; a < k; a++ {
			if math.Abs(g[a][c]) > math.Abs(g[piv][c]) {
				piv = a
			}
		}
		g[c], g[piv] = g[piv], g[c]
		if g[c][c] == 0 {
			return // degenerate shapes: skip this case
		}
		d := g[c][c]
		for b := range g[c] {
			g[c][b] /= d
		}
		for a := 0; a < k; a++ {
			if a != c {
				f := g[a][c]
				for b := range g[a] {
					g[a][b] -= f * g[c][b]
				}
			}
		}
	}
	proj := make([]float64, k*n)
	basis := make([]float64, n*k)
	for a := 0; a < k; a++ {
		for i := 0; i < n; i++ {
			for b := 0; b < k; b++ {
				proj[a*n+i] += g[a][k+b] * cent[b][i]
			}
			basis[i*k+a] = shapes[a][i]
		}
	}
	for _, v := range proj {
		if math.IsNaN(v) || math.IsInf(v, 0) || (v != 0 && (math.Abs(v) < 1e-9 || math.Abs(v) > 1e6)) {
			return // outside the exponent range the protocol assumes
		}
	}
	signed := r.Chance(40)
	base := r.Range(60000, 65000)
	amp := -float64(r.Pick(0, 3, 40, 500, 4000)) // negative going: stays below full scale
	if r.Chance(30) {
		base = r.Range(40000, 60000)
		amp = float64(r.Pick(1, 7, 100, 2000))
	}
	if signed {
		base = r.Pick(1, -1) * r.Range(26000, 30000)
		amp = float64(r.Pick(0, 5, 80, 900)) * float64(r.Pick(1, -1))
	}
	if integerShape {
		amp = math.Round(amp / 500 * 4) // integer amplitude x integer shape, |amp|*n/2 stays in range
		if math.Abs(amp)*float64(n)/2 > 2000 {
			amp = float64(r.Pick(0, 1, -1, 2))
		}
	}
	noise := r.Pick(0, 0, 1, 1, 2)
	data := make([]dastard.RawType, n)
	for i := range data {
		v := float64(base) + amp*shapes[0][i]
		for j := 1; j < k; j++ {
			v += amp / float64(3*j) * shapes[j][i]
		}
		iv := int(math.Round(v)) + r.Range(-noise, noise)
		data[i] = dastard.RawType(((iv % 65536) + 65536) % 65536)
	}
	if r.Chance(40) { // a single one-count glitch
		j := r.Intn(n)
		data[j] = dastard.RawType((int(data[j]) + r.Pick(-1, 1) + 65536) % 65536)
	}
	in := append([]dastard.RawType{}, data...)
	out := c13Guard(func() string {
		rec, setErr := dastard.VerifAnalyze(npre, n, signed, in, k, n, proj, n, k, basis)
		return c13Out(rec, setErr)
	})
	o.Case("src direct-dcfree npre %d cfgnpre %d nsamp %d signed %d data %s %s %s", npre, npre, n, b2i(signed), ints(data),
		c13Mats(k, n, proj, n, k, basis), out)
}

// c13Balanced: records that hit exact-zero intermediate values of AnalyzeData (ptm == 0, sum == 0, rms == 0,
// peak == ptm), mostly on SIGNED channels with projectors loaded: non-zero samples whose pre-trigger sum and/or
// post-trigger sum cancel exactly, the degenerate neighbours (only one of the two sums zero), all-zero records
// (signed and unsigned), constant records, a peak exactly at the baseline.  Any shortcut keyed on such a zero must
// still give projectors x record and the residual of the definition.
func c13Balanced(r *Rng, tier string, o *Out) {
	npre := r.Pick(3, 4, 5, 8, r.Range(3, 60))
	npost := r.Pick(1, 2, 4, 7, r.Range(1, 80))
	n := npre + npost
	signed := r.Chance(85)
	variant := r.Intn(8)
	if !signed && variant < 3 {
		variant = r.Pick(3, 4, 5, 6, 7) // cancellation needs negative values
	}
	v := make([]int, n)
	fill := func(from, to int, zeroSum bool) { // random small values; optionally the last one cancels the others
		ln := to - from
		amp := r.Pick(1, 5, 300, 30000)
		if amp*ln > 32000 {
			amp = 32000 / ln
		}
		if amp < 1 {
			amp = 1
		}
		sum := 0
		for i := from; i < to; i++ {
			v[i] = r.Range(-amp, amp)
			if !signed && v[i] < 0 {
				v[i] = -v[i]
			}
			sum += v[i]
		}
		if zeroSum {
			sum -= v[to-1]
			v[to-1] = -sum
		} else if sum == 0 {
			v[from]++
		}
	}
	name := ""
	switch variant {
	case 0, 1: // both sums exactly zero, record not zero
		name = "balanced"
		fill(0, npre, true)
		fill(npre, n, true)
		if npost == 1 && npre > 1 { // a single post-trigger sample must itself be 0: make the pre-trigger part non-trivial
			v[0], v[1] = v[0]+9, v[1]-9
		}
	case 2: // only one of the two sums zero
		if r.Bool() {
			name = "pre-balanced"
			fill(0, npre, true)
			fill(npre, n, false)
		} else {
			name = "post-balanced"
			fill(0, npre, false)
			fill(npre, n, true)
		}
	case 3: // all-zero record
		name = "all-zero"
	case 4: // zero baseline, flat zero pulse after a balanced pre-trigger: ptm == 0, sum == 0, rms == 0
		name = "zero-post"
		if signed {
			fill(0, npre, true)
		}
	case 5: // peak exactly at the (integer) baseline: post-trigger maximum == pre-trigger mean
		name = "peak-at-baseline"
		b := r.Range(-200, 200)
		if !signed {
			b = r.Range(0, 60000)
		}
		for i := 0; i < npre; i++ {
			v[i] = b
		}
		for i := npre; i < n; i++ {
			v[i] = b - r.Range(0, 50)
			if !signed && v[i] < 0 {
				v[i] = 0
			}
		}
		v[npre+r.Intn(npost)] = b
	case 6: // constant record: rms == 0, peak == 0, delta == 0
		name = "constant"
		c := r.Pick(0, 1, -1, 7, -32768, 32767)
		if !signed {
			c = r.Pick(0, 1, 65535, 40000)
		}
		for i := range v {
			v[i] = c
		}
	default: // mean zero over the whole record but neither part balanced
		name = "whole-balanced"
		fill(0, n, true)
	}
	data := make([]dastard.RawType, n)
	for i, x := range v {
		data[i] = dastard.RawType(((x % 65536) + 65536) % 65536)
	}
	k := r.Range(1, 8)
	var proj, basis []float64
	pb := "pb 0"
	prows, pcols, brows, bcols := 0, 0, 0, 0
	if r.Chance(90) {
		proj, basis = c13Matrices(r, k, n)
		prows, pcols, brows, bcols = k, n, n, k
		pb = c13Mats(k, n, proj, n, k, basis)
	}
	in := append([]dastard.RawType{}, data...)
	out := c13Guard(func() string {
		rec, setErr := dastard.VerifAnalyze(npre, n, signed, in, prows, pcols, proj, brows, bcols, basis)
		return c13Out(rec, setErr)
	})
	o.Case("src direct-zero-%s npre %d cfgnpre %d nsamp %d signed %d data %s %s %s", name, npre, npre, n, b2i(signed), ints(data), pb, out)
}

// c13History: several requests on ONE processor, each followed by the analysis of a new record: a model A, a revised
// model of the SAME shape under the SAME description (different content), the same under another description, a
// model with another number of components, REFUSED requests of every kind (projectors of the wrong width; good
// projectors with a basis of the wrong height; good projectors with a basis of the wrong width; with the same or
// another number of components as the loaded model; also as the very FIRST request, when nothing is loaded), removal
// and re-loading, a pulse-length request (same lengths: model kept; other lengths: model dropped).
// Each analysis is one case; its model (`pb`) is the LAST ACCEPTED one (the last request the real code answered without
// an error), or none.  The `src` token spells out the history so far, e.g.
// hist:load(3x20,20x3)=ok;A;load(3x20,19x3)=refused;A - the case line plus that history is the failing input.  A case that
// follows a refused request starts with `hist-after-refused:`.  A panic inside AnalyzeData is caught and reported as
// `OUT PANIC <class>`.
func c13History(r *Rng, tier string, o *Out) {
	npre := r.Pick(3, 4, 6, r.Range(3, 40))
	npost := r.Pick(1, 3, 8, r.Range(1, 80))
	n := npre + npost
	signed := r.Bool()
	vp := dastard.NewVerifProcessor(npre, n)
	cur := "pb 0"
	curK := 0
	desc := r.Intn(3)
	descs := []string{"verif", "", "model made 2026-09-28, 3 components"}
	var hist []string
	afterRefused := false
	// request hands projectors (pr x pc) and a basis (br x bc) to the real SetProjectorsBasis
	request := func(pr, pc, br, bc int, d string) bool {
		var proj, basis []float64
		if pr >= 1 && pc == n && br == n && bc == pr {
			proj, basis = c13Matrices(r, pr, n)
		} else {
			proj = make([]float64, pr*pc)
			basis = make([]float64, br*bc)
			for i := range proj {
				proj[i] = float64(r.Range(-2, 2)) + float64(r.Intn(8))/8
			}
			for i := range basis {
				basis[i] = float64(r.Range(-2, 2)) + float64(r.Intn(8))/8
			}
		}
		err := vp.SetProjectorsBasis(pr, pc, proj, br, bc, basis, d)
		if err != nil {
			hist = append(hist, fmt.Sprintf("load(%dx%d,%dx%d)=refused", pr, pc, br, bc))
			afterRefused = true
			return false
		}
		hist = append(hist, fmt.Sprintf("load(%dx%d,%dx%d)=ok", pr, pc, br, bc))
		afterRefused = false
		cur = c13Mats(pr, pc, proj, br, bc, basis)
		curK = pr
		return true
	}
	load := func(k int, d string) bool { return request(k, n, n, k, d) }
	// refuse makes a request that SetProjectorsBasis must refuse, of one of the three kinds, with nbases k
	refuse := func(k int) {
		switch r.Intn(4) {
		case 0: // projectors of the wrong width (basis consistent with them)
			w := n + r.Pick(-1, 1, 2)
			request(k, w, w, k, descs[desc])
		case 1: // good projectors, basis of the wrong height
			request(k, n, n+r.Pick(-1, 1, 3), k, descs[desc])
		case 2: // good projectors, basis of the wrong width
			request(k, n, n, k+r.Pick(1, 2), descs[desc])
		default: // good projectors, basis transposed (wrong height and, unless k == n, wrong width)
			if k == n {
				request(k, n, n+1, k, descs[desc])
			} else {
				request(k, n, k, n, descs[desc])
			}
		}
	}
	analyse := func(step string) {
		data, kind := c13Record(r, n, npre, signed, -1)
		in := append([]dastard.RawType{}, data...)
		hist = append(hist, "A")
		prefix := "hist"
		if afterRefused {
			prefix = "hist-after-refused"
		}
		out := c13Guard(func() string { return c13Out(vp.Analyze(npre, signed, in), false) })
		o.Case("src %s:%s:%s:%s npre %d cfgnpre %d nsamp %d signed %d data %s %s %s", prefix, step, kind, strings.Join(hist, ";"),
			npre, npre, n, b2i(signed), ints(data), cur, out)
	}
	k := r.Range(1, 8)
	if r.Chance(30) { // a refused request as the very first one: nothing is loaded, nothing may be analysed with it
		refuse(k)
		analyse("refused-first")
		if r.Chance(50) {
			refuse(r.Range(1, 8))
			analyse("refused-again")
		}
	}
	load(k, descs[desc])
	analyse("first")
	steps := r.Range(1, 4)
	for st := 0; st < steps; st++ {
		kk := curK
		if kk == 0 {
			kk = k
		}
		switch r.Intn(12) {
		case 0, 1, 2:
			load(kk, descs[desc])
			analyse("same-shape-same-desc")
		case 3:
			desc = (desc + 1) % len(descs)
			load(kk, descs[desc])
			analyse("same-shape-other-desc")
		case 4:
			load(r.Range(1, 8), descs[desc])
			analyse("other-nbases")
		case 5, 6: // refused, same number of components as the loaded model: the loaded model stays
			refuse(kk)
			analyse("refused-same-nbases")
		case 7, 8: // refused, another number of components
			nk := r.Range(1, 8)
			if nk == kk {
				nk = kk%8 + 1
			}
			refuse(nk)
			analyse("refused-other-nbases")
		case 9:
			vp.RemoveProjectorsBasis()
			hist = append(hist, "remove")
			afterRefused = false
			cur, curK = "pb 0", 0
			analyse("removed")
			if r.Chance(40) {
				refuse(k)
				analyse("refused-after-removal")
			}
			load(k, descs[desc]) // the same description after a removal must load again
			analyse("reloaded-after-removal")
		case 10:
			if err := vp.ConfigurePulseLengths(n, npre); err != nil {
				panic(err)
			}
			hist = append(hist, "lengths(same)")
			analyse("same-lengths-keep-model")
		default:
			npre2 := npre + r.Pick(-1, 1, 2)
			if npre2 < 3 {
				npre2 = npre + 1
			}
			n2 := npre2 + npost + r.Pick(0, 1)
			if err := vp.ConfigurePulseLengths(n2, npre2); err != nil {
				panic(err)
			}
			hist = append(hist, fmt.Sprintf("lengths(%d,%d)", n2, npre2))
			afterRefused = false
			npre, n = npre2, n2
			cur, curK = "pb 0", 0
			analyse("new-lengths-drop-model")
			load(r.Range(1, 8), descs[desc])
			analyse("loaded-after-new-lengths")
		}
	}
}

func genC13(r *Rng, tier string, o *Out) {
	c13Fixed(o)
	n := 520
	if tier == "thorough" {
		n = 2500
	}
	for o.n < n {
		if r.Chance(8) {
			c13History(r, tier, o)
		} else if r.Chance(10) {
			c13Balanced(r, tier, o)
		} else if r.Chance(12) {
			c13DCFree(r, tier, o)
		} else if r.Chance(2) {
			c13PipeEMT(r, tier, o)
		} else if r.Chance(2) {
			c13Pipe(r, tier, o)
		} else {
			c13Direct(r, tier, o)
		}
	}
}
