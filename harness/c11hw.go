package main

// C11 on hardware-style sources, whose getNextBlock launches an assembler goroutine per call: the real AbacoSource on a
// scripted packet producer and the real LanceroSource on a simulated card, both started and stopped through the real
// SourceControl.  Requests of different kinds are served during the run; each must be answered exactly once, data must
// keep flowing, and the end of the run (Stop, or — Abaco — the packet stream ending by itself) must not wedge or crash.
// Further source kinds: the real RoachSource over loopback UDP (configured through ConfigureRoachSource) and the simulated
// sources configured through their RPCs.  `map` histories load a pixel map (op M npix) and issue WriteControl START / STOP:
// what START answers depends on the source kind (pixels = nchan / channelsPerPixel; every channel number needs a pixel).

import (
	"fmt"
	"os"
	"path/filepath"
	"strings"
	"sync/atomic"
	"time"

	"github.com/usnistgov/dastard"
	"github.com/usnistgov/dastard/lancero"
	"github.com/usnistgov/dastard/packets"
)

// c11HWReq builds request number k (kinds rotate) for a source with nchan channels: all valid, all answered with success.
func c11HWReq(k, nchan int, h *lcH) (string, func() error) {
	var reply bool
	if k >= 1000 { // map histories: 1000+npix = load a map of npix pixels, 2000 = WriteControl START (LJH 2.2), 2001 = STOP
		switch {
		case k >= 2000:
			req := k - 2000
			return fmt.Sprintf("W %d 0 1", req), func() error {
				cfg := &dastard.WriteControlConfig{Request: []string{"START", "STOP"}[req], WriteLJH22: true,
					Path: filepath.Join(h.wrDir, "data")}
				return h.sc.WriteControl(cfg, &reply)
			}
		default:
			npix := k - 1000
			return fmt.Sprintf("M %d", npix), func() error {
				h.sc.VerifLoadMap(npix)
				return nil
			}
		}
	}
	switch k % 5 {
	case 0:
		all := make([]int, nchan)
		for i := range all {
			all[i] = i
		}
		return fmt.Sprintf("T %s", ints(all)), func() error {
			st := &dastard.FullTriggerState{ChannelIndices: all}
			st.AutoTrigger, st.AutoDelay = true, 20*time.Millisecond
			return h.sc.ConfigureTriggers(st, &reply)
		}
	case 1:
		return "E 0 0", func() error {
			b := false
			return h.sc.CoupleErrToFB(&b, &reply)
		}
	case 2:
		return "X", func() error {
			var d bool
			return h.sc.StopTriggerCoupling(&d, &reply)
		}
	case 3:
		return "L 16 4", func() error { return h.sc.ConfigurePulseLengths(dastard.SizeObject{Nsamp: 16, Npre: 4}, &reply) }
	default:
		return "C 1", func() error {
			txt := "a comment"
			return h.sc.WriteComment(&txt, &reply)
		}
	}
}

// c11HW: mode 0 = a random source kind and history, 1 = the Abaco packet stream ends by itself, 2.. = map histories on
// a fixed source kind (2 roach, 3 lancero, 4 abaco, 5 tri, 6 sim).
func c11HW(idx int, r *Rng, mode int) (string, func() string) {
	src := []string{"abaco", "abaco", "lancero", "roach", "tri", "sim"}[r.Intn(6)]
	end := "stop"
	withMap := r.Chance(50)
	switch mode {
	case 1:
		src, end, withMap = "abaco", "self", false
	case 2, 3, 4, 5, 6:
		src, withMap = []string{"roach", "lancero", "abaco", "tri", "sim"}[mode-2], true
	}
	nchan, cpp, chan0 := 4, 1, 0
	switch src {
	case "lancero":
		nchan, cpp, chan0 = 8, 2, 1
	case "tri", "sim":
		nchan = 2 // (AnySource.PrepareChannels numbers the channels from 0 when the source starts)
	case "abaco":
		chan0 = r.Pick(0, 1, 1) // channel offset in the packets' headers = the first channel number
	}
	var ks []int
	if withMap {
		// load a map (fitting nchan/channelsPerPixel, or not), START, and whatever else; a refused START unloads the map,
		// so the START after it goes through
		pix := nchan / cpp
		n := r.Range(3, 7)
		for len(ks) < n {
			switch c := r.Intn(10); {
			case c < 3 || len(ks) == 0:
				np := r.Pick(pix, pix, pix, pix-1, pix+1, nchan, 2*nchan, 0)
				ks = append(ks, 1000+np, 2000)
			case c < 5:
				ks = append(ks, 2000)
			case c < 7:
				ks = append(ks, 2001)
			default:
				ks = append(ks, r.Intn(5))
			}
		}
	} else {
		nreq := r.Range(1, 5)
		first := r.Intn(5)
		for i := 0; i < nreq; i++ {
			ks = append(ks, first+i)
		}
	}
	nreq := len(ks)
	var sb strings.Builder
	fmt.Fprintf(&sb, "kind hw src %s nchan %d chan0 %d end %s reqs %d", src, nchan, chan0, end, nreq)
	for _, k := range ks {
		t, _ := c11HWReq(k, nchan, nil)
		sb.WriteString(" " + t)
	}
	return sb.String(), func() string {
		dirp := c11Dir(idx)
		defer os.RemoveAll(dirp)
		h := lcNew("tri", idx)
		h.wrDir = dirp
		sc := dastard.VerifNewSourceControl(dastard.NewErroringSource(), 8, 32)
		sc.VerifSetActive(false)
		h.sc = sc
		_, _, abaco, lanc := sc.VerifC17Sources()
		name := "ABACOSOURCE"
		gen := &c10Abaco{nchan: nchan, fpp: 16, ppt: 20, chan0: chan0}
		var rok bool
		switch src {
		case "roach":
			// the real RoachSource behind the real ConfigureRoachSource, fed by a sender goroutine over loopback UDP
			name = "ROACHSOURCE"
			h.kind = "roach"
			host := ""
			for try := 0; try < 10 && host == ""; try++ {
				cand := fmt.Sprintf("127.0.0.1:%d", 22000+(os.Getpid()*41+idx*13+try*7919+17)%30000)
				if portFree(cand) == 1 && sc.ConfigureRoachSource(&dastard.RoachSourceConfig{HostPort: []string{cand},
					Rates: []float64{1e5}, AbacoUnwrapOptions: dastard.AbacoUnwrapOptions{RescaleRaw: true, Unwrap: true,
						ResetAfter: 20000, PulseSign: 1}}, &rok) == nil {
					host = cand
				}
			}
			if host == "" {
				return "NUMS 0 RET 0 PROBE 0 " + h.finish(true)
			}
			var samp uint64 = 1000
			snd := startSender(host, func() [][]byte {
				out := make([][]byte, 0, 4)
				for i := 0; i < 4; i++ {
					out = append(out, roachDatagram(nchan, 50, samp))
					samp += 50
				}
				return out
			})
			defer snd.halt()
		case "tri":
			name = "TRIANGLESOURCE"
			h.kind = "tri"
			sc.ConfigureTriangleSource(&dastard.TriangleSourceConfig{Nchan: nchan, SampleRate: 20000, Min: 100, Max: 150}, &rok)
		case "sim":
			name = "SIMPULSESOURCE"
			h.kind = "sim"
			sc.ConfigureSimPulseSource(&dastard.SimPulseSourceConfig{Nchan: nchan, SampleRate: 20000, Pedestal: 1000,
				Amplitudes: []float64{5000}, Nsamp: 100}, &rok)
		}
		if src == "abaco" {
			sample := []*packets.Packet{gen.packet(), gen.packet(), gen.packet(), gen.packet()}
			dastard.VerifC17Abaco(abaco, sample, gen.next)
			h.kind, h.ds = "abaco", abaco
		} else if src == "lancero" {
			cg := `{"SETT": 18, "seqln": 4, "lsync": 1000, "testpattern": 2, "propagationdelay": 9, "NSAMP": 4, "carddelay": 7, "XPT": 3}`
			cgpath := filepath.Join(dirp, "cringeGlobals.json")
			os.WriteFile(cgpath, []byte(cg), 0644)
			old := dastard.VerifSetCringeGlobalsPath(cgpath)
			defer dastard.VerifSetCringeGlobalsPath(old)
			card, _ := lancero.NewNoHardware(1, 4, 1000)
			dastard.VerifC17Lancero(lanc, card, 1, 4, 1000)
			dastard.VerifReadPeriod = 10 * time.Millisecond
			name = "LANCEROSOURCE"
			h.kind, h.ds = "lancero", lanc
		}
		dastard.VerifPointsOn()
		var holding atomic.Bool
		var stopReleaser func()
		if end == "self" {
			dastard.VerifGate("loop.processed")
			stopReleaser = lcGateReleaser(&holding)
		}
		waitBlocks := func(n int) bool {
			base := lcCount(dastard.VerifTrace(0), "loop.processed")
			return lcWaitTrace(3*time.Second, func(tr []dastard.VerifEvent) bool { return lcCount(tr, "loop.processed") >= base+n })
		}
		var ok bool
		h.nS++
		s := h.spawn("S1", func() error { return sc.Start(&name, &ok) })
		rets := []int{}
		probe := 0
		var nums []int
		if s.wait(5*time.Second) && s.ret == 0 {
			if src != "abaco" && src != "lancero" {
				h.ds = sc.VerifActiveSource()
			}
			if cn, ok := h.ds.(interface{ VerifChanNumbers() []int }); ok {
				nums = cn.VerifChanNumbers()
			}
			waitBlocks(2)
			for i := 0; i < nreq; i++ {
				_, call := c11HWReq(ks[i], nchan, h)
				rets = append(rets, h.timed(call))
				if rets[i] == 2 {
					break
				}
				if i%2 == 0 {
					waitBlocks(1)
				}
			}
			// data still flows after the requests
			probe = 1 + b2i(waitBlocks(2))
			if end == "stop" {
				h.nK++
				k := h.spawn(fmt.Sprintf("K%d", h.nK), func() error {
					var dummy string
					return sc.Stop(&dummy, &ok)
				})
				k.wait(5 * time.Second)
			} else {
				holding.Store(true)
				waitBlocks(2)
				gen.stopped.Store(true)
				ended := lcWaitTrace(7500*time.Millisecond, func([]dastard.VerifEvent) bool { return h.ds.GetState() == dastard.Inactive })
				dastard.VerifNote(fmt.Sprintf("obs.selfend.%d.%d.0", b2i(ended), int(h.ds.GetState())))
			}
		}
		if stopReleaser != nil {
			stopReleaser()
		}
		out := h.finish(true)
		if src == "lancero" {
			// the Lancero producer has no life-cycle sites: only replies, progress and the final observations are judged
			out = "TR 0 CALLS 0 " + out[strings.Index(out, "FIN "):]
		}
		return fmt.Sprintf("NUMS %s RET %s PROBE %d %s", ints(nums), ints(rets), probe, out)
	}
}
