package main

// C11 on hardware-style sources, whose getNextBlock launches an assembler goroutine per call: the real AbacoSource on a
// scripted packet producer and the real LanceroSource on a simulated card, both started and stopped through the real
// SourceControl.  Requests of different kinds are served during the run; each must be answered exactly once, data must
// keep flowing, and the end of the run (Stop, or — Abaco — the packet stream ending by itself) must not wedge or crash.

import (
	"fmt"
	"os"
	"path/filepath"
	"strings"
	"sync/atomic"
	"time"

	"github.com/usnistgov/dastard"
	"github.com/usnistgov/dastard/lancero"
	"github.com/usnistgov/dastard/packets"
)

// c11HWReq builds request number k (kinds rotate) for a source with nchan channels: all valid, all answered with success.
func c11HWReq(k, nchan int, h *lcH) (string, func() error) {
	var reply bool
	switch k % 5 {
	case 0:
		all := make([]int, nchan)
		for i := range all {
			all[i] = i
		}
		return fmt.Sprintf("T %s", ints(all)), func() error {
			st := &dastard.FullTriggerState{ChannelIndices: all}
			st.AutoTrigger, st.AutoDelay = true, 20*time.Millisecond
			return h.sc.ConfigureTriggers(st, &reply)
		}
	case 1:
		return "E 0 0", func() error {
			b := false
			return h.sc.CoupleErrToFB(&b, &reply)
		}
	case 2:
		return "X", func() error {
			var d bool
			return h.sc.StopTriggerCoupling(&d, &reply)
		}
	case 3:
		return "L 16 4", func() error { return h.sc.ConfigurePulseLengths(dastard.SizeObject{Nsamp: 16, Npre: 4}, &reply) }
	default:
		return "C 1", func() error {
			txt := "a comment"
			return h.sc.WriteComment(&txt, &reply)
		}
	}
}

func c11HW(idx int, r *Rng, forceSelf bool) (string, func() string) {
	src := []string{"abaco", "abaco", "lancero"}[r.Intn(3)]
	end := "stop"
	if forceSelf {
		src, end = "abaco", "self"
	}
	nreq := r.Range(1, 5)
	first := r.Intn(5)
	nchan := 4
	if src == "lancero" {
		nchan = 8
	}
	var sb strings.Builder
	fmt.Fprintf(&sb, "kind hw src %s nchan %d end %s reqs %d", src, nchan, end, nreq)
	for i := 0; i < nreq; i++ {
		t, _ := c11HWReq(first+i, nchan, nil)
		sb.WriteString(" " + t)
	}
	return sb.String(), func() string {
		dirp := c11Dir(idx)
		defer os.RemoveAll(dirp)
		h := lcNew("tri", idx)
		sc := dastard.VerifNewSourceControl(dastard.NewErroringSource(), 8, 32)
		sc.VerifSetActive(false)
		h.sc = sc
		_, _, abaco, lanc := sc.VerifC17Sources()
		name := "ABACOSOURCE"
		gen := &c10Abaco{nchan: nchan, fpp: 16, ppt: 20}
		if src == "abaco" {
			sample := []*packets.Packet{gen.packet(), gen.packet(), gen.packet(), gen.packet()}
			dastard.VerifC17Abaco(abaco, sample, gen.next)
			h.kind, h.ds = "abaco", abaco
		} else {
			cg := `{"SETT": 18, "seqln": 4, "lsync": 1000, "testpattern": 2, "propagationdelay": 9, "NSAMP": 4, "carddelay": 7, "XPT": 3}`
			cgpath := filepath.Join(dirp, "cringeGlobals.json")
			os.WriteFile(cgpath, []byte(cg), 0644)
			old := dastard.VerifSetCringeGlobalsPath(cgpath)
			defer dastard.VerifSetCringeGlobalsPath(old)
			card, _ := lancero.NewNoHardware(1, 4, 1000)
			dastard.VerifC17Lancero(lanc, card, 1, 4, 1000)
			dastard.VerifReadPeriod = 10 * time.Millisecond
			name = "LANCEROSOURCE"
			h.kind, h.ds = "lancero", lanc
		}
		dastard.VerifPointsOn()
		var holding atomic.Bool
		var stopReleaser func()
		if end == "self" {
			dastard.VerifGate("loop.processed")
			stopReleaser = lcGateReleaser(&holding)
		}
		waitBlocks := func(n int) bool {
			base := lcCount(dastard.VerifTrace(0), "loop.processed")
			return lcWaitTrace(3*time.Second, func(tr []dastard.VerifEvent) bool { return lcCount(tr, "loop.processed") >= base+n })
		}
		var ok bool
		h.nS++
		s := h.spawn("S1", func() error { return sc.Start(&name, &ok) })
		rets := []int{}
		probe := 0
		if s.wait(5*time.Second) && s.ret == 0 {
			waitBlocks(2)
			for i := 0; i < nreq; i++ {
				_, call := c11HWReq(first+i, nchan, h)
				rets = append(rets, h.timed(call))
				if rets[i] == 2 {
					break
				}
				if i%2 == 0 {
					waitBlocks(1)
				}
			}
			// data still flows after the requests
			probe = 1 + b2i(waitBlocks(2))
			if end == "stop" {
				h.nK++
				k := h.spawn(fmt.Sprintf("K%d", h.nK), func() error {
					var dummy string
					return sc.Stop(&dummy, &ok)
				})
				k.wait(5 * time.Second)
			} else {
				holding.Store(true)
				waitBlocks(2)
				gen.stopped.Store(true)
				ended := lcWaitTrace(7500*time.Millisecond, func([]dastard.VerifEvent) bool { return h.ds.GetState() == dastard.Inactive })
				dastard.VerifNote(fmt.Sprintf("obs.selfend.%d.%d.0", b2i(ended), int(h.ds.GetState())))
			}
		}
		if stopReleaser != nil {
			stopReleaser()
		}
		out := h.finish(true)
		if src == "lancero" {
			// the Lancero producer has no life-cycle sites: only replies, progress and the final observations are judged
			out = "TR 0 CALLS 0 " + out[strings.Index(out, "FIN "):]
		}
		return fmt.Sprintf("RET %s PROBE %d %s", ints(rets), probe, out)
	}
}
