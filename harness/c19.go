package main

import (
	"fmt"
	"os"
	"path/filepath"
	"strings"

	"github.com/usnistgov/dastard"
)

func init() { gens["C19"] = genC19 }

// c19Tables renders the identity tables the real code built:  `E`  (rejected)  or
// `T <nchan> <channelsPerPixel> <n> (name number code row col rows cols)* G <ng> (first n)*`.
func c19Tables(t dastard.VerifC19Tables) string {
	if t.ConfigOnly && t.Active != nil {
		// a Lancero Configure request: how it was answered and the active cards it left
		k := "KA"
		if t.Rejected {
			k = "EA"
		}
		return k + " " + ints(t.Active)
	}
	if t.ConfigOnly && !t.Rejected {
		return "K" // a Configure request that was accepted
	}
	if t.Rejected {
		return "E"
	}
	var sb strings.Builder
	fmt.Fprintf(&sb, "T %d %d %d", t.Nchan, t.ChannelsPerPixel, len(t.Streams))
	for _, s := range t.Streams {
		nm := s.Name
		if nm == "" || strings.ContainsAny(nm, " \t\n") {
			nm = "?" + fmt.Sprintf("%x", nm)
		}
		fmt.Fprintf(&sb, " %s %d %d %d %d %d %d", nm, s.Number, s.Code, s.Row, s.Col, s.Rows, s.Cols)
	}
	fmt.Fprintf(&sb, " G %d", len(t.Groups))
	for _, g := range t.Groups {
		fmt.Fprintf(&sb, " %d %d", g.Firstchan, g.Nchan)
	}
	return sb.String()
}

// c19Files renders what a real START gave every stream's writers:
// `F <n> (ljh22name ljh3name chanName chanNum row col rows cols)*`; `F 0` when no START was made.
func c19Files(fs []dastard.VerifC19File) string {
	var sb strings.Builder
	fmt.Fprintf(&sb, "F %d", len(fs))
	tok := func(s string) string {
		if s == "" || strings.ContainsAny(s, " \t\n") {
			return "?" + fmt.Sprintf("%x", s)
		}
		return s
	}
	for _, f := range fs {
		fmt.Fprintf(&sb, " %s %s %s %d %d %d %d %d", tok(f.LJH22Name), tok(f.LJH3Name), tok(f.ChanName), f.ChanNum,
			f.Row, f.Col, f.Rows, f.Cols)
	}
	return sb.String()
}

var c19StartCount int

// c19Start runs the real PrepareRun + WriteControl START/STOP on the prepared source.
func c19Start(ds *dastard.AnySource) (res string) {
	defer func() {
		if e := recover(); e != nil {
			res = "PANIC"
		}
	}()
	base := os.Getenv("VERIF_WORKDIR")
	if base == "" {
		base = filepath.Join(os.TempDir(), fmt.Sprintf("c19_start_%d", os.Getpid()))
	}
	// one base path per 5000 STARTs: makeDirectory has 10000 run numbers per day and path
	path := filepath.Join(base, fmt.Sprintf("c19w%d", c19StartCount/5000))
	c19StartCount++
	fs, err := dastard.VerifC19Start(ds, path)
	if err != nil {
		return "FERR"
	}
	return c19Files(fs)
}

func c19Guard(f func() string) (res string) {
	defer func() {
		if e := recover(); e != nil {
			res = "PANIC"
		}
	}()
	return f()
}

func maxi(a, b int) int {
	if a > b {
		return a
	}
	return b
}

// genC19 generates source configurations and runs the real numbering code on them.
//
//	L firstRow sepCards sepCols ndev (devnum ncols nrows)* start  OUT <tables call 1> <tables call 2> <files>
//	A nprod (npk (offset nchan)*)* start                         OUT <tables> <files>
//	S kind nchan start                                           OUT <tables> <files>      kind 0 triangle, 1 simpulse
//	R nchan start                                                OUT <tables> <files>
//	H … histories on one source object, see c19History
func genC19(r *Rng, tier string, o *Out) {
	dastard.VerifStartClientDrain()
	n := 1500
	if tier == "thorough" {
		n = 5000
	}
	for i := 0; i < n; i++ {
		switch c := r.Intn(100); {
		case c < 25:
			c19History(r, o)
		case c < 75:
			c19Lancero(r, o)
		case c < 90:
			c19Abaco(r, o)
		case c < 97:
			c19Generic(r, o, false)
		default:
			c19Roach(r, o, false)
		}
	}
	// the 16-bit fields of the row/column code: one source just past the limit per run
	if r.Bool() {
		c19Generic(r, o, true)
	} else {
		c19Roach(r, o, true)
	}
}

// c19LanceroCfg draws one Lancero configuration: active cards (distinct device numbers, any order),
// geometry, first row, column and card separations around the smallest values the geometry needs.
func c19LanceroCfg(r *Rng) (devs []dastard.VerifC19Dev, firstRow, sepCards, sepCols, total int) {
	ncards := r.Pick(1, 1, 1, 2, 2, 2, 3, 4, 4, 6, 8)
	if r.Chance(4) {
		ncards = r.Range(9, 12)
	}
	if r.Chance(1) {
		ncards = 0
	}
	// distinct device numbers (LanceroSource.Configure refuses to use a device twice), any order
	pool := r.Pick(ncards, ncards, ncards+2, 16)
	if pool < ncards {
		pool = ncards
	}
	nums := make([]int, pool)
	for k := range nums {
		nums[k] = k
	}
	if r.Chance(55) {
		for k := len(nums) - 1; k > 0; k-- {
			j := r.Intn(k + 1)
			nums[k], nums[j] = nums[j], nums[k]
		}
	}
	same := r.Chance(60)
	ncols0 := r.Pick(1, 2, 2, 4, 8, 8, r.Range(0, 10))
	nrows0 := r.Pick(1, 2, 3, 4, 8, 16, 24, 30, 32, 40, r.Range(0, 12))
	if r.Chance(3) {
		nrows0 = r.Pick(64, 100, 255, 256)
		ncols0 = r.Range(1, 2)
	}
	devs = make([]dastard.VerifC19Dev, ncards)
	maxrows := 0
	for k := range devs {
		nc, nr := ncols0, nrows0
		if !same {
			nc = r.Pick(1, 2, 4, 8, r.Range(0, 6))
			nr = r.Pick(1, 2, 4, 8, 16, 30, r.Range(0, 12))
		}
		devs[k] = dastard.VerifC19Dev{Devnum: nums[k], Ncols: nc, Nrows: nr}
		maxrows = maxi(maxrows, nr)
		total += 2 * nc * nr
	}
	firstRow = r.Pick(0, 1, 1, 1, 1, 2, 10, 100, 1000000, -1, -5, r.Range(-50, 50))
	sepCols = c19SepCols(r, maxrows)
	sepCards = c19SepCards(r, devs, sepCols)
	return
}

func c19SepCols(r *Rng, maxrows int) (sepCols int) {
	switch r.Intn(12) {
	case 0, 1, 2, 3:
		sepCols = 0
	case 4, 5:
		sepCols = maxrows // exactly large enough
	case 6:
		sepCols = maxrows - 1 // one too small (or 0 / -1 for tiny geometries)
	case 7:
		sepCols = maxrows + r.Range(1, 40)
	case 8:
		sepCols = r.Pick(1, 2, 32, 64, 100, 1000)
	case 9:
		sepCols = -r.Range(1, 100)
	case 10:
		sepCols = r.Range(1, maxi(1, maxrows))
	default:
		sepCols = r.Range(0, 2*maxrows+2)
	}
	return
}

func c19SepCards(r *Rng, devs []dastard.VerifC19Dev, sepCols int) (sepCards int) {
	need := 0 // the smallest card separation the geometry needs
	for _, d := range devs {
		cs := d.Nrows
		if sepCols > 0 {
			cs = sepCols
		}
		need = maxi(need, cs*d.Ncols)
	}
	switch r.Intn(12) {
	case 0, 1, 2, 3:
		sepCards = 0
	case 4, 5:
		sepCards = need
	case 6:
		sepCards = need - 1
	case 7:
		sepCards = need + r.Range(1, 200)
	case 8:
		sepCards = r.Pick(1, 100, 1000, 10000)
	case 9:
		sepCards = -r.Range(1, 1000)
	case 10:
		sepCards = r.Range(1, maxi(1, need))
	default:
		sepCards = r.Range(0, 2*need+2)
	}
	return
}

func c19LanceroStepText(sb *strings.Builder, devs []dastard.VerifC19Dev, firstRow, sepCards, sepCols int) {
	fmt.Fprintf(sb, "L %d %d %d %d", firstRow, sepCards, sepCols, len(devs))
	for _, d := range devs {
		fmt.Fprintf(sb, " %d %d %d", d.Devnum, d.Ncols, d.Nrows)
	}
}

func c19Lancero(r *Rng, o *Out) {
	devs, firstRow, sepCards, sepCols, total := c19LanceroCfg(r)
	start := total > 0 && total <= 96 && r.Chance(30)
	var sb strings.Builder
	c19LanceroStepText(&sb, devs, firstRow, sepCards, sepCols)
	fmt.Fprintf(&sb, " %d", b2i(start))
	out := c19Guard(func() string {
		ts, ds := dastard.VerifC19Lancero(devs, firstRow, sepCards, sepCols, 2)
		s := c19Tables(ts[0]) + " " + c19Tables(ts[1])
		if start && !ts[1].Rejected {
			return s + " " + c19Start(ds)
		}
		return s + " F 0"
	})
	o.Case("%s OUT %s", sb.String(), out)
}

// c19AbacoLayout draws the (offset, nchan) pairs the sampled packets of each producer announce.
func c19AbacoLayout(r *Rng) (prods [][][2]int, total int) {
	nprod := r.Pick(1, 1, 2, 3)
	ngroups := r.Pick(1, 1, 2, 2, 3, 4, 6, 8, r.Range(1, 12))
	// a layout of mostly adjacent, sometimes separated, sometimes colliding groups
	type grp struct{ off, n int }
	var gs []grp
	next := r.Pick(0, 0, 0, 1, 64, 1000, 4294960000)
	for k := 0; k < ngroups; k++ {
		nch := r.Pick(1, 2, 4, 8, 8, 16, 32, 64, r.Range(1, 40))
		if r.Chance(2) {
			nch = r.Pick(128, 500, 4000, 4200, 32767)
		}
		off := next
		switch c := r.Intn(100); {
		case c < 60: // adjacent
		case c < 80:
			off = next + r.Range(1, 100) // a gap
		case c < 86 && len(gs) > 0: // overlap with the previous group by one or more channels
			off = next - r.Range(1, gs[len(gs)-1].n)
		case c < 90 && len(gs) > 0: // same first channel as an earlier group (other size most of the time)
			off = gs[r.Intn(len(gs))].off
		case c < 93 && len(gs) > 0: // exact repeat of an earlier group: same map key, no collision
			g := gs[r.Intn(len(gs))]
			off, nch = g.off, g.n
		default:
		}
		if off < 0 {
			off = 0
		}
		if off > 4294967295 {
			off = 4294967295
		}
		gs = append(gs, grp{off, nch})
		next = maxi(next, off+nch)
	}
	// packets arrive in any order, several per group, spread over the producers
	var pk []grp
	for _, g := range gs {
		for c := r.Range(1, 2); c > 0; c-- {
			pk = append(pk, g)
		}
	}
	for k := len(pk) - 1; k > 0; k-- {
		j := r.Intn(k + 1)
		pk[k], pk[j] = pk[j], pk[k]
	}
	prods = make([][][2]int, nprod)
	for _, g := range gs {
		total += g.n
	}
	for _, g := range pk {
		p := r.Intn(nprod)
		prods[p] = append(prods[p], [2]int{g.off, g.n})
	}
	return
}

func c19AbacoStepText(sb *strings.Builder, prods [][][2]int) {
	fmt.Fprintf(sb, "A %d", len(prods))
	for _, p := range prods {
		fmt.Fprintf(sb, " %d", len(p))
		for _, g := range p {
			fmt.Fprintf(sb, " %d %d", g[0], g[1])
		}
	}
}

func c19Abaco(r *Rng, o *Out) {
	prods, total := c19AbacoLayout(r)
	start := total <= 96 && r.Chance(30)
	var sb strings.Builder
	c19AbacoStepText(&sb, prods)
	fmt.Fprintf(&sb, " %d", b2i(start))
	out := c19Guard(func() string {
		t, ds := dastard.VerifC19Abaco(prods)
		s := c19Tables(t)
		if start && !t.Rejected && len(t.Streams) > 0 {
			return s + " " + c19Start(ds)
		}
		return s + " F 0"
	})
	o.Case("%s OUT %s", sb.String(), out)
}

func c19Generic(r *Rng, o *Out, huge bool) {
	kind := r.Intn(2)
	nchan := r.Pick(1, 1, 2, 3, 4, 8, 10, 11, 16, 32, 100, 101, 256, r.Range(1, 600))
	if r.Chance(8) {
		nchan = r.Pick(0, -1, -7)
	}
	if r.Chance(3) {
		nchan = r.Pick(4096, 4097, 32768, 40000) // exercise the upper bits of the 16-bit fields
	}
	if huge {
		nchan = r.Pick(65536, 65537, 65540)
	}
	start := nchan > 0 && nchan <= 96 && r.Chance(40)
	out := c19Guard(func() string {
		t, ds := dastard.VerifC19Generic(kind, nchan)
		s := c19Tables(t)
		if start && !t.Rejected {
			return s + " " + c19Start(ds)
		}
		return s + " F 0"
	})
	o.Case("S %d %d %d OUT %s", kind, nchan, b2i(start), out)
}

func c19Roach(r *Rng, o *Out, huge bool) {
	nchan := r.Pick(0, 1, 2, 8, 16, 100, 512, r.Range(1, 700))
	if r.Chance(4) {
		nchan = r.Pick(4096, 4097, 32768, 40000, 65535)
	}
	if huge {
		nchan = r.Pick(65536, 65537, 65540)
	}
	start := nchan > 0 && nchan <= 96 && r.Chance(40)
	out := c19Guard(func() string {
		t, ds := dastard.VerifC19Roach(nchan)
		s := c19Tables(t)
		if start && !t.Rejected {
			return s + " " + c19Start(ds)
		}
		return s + " F 0"
	})
	o.Case("R %d %d OUT %s", nchan, b2i(start), out)
}

// c19History re-prepares ONE source object several times with different configurations (the RPC server
// keeps one object per source kind for its whole life; PrepareChannels runs again after every
// reconfiguration and after a failed or self-terminated start).
//
//	H nsteps (L cfg | Y | A layout | S kind nchan | R nchan)* start  OUT <tables after step 1> … <tables after step n> <files>
func c19History(r *Rng, o *Out) {
	nsteps := r.Pick(2, 2, 3, 3, 4, 6)
	var sb strings.Builder
	fmt.Fprintf(&sb, "H %d", nsteps)
	switch c := r.Intn(100); {
	case c < 22: // Lancero through the real Configure: any ActiveCards list
		c19LanceroConfigure(r, o)
	case c < 62: // Lancero
		steps := make([]dastard.VerifC19LanceroStep, 0, nsteps)
		devs, firstRow, sepCards, sepCols, total := c19LanceroCfg(r)
		for len(devs) == 0 {
			devs, firstRow, sepCards, sepCols, total = c19LanceroCfg(r)
		}
		if r.Chance(70) { // start from an acceptable numbering most of the time
			maxrows := 0
			for _, d := range devs {
				maxrows = maxi(maxrows, d.Nrows)
			}
			sepCols = r.Pick(0, maxrows, maxrows+r.Range(1, 100), 100)
			if sepCols < maxrows {
				sepCols = 0
			}
			sepCards = 0
			if r.Bool() {
				sepCards = 100000
			}
		}
		for k := 0; k < nsteps; k++ {
			if k > 0 {
				switch r.Intn(10) {
				case 0: // PrepareChannels again on the state left behind
					steps = append(steps, dastard.VerifC19LanceroStep{Retry: true})
					sb.WriteString(" Y")
					continue
				case 1: // the same configuration again (a new Start after a failed one)
				case 2, 3: // other column separation (e.g. 100 -> 10)
					maxrows := 0
					for _, d := range devs {
						maxrows = maxi(maxrows, d.Nrows)
					}
					sepCols = r.Pick(0, maxrows, maxrows+1, maxrows+r.Range(1, 50), 10, 100, maxrows-1)
				case 4: // other card separation
					sepCards = c19SepCards(r, devs, sepCols)
				case 5: // other first row
					firstRow = r.Pick(0, 1, 2, 10, 100, -3, firstRow+r.Range(1, 5))
				case 6: // other active cards: a subset, reversed, or one more card
					nd := append([]dastard.VerifC19Dev{}, devs...)
					switch r.Intn(3) {
					case 0:
						if len(nd) > 1 {
							nd = nd[:r.Range(1, len(nd)-1)]
						}
					case 1:
						for i, j := 0, len(nd)-1; i < j; i, j = i+1, j-1 {
							nd[i], nd[j] = nd[j], nd[i]
						}
					default:
						mx, nc, nr := 0, 2, 4
						for _, d := range nd {
							mx = maxi(mx, d.Devnum)
							nc, nr = d.Ncols, d.Nrows
						}
						nd = append(nd, dastard.VerifC19Dev{Devnum: mx + 1, Ncols: nc, Nrows: nr})
					}
					devs = nd
				case 7: // other geometry of the same cards (another crate programmed with another sequence length)
					nr := r.Pick(1, 2, 4, 8, 16, 30)
					nd := append([]dastard.VerifC19Dev{}, devs...)
					for i := range nd {
						nd[i].Nrows = nr
					}
					devs = nd
				default: // a wholly different configuration
					devs, firstRow, sepCards, sepCols, total = c19LanceroCfg(r)
				}
			}
			steps = append(steps, dastard.VerifC19LanceroStep{Devs: devs, FirstRow: firstRow, SepCards: sepCards, SepCols: sepCols})
			sb.WriteString(" ")
			c19LanceroStepText(&sb, devs, firstRow, sepCards, sepCols)
		}
		total = 0
		for _, d := range devs {
			total += 2 * d.Ncols * d.Nrows
		}
		start := total > 0 && total <= 96 && r.Chance(30)
		fmt.Fprintf(&sb, " %d", b2i(start))
		out := c19Guard(func() string {
			ts, ds := dastard.VerifC19LanceroSeq(steps)
			return c19HistOut(ts, ds, start)
		})
		o.Case("%s OUT %s", sb.String(), out)
	case c < 80: // Abaco
		hist := make([][][][2]int, nsteps)
		total := 0
		for k := range hist {
			switch c := r.Intn(100); {
			case k > 0 && c < 15:
				hist[k] = hist[k-1]
			case k > 0 && c < 50:
				// another layout with the SAME number of groups and the SAME number of channels: all groups
				// shifted, or the group sizes handed out in another order
				hist[k] = c19AbacoSameTotals(r, hist[k-1])
			default:
				hist[k], total = c19AbacoLayout(r)
			}
			sb.WriteString(" ")
			c19AbacoStepText(&sb, hist[k])
		}
		start := total > 0 && total <= 96 && r.Chance(30)
		fmt.Fprintf(&sb, " %d", b2i(start))
		out := c19Guard(func() string {
			ts, ds := dastard.VerifC19AbacoSeq(hist)
			return c19HistOut(ts, ds, start)
		})
		o.Case("%s OUT %s", sb.String(), out)
	case c < 95: // simulated: Configure requests (accepted, refused at once, refused AFTER the channel count was looked at) and Starts
		kind := r.Intn(2)
		if r.Chance(35) { // the older form: every step = accepted-or-refused Configure + Sample + PrepareChannels
			nchans := make([]int, nsteps)
			for k := range nchans {
				nchans[k] = r.Pick(1, 2, 3, 4, 8, 16, 33, 100, 0, r.Range(1, 300))
				fmt.Fprintf(&sb, " S %d %d", kind, nchans[k])
			}
			last := nchans[nsteps-1]
			start := last > 0 && last <= 96 && r.Chance(30)
			fmt.Fprintf(&sb, " %d", b2i(start))
			out := c19Guard(func() string {
				ts, ds := dastard.VerifC19GenericSeq(kind, nchans)
				return c19HistOut(ts, ds, start)
			})
			o.Case("%s OUT %s", sb.String(), out)
			return
		}
		var ops []dastard.VerifC19SimOp
		stored := 0 // the channel count the source holds
		conf := func(n int, late bool) {
			ops = append(ops, dastard.VerifC19SimOp{Configure: true, Nchan: n, Late: late})
			if n >= 1 {
				stored = n
			}
		}
		prep := func() { ops = append(ops, dastard.VerifC19SimOp{}) }
		a := r.Pick(1, 2, 4, 8, 16, 33, r.Range(1, 120))
		b := a
		for b == a {
			b = r.Pick(1, 2, 3, 5, 8, 12, 40, a+1, a+r.Range(1, 60), maxi(1, a-1), maxi(1, a/2), r.Range(1, 120))
		}
		switch r.Intn(6) {
		case 0: // never configured successfully, then a late refusal, then Start
			conf(b, true)
			prep()
		case 1, 2: // accepted A, late-refused B (shrink or grow), Start
			conf(a, false)
			if r.Bool() {
				prep()
			}
			conf(b, true)
			prep()
		case 3: // refused at once (no channel count taken), Start still shows A
			conf(a, false)
			conf(r.Pick(0, -1, -5), r.Bool())
			prep()
		default: // random walk
			for k := 0; k < nsteps+1; k++ {
				switch c := r.Intn(10); {
				case c < 3:
					conf(r.Pick(a, b, r.Range(1, 120)), false)
				case c < 6:
					conf(r.Pick(a, b, r.Range(1, 120)), true)
				case c < 7:
					conf(r.Pick(0, -1), r.Bool())
				default:
					prep()
				}
			}
			prep()
		}
		sb.Reset()
		fmt.Fprintf(&sb, "H %d", len(ops))
		for _, op := range ops {
			if op.Configure {
				fmt.Fprintf(&sb, " C %d %d %d", kind, op.Nchan, b2i(op.Late))
			} else {
				sb.WriteString(" P")
			}
		}
		start := stored > 0 && stored <= 96 && r.Chance(60)
		fmt.Fprintf(&sb, " %d", b2i(start))
		out := c19Guard(func() string {
			ts, ds := dastard.VerifC19SimSeq(kind, ops)
			return c19HistOut(ts, ds, start)
		})
		o.Case("%s OUT %s", sb.String(), out)
	default: // ROACH
		nchans := make([]int, nsteps)
		for k := range nchans {
			nchans[k] = r.Pick(0, 1, 2, 8, 16, 100, r.Range(1, 300))
			fmt.Fprintf(&sb, " R %d", nchans[k])
		}
		last := nchans[nsteps-1]
		start := last > 0 && last <= 96 && r.Chance(30)
		fmt.Fprintf(&sb, " %d", b2i(start))
		out := c19Guard(func() string {
			ts, ds := dastard.VerifC19RoachSeq(nchans)
			return c19HistOut(ts, ds, start)
		})
		o.Case("%s OUT %s", sb.String(), out)
	}
}

func c19HistOut(ts []dastard.VerifC19Tables, ds *dastard.AnySource, start bool) string {
	var sb strings.Builder
	for k, t := range ts {
		if k > 0 {
			sb.WriteString(" ")
		}
		sb.WriteString(c19Tables(t))
	}
	last := ts[len(ts)-1]
	if start && !last.Rejected && len(last.Streams) > 0 {
		return sb.String() + " " + c19Start(ds)
	}
	return sb.String() + " F 0"
}

// c19AbacoSameTotals derives a different group layout with the same group count and channel total.
func c19AbacoSameTotals(r *Rng, prev [][][2]int) [][][2]int {
	seen := map[[2]int]bool{}
	var gs [][2]int
	for _, p := range prev {
		for _, g := range p {
			if !seen[g] {
				seen[g] = true
				gs = append(gs, g)
			}
		}
	}
	out := make([][2]int, len(gs))
	copy(out, gs)
	if r.Bool() || len(gs) < 2 {
		d := r.Pick(1, 2, 8, 64, 1000)
		for i := range out {
			if out[i][0]+d <= 4294967295 {
				out[i][0] += d
			}
		}
	} else {
		// same sizes in rotated order, laid out adjacently from the smallest first channel
		first := out[0][0]
		for _, g := range out {
			if g[0] < first {
				first = g[0]
			}
		}
		k := r.Range(1, len(out)-1)
		next := first
		for i := range out {
			n := gs[(i+k)%len(gs)][1]
			out[i] = [2]int{next, n}
			next += n
		}
	}
	for k := len(out) - 1; k > 0; k-- {
		j := r.Intn(k + 1)
		out[k], out[j] = out[j], out[k]
	}
	return [][][2]int{out}
}

var c19ConfCount int

// c19LanceroConfigure sends ONE LanceroSource Configure requests with arbitrary ActiveCards lists (sorted, unsorted,
// repeats at any distance, cards that do not exist, empty) and numbering parameters, each followed (mostly) by the
// table-building part of Start.
//
//	H n D nrows ndev (devnum ncols)* (Q firstRow sepCards sepCols nact card* | PL)* start
//	OUT K (KA|EA nact devnum*  |  tables)* files
func c19LanceroConfigure(r *Rng, o *Out) {
	nrows := r.Pick(1, 2, 3, 4, 8, 8, 16, 30, 32)
	ndev := r.Pick(1, 2, 2, 3, 3, 4, 5)
	var avail []dastard.VerifC19Dev
	num := 0
	for k := 0; k < ndev; k++ {
		if r.Chance(20) {
			num += r.Range(1, 3) // holes in the device numbers
		}
		avail = append(avail, dastard.VerifC19Dev{Devnum: num, Ncols: r.Pick(1, 2, 2, 4, 8, r.Range(0, 3)), Nrows: nrows})
		num++
	}
	ncolsOf := map[int]int{}
	for _, d := range avail {
		ncolsOf[d.Devnum] = d.Ncols
	}
	pick := func() int { return avail[r.Intn(len(avail))].Devnum }
	list := func() []int {
		// a base: all cards or a subset, in order or shuffled
		var l []int
		for _, d := range avail {
			if r.Chance(75) {
				l = append(l, d.Devnum)
			}
		}
		if len(l) == 0 {
			l = []int{pick()}
		}
		if r.Chance(40) {
			for k := len(l) - 1; k > 0; k-- {
				j := r.Intn(k + 1)
				l[k], l[j] = l[j], l[k]
			}
		}
		ins := func(pos, v int) {
			l = append(l, 0)
			copy(l[pos+1:], l[pos:])
			l[pos] = v
		}
		switch r.Intn(12) {
		case 0: // adjacent repeat
			p := r.Intn(len(l))
			ins(p+1, l[p])
		case 1: // repeat one apart (needs another card in between)
			if len(l) >= 2 {
				p := r.Intn(len(l) - 1)
				ins(p+2, l[p])
			} else {
				l = append(l, pick(), l[0])
			}
		case 2: // first card again at the end
			l = append(l, l[0])
		case 3: // last card again at the front
			ins(0, l[len(l)-1])
		case 4: // a card three times
			v := l[r.Intn(len(l))]
			ins(r.Intn(len(l)+1), v)
			ins(r.Intn(len(l)+1), v)
		case 5: // a card that does not exist, anywhere
			ins(r.Intn(len(l)+1), num+r.Range(0, 3))
		case 6:
			if r.Chance(30) {
				l = []int{}
			}
		}
		return l
	}
	var reqs []dastard.VerifC19LanceroReq
	var sb strings.Builder
	nq := r.Pick(1, 1, 2, 2, 3)
	for q := 0; q < nq; q++ {
		l := list()
		maxcols := 0
		for _, c := range l {
			maxcols = maxi(maxcols, ncolsOf[c])
		}
		firstRow := r.Pick(0, 1, 1, 1, 2, 10, -3)
		sepCols := r.Pick(0, 0, nrows, nrows+r.Range(1, 20), 100, maxi(0, nrows-1))
		cs := nrows
		if sepCols > 0 {
			cs = sepCols
		}
		sepCards := r.Pick(0, 0, cs*maxcols, cs*maxcols+r.Range(1, 100), 10000, maxi(0, cs*maxcols-1))
		reqs = append(reqs, dastard.VerifC19LanceroReq{ActiveCards: l, FirstRow: firstRow, SepCards: sepCards, SepCols: sepCols})
		fmt.Fprintf(&sb, " Q %d %d %d %s", firstRow, sepCards, sepCols, ints(l))
		for p := r.Pick(0, 1, 1, 1, 2); p > 0; p-- {
			reqs = append(reqs, dastard.VerifC19LanceroReq{Prepare: true})
			sb.WriteString(" PL")
		}
	}
	if !reqs[len(reqs)-1].Prepare {
		reqs = append(reqs, dastard.VerifC19LanceroReq{Prepare: true})
		sb.WriteString(" PL")
	}
	var hd strings.Builder
	fmt.Fprintf(&hd, "H %d D %d %d", len(reqs)+1, nrows, len(avail))
	for _, d := range avail {
		fmt.Fprintf(&hd, " %d %d", d.Devnum, d.Ncols)
	}
	start := r.Chance(40)
	base := os.Getenv("VERIF_WORKDIR")
	if base == "" {
		base = filepath.Join(os.TempDir(), fmt.Sprintf("c19_start_%d", os.Getpid()))
	}
	out := c19Guard(func() string {
		ts, ds, err := dastard.VerifC19LanceroConfigureSeq(nrows, avail, reqs, filepath.Join(base, "c19cringe"))
		if err != nil {
			return "HARNESS-ERROR"
		}
		last := ts[len(ts)-1]
		st := start && !last.Rejected && len(last.Streams) > 0 && len(last.Streams) <= 96
		return "K " + c19HistOut(ts, ds, st)
	})
	o.Case("%s%s %d OUT %s", hd.String(), sb.String(), b2i(start), out)
}
