package main

// C17 — a running acquisition is free of data races.
//
// Two kinds of case, both running the REAL pipeline (SourceControl.Start -> Start/CoreLoop, real producers /
// reader loops / block assembly / ProcessSegments / trigger broker / LJH+OFF writers / RunClientUpdater /
// raw-data-block archive) under a single-client control workload:
//
//   kind trace : the hooks verifAcc/verifSync (build tag verif) log every access to the NAMED shared state and
//                every synchronisation operation; the trace is canonicalised (threads -> roles, objects -> small
//                ids) and written as the case's output.  The Lean driver checks that it is a feasible
//                linearisation, that every thread is well typed against the ownership contracts of the skeleton
//                (conformance), and runs the vector-clock analysis `raceFree` on it.
//   kind race  : a SEARCH, not a proof: the same scenario is run in a child built with `go build -race` (hooks in
//                lock-free "quiet" mode with random yields at every hook site); every "WARNING: DATA RACE" report of
//                the Go race detector is minimised to its two access sites and becomes the case's output.
//                A report is deterministic evidence of a violation; the absence of reports is not evidence.

import (
	"bytes"
	"encoding/base64"
	"fmt"
	"io"
	"log"
	"os"
	"os/exec"
	"path/filepath"
	"regexp"
	"sort"
	"strings"
	"sync"
	"syscall"
	"time"

	"github.com/spf13/viper"
	"github.com/usnistgov/dastard"
	"github.com/usnistgov/dastard/packets"
	"gonum.org/v1/gonum/mat"
)

// the environment at start-up: c17Setup re-points HOME (config files of the run), the go tool needs the original one
var c17OrigEnv = os.Environ()

func init() {
	caseGens["C17"] = caseGen{count: c17Count, gen: c17Gen}
}

const c17NQ = 11 // cases per round: 5 traced + 6 race-detector runs

func c17Count(tier string) int {
	if tier == "thorough" {
		return 3 * c17NQ
	}
	return c17NQ
}

// ---------------------------------------------------------------------------------------------
// scenario

type c17Cfg struct {
	kind    string // trace | race
	src     string // tri | sim | abaco | lancero
	nchan   int    // channels (abaco: channels of the one group; lancero: columns*rows*2)
	runMs   int    // how long the client lets the source run between requests, in total
	yield   int    // percentage of hook calls that yield
	saveGap bool   // wait for the status thread's delayed save before Start (viper store candidate)
	narch   int    // number of raw-data-block requests
	long    bool   // tri only: blocks of 2.5 s, so that ONE block closes several 1-second trigger-rate periods
	stall   bool   // race only: the LJH file of one channel is a stalled named pipe, so that its write queue runs full
	restart bool   // race only: a large raw-data block is being written to its file when the source is stopped and started again
	groups  int    // abaco only: number of channel groups in the packet stream (nchan channels each)
	quiet   int    // ms of run time without control requests while files are written: the status thread's delayed
	               // save (2 s after the last change of a saved setting) fires while core-loop status messages keep coming
	seed    uint64
}

func (c c17Cfg) String() string {
	return fmt.Sprintf("kind %s src %s nchan %d runms %d yield %d savegap %d narch %d long %d quiet %d groups %d stall %d restart %d", c.kind, c.src, c.nchan,
		c.runMs, c.yield, b2i(c.saveGap), c.narch, b2i(c.long), c.quiet, c.groups, b2i(c.stall), b2i(c.restart))
}

var c17Once sync.Once
var c17Abort chan struct{}

func c17Workdir() string {
	wd := os.Getenv("VERIF_WORKDIR")
	if wd == "" {
		wd = filepath.Join(os.TempDir(), fmt.Sprintf("dvh_c17_%d", os.Getpid()))
	}
	os.MkdirAll(wd, 0755)
	return wd
}

func c17Repo() string {
	if r := os.Getenv("VERIF_REPO"); r != "" {
		return r
	}
	return "/repo"
}

// c17Setup starts what cmd/dastard starts around the RPC server: loggers, config store, the real status thread.
func c17Setup() {
	c17Once.Do(func() {
		wd := c17Workdir()
		os.Setenv("HOME", wd)
		os.Setenv("TMPDIR", wd)
		os.MkdirAll(filepath.Join(wd, ".dastard"), 0755)
		dastard.ProblemLogger = log.New(io.Discard, "", 0)
		dastard.UpdateLogger = log.New(io.Discard, "", 0)
		base := 21000 + (os.Getpid()%3500)*10 // no fixed ports (5500-5504 belong to /repo's own tests)
		dastard.Ports = dastard.Portnumbers{RPC: base, Status: base + 1, Trigs: base + 2, SecondaryTrigs: base + 3, Summaries: base + 4}
		cfgfile := filepath.Join(wd, fmt.Sprintf("c17_%d.yaml", os.Getpid()))
		os.WriteFile(cfgfile, []byte("c17: 1\n"), 0644)
		viper.SetConfigFile(cfgfile)
		viper.ReadInConfig()
		c17Abort = make(chan struct{})
		go dastard.RunClientUpdater(dastard.Ports.Status, c17Abort)
		time.Sleep(300 * time.Millisecond) // the updater sleeps 250 ms before it serves messages
	})
}

// scripted Lancero card: every read returns `frames` fresh well-formed frames (frame bit on row 0, external
// trigger bit now and then).  Only the reader goroutine (and Sample/StartRun before it exists) touch the card.
type c17Card struct {
	nc, nr, frames int
	n              int
}

func (c *c17Card) ChangeRingBuffer(int, int) error                { return nil }
func (c *c17Card) Close() error                                   { return nil }
func (c *c17Card) StartAdapter(int, int) error                    { return nil }
func (c *c17Card) StopAdapter() error                             { return nil }
func (c *c17Card) CollectorConfigure(int, int, uint32, int) error { return nil }
func (c *c17Card) StartCollector(bool) error                      { return nil }
func (c *c17Card) StopCollector() error                           { return nil }
func (c *c17Card) InspectAdapter() uint32                         { return 0 }
func (c *c17Card) ReleaseBytes(int) error                         { return nil }
func (c *c17Card) Wait() (time.Time, time.Duration, error) {
	time.Sleep(5 * time.Millisecond)
	return time.Now(), 5 * time.Millisecond, nil
}
func (c *c17Card) AvailableBuffer() ([]byte, time.Time, error) {
	out := make([]byte, 0, c.frames*c.nc*c.nr*4)
	for f := 0; f < c.frames; f++ {
		c.n++
		for row := 0; row < c.nr; row++ {
			for col := 0; col < c.nc; col++ {
				fb := uint16((c.n%64)*40) &^ 3
				if c.n%64 == 10 {
					fb += 4000 // a step: edge triggers fire
				}
				if row == 0 {
					fb |= 1
				}
				if c.n%97 == 5 {
					fb |= 2 // external trigger
				}
				e := uint16(c.n % 7)
				out = append(out, byte(e), byte(e>>8), byte(fb), byte(fb>>8))
			}
		}
	}
	return out, time.Now(), nil
}

// scripted Abaco stream: `groups` channel groups of `nchan` channels each (channel offsets 0, nchan, 2*nchan, ...; the same
// sequence numbers and time stamps in every group), `fpp` frames per packet, `ppt` packets per group and reader tick
type c17Abaco struct {
	nchan, fpp, ppt int
	groups          int
	sn              uint32
	k               uint64
	ext             []byte // one external-trigger packet of /repo/testData/timer_packets.bin
	tick            int
}

// packets returns the next packet of every group
func (a *c17Abaco) packets() []*packets.Packet {
	out := make([]*packets.Packet, 0, a.groups)
	for g := 0; g < a.groups; g++ {
		out = append(out, a.packet(g))
	}
	a.sn++
	a.k++
	return out
}

func (a *c17Abaco) packet(g int) *packets.Packet {
	pk := packets.NewPacket(10, 20, a.sn, g*a.nchan) // NewData increments the sequence number
	pk.SetTimestamp(&packets.PacketTimestamp{T: 1000 + a.k*uint64(a.fpp)*8, Rate: 1e6})
	d := make([]int16, a.nchan*a.fpp)
	for f := 0; f < a.fpp; f++ {
		v := int16((int(a.k)*a.fpp + f) % 50 * 20)
		if (int(a.k)*a.fpp+f)%400 == 7 {
			v += 3000
		}
		for c := 0; c < a.nchan; c++ {
			d[f*a.nchan+c] = v + int16(c) + int16(3*g)
		}
	}
	if err := pk.NewData(d, []int16{int16(a.nchan)}); err != nil {
		panic(err)
	}
	return pk
}

func (a *c17Abaco) next() []*packets.Packet {
	a.tick++
	out := make([]*packets.Packet, 0, a.ppt*a.groups+1)
	for i := 0; i < a.ppt; i++ {
		out = append(out, a.packets()...)
	}
	if a.ext != nil && a.tick%3 == 0 {
		if p, err := packets.ReadPacket(bytes.NewReader(a.ext)); err == nil && p.IsExternalTrigger() {
			out = append(out, p)
		}
	}
	return out
}

func c17ExtPacket() []byte {
	b, err := os.ReadFile(filepath.Join(c17Repo(), "testData", "timer_packets.bin"))
	if err != nil {
		return nil
	}
	rd := bytes.NewReader(b)
	before := rd.Len()
	p, err := packets.ReadPacket(rd)
	if err != nil || !p.IsExternalTrigger() {
		return nil
	}
	return b[:before-rd.Len()]
}

func c17B64(rows, cols int) string {
	m := mat.NewDense(rows, cols, nil)
	for i := 0; i < rows; i++ {
		m.Set(i, i%cols, 1)
	}
	b, _ := m.MarshalBinary()
	return base64.StdEncoding.EncodeToString(b)
}

// c17Run drives one acquisition as the single control client.  It returns a short summary "k=v ..." of what happened
// (requests answered ok / with error, archives written) — wall-clock dependent, so it is not compared, only used for tags.
func c17Run(cfg c17Cfg) string {
	c17Setup()
	wd := c17Workdir()
	const npre, nsamp = 8, 32
	sc := dastard.VerifC17NewControl(npre, nsamp)
	tri, sim, abaco, lanc := sc.VerifC17Sources()
	var ok bool
	nok, nerr := 0, 0
	note := func(err error) {
		if err == nil {
			nok++
		} else {
			nerr++
		}
	}
	name := ""
	nchan := cfg.nchan
	switch cfg.src {
	case "tri":
		tc := &dastard.TriangleSourceConfig{Nchan: nchan, SampleRate: 100000, Min: 100, Max: 1100}
		if cfg.long {
			tc = &dastard.TriangleSourceConfig{Nchan: nchan, SampleRate: 1000, Min: 100, Max: 1350} // 2500 samples = 2.5 s per block
		}
		note(sc.ConfigureTriangleSource(tc, &ok))
		name = "TRIANGLESOURCE"
		_ = tri
	case "sim":
		note(sc.ConfigureSimPulseSource(&dastard.SimPulseSourceConfig{Nchan: nchan, SampleRate: 100000, Pedestal: 1000,
			Amplitudes: []float64{4000, 6000}, Nsamp: 500}, &ok))
		name = "SIMPULSESOURCE"
		_ = sim
	case "abaco":
		if cfg.groups < 1 {
			cfg.groups = 1
		}
		a := &c17Abaco{nchan: nchan, groups: cfg.groups, fpp: 16, ppt: 40, ext: c17ExtPacket()}
		nchan = nchan * cfg.groups
		var sample []*packets.Packet
		for i := 0; i < 4; i++ {
			sample = append(sample, a.packets()...)
		}
		dastard.VerifC17Abaco(abaco, sample, a.next)
		name = "ABACOSOURCE"
	case "lancero":
		nr := nchan / 2
		if nr < 2 {
			nr = 2
		}
		nchan = nr * 2
		dastard.VerifReadPeriod = 10 * time.Millisecond
		dastard.VerifC17Lancero(lanc, &c17Card{nc: 1, nr: nr, frames: 64}, 1, nr, 100)
		name = "LANCEROSOURCE"
	}
	if cfg.saveGap {
		// the configuration message above changed the stored state: the status thread saves it 2 s later
		time.Sleep(2300 * time.Millisecond)
	}
	if err := sc.Start(&name, &ok); err != nil {
		return "start=failed:" + strings.ReplaceAll(err.Error(), " ", "_")
	}
	step := time.Duration(cfg.runMs) * time.Millisecond / 12
	pause := func() { time.Sleep(step) }
	pause()
	all := make([]int, nchan)
	for i := range all {
		all[i] = i
	}
	// triggers firing
	ts := &dastard.FullTriggerState{ChannelIndices: all}
	ts.AutoTrigger = true
	ts.AutoDelay = 2 * time.Millisecond
	ts.EdgeTrigger = true
	ts.EdgeRising = true
	ts.EdgeLevel = 500
	note(sc.ConfigureTriggers(ts, &ok))
	pause()
	if nchan >= 2 {
		note(sc.AddGroupTriggerCoupling(dastard.GroupTriggerState{Connections: map[int][]int{0: {1}}}, &ok))
	}
	if cfg.src == "lancero" {
		yes := true
		note(sc.CoupleErrToFB(&yes, &ok))
		note(sc.ConfigureMixFraction(&dastard.MixFractionObject{ChannelIndices: []int{1}, MixFractions: []float64{0.5}}, &ok))
	}
	note(sc.ConfigureProjectorsBasis(&dastard.ProjectorsBasisObject{ChannelIndex: 0, ProjectorsBase64: c17B64(3, nsamp),
		BasisBase64: c17B64(nsamp, 3), ModelDescription: "c17"}, &ok))
	pause()
	// files being written
	note(sc.WriteControl(&dastard.WriteControlConfig{Request: "START", Path: filepath.Join(wd, "data"), WriteLJH22: true,
		WriteOFF: true, WriteLJH3: true}, &ok))
	pause()
	note(sc.SetExperimentStateLabel(&dastard.StateLabelConfig{Label: "A", WaitForError: true}, &ok))
	comment := "c17 comment"
	note(sc.WriteComment(&comment, &ok))
	var zero int
	var text string
	note(sc.ReadComment(&zero, &text)) // computes the writing state on the client's thread while blocks are processed
	// a request that keeps the core loop busy for several read periods while data keeps arriving (block hand-over has to wait)
	for i := 0; i < 2; i++ {
		note(sc.VerifRunLater(func() {
			time.Sleep(130 * time.Millisecond)
			sc.VerifReply(nil)
		}))
		pause()
	}
	// fire-and-forget labels (WaitForError false: the RPC returns at once and the core loop applies the label later),
	// each followed at once by a burst of requests that compute the writing state on the client's own goroutine
	nlab := 1
	if cfg.kind == "race" {
		nlab = 3
	}
	for i := 0; i < nlab; i++ {
		note(sc.SetExperimentStateLabel(&dastard.StateLabelConfig{Label: fmt.Sprintf("P%d", i)}, &ok))
		for j := 0; j < 8; j++ {
			note(sc.ReadComment(&zero, &text))
		}
		time.Sleep(40 * time.Millisecond)
	}
	if cfg.quiet > 0 {
		// no request for a while: the status thread saves the configuration 2 s after the last change of a saved setting,
		// while the core loop keeps sending TRIGGERRATE / NUMBERWRITTEN messages and the heartbeat goroutine ALIVE
		time.Sleep(time.Duration(cfg.quiet) * time.Millisecond)
		note(sc.ReadComment(&zero, &text))
	}
	// raw-data blocks archived
	var archives []string
	for i := 0; i < cfg.narch; i++ {
		var fn string
		err := sc.StoreRawDataBlock(300+200*i, &fn)
		note(err)
		if err == nil {
			archives = append(archives, fn)
		}
		pause()
		pause()
	}
	var dummy string
	note(sc.SendAllStatus(&dummy, &ok))
	note(sc.WriteControl(&dastard.WriteControlConfig{Request: "PAUSE"}, &ok))
	pause()
	note(sc.WriteControl(&dastard.WriteControlConfig{Request: "UNPAUSE B"}, &ok))
	pause()
	note(sc.ReadComment(&zero, &text))
	note(sc.WriteControl(&dastard.WriteControlConfig{Request: "STOP"}, &ok))
	pause()
	note(sc.ConfigurePulseLengths(dastard.SizeObject{Nsamp: 48, Npre: 12}, &ok))
	pause()
	no := false
	note(sc.StopTriggerCoupling(&no, &ok))
	pause()
	note(sc.Stop(&dummy, &ok))
	narchOK := 0
	deadline := time.Now().Add(2 * time.Second)
	for _, fn := range archives {
		for time.Now().Before(deadline) {
			if _, err := os.Stat(fn); err == nil {
				narchOK++
				break
			}
			time.Sleep(10 * time.Millisecond)
		}
	}
	time.Sleep(50 * time.Millisecond)
	return fmt.Sprintf("start=ok ok=%d err=%d arch=%d/%d", nok, nerr, narchOK, len(archives))
}

// c17RunRestart: a raw-data block big enough that writing its npz file takes a fraction of a second is requested; as soon
// as the file has begun to be written the client stops the source and starts the SAME source again (Sample and
// PrepareChannels rebuild the per-channel tables) while the archive writer goroutine of the first run is still at work —
// nothing in Stop waits for it.  After a few blocks of the second run the file is awaited and the source stopped.
func c17RunRestart(cfg c17Cfg) string {
	c17Setup()
	sc := dastard.VerifC17NewControl(8, 32)
	var ok bool
	// 10000-sample blocks every 10 ms
	if err := sc.ConfigureTriangleSource(&dastard.TriangleSourceConfig{Nchan: cfg.nchan, SampleRate: 1e6, Min: 0, Max: 5000}, &ok); err != nil {
		return "start=failed:configure"
	}
	name := "TRIANGLESOURCE"
	if err := sc.Start(&name, &ok); err != nil {
		return "start=failed:" + strings.ReplaceAll(err.Error(), " ", "_")
	}
	var final string
	if err := sc.StoreRawDataBlock(30000, &final); err != nil {
		return "start=failed:archive-request"
	}
	inprogress := strings.Replace(final, ".npz", "_inprogress.npz", 1)
	began := false
	for deadline := time.Now().Add(20 * time.Second); time.Now().Before(deadline); time.Sleep(time.Millisecond) {
		if info, err := os.Stat(inprogress); err == nil && info.Size() > 0 {
			began = true
			break
		}
		if _, err := os.Stat(final); err == nil {
			break
		}
	}
	var dummy string
	errStop := sc.Stop(&dummy, &ok)
	errStart := sc.Start(&name, &ok) // the same source object
	_, errDone := os.Stat(final)
	overlap := began && errDone != nil // the writer of the first run was still at work when the second run started
	time.Sleep(time.Duration(cfg.runMs) * time.Millisecond)
	written := false
	for deadline := time.Now().Add(30 * time.Second); time.Now().Before(deadline); time.Sleep(5 * time.Millisecond) {
		if _, err := os.Stat(final); err == nil {
			written = true
			break
		}
	}
	errStop2 := sc.Stop(&dummy, &ok)
	return fmt.Sprintf("start=ok stop=%d restart=%d stop2=%d overlap=%d written=%d", b2i(errStop == nil), b2i(errStart == nil),
		b2i(errStop2 == nil), b2i(overlap), b2i(written))
}

// c17RunStall: writing is active and the LJH file of the first channel is a named pipe nobody drains: the file-writer
// goroutine of that channel blocks in the kernel, its queue (1000 chunks) runs full, and the per-channel processing
// goroutine keeps calling Write on the full queue.  Then the pipe is drained, writing is stopped, the source stopped.
// Memory of the writers is not named in the skeleton: this scenario exists for the race-detector half only.
func c17RunStall(cfg c17Cfg) string {
	c17Setup()
	wd := c17Workdir()
	sc := dastard.VerifC17NewControl(8, 32)
	var ok bool
	// blocks of 80000 samples (0.8 s): with back-to-back auto triggers ONE block yields 2500 records per channel
	if err := sc.ConfigureTriangleSource(&dastard.TriangleSourceConfig{Nchan: cfg.nchan, SampleRate: 100000, Min: 0, Max: 40000}, &ok); err != nil {
		return "start=failed:configure"
	}
	name := "TRIANGLESOURCE"
	if err := sc.Start(&name, &ok); err != nil {
		return "start=failed:" + strings.ReplaceAll(err.Error(), " ", "_")
	}
	dir := filepath.Join(wd, fmt.Sprintf("stall_%d", os.Getpid()))
	nok, nerr := 0, 0
	note := func(err error) {
		if err == nil {
			nok++
		} else {
			nerr++
		}
	}
	// files are created with the first record: start writing before any trigger is on, then put the pipe in place
	note(sc.WriteControl(&dastard.WriteControlConfig{Request: "START", Path: dir, WriteLJH22: true}, &ok))
	runs, _ := filepath.Glob(filepath.Join(dir, "*", "0000"))
	if len(runs) != 1 {
		return "start=failed:no-run-directory"
	}
	today := filepath.Base(filepath.Dir(runs[0]))
	fifo := filepath.Join(runs[0], today+"_run0000_chan1.ljh")
	if err := syscall.Mkfifo(fifo, 0o600); err != nil {
		return "start=failed:mkfifo"
	}
	rfd, err := syscall.Open(fifo, syscall.O_RDONLY|syscall.O_NONBLOCK, 0)
	if err != nil {
		return "start=failed:open-fifo"
	}
	const fSetPipeSz = 1031
	syscall.Syscall(syscall.SYS_FCNTL, uintptr(rfd), fSetPipeSz, 4096)
	all := make([]int, cfg.nchan)
	for i := range all {
		all[i] = i
	}
	ts := &dastard.FullTriggerState{ChannelIndices: all}
	ts.AutoTrigger = true
	ts.AutoDelay = 0 // back-to-back records
	note(sc.ConfigureTriggers(ts, &ok))
	time.Sleep(time.Duration(cfg.runMs) * time.Millisecond) // >= 2 blocks: ~850 records absorbed, 1000 queued, the rest meet a full queue
	// "the disk takes it again"
	stop := make(chan struct{})
	drained := make(chan int)
	go func() {
		buf := make([]byte, 65536)
		total := 0
		for {
			n, _ := syscall.Read(rfd, buf)
			if n > 0 {
				total += n
				continue
			}
			select {
			case <-stop:
				drained <- total
				return
			case <-time.After(time.Millisecond):
			}
		}
	}()
	time.Sleep(300 * time.Millisecond)
	note(sc.WriteControl(&dastard.WriteControlConfig{Request: "STOP"}, &ok))
	var dummy string
	note(sc.Stop(&dummy, &ok))
	close(stop)
	total := <-drained
	syscall.Close(rfd)
	return fmt.Sprintf("start=ok ok=%d err=%d stalledbytes=%d", nok, nerr, total)
}

// ---------------------------------------------------------------------------------------------
// race search: build once per check run, run the scenario in the -race binary, parse the reports

// c17RaceBinary builds the harness with -race (verif_point_on.go overlaid by a copy whose verifPoint takes no lock
// in quiet mode) into the run's work directory under /verif/build; concurrent callers wait on a file lock.
func c17RaceBinary() (string, error) {
	wd := c17Workdir()
	root := filepath.Dir(wd) // all harness processes of one check run share the parent directory
	if os.Getenv("VERIF_WORKDIR") == "" {
		root = wd
	}
	bin := filepath.Join(root, "dvh_race")
	lock, err := os.OpenFile(filepath.Join(root, "dvh_race.lock"), os.O_CREATE|os.O_RDWR, 0644)
	if err != nil {
		return "", err
	}
	defer lock.Close()
	syscall.Flock(int(lock.Fd()), syscall.LOCK_EX)
	defer syscall.Flock(int(lock.Fd()), syscall.LOCK_UN)
	if _, err := os.Stat(bin); err == nil {
		return bin, nil
	}
	self, _ := os.Executable()
	srcdir := os.Getenv("VERIF_HARNESS_SRC")
	if srcdir == "" {
		srcdir = filepath.Join(filepath.Dir(filepath.Dir(self)), "harness")
	}
	if _, err := os.Stat(filepath.Join(srcdir, "c17.go")); err != nil {
		srcdir = "/verif/harness"
	}
	repo := c17Repo()
	// private copy of the harness sources (go.mod `replace` must point at the tree under test)
	tmp := filepath.Join(root, "race_src")
	os.RemoveAll(tmp)
	os.MkdirAll(tmp, 0755)
	ents, _ := os.ReadDir(srcdir)
	for _, e := range ents {
		if e.IsDir() || !(strings.HasSuffix(e.Name(), ".go") || e.Name() == "go.mod") {
			continue
		}
		b, err := os.ReadFile(filepath.Join(srcdir, e.Name()))
		if err != nil {
			return "", err
		}
		if e.Name() == "go.mod" {
			b = []byte(strings.Replace(string(b), "=> /repo", "=> "+repo, 1))
		}
		os.WriteFile(filepath.Join(tmp, e.Name()), b, 0644)
	}
	if b, err := os.ReadFile(filepath.Join(repo, "go.sum")); err == nil {
		os.WriteFile(filepath.Join(tmp, "go.sum"), b, 0644)
	}
	// overlay: verifPoint must not take its lock in a -race binary (the lock would order every two goroutines that
	// pass a point and hide races from the detector)
	args := []string{"build", "-race", "-tags", "verif"}
	vp := filepath.Join(repo, "verif_point_on.go")
	if b, err := os.ReadFile(vp); err == nil {
		const pat = "func verifPoint(site string) {\n"
		if strings.Count(string(b), pat) != 1 {
			return "", fmt.Errorf("overlay: verifPoint not found in %s", vp)
		}
		nb := strings.Replace(string(b), pat, pat+"\tif VerifC17Point() {\n\t\treturn\n\t}\n", 1)
		ov := filepath.Join(tmp, "verif_point_on_quiet.go.txt")
		os.WriteFile(ov, []byte(nb), 0644)
		oj := filepath.Join(tmp, "overlay.json")
		os.WriteFile(oj, []byte(fmt.Sprintf(`{"Replace": {%q: %q}}`, vp, ov)), 0644)
		args = append(args, "-overlay", oj)
	}
	args = append(args, "-o", bin, ".")
	cmd := exec.Command("go", args...)
	cmd.Dir = tmp
	cmd.Env = append(append([]string{}, c17OrigEnv...), "GOFLAGS=-mod=mod", "GOPROXY=off", "GOSUMDB=off", "GOTOOLCHAIN=local", "CGO_ENABLED=1")
	if out, err := cmd.CombinedOutput(); err != nil {
		return "", fmt.Errorf("go build -race failed: %v: %s", err, strings.ReplaceAll(string(out), "\n", " | "))
	}
	return bin, nil
}

type c17Report struct {
	sites [2]string // "file.go:line" of the two accesses (innermost dastard frame), sorted
	funcs [2]string
	kinds [2]string // read | write
}

var c17FrameRe = regexp.MustCompile(`^\s+(\S+)\(.*\)$`)
var c17FileRe = regexp.MustCompile(`^\s+(\S+\.go):(\d+)`)

// c17ParseReports minimises every detector report to the innermost frames inside the dastard module of its two accesses.
func c17ParseReports(text, repo string) []c17Report {
	var out []c17Report
	blocks := strings.Split(text, "WARNING: DATA RACE")
	for _, blk := range blocks[1:] {
		if i := strings.Index(blk, "=================="); i >= 0 {
			blk = blk[:i]
		}
		lines := strings.Split(blk, "\n")
		var rep c17Report
		n := 0
		for i := 0; i < len(lines) && n < 2; i++ {
			ln := lines[i]
			kind := ""
			switch {
			case strings.HasPrefix(ln, "Write at"), strings.HasPrefix(ln, "Previous write at"):
				kind = "write"
			case strings.HasPrefix(ln, "Read at"), strings.HasPrefix(ln, "Previous read at"):
				kind = "read"
			}
			if kind == "" {
				continue
			}
			// stack: pairs of lines (function, file:line) until an empty line
			site, fn := "", ""
			first := ""
			for j := i + 1; j+1 < len(lines) && strings.TrimSpace(lines[j]) != ""; j += 2 {
				fm := c17FrameRe.FindStringSubmatch(lines[j])
				lm := c17FileRe.FindStringSubmatch(lines[j+1])
				if fm == nil || lm == nil {
					break
				}
				file := lm[1]
				if first == "" {
					first = filepath.Base(file) + ":" + lm[2]
				}
				if strings.HasPrefix(file, repo+"/") && !strings.Contains(file, "/verif_") {
					site = strings.TrimPrefix(file, repo+"/") + ":" + lm[2]
					fn = fm[1]
					if k := strings.LastIndex(fn, "/"); k >= 0 {
						fn = fn[k+1:]
					}
					break
				}
			}
			if site == "" {
				site, fn = "outside:"+first, "-"
			}
			rep.sites[n], rep.funcs[n], rep.kinds[n] = site, fn, kind
			n++
		}
		if n == 2 {
			if rep.sites[1] < rep.sites[0] {
				rep.sites[0], rep.sites[1] = rep.sites[1], rep.sites[0]
				rep.funcs[0], rep.funcs[1] = rep.funcs[1], rep.funcs[0]
				rep.kinds[0], rep.kinds[1] = rep.kinds[1], rep.kinds[0]
			}
			out = append(out, rep)
		}
	}
	return out
}

func c17RaceCase(cfg c17Cfg, idx int) string {
	bin, err := c17RaceBinary()
	if err != nil {
		return "BUILDFAIL " + strings.ReplaceAll(err.Error(), " ", "_")
	}
	wd := filepath.Join(c17Workdir(), fmt.Sprintf("race_%d", idx))
	os.MkdirAll(wd, 0755)
	cmd := exec.Command(bin, "-child", "-seed", fmt.Sprint(cfg.seed), "-tier", "quick", "-from", fmt.Sprint(idx), "-to", fmt.Sprint(idx+1), "C17")
	cmd.Env = append(os.Environ(), "C17_INNER="+cfg.String(), "VERIF_WORKDIR="+wd, "GORACE=halt_on_error=0 history_size=3")
	var so, se bytes.Buffer
	cmd.Stdout, cmd.Stderr = &so, &se
	done := make(chan error, 1)
	cmd.Start()
	go func() { done <- cmd.Wait() }()
	select {
	case <-done:
	case <-time.After(caseTimeout - 3*time.Second):
		cmd.Process.Kill()
		<-done
		return "RACE-RUN-HANG"
	}
	text := se.String()
	reps := c17ParseReports(text, c17Repo())
	summary := "none"
	if k := strings.Index(so.String(), " OUT "); k >= 0 {
		summary = strings.TrimSpace(so.String()[k+5:])
	} else if strings.Contains(text, "panic:") || strings.Contains(text, "fatal error:") {
		if len(reps) == 0 {
			return "PANIC " + panicClass(text)
		}
		summary = "panicked:" + panicClass(text) // the detector's reports were printed before the crash: they are the verdict
	}
	// distinct site pairs, sorted
	seen := map[string]bool{}
	var keys []string
	for _, r := range reps {
		k := fmt.Sprintf("%s %s %s %s %s %s", r.sites[0], r.kinds[0], r.funcs[0], r.sites[1], r.kinds[1], r.funcs[1])
		if !seen[k] {
			seen[k] = true
			keys = append(keys, k)
		}
	}
	sort.Strings(keys)
	if os.Getenv("C17_KEEP_REPORTS") != "" {
		os.WriteFile(filepath.Join(c17Workdir(), fmt.Sprintf("race_report_%d.txt", idx)), []byte(text), 0644)
	}
	var sb strings.Builder
	fmt.Fprintf(&sb, "RACE %d", len(keys))
	for _, k := range keys {
		sb.WriteString(" " + k)
	}
	fmt.Fprintf(&sb, " RUN %s", strings.ReplaceAll(summary, " ", ","))
	return sb.String()
}

// ---------------------------------------------------------------------------------------------
// generator

func c17Gen(r *Rng, tier string, idx int) (string, func() string) {
	caseTimeout = 180 * time.Second // a case may include the one -race build of the run; race runs are slow
	if inner := os.Getenv("C17_INNER"); inner != "" {
		// we are the -race child: run exactly the scenario the parent drew, in this process, hooks quiet
		var cfg c17Cfg
		var sg int
		var lg, st, rs int
		fmt.Sscanf(inner, "kind %s src %s nchan %d runms %d yield %d savegap %d narch %d long %d quiet %d groups %d stall %d restart %d", &cfg.kind, &cfg.src,
			&cfg.nchan, &cfg.runMs, &cfg.yield, &sg, &cfg.narch, &lg, &cfg.quiet, &cfg.groups, &st, &rs)
		cfg.restart = rs != 0
		cfg.saveGap = sg != 0
		cfg.long = lg != 0
		cfg.stall = st != 0
		return inner, func() string {
			dastard.VerifC17Quiet(true)
			dastard.VerifC17Yield(cfg.yield)
			if cfg.stall {
				return c17RunStall(cfg)
			}
			if cfg.restart {
				return c17RunRestart(cfg)
			}
			return c17Run(cfg)
		}
	}
	cfg := c17Cfg{seed: r.s}
	srcs := []string{"abaco", "tri", "lancero", "sim"}
	k := idx % c17NQ
	round := idx / c17NQ
	cfg.nchan = r.Pick(2, 3, 4)
	cfg.yield = r.Pick(0, 5, 15, 30)
	cfg.narch = 2
	switch {
	case k < 4: // traced runs of the four sources; one of them with the quiet phase (the delayed save fires during the run)
		cfg.kind = "trace"
		cfg.src = srcs[k]
		cfg.runMs = r.Pick(500, 800)
		if k == (1+round)%4 {
			cfg.quiet = 2600
		}
	case k == 4: // traced run with blocks longer than the trigger-rate reporting period
		cfg.kind, cfg.src, cfg.long, cfg.runMs, cfg.narch = "trace", "tri", true, 6000, 1
	case k < 8: // race-detector runs: three of the four sources per round, quiet phase, one with a save before Start
		cfg.kind = "race"
		cfg.src = srcs[(k-5+round)%4]
		cfg.runMs = r.Pick(1500, 2500)
		cfg.quiet = 2600
		cfg.saveGap = k == 5
		if tier == "thorough" {
			cfg.runMs = r.Pick(3000, 5000)
		}
	case k == 8: // race-detector run with long blocks
		cfg.kind, cfg.src, cfg.long, cfg.runMs, cfg.narch = "race", "tri", true, 6000, 1
	case k == 10: // race-detector run: Stop and Start again while a large raw-data block is still being written to its file
		cfg.kind, cfg.src, cfg.restart, cfg.runMs, cfg.narch, cfg.nchan = "race", "tri", true, 300, 1, 8
	default: // race-detector run with a stalled output file: one channel's write queue runs full while records keep coming
		cfg.kind, cfg.src, cfg.stall, cfg.runMs, cfg.narch, cfg.nchan = "race", "tri", true, 2400, 0, 2
	}
	if cfg.src == "lancero" {
		cfg.nchan = r.Pick(4, 6)
	}
	if cfg.src == "abaco" { // 1..3 channel groups; the race-detector runs always have at least two
		cfg.groups = r.Pick(1, 2, 3)
		if cfg.kind == "race" && cfg.groups == 1 {
			cfg.groups = 2
		}
		cfg.nchan = r.Pick(1, 2)
	}
	in := cfg.String()
	if cfg.kind == "race" {
		return in, func() string { return c17RaceCase(cfg, idx) }
	}
	return in, func() string { return c17TraceCase(cfg) }
}

// ---------------------------------------------------------------------------------------------
// traced run

func c17TraceCase(cfg c17Cfg) string {
	c17Setup()
	dastard.VerifPointsOn()
	dastard.VerifC17Log(true)
	dastard.VerifC17Yield(cfg.yield)
	sum := c17Run(cfg)
	dastard.VerifC17Log(false)
	tr := dastard.VerifTrace(0)
	dastard.VerifPointsOff()
	return c17Canon(tr, sum, cfg)
}
