package main

// C15 — packet decoding is total and inverse to encoding.
//
// Three case kinds, each run in a child process (a crash or hang of the real code becomes the
// observed output `OUT PANIC <class>` / `OUT HANG`):
//   D <hex> R <idx…> PS <seq> PN <nchan>       real ReadPacket on the bytes, then every accessor under recover
//   E N <v> <src> <seq> <off> ops <k> <op…> R … PS … PN …
//                                             real NewPacket / SetTimestamp / ResetTimestamp / ClearData / NewData,
//                                             then Bytes(), then ReadPacket on those bytes + every accessor
// The first c15NHot case numbers are fixed regression inputs (the defect reproducers and edge cases).

import (
	"bytes"
	"encoding/binary"
	"fmt"
	"io"
	"math"
	"strings"

	"github.com/usnistgov/dastard/packets"
)

func init() {
	caseGens["C15"] = caseGen{count: pipeCount(20000, 50000), gen: c15Gen}
}

const c15Magic = 0x810b00ff

// ---------------------------------------------------------------------------------------------
// observation of a packet through its public accessors

func c15Class(e interface{}) string {
	s := fmt.Sprint(e)
	switch {
	case strings.Contains(s, "nil pointer"):
		return "nil-deref"
	case strings.Contains(s, "divide by zero"):
		return "div-zero"
	case strings.Contains(s, "index out of range"):
		return "index-range"
	case strings.Contains(s, "slice bounds out of range"):
		return "slice-bounds"
	}
	if _, ok := e.(error); ok {
		return "runtime"
	}
	return "explicit"
}

func c15Safe(f func() string) (out string) {
	defer func() {
		if e := recover(); e != nil {
			out = "P:" + c15Class(e)
		}
	}()
	return f()
}

func c15Data(d interface{}, full bool) string {
	var sb strings.Builder
	switch v := d.(type) {
	case nil:
		return "0 0"
	case []int16:
		fmt.Fprintf(&sb, "16 %d", len(v))
		if full {
			for _, x := range v {
				fmt.Fprintf(&sb, " %d", x)
			}
		}
	case []int32:
		fmt.Fprintf(&sb, "32 %d", len(v))
		if full {
			for _, x := range v {
				fmt.Fprintf(&sb, " %d", x)
			}
		}
	case []int64:
		fmt.Fprintf(&sb, "64 %d", len(v))
		if full {
			for _, x := range v {
				fmt.Fprintf(&sb, " %d", x)
			}
		}
	case []byte:
		fmt.Fprintf(&sb, "8 %d", len(v))
		if full {
			for _, x := range v {
				fmt.Fprintf(&sb, " %d", x)
			}
		}
	default:
		return "99 0"
	}
	return sb.String()
}

func c15Frames(p *packets.Packet) string {
	return c15Safe(func() string { return fmt.Sprint(p.Frames()) })
}

func c15ChanInfo(p *packets.Packet) string {
	return c15Safe(func() string {
		n, o := p.ChannelInfo()
		return fmt.Sprintf("%d %d", n, o)
	})
}

func c15Pretend(p *packets.Packet, seq uint32, nchan int) string {
	return c15Safe(func() string {
		q := p.MakePretendPacket(seq, nchan)
		return fmt.Sprintf("seq %d len %d fr %s data %s", q.SequenceNumber(), q.Length(), c15Frames(q), c15Data(q.Data, true))
	})
}

// c15Observe calls every accessor of a packet (each under recover) and renders the results.
func c15Observe(p *packets.Packet, reads []int, pseq uint32, pn int) string {
	var sb strings.Builder
	ver, src := p.VerifHeader()
	fmt.Fprintf(&sb, "v %d src %d seq %d len %d", ver, src, p.SequenceNumber(), p.Length())
	if sz, ok := p.VerifShape(); ok {
		fmt.Fprintf(&sb, " sh %s", ints(sz))
	} else {
		sb.WriteString(" sh -1")
	}
	if ts := p.Timestamp(); ts != nil {
		fmt.Fprintf(&sb, " ts %d", ts.T)
	} else {
		sb.WriteString(" ts -1")
	}
	fmt.Fprintf(&sb, " ext %d", b2i(p.IsExternalTrigger()))
	ci := c15ChanInfo(p)
	fmt.Fprintf(&sb, " ci %s fr %s data %s", ci, c15Frames(p), c15Data(p.Data, true))
	fmt.Fprintf(&sb, " rd %d", len(reads))
	for _, i := range reads {
		sb.WriteString(" " + c15Safe(func() string { return fmt.Sprint(p.ReadValue(i)) }))
	}
	fmt.Fprintf(&sb, " pp %s", c15Pretend(p, pseq, pn))
	if strings.HasPrefix(ci, "P:") {
		sb.WriteString(" pa -")
	} else {
		n, _ := p.ChannelInfo()
		fmt.Fprintf(&sb, " pa %s", c15Pretend(p, pseq+1, n))
	}
	// ClearData last: it mutates the packet
	cl := c15Safe(func() string {
		p.ClearData()
		return fmt.Sprintf("len %d fr %s ci %s data %s", p.Length(), c15Frames(p), c15ChanInfo(p), c15Data(p.Data, false))
	})
	fmt.Fprintf(&sb, " cl %s", cl)
	return sb.String()
}

// c15Decode runs the real ReadPacket on buf and observes the result.
func c15Decode(buf []byte, reads []int, pseq uint32, pn int) string {
	r := bytes.NewReader(buf)
	p, err := packets.ReadPacket(r)
	consumed := len(buf) - r.Len()
	if err != nil {
		kind := "bad"
		if err == io.EOF {
			kind = "eof"
		} else if err == io.ErrUnexpectedEOF {
			kind = "short"
		}
		return fmt.Sprintf("Q %s %d", kind, consumed)
	}
	if p == nil {
		return fmt.Sprintf("Q nilpacket %d", consumed)
	}
	return fmt.Sprintf("K %d %s", consumed, c15Observe(p, reads, pseq, pn))
}

// ---------------------------------------------------------------------------------------------
// datagram builder

func c15TLV(t byte, body []byte) []byte {
	n := 2 + len(body)
	units := (n + 7) / 8
	out := make([]byte, units*8)
	out[0] = t
	out[1] = byte(units)
	copy(out[2:], body)
	return out
}

func c15be16(v int) []byte { return []byte{byte(v >> 8), byte(v)} }
func c15be32(v uint32) []byte {
	b := make([]byte, 4)
	binary.BigEndian.PutUint32(b, v)
	return b
}
func c15be64(v uint64) []byte {
	b := make([]byte, 8)
	binary.BigEndian.PutUint64(b, v)
	return b
}

func c15Header(ver byte, hl byte, pl uint16, magic uint32, src, seq uint32) []byte {
	b := []byte{ver, hl}
	b = append(b, c15be16(int(pl))...)
	b = append(b, c15be32(magic)...)
	b = append(b, c15be32(src)...)
	b = append(b, c15be32(seq)...)
	return b
}

func c15ShapeTLV(dims []int) []byte {
	body := []byte{}
	for _, d := range dims {
		body = append(body, c15be16(d&0xffff)...)
	}
	return c15TLV(0x22, body)
}

func c15Packet(ver byte, src, seq uint32, tlvs [][]byte, payload []byte) []byte {
	area := []byte{}
	for _, t := range tlvs {
		area = append(area, t...)
	}
	b := c15Header(ver, byte(16+len(area)), uint16(len(payload)), c15Magic, src, seq)
	b = append(b, area...)
	return append(b, payload...)
}

func c15Rand(r *Rng, n int) []byte {
	b := make([]byte, n)
	for i := range b {
		switch r.Intn(8) {
		case 0:
			b[i] = 0
		case 1:
			b[i] = 0xff
		case 2:
			b[i] = 0x80
		default:
			b[i] = byte(r.U64())
		}
	}
	return b
}

var c15Formats = []string{
	"<h", "<h", "<h", ">h", "!h", "h", "<i", "<i", ">i", "<l", "!l", "<q", ">q", "!q", "q", " <h", "<h ",
	"<hh", "<hi", ">qq", "<hhhh", "<hq", ">ih",
	"<H", "<I", "<Q", "<b", "<B", "<x", "<L", ">H", "B",
	"<", ">", "", "  ", "!",
	"<a", "<h\x80", "\xc3\xa9", "<hZ", "<h\xff", "<1h",
	"<hhhhhhhh", "<qqqqqqqqqq", "<h      i",
}

func c15Dims(r *Rng) []int {
	rep := func(v, n int) []int {
		o := make([]int, n)
		for i := range o {
			o[i] = v
		}
		return o
	}
	switch c := r.Intn(100); {
	case c < 45:
		return []int{r.Pick(1, 1, 2, 3, 4, 5, 8, 16, 64)}
	case c < 60:
		return []int{r.Range(1, 6), r.Range(1, 4)}
	case c < 68:
		return []int{r.Range(1, 4), 0, r.Range(1, 4)}
	case c < 72:
		return []int{-r.Range(1, 5), r.Range(1, 4)}
	case c < 75:
		return []int{0, 0, 0}
	case c < 77:
		return []int{-1, -32768}
	case c < 80:
		return rep(16384, r.Range(1, 6)) // 5 of them: the channel product wraps to 0
	case c < 83:
		return rep(32767, r.Range(1, 5))
	case c < 86:
		return r.pickDims([][]int{{256, 256}, {255, 257}, {256, 255}, {256, 256, 1}, {65, 1009}, {32767, 2}, {32767, 3}, {16384, 4}, {16384, 3, 1}})
	case c < 90:
		return rep(2, r.Pick(15, 16, 17, 31, 32, 60, 61, 62, 63, 64, 65)) // 2^63 is negative, 2^64 is 0
	case c < 93:
		return rep(4, r.Pick(7, 8, 9, 31, 32))
	case c < 96:
		n := r.Range(4, 12)
		o := make([]int, n)
		for i := range o {
			o[i] = r.Pick(1, 1, 2, 0, 3)
		}
		return o
	default:
		n := r.Range(1, 5)
		o := make([]int, n)
		for i := range o {
			o[i] = int(int16(r.U64()))
		}
		return o
	}
}

func (r *Rng) pickDims(xs [][]int) []int { return xs[r.Intn(len(xs))] }

func c15Prod(dims []int) int {
	n := 1
	for _, d := range dims {
		if d > 0 && n < 1<<20 {
			n *= d
		}
	}
	return n
}

// c15Structured builds a mostly valid datagram with TLV-level mutations; it returns the bytes and the
// generator's idea of (frames, nchan) used to aim the sample reads.
//
// wantTS is the generator's own knowledge of the timestamp counter it wrote ("-1" none, "?" not known because a
// mutation may have touched the TLVs): the oracle holds the decoded Timestamp() against it, not against the model.
func c15Structured(r *Rng, tier string) (buf []byte, frames int, nch int, wantTS string) {
	wantTS = "-1"
	tsKnown := true
	ver := byte(r.U64())
	src, seq := uint32(r.U64()), uint32(r.U64())
	if r.Chance(20) {
		seq = uint32(r.Pick(0, 1, 0xffffffff, 0x7fffffff))
	}
	format := c15Formats[r.Intn(len(c15Formats))]
	if r.Chance(70) {
		format = []string{"<h", "<h", "<i", ">h", "<q", ">i", "!q"}[r.Intn(7)]
	}
	wordlen := 0
	for _, c := range format {
		switch c {
		case 'b', 'B', 'x':
			wordlen++
		case 'h', 'H':
			wordlen += 2
		case 'i', 'l', 'I', 'L':
			wordlen += 4
		case 'q', 'Q':
			wordlen += 8
		}
	}
	dims := c15Dims(r)
	if r.Chance(40) {
		dims = []int{r.Pick(1, 2, 3, 4, 8), r.Pick(1, 1, 2, 0)}
	}
	nchan := c15Prod(dims)
	nfr := r.Pick(0, 1, 1, 2, 3, 4, 7)
	if tier == "thorough" && r.Chance(5) {
		nfr = r.Range(8, 400)
	}
	nbytes := wordlen * nchan * nfr
	if nbytes == 0 && r.Chance(60) {
		nbytes = r.Pick(1, 2, 4, 8, 16, 24)
	}
	if nbytes > 6000 {
		nbytes = r.Pick(2, 8, 64, 6000)
	}
	if r.Chance(15) {
		nbytes += r.Pick(1, 2, 3, 5, 7) // leftover bytes / odd payload length
	}
	payload := c15Rand(r, nbytes)

	var tlvs [][]byte
	if r.Chance(80) {
		pad := 0
		if r.Chance(4) {
			pad = r.Range(1, 65535)
		}
		off := uint32(r.Pick(0, 0, 1, 8, 0x3000, 0xffffffff, 0x80000000))
		tlvs = append(tlvs, c15TLV(0x23, append(c15be16(pad), c15be32(off)...)))
	}
	if r.Chance(55) {
		if r.Chance(70) {
			nbits := r.Pick(64, 64, 64, 48, 32, 16, 8, 0, 1, 63, 65, 66, 255)
			body := []byte{byte(nbits), byte(r.Pick(0xf5, 0xf7, 0, 3, 0x80))}
			body = append(body, c15be16(r.Pick(0, 1, 4, 10000, 65535))...)
			body = append(body, c15be16(r.Pick(0, 1, 25, 65535))...)
			t := c15Counter(r)
			body = append(body, c15be64(t)...)
			switch {
			case nbits < 64:
				wantTS = fmt.Sprint(t & (uint64(1)<<uint(nbits) - 1))
			case nbits == 64:
				wantTS = fmt.Sprint(t)
			}
			if r.Chance(5) {
				body = body[:6] // one unit only: too short for a timestamp with unit
				tsKnown = false // (the next mutation may complete it again with other bytes)
			}
			if r.Chance(5) {
				body = append(body, c15Rand(r, 8)...) // three units
			}
			tlvs = append(tlvs, c15TLV(0x13, body))
		} else {
			// timestamp without unit: 48 bits, the low 16 bits of the counter are implied zero
			body := c15Rand(r, 6)
			if r.Chance(40) {
				c := c15Counter(r) >> 16
				body = []byte{byte(c >> 40), byte(c >> 32), byte(c >> 24), byte(c >> 16), byte(c >> 8), byte(c)}
			}
			var c uint64
			for _, x := range body {
				c = c<<8 | uint64(x)
			}
			wantTS = fmt.Sprint(c << 16)
			tlvs = append(tlvs, c15TLV(0x11, body))
		}
	}
	if r.Chance(90) {
		tlvs = append(tlvs, c15TLV(0x21, []byte(format)))
	}
	if r.Chance(90) {
		tlvs = append(tlvs, c15ShapeTLV(dims))
	}
	if r.Chance(15) {
		body := c15Rand(r, 6)
		if r.Chance(30) {
			body = c15Rand(r, 14) // counter must be one unit
		}
		tlvs = append(tlvs, c15TLV(0x12, body))
	}
	if r.Chance(15) {
		pad := 0
		if r.Chance(20) {
			pad = 9
		}
		tlvs = append(tlvs, c15TLV(0x09, append(c15be16(pad), c15Rand(r, 4)...)))
	}
	if r.Chance(20) {
		label := "value,active,t"
		switch r.Intn(6) {
		case 0:
			label = "value,active,u"
		case 1:
			label = "value,active,t\x00" // longer TLV: three units after padding
		case 2:
			label = "value"
		}
		tlvs = append(tlvs, c15TLV(0x29, []byte(label)))
	}
	if r.Chance(15) {
		tlvs = append(tlvs, c15TLV(byte(r.Pick(0, 0x40, 0xf0, 0xff, 0x10, 0x24)), c15Rand(r, r.Pick(6, 14, 22))))
	}
	if r.Chance(30) { // shuffle
		for i := len(tlvs) - 1; i > 0; i-- {
			j := r.Intn(i + 1)
			tlvs[i], tlvs[j] = tlvs[j], tlvs[i]
		}
	}
	if len(tlvs) > 0 && r.Chance(12) { // duplicate or drop
		tsKnown = false
		k := r.Intn(len(tlvs))
		if r.Bool() {
			tlvs = append(tlvs, tlvs[k])
		} else {
			tlvs = append(tlvs[:k], tlvs[k+1:]...)
		}
	}
	if len(tlvs) > 0 && r.Chance(8) { // wrong length byte in one TLV
		tsKnown = false
		k := r.Intn(len(tlvs))
		t := append([]byte{}, tlvs[k]...)
		t[1] = byte(r.Pick(0, int(t[1])+1, int(t[1])-1, 255, 31))
		tlvs[k] = t
	}
	b := c15Packet(ver, src, seq, tlvs, payload)
	for len(b) > 16 && int(b[1]) != len(b)-len(payload) { // header length does not fit in a byte
		tsKnown = false
		tlvs = tlvs[:len(tlvs)-1]
		b = c15Packet(ver, src, seq, tlvs, payload)
	}
	if r.Chance(5) { // header length mutated
		tsKnown = false
		b[1] = byte(r.Pick(0, 15, 16, int(b[1])+8, int(b[1])-8, 255, int(b[1])+1))
	}
	if r.Chance(8) { // payload length mutated
		pl := int(binary.BigEndian.Uint16(b[2:]))
		pl = r.Pick(0, pl+1, pl-1, pl*2, 65535, pl+8, 1)
		if pl < 0 {
			pl = 0
		}
		binary.BigEndian.PutUint16(b[2:], uint16(pl))
	}
	if r.Chance(3) {
		b[4+r.Intn(4)] ^= byte(1 << uint(r.Intn(8))) // magic broken
	}
	if r.Chance(6) && len(b) > 0 { // truncated
		tsKnown = false
		b = b[:r.Intn(len(b)+1)]
	}
	if r.Chance(25) { // the UDP receiver hands over a buffer longer than the datagram
		b = append(b, c15Rand(r, r.Pick(1, 8, 40))...)
	}
	if wordlen*nchan > 0 {
		nfr = nbytes / (wordlen * nchan)
	}
	if !tsKnown {
		wantTS = "?"
	}
	return b, nfr, nchan, wantTS
}

// c15Counter draws a 64-bit timestamp counter: mostly with some of the top 16 bits set, plus the boundaries.
func c15Counter(r *Rng) uint64 {
	switch c := r.Intn(100); {
	case c < 45:
		return r.U64() | uint64(1)<<uint(r.Range(48, 63))
	case c < 60:
		return r.U64()
	case c < 70:
		return r.U64() >> uint(r.Pick(16, 17, 24, 40))
	default:
		return []uint64{1<<48 - 1, 1 << 48, 1<<48 + 1, 1 << 63, 1<<63 - 1, math.MaxUint64, math.MaxUint64 - 1,
			0, 1, 1 << 47, 0xffff000000000000, 0x0001000000000000, 1 << 32, 1<<32 - 1}[r.Intn(14)]
	}
}

// c15Malformed: the separate malformed stream.
func c15Malformed(r *Rng, tier string) []byte {
	switch c := r.Intn(100); {
	case c < 15:
		return c15Rand(r, r.Pick(0, 0, 1, 4, 15, 16, 17, 24, 40, 64))
	case c < 45: // valid fixed header, random remainder
		n := r.Pick(0, 1, 7, 8, 9, 16, 24, 40, 100, 239)
		rest := c15Rand(r, n)
		hl := r.Pick(16, 16+n, 16+n/8*8, 24, 255, 15, 0, 17)
		b := c15Header(byte(r.U64()), byte(hl), uint16(r.Pick(0, 0, 2, 8, 9, 65535, n)), c15Magic, uint32(r.U64()), uint32(r.U64()))
		return append(b, rest...)
	case c < 70: // random TLV soup with plausible type/length bytes
		area := []byte{}
		for k := r.Range(1, 6); k > 0; k-- {
			t := byte(r.Pick(0x09, 0x11, 0x12, 0x13, 0x21, 0x22, 0x23, 0x29, 0, 0xff))
			units := r.Pick(1, 1, 1, 2, 2, 3, 0)
			body := c15Rand(r, 8*units)
			if units == 0 {
				body = c15Rand(r, 8)
			}
			body[0], body[1] = t, byte(units)
			if t == 0x21 && r.Chance(70) {
				copy(body[2:], []byte(c15Formats[r.Intn(len(c15Formats))]+"\x00\x00\x00\x00\x00\x00"))
			}
			if (t == 0x23 || t == 0x09) && r.Chance(70) {
				body[2], body[3] = 0, 0
			}
			if t == 0x13 && r.Chance(60) {
				body[2] = byte(r.Pick(64, 32, 0, 65))
			}
			area = append(area, body...)
		}
		if len(area) > 232 {
			area = area[:232]
		}
		pay := c15Rand(r, r.Pick(0, 2, 8, 16, 33))
		b := c15Header(1, byte(16+len(area)), uint16(len(pay)), c15Magic, 7, uint32(r.U64()))
		return append(append(b, area...), pay...)
	default: // a valid packet, cut at a random position or with flipped bits
		b, _, _, _ := c15Structured(r, tier)
		if len(b) == 0 {
			return b
		}
		if r.Bool() {
			return b[:r.Intn(len(b)+1)]
		}
		for k := r.Range(1, 3); k > 0; k-- {
			b[r.Intn(len(b))] ^= byte(1 << uint(r.Intn(8)))
		}
		return b
	}
}

func c15Reads(r *Rng, nfr int) []int {
	rd := []int{-1, 0, 1, nfr - 1, nfr, r.Intn(2*nfr + 3), r.Intn(2*nfr + 3)}
	if r.Chance(30) {
		rd = append(rd, r.Pick(1<<40, -(1 << 62), math.MinInt64, math.MaxInt64, 65535, 32768))
	}
	return rd
}

func c15PN(r *Rng, nchan int) int {
	switch c := r.Intn(100); {
	case c < 50:
		return nchan
	case c < 85:
		return r.Range(1, 9)
	case c < 90:
		return 0
	case c < 95:
		return -r.Range(1, 4)
	default:
		return r.Pick(1<<40, 100000, math.MaxInt64, math.MinInt64)
	}
}

// ---------------------------------------------------------------------------------------------
// constructor scripts (encode → decode)

type c15Op struct {
	kind  string // T U C W
	t     uint64
	rate  uint64 // float64 bits
	width int
	dims  []int16
	data  []int64
}

type c15Script struct {
	ver      uint8
	src, seq uint32
	off      int
	ops      []c15Op
}

func (s *c15Script) input() string {
	var sb strings.Builder
	fmt.Fprintf(&sb, "E N %d %d %d %d ops %d", s.ver, s.src, s.seq, s.off, len(s.ops))
	for _, op := range s.ops {
		switch op.kind {
		case "T":
			fmt.Fprintf(&sb, " T %d %d", op.t, op.rate)
		case "U", "C":
			sb.WriteString(" " + op.kind)
		case "W":
			fmt.Fprintf(&sb, " W %d %s %s", op.width, ints(op.dims), ints(op.data))
		}
	}
	return sb.String()
}

func (s *c15Script) run(reads []int, pseq uint32, pn int) string {
	var p *packets.Packet
	var cur *uint64 // the counter PUT IN by the last SetTimestamp still in effect
	stopped := ""
	res := c15Safe(func() string {
		p = packets.NewPacket(s.ver, s.src, s.seq, s.off)
		for i, op := range s.ops {
			switch op.kind {
			case "T":
				p.SetTimestamp(&packets.PacketTimestamp{T: op.t, Rate: math.Float64frombits(op.rate)})
				t := op.t
				cur = &t
			case "U":
				p.ResetTimestamp()
				cur = nil
			case "C":
				p.ClearData()
			case "W":
				var err error
				pan := c15Safe(func() string {
					switch op.width {
					case 16:
						d := make([]int16, len(op.data))
						for k, v := range op.data {
							d[k] = int16(v)
						}
						err = p.NewData(d, op.dims)
					case 32:
						d := make([]int32, len(op.data))
						for k, v := range op.data {
							d[k] = int32(v)
						}
						err = p.NewData(d, op.dims)
					default:
						d := make([]int64, len(op.data))
						copy(d, op.data)
						err = p.NewData(d, op.dims)
					}
					return ""
				})
				if pan != "" {
					stopped = fmt.Sprintf("X %d %s", i, pan)
					return ""
				}
				if err != nil {
					stopped = fmt.Sprintf("Z %d", i)
					return ""
				}
			}
		}
		return ""
	})
	if res != "" {
		return "X -1 " + res
	}
	if stopped != "" {
		return stopped
	}
	sum := c15Summary(p, cur)
	b := p.Bytes()
	return sum + " B " + hexs(b) + " " + c15Decode(b, reads, pseq, pn)
}

// c15Summary renders the constructed packet (the round-trip oracle compares against this): header fields, shape
// and payload as the real code holds them; the timestamp counter is the value the harness PUT IN (`cur`, nil = no
// timestamp), never what p.Timestamp() gives back -- an accessor that loses bits must not hide an encoder that
// loses the same bits.
func c15Summary(p *packets.Packet, cur *uint64) string {
	ver, src := p.VerifHeader()
	_, off := p.ChannelInfo()
	sum := fmt.Sprintf("S v %d src %d seq %d off %d", ver, src, p.SequenceNumber(), off)
	if sz, ok := p.VerifShape(); ok {
		sum += " sh " + ints(sz)
	} else {
		sum += " sh -1"
	}
	if cur != nil {
		sum += fmt.Sprintf(" ts %d", *cur)
	} else {
		sum += " ts -1"
	}
	return sum + " data " + c15Data(p.Data, true)
}

func c15ApplyOp(p *packets.Packet, op c15Op) error {
	switch op.kind {
	case "T":
		p.SetTimestamp(&packets.PacketTimestamp{T: op.t, Rate: math.Float64frombits(op.rate)})
	case "U":
		p.ResetTimestamp()
	case "C":
		p.ClearData()
	case "W":
		switch op.width {
		case 16:
			d := make([]int16, len(op.data))
			for k, v := range op.data {
				d[k] = int16(v)
			}
			return p.NewData(d, op.dims)
		case 32:
			d := make([]int32, len(op.data))
			for k, v := range op.data {
				d[k] = int32(v)
			}
			return p.NewData(d, op.dims)
		default:
			d := make([]int64, len(op.data))
			copy(d, op.data)
			return p.NewData(d, op.dims)
		}
	}
	return nil
}

// ---------------------------------------------------------------------------------------------
// histories: ONE reused Packet (as cmd/bahama does) and filler copies of it produce several encodings
// in sequence; every returned slice is kept WITHOUT copying and looked at only after the last step.
// Each held encoding must still be the encoding of the packet it was made from.

type c15HStep struct {
	kind  string // "O" constructor op, "B" encode the packet, "F" encode a MakePretendPacket copy
	op    c15Op
	fseq  uint32
	fchan int
}

type c15Hist struct {
	ver      uint8
	src, seq uint32
	off      int
	steps    []c15HStep
}

func (h *c15Hist) input() string {
	var sb strings.Builder
	fmt.Fprintf(&sb, "H N %d %d %d %d steps %d", h.ver, h.src, h.seq, h.off, len(h.steps))
	for _, st := range h.steps {
		switch st.kind {
		case "B":
			sb.WriteString(" B")
		case "F":
			fmt.Fprintf(&sb, " F %d %d", st.fseq, st.fchan)
		default:
			op := st.op
			switch op.kind {
			case "T":
				fmt.Fprintf(&sb, " T %d %d", op.t, op.rate)
			case "U", "C":
				sb.WriteString(" " + op.kind)
			case "W":
				fmt.Fprintf(&sb, " W %d %s %s", op.width, ints(op.dims), ints(op.data))
			}
		}
	}
	return sb.String()
}

func (h *c15Hist) run() string {
	type held struct {
		sum  string
		then string
		b    []byte // NOT copied
	}
	var hs []held
	var cur *uint64
	stopped := ""
	pan := c15Safe(func() string {
		p := packets.NewPacket(h.ver, h.src, h.seq, h.off)
		for i, st := range h.steps {
			switch st.kind {
			case "B":
				sum := c15Summary(p, cur)
				b := p.Bytes()
				hs = append(hs, held{sum, hexs(b), b})
			case "F":
				q := p.MakePretendPacket(st.fseq, st.fchan)
				sum := c15Summary(q, cur) // the copy carries the same timestamp
				b := q.Bytes()
				hs = append(hs, held{sum, hexs(b), b})
			default:
				if err := c15ApplyOp(p, st.op); err != nil {
					stopped = fmt.Sprintf("Z %d", i)
					return ""
				}
				switch st.op.kind {
				case "T":
					t := st.op.t
					cur = &t
				case "U":
					cur = nil
				}
			}
		}
		return ""
	})
	if pan != "" {
		return "X -1 " + pan
	}
	if stopped != "" {
		return stopped
	}
	var sb strings.Builder
	fmt.Fprintf(&sb, "HL %d", len(hs))
	for _, x := range hs {
		fmt.Fprintf(&sb, " %s T %s N %s %s", x.sum, x.then, hexs(x.b), c15Decode(x.b, nil, 1, 1))
	}
	return sb.String()
}

func c15GenHist(r *Rng) *c15Hist {
	h := &c15Hist{ver: uint8(r.U64()), src: uint32(r.U64()), seq: uint32(r.U64()), off: r.Pick(0, 1, 16, 0x3000)}
	if r.Chance(15) {
		h.seq = uint32(r.Pick(0xffffffff, 0xfffffffd))
	}
	width := r.Pick(16, 16, 32, 64)
	nchan := r.Pick(1, 2, 3, 4)
	nfr := r.Pick(1, 2, 3, 4)
	mkW := func(nf int) c15HStep {
		op := c15Op{kind: "W", width: width, dims: []int16{int16(nchan)}}
		if r.Chance(10) {
			op.dims = []int16{int16(nchan), 1}
		}
		op.data = make([]int64, nf*nchan)
		for i := range op.data {
			v := int64(r.U64())
			switch width {
			case 16:
				v = int64(int16(v))
			case 32:
				v = int64(int32(v))
			}
			op.data[i] = v
		}
		return c15HStep{kind: "O", op: op}
	}
	mkT := func() c15HStep {
		return c15HStep{kind: "O", op: c15Op{kind: "T", t: c15Counter(r), rate: math.Float64bits(r.pickRate())}}
	}
	if r.Chance(90) {
		h.steps = append(h.steps, mkW(nfr))
	}
	if r.Chance(50) {
		h.steps = append(h.steps, mkT())
	}
	nenc := r.Range(2, 6)
	for k := 0; k < nenc; k++ {
		if k > 0 || r.Chance(20) { // what a generator does between two packets
			switch c := r.Intn(100); {
			case c < 55: // next payload: same size, sometimes smaller, rarely larger
				nf := nfr
				if r.Chance(30) {
					nf = r.Range(0, nfr)
				} else if r.Chance(10) {
					nf = nfr + r.Range(1, 3)
				}
				h.steps = append(h.steps, mkW(nf))
				if r.Chance(50) {
					h.steps = append(h.steps, mkT())
				}
			case c < 75:
				h.steps = append(h.steps, mkT())
			case c < 82:
				h.steps = append(h.steps, c15HStep{kind: "O", op: c15Op{kind: "U"}})
			case c < 87:
				h.steps = append(h.steps, c15HStep{kind: "O", op: c15Op{kind: "C"}})
			default: // nothing changes: the same packet is encoded twice
			}
		}
		if r.Chance(25) {
			h.steps = append(h.steps, c15HStep{kind: "F", fseq: uint32(r.U64()), fchan: r.Pick(nchan, nchan, 1, 2, 7)})
		} else {
			h.steps = append(h.steps, c15HStep{kind: "B"})
		}
	}
	return h
}

func (r *Rng) pickRate() float64 {
	return []float64{1e9, 256e6, 1e8, 1.25e8, 1e6}[r.Intn(5)]
}

func c15GenScript(r *Rng, tier string) (*c15Script, int, int) {
	s := &c15Script{ver: uint8(r.U64()), src: uint32(r.U64()), seq: uint32(r.U64())}
	if r.Chance(25) {
		s.seq = uint32(r.Pick(0, 0xffffffff, 0xfffffffe, 0x7fffffff))
	}
	s.off = r.Pick(0, 0, 1, 8, 0x3000, 0xffffffff, 0x100000000, -1, 1<<40+5, math.MinInt64)
	if r.Chance(30) {
		s.off = r.Intn(100000)
	}
	nops := r.Pick(1, 1, 2, 2, 3, 4, 6)
	nfr, nchan := 0, 1
	for k := 0; k < nops; k++ {
		switch c := r.Intn(100); {
		case c < 22:
			rate := []float64{1e9, 256e6, 250e8, 1.25e8, 1e6, 1, 3.7e11, 1e3, 5e11, 123456.789}[r.Intn(10)]
			t := c15Counter(r)
			s.ops = append(s.ops, c15Op{kind: "T", t: t, rate: math.Float64bits(rate)})
		case c < 27:
			s.ops = append(s.ops, c15Op{kind: "U"})
		case c < 32:
			s.ops = append(s.ops, c15Op{kind: "C"})
			nfr = 0
		default:
			op := c15Op{kind: "W", width: r.Pick(16, 16, 32, 64)}
			ws := op.width / 8
			var dims []int
			switch d := r.Intn(100); {
			case d < 55:
				dims = []int{r.Pick(1, 2, 3, 4, 8, 16)}
			case d < 75:
				dims = []int{r.Range(1, 5), r.Range(1, 4)}
			case d < 80:
				dims = []int{r.Range(1, 4), r.Range(1, 3), r.Range(1, 3), r.Range(1, 2), r.Range(1, 3)}
			case d < 84:
				dims = []int{}
			case d < 90:
				dims = []int{r.Pick(0, -1, -32768, 3), r.Pick(0, 2, 0)}
			case d < 93:
				dims = c15Dims(r)
			case d < 96:
				n := r.Pick(95, 99, 100, 103, 104, 107, 108, 120, 1000)
				dims = make([]int, n)
				for i := range dims {
					dims[i] = 1
				}
				dims[r.Intn(n)] = r.Range(1, 4)
			default:
				dims = []int{32767, r.Pick(1, 2)}
			}
			for _, d := range dims {
				op.dims = append(op.dims, int16(d))
			}
			nchan = c15Prod(dims)
			nfr = r.Pick(0, 1, 2, 3, 5, 8)
			nv := nfr * nchan
			if nv > 3000 {
				nv = r.Pick(1, 7, 64, 300, 300, 1000, 3000)
			}
			if r.Chance(10) {
				nv += r.Range(1, 3)
			}
			if r.Chance(3) { // at and beyond the packet / uint16 limits
				if r.Chance(60) {
					op.width = 64
					ws = 8
				}
				total := r.Pick(8192, 8191, 8193, 8152, 8153, 65535, 65536, 65537, 65636, 70000, 131072+40)
				nv = (total - 40) / ws
				if r.Bool() {
					nv = total / ws
				}
			}
			if nv > 5000 && !r.Chance(25) { // mostly stay near the 8192-byte limit: lines of 30000 values are slow to carry around
				nv = (8192-40)/ws + r.Range(-20, 24)
			}
			op.data = make([]int64, nv)
			for i := range op.data {
				var v int64
				switch r.Intn(6) {
				case 0:
					v = int64(r.Pick(0, -1, 1))
				case 1:
					v = int64(r.Pick(32767, -32768, 2147483647, -2147483648, math.MaxInt64, math.MinInt64, 255, 256, -256))
				default:
					v = int64(r.U64())
				}
				switch op.width {
				case 16:
					v = int64(int16(v))
				case 32:
					v = int64(int32(v))
				}
				op.data[i] = v
			}
			if nchan > 0 {
				nfr = nv / nchan
			}
			s.ops = append(s.ops, op)
		}
	}
	return s, nfr, nchan
}

// ---------------------------------------------------------------------------------------------
// fixed regression cases

const c15NHot = 28

func c15Hot(idx int) (string, func() string, bool) {
	fmtTLV := func(f string) []byte { return c15TLV(0x21, []byte(f)) }
	off := c15TLV(0x23, append(c15be16(0), c15be32(5)...))
	pay := []byte{1, 0, 2, 0, 3, 0, 4, 0, 5, 0, 6, 0, 7, 0, 8, 0}
	dec := func(b []byte, pn int) (string, func() string, bool) {
		reads := []int{-1, 0, 1, 2, 7, 8}
		in := fmt.Sprintf("D %s R %s PS %d PN %d", hexs(b), ints(reads), 77, pn)
		return in, func() string { return c15Decode(b, reads, 77, pn) }, true
	}
	scr := func(s *c15Script) (string, func() string, bool) {
		reads := []int{-1, 0, 1, 5}
		in := fmt.Sprintf("%s R %s PS %d PN %d", s.input(), ints(reads), 9, 1)
		return in, func() string { return s.run(reads, 9, 1) }, true
	}
	wop := func(width int, dims []int16, n int) c15Op {
		d := make([]int64, n)
		for i := range d {
			d[i] = int64(i%100 - 50)
		}
		return c15Op{kind: "W", width: width, dims: dims, data: d}
	}
	rep := func(v, n int) []int {
		o := make([]int, n)
		for i := range o {
			o[i] = v
		}
		return o
	}
	switch idx {
	case 0: // plain valid packet
		return dec(c15Packet(3, 9, 100, [][]byte{off, fmtTLV("<h"), c15ShapeTLV([]int{4})}, pay), 4)
	case 1: // shape TLV without a format TLV
		return dec(c15Packet(3, 9, 100, [][]byte{off, c15ShapeTLV([]int{4})}, pay), 4)
	case 2: // format "<": word length 0
		return dec(c15Packet(3, 9, 100, [][]byte{off, fmtTLV("<"), c15ShapeTLV([]int{4})}, pay), 4)
	case 3: // no shape TLV
		return dec(c15Packet(3, 9, 100, [][]byte{off, fmtTLV("<h")}, pay), 4)
	case 4: // header only, no TLV at all (the repo's TestHeader expects this to decode)
		return dec(c15Packet(3, 9, 100, nil, pay), 1)
	case 5: // channel product 2^70 wraps to 0
		return dec(c15Packet(3, 9, 100, [][]byte{off, fmtTLV("<h"), c15ShapeTLV(rep(16384, 5))}, pay), 1)
	case 6: // channel product 2^63 is negative
		return dec(c15Packet(3, 9, 100, [][]byte{fmtTLV("<h"), c15ShapeTLV(rep(2, 63))}, pay), 1)
	case 7: // two-component format: payload kept as raw bytes, ReadValue has no case for it
		return dec(c15Packet(3, 9, 100, [][]byte{off, fmtTLV("<hh"), c15ShapeTLV([]int{1})}, pay), 1)
	case 8: // MakePretendPacket with nchan 0 (caller error, outside the statement; the model must agree)
		return dec(c15Packet(3, 9, 100, [][]byte{off, fmtTLV("<h"), c15ShapeTLV([]int{4})}, pay), 0)
	case 9: // external trigger label
		return dec(c15Packet(3, 9, 100, [][]byte{c15TLV(0x29, []byte("value,active,t")), fmtTLV("<Q"), c15ShapeTLV([]int{2})}, nil), 2)
	case 10: // big endian 32 bit, 48-bit timestamp
		ts := c15TLV(0x13, append([]byte{48, 0xf5, 0, 4, 0, 1}, c15be64(0xfedcba9876543210)...))
		return dec(c15Packet(3, 9, 100, [][]byte{off, ts, fmtTLV(">i"), c15ShapeTLV([]int{2})}, pay), 2)
	case 11: // word length times channel product wraps to 0 (8 * 2^61)
		return dec(c15Packet(3, 9, 100, [][]byte{fmtTLV("<q"), c15ShapeTLV(rep(2, 61))}, pay), 1)
	case 12: // NewData with 32818 int16 values: payload length 65636 does not fit uint16
		return scr(&c15Script{ver: 1, src: 2, seq: 3, ops: []c15Op{wop(16, []int16{1}, 32818)}})
	case 13: // NewData with two dimensions
		return scr(&c15Script{ver: 1, src: 2, seq: 3, ops: []c15Op{wop(16, []int16{2, 3}, 12)}})
	case 14: // timestamp with rate 0
		return scr(&c15Script{ver: 1, src: 2, seq: 3, ops: []c15Op{wop(16, []int16{2}, 4), {kind: "T", t: 12345, rate: 0}}})
	case 15: // 104 dimensions: header length 24+8+8*27 = 248 fits, +16 for a timestamp does not
		d := make([]int16, 104)
		for i := range d {
			d[i] = 1
		}
		return scr(&c15Script{ver: 1, src: 2, seq: 3, ops: []c15Op{wop(16, d, 4), {kind: "T", t: 5, rate: math.Float64bits(1e9)}}})
	case 16: // plain round trip, 64 bit, timestamp, sequence number wrap
		return scr(&c15Script{ver: 255, src: 0xffffffff, seq: 0xffffffff, off: -1, ops: []c15Op{{kind: "T", t: math.MaxUint64, rate: math.Float64bits(1.25e8)}, wop(64, []int16{3}, 9)}})
	case 17: // header-only round trip
		return scr(&c15Script{ver: 0x11, src: 0x44, seq: 0x55})
	case 18: // empty payload (bahama sends these)
		return scr(&c15Script{ver: 1, src: 2, seq: 3, ops: []c15Op{wop(16, []int16{4}, 0)}})
	case 19: // exactly the maximum packet length, and one value more
		return scr(&c15Script{ver: 1, src: 2, seq: 3, ops: []c15Op{wop(16, []int16{4}, (8192-40)/2)}})
	case 20:
		return scr(&c15Script{ver: 1, src: 2, seq: 3, ops: []c15Op{wop(16, []int16{4}, (8192-40)/2+1)}})
	case 21: // no dimensions at all: nothing positive in the shape TLV
		return scr(&c15Script{ver: 1, src: 2, seq: 3, ops: []c15Op{wop(32, []int16{}, 4)}})
	case 22: // 100 dimensions with a timestamp already set
		d := make([]int16, 100)
		for i := range d {
			d[i] = 1
		}
		return scr(&c15Script{ver: 1, src: 2, seq: 3, ops: []c15Op{{kind: "T", t: 5, rate: math.Float64bits(1e9)}, wop(16, d, 4)}})
	case 24: // one reused Packet, five encodings held, then a filler copy encoded (a generator's send queue)
		h := &c15Hist{ver: 10, src: 77, seq: 1000, off: 16}
		for k := 0; k < 5; k++ {
			d := make([]int64, 12)
			for i := range d {
				d[i] = int64(1000*k + i)
			}
			h.steps = append(h.steps,
				c15HStep{kind: "O", op: c15Op{kind: "W", width: 16, dims: []int16{4}, data: d}},
				c15HStep{kind: "O", op: c15Op{kind: "T", t: uint64(5000 + 100*k), rate: math.Float64bits(1e8)}},
				c15HStep{kind: "B"})
		}
		h.steps = append(h.steps, c15HStep{kind: "F", fseq: 9999, fchan: 4})
		in := fmt.Sprintf("%s R %s PS %d PN %d", h.input(), ints([]int{}), 1, 1)
		return in, h.run, true
	case 25: // raw 0x13 TLV carrying a full 64-bit counter: the decoded Timestamp() must give all 64 bits
		ts := c15TLV(0x13, append([]byte{64, 0xf5, 0, 4, 0, 1}, c15be64(0xfedcba9876543210)...))
		b := c15Packet(3, 9, 100, [][]byte{off, ts, fmtTLV("<h"), c15ShapeTLV([]int{4})}, pay)
		reads := []int{0, 1}
		in := fmt.Sprintf("D %s TS %d R %s PS %d PN %d", hexs(b), uint64(0xfedcba9876543210), ints(reads), 77, 4)
		return in, func() string { return c15Decode(b, reads, 77, 4) }, true
	case 26: // raw 0x11 TLV (no unit) whose 16-bit high part is non-zero: counter = 48 bits << 16
		ts := c15TLV(0x11, []byte{0xab, 0xcd, 1, 2, 3, 4})
		b := c15Packet(3, 9, 100, [][]byte{off, ts, fmtTLV("<h"), c15ShapeTLV([]int{4})}, pay)
		reads := []int{0, 1}
		in := fmt.Sprintf("D %s TS %d R %s PS %d PN %d", hexs(b), uint64(0xabcd01020304)<<16, ints(reads), 77, 4)
		return in, func() string { return c15Decode(b, reads, 77, 4) }, true
	case 27: // constructed packet with counter 2^48 (one bit above what uint16<<32 + uint32 can carry)
		return scr(&c15Script{ver: 1, src: 2, seq: 3, ops: []c15Op{wop(16, []int16{2}, 4), {kind: "T", t: 1 << 48, rate: math.Float64bits(1e9)}}})
	case 23: // ClearData then Bytes
		return scr(&c15Script{ver: 1, src: 2, seq: 3, ops: []c15Op{wop(32, []int16{2}, 4), {kind: "C"}}})
	}
	return "", nil, false
}

// ---------------------------------------------------------------------------------------------

func c15Gen(r *Rng, tier string, idx int) (string, func() string) {
	if idx < c15NHot {
		if in, run, ok := c15Hot(idx); ok {
			return in, run
		}
	}
	pseq := uint32(r.U64())
	if idx%12 == 7 { // histories take a fixed share of the case numbers; all other cases are unchanged
		h := c15GenHist(r)
		in := fmt.Sprintf("%s R %s PS %d PN %d", h.input(), ints([]int{}), 1, 1)
		return in, h.run
	}
	switch c := r.Intn(100); {
	case c < 48:
		b, nfr, nchan, wantTS := c15Structured(r, tier)
		reads := c15Reads(r, nfr)
		pn := c15PN(r, nchan)
		in := fmt.Sprintf("D %s TS %s R %s PS %d PN %d", hexs(b), wantTS, ints(reads), pseq, pn)
		return in, func() string { return c15Decode(b, reads, pseq, pn) }
	case c < 70:
		b := c15Malformed(r, tier)
		reads := c15Reads(r, r.Intn(4))
		pn := c15PN(r, r.Range(1, 4))
		in := fmt.Sprintf("D %s R %s PS %d PN %d", hexs(b), ints(reads), pseq, pn)
		return in, func() string { return c15Decode(b, reads, pseq, pn) }
	default:
		s, nfr, nchan := c15GenScript(r, tier)
		reads := c15Reads(r, nfr)
		pn := c15PN(r, nchan)
		in := fmt.Sprintf("%s R %s PS %d PN %d", s.input(), ints(reads), pseq, pn)
		return in, func() string { return s.run(reads, pseq, pn) }
	}
}
