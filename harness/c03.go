package main

// C03 — Abaco ingest.  Each case is a layout (1..4 channel groups) + a start-up sample + a script of
// read ticks (which packets each group delivers in which tick, with losses and lag).  The REAL
// Sample / PrepareChannels / readerMainLoop / getNextBlock / distributeData run on a scripted
// in-memory PacketProducer (hook /repo/verif_c03.go); packets are built with the public
// constructors of the packets package.
//
// line:  f0 F ng G {first nchan ns {sn ts}*ns}*G ticks T {{np {sn wide nd d*nd}*np}*G}*T
//        OUT nb {tick uni dropped first nch {len v*len}*nch}*nb | OUT PANIC cls | OUT ERR msg

import (
	"fmt"
	"strings"
	"time"

	"github.com/usnistgov/dastard"
	"github.com/usnistgov/dastard/packets"
)

func c03Count(q, t int) func(string) int {
	return func(tier string) int {
		if tier == "thorough" {
			return t
		}
		return q
	}
}

func init() {
	caseGens["C03"] = caseGen{count: func(tier string) int { return c03Count(700, 12000)(tier) + c03Count(110, 1500)(tier) },
		gen: c03Gen}
}

type c03Pkt struct {
	sn   uint32
	wide bool
	vals []int64
	ts   bool
}

type c03Group struct {
	first, nchan, fpp int
	wide              bool
	mixed             bool
	sample            []c03Pkt
	ticks             [][]c03Pkt
}

func c03Value(r *Rng, wide bool) int64 {
	if wide {
		switch r.Intn(10) {
		case 0:
			return int64(r.Pick(0, -1, 1, 65535, 65536, -65536, -65537, 2147483647, -2147483648, -65535, 131071, -131073))
		case 1, 2:
			return int64(int32(r.U64())) // any 32-bit value
		default:
			return int64(int16(r.U64()))*65536 + int64(r.Intn(65536)) // spread over the high half
		}
	}
	if r.Intn(10) == 0 {
		return int64(r.Pick(0, -1, 1, 32767, -32768, 255, -256))
	}
	return int64(int16(r.U64()))
}

func c03Data(r *Rng, n int, wide bool) []int64 {
	v := make([]int64, n)
	for i := range v {
		v[i] = c03Value(r, wide)
	}
	return v
}

// c03Case is one acquisition: layout, start-up sample, tick script.
type c03Case struct {
	groups      []*c03Group
	nticks      int
	f0          int64
	perGroup    bool
	mergeSeed   uint64
	viaStartRun bool
}

// c03Opt steers the generator for the runs of a restart history (nil: an ordinary case).
type c03Opt struct {
	layout [][2]int // first, nchan of every group (nil: free)
	ng     int      // number of groups when layout is nil (0: free)
	tsMode bool
	tickTs bool   // data packets of the ticks carry timestamps too (as real ones do)
	base   uint32 // sequence numbers start above this
}

// c03Gen builds one case.
func c03Gen(r *Rng, tier string, idx int) (string, func() string) {
	if idx < len(c03Fixed) {
		groups, nticks := c03Fixed[idx]()
		return c03Emit(c03Case{groups: groups, nticks: nticks, perGroup: idx%2 == 1, mergeSeed: uint64(idx)})
	}
	if idx >= c03Count(700, 12000)(tier) {
		return c03GenRestart(r, tier, idx-c03Count(700, 12000)(tier))
	}
	return c03Emit(c03GenOne(r, tier, nil))
}

func c03GenOne(r *Rng, tier string, opt *c03Opt) c03Case {
	ng := r.Pick(1, 2, 2, 2, 3, 3, 4)
	fpp := r.Pick(1, 1, 2, 2, 3, 4, 4, 5, 8, 16)
	if r.Chance(15) {
		fpp = r.Range(1, 16)
	}
	unequal := ng > 1 && r.Chance(3) // the excluded point: frames per packet differ between groups
	tsMode := r.Chance(70)           // start-up packets carry timestamps (=> seqnumsync is set)
	hot := r.Chance(40)              // lag + loss together
	viaStartRun := r.Chance(1)       // launch the loop through the real StartRun (50 ms ticks)
	big := tier == "thorough" && r.Chance(10)
	if opt != nil {
		unequal, tsMode, viaStartRun = false, opt.tsMode, false
		if opt.layout != nil {
			ng = len(opt.layout)
		} else if opt.ng > 0 {
			ng = opt.ng
		}
	}

	groups := make([]*c03Group, ng)
	firstchan := r.Intn(3)
	base := uint32(r.Pick(0, 1, 5, 100, 1000, 65535, 1<<20, 1<<31, 4294900000))
	base += uint32(r.Intn(50))
	for g := range groups {
		grp := &c03Group{first: firstchan, nchan: r.Range(1, 8), fpp: fpp, wide: r.Bool(), mixed: r.Chance(5)}
		if r.Chance(40) {
			grp.nchan = r.Pick(1, 2, 3)
		}
		if unequal && g > 0 {
			grp.fpp = r.Range(1, 6)
		}
		firstchan += grp.nchan + r.Pick(0, 0, 0, 1, 3)
		if opt != nil && opt.layout != nil {
			grp.first, grp.nchan = opt.layout[g][0], opt.layout[g][1]
		}
		groups[g] = grp
	}
	if opt != nil {
		base = opt.base
	}

	// start-up sample: ns consecutive packets ending at L0
	l0 := make([]uint32, ng)
	for g, grp := range groups {
		ns := r.Range(2, 4)
		var delta uint32
		if tsMode {
			delta = uint32(r.Intn(2000)) // groups may number their packets from unrelated origins
		} else {
			delta = uint32(r.Pick(0, 0, 0, 1, 1, 2, 3)) // no sync offset: raw numbers are the global numbers
		}
		l0[g] = base + 10 + delta
		tsFrom := 0
		if tsMode && r.Chance(15) {
			tsFrom = r.Range(0, ns-2) // sync is taken from the first packet that carries a timestamp
		}
		for k := 0; k < ns; k++ {
			sn := l0[g] - uint32(ns-1-k)
			grp.sample = append(grp.sample, c03Pkt{sn: sn, wide: grp.wide, ts: tsMode && k >= tsFrom,
				vals: c03Data(r, grp.nchan*grp.fpp, grp.wide)})
		}
	}

	// the stream: global packet index j -> tick, per group lag and jitter
	npk := r.Range(1, 14)
	if big {
		npk = r.Range(15, 40)
	}
	if viaStartRun && npk > 8 {
		npk = 8
	}
	rate := r.Pick(1, 1, 2, 2, 3, 4)
	maxTick := 0
	type arrival struct {
		tick int
		lost bool
	}
	streams := make([][]arrival, ng)
	for g := range groups {
		lag := 0
		if hot {
			lag = r.Pick(0, 1, 1, 2, 3)
		} else if r.Chance(40) {
			lag = r.Range(0, 3)
		}
		n := npk + r.Pick(0, 0, 0, 1, 2) - r.Pick(0, 0, 1)
		if n < 0 {
			n = 0
		}
		t := lag
		st := make([]arrival, n)
		for j := 0; j < n; j++ {
			want := j/rate + lag
			if r.Chance(20) {
				want += r.Pick(1, 1, 2) // jitter / an empty tick before
			}
			if want > t {
				t = want
			}
			st[j].tick = t
			if t > maxTick {
				maxTick = t
			}
		}
		// losses
		pattern := r.Intn(7)
		if hot {
			pattern = r.Pick(2, 3, 3, 4, 5, 6)
		}
		lose := func(j int) {
			if j >= 0 && j < n {
				st[j].lost = true
			}
		}
		switch pattern {
		case 0: // none
		case 1: // single
			lose(r.Intn(n + 1))
		case 2: // bursts
			for b := r.Range(1, 3); b > 0; b-- {
				s, l := r.Intn(n+1), r.Range(1, 4)
				for j := s; j < s+l; j++ {
					lose(j)
				}
			}
		case 3: // first packet(s) of some ticks
			for j := 0; j < n; j++ {
				if (j == 0 || st[j-1].tick != st[j].tick) && r.Chance(50) {
					lose(j)
					if r.Chance(30) {
						lose(j + 1)
					}
				}
			}
		case 4: // last packet of some ticks
			for j := 0; j < n; j++ {
				if (j == n-1 || st[j+1].tick != st[j].tick) && r.Chance(50) {
					lose(j)
				}
			}
		case 5: // random
			p := r.Pick(10, 20, 40)
			for j := 0; j < n; j++ {
				if r.Chance(p) {
					lose(j)
				}
			}
		case 6: // a whole tick's worth
			if n > 0 {
				tk := st[r.Intn(n)].tick
				for j := 0; j < n; j++ {
					if st[j].tick == tk {
						lose(j)
					}
				}
			}
		}
		streams[g] = st
	}
	nticks := maxTick + 1 + r.Pick(0, 0, 1, 2) // trailing empty ticks
	for g, grp := range groups {
		grp.ticks = make([][]c03Pkt, nticks)
		for j, a := range streams[g] {
			if a.lost {
				continue
			}
			w := grp.wide
			if grp.mixed {
				w = r.Bool()
			}
			grp.ticks[a.tick] = append(grp.ticks[a.tick], c03Pkt{sn: l0[g] + 1 + uint32(j), wide: w,
				ts: opt != nil && opt.tickTs, vals: c03Data(r, grp.nchan*grp.fpp, w)})
		}
	}
	f0 := int64(0)
	if r.Chance(30) {
		f0 = int64(r.Pick(1, 1000, 123456789, 1<<40))
	}
	// producers: one for everything, or one per group
	perGroup := ng > 1 && r.Bool()
	mergeSeed := r.U64()

	return c03Case{groups, nticks, f0, perGroup, mergeSeed, viaStartRun}
}

// c03GenRestart builds a restart history: run 1 (usually cut short while a group lags, so packets stay
// queued), stop, then Sample/PrepareChannels/run 2 on the SAME source object, with the same layout or
// with groups removed / added / reshaped.
func c03GenRestart(r *Rng, tier string, k int) (string, func() string) {
	var c1, c2 c03Case
	if k == 0 {
		// the minimal scenario: group 1 lags in the last tick of run 1, both groups restart
		g1, n1 := c03Scenario([][]uint32{{3, 4}, {3, 4}}, [][][]uint32{{{5, 6}, {5}}, {{7, 8}, {}}})
		g2, n2 := c03Scenario([][]uint32{{23, 24}, {25, 26}}, [][][]uint32{{{25, 26}, {27, 28}}, {{27}, {29}}})
		for _, gs := range [][]*c03Group{g1, g2} {
			for _, g := range gs {
				for i := range g.sample {
					g.sample[i].ts = true
				}
				for t := range g.ticks {
					for i := range g.ticks[t] {
						g.ticks[t][i].ts = true
					}
				}
			}
		}
		c1, c2 = c03Case{groups: g1, nticks: n1}, c03Case{groups: g2, nticks: n2}
	} else {
		ts := r.Chance(85)
		o1 := &c03Opt{ng: r.Pick(2, 2, 2, 3, 3, 4, 1), tsMode: ts, tickTs: ts, base: uint32(r.Pick(0, 100, 65535, 1<<20)) + uint32(r.Intn(50))}
		c1 = c03GenOne(r, tier, o1)
		if r.Chance(75) && c1.nticks > 1 {
			c1.nticks = r.Range(1, c1.nticks-1) // stopped in mid-stream: a lagging group leaves packets queued
			for _, g := range c1.groups {
				g.ticks = g.ticks[:c1.nticks]
			}
		}
		// where run 1's numbers end
		top := o1.base + 10
		for _, g := range c1.groups {
			for _, p := range g.sample {
				if p.sn > top {
					top = p.sn
				}
			}
			top += 60
		}
		layout := make([][2]int, 0, len(c1.groups)+1)
		for _, g := range c1.groups {
			layout = append(layout, [2]int{g.first, g.nchan})
		}
		nextFirst := layout[len(layout)-1][0] + layout[len(layout)-1][1] + r.Intn(2)
		switch c := r.Intn(100); {
		case c < 60: // the same groups again
		case c < 72: // one group is gone
			if len(layout) > 1 {
				d := r.Intn(len(layout))
				layout = append(layout[:d], layout[d+1:]...)
			}
		case c < 84: // a new group appears
			layout = append(layout, [2]int{nextFirst, r.Range(1, 4)})
		case c < 92: // the last group comes back with another channel count
			layout[len(layout)-1][1] = layout[len(layout)-1][1]%8 + 1
		default: // entirely different groups
			layout = nil
		}
		ts2 := ts
		if r.Chance(10) {
			ts2 = !ts
		}
		c2 = c03GenOne(r, tier, &c03Opt{layout: layout, tsMode: ts2, tickTs: ts2, base: top})
	}
	in1, _ := c03Emit(c1)
	in2, _ := c03Emit(c2)
	run := func() string {
		src, err := dastard.NewVerifC03Source()
		if err != nil {
			return "ERR " + strings.ReplaceAll(err.Error(), " ", "_")
		}
		out1 := c03RunOn(src, c1)
		if strings.HasPrefix(out1, "ERR") {
			return out1
		}
		out2 := c03RunOn(src, c2)
		return fmt.Sprintf("%s RUN2 nchan %d %s", out1, src.Nchan(), out2)
	}
	return "restart " + in1 + " RUN2 " + in2, run
}

// c03Emit renders the input part of the line and returns the runner.
func c03Emit(c c03Case) (string, func() string) {
	groups, nticks, f0 := c.groups, c.nticks, c.f0
	var sb strings.Builder
	fmt.Fprintf(&sb, "f0 %d ng %d", f0, len(groups))
	for _, grp := range groups {
		fmt.Fprintf(&sb, " %d %d %d", grp.first, grp.nchan, len(grp.sample))
		for _, p := range grp.sample {
			fmt.Fprintf(&sb, " %d %d", p.sn, b2i(p.ts))
		}
	}
	fmt.Fprintf(&sb, " ticks %d", nticks)
	for t := 0; t < nticks; t++ {
		for _, grp := range groups {
			fmt.Fprintf(&sb, " %d", len(grp.ticks[t]))
			for _, p := range grp.ticks[t] {
				fmt.Fprintf(&sb, " %d %d %d", p.sn, b2i(p.wide), len(p.vals))
				for _, v := range p.vals {
					fmt.Fprintf(&sb, " %d", v)
				}
			}
		}
	}
	run := func() string {
		src, err := dastard.NewVerifC03Source()
		if err != nil {
			return "ERR " + strings.ReplaceAll(err.Error(), " ", "_")
		}
		return c03RunOn(src, c)
	}
	return sb.String(), run
}

// c03Fixed are hand-written minimal scenarios of the two repaired defects; they run first in every
// job.  One channel, one frame per packet, no timestamps (sync offset 0); sample = the listed numbers.
func c03Scenario(samples [][]uint32, ticks [][][]uint32) ([]*c03Group, int) {
	groups := make([]*c03Group, len(samples))
	for g := range samples {
		grp := &c03Group{first: g, nchan: 1, fpp: 1}
		for _, sn := range samples[g] {
			grp.sample = append(grp.sample, c03Pkt{sn: sn, vals: []int64{int64(sn) * 10}})
		}
		grp.ticks = make([][]c03Pkt, len(ticks))
		for t := range ticks {
			for _, sn := range ticks[t][g] {
				grp.ticks[t] = append(grp.ticks[t], c03Pkt{sn: sn, vals: []int64{int64(sn) * 10}})
			}
		}
		groups[g] = grp
	}
	return groups, len(ticks)
}

var c03Fixed = []func() ([]*c03Group, int){
	// (a) queue [5 6] left over while the other group lags, then arrival [8]: 7 must be filled in
	func() ([]*c03Group, int) {
		return c03Scenario([][]uint32{{3, 4}, {3, 4}},
			[][][]uint32{{{5, 6}, {}}, {{8}, {5, 6, 7, 8}}})
	},
	// (b) a fill in a tick that ends with nothing to demultiplex (group 1 is trimmed to empty)
	func() ([]*c03Group, int) {
		return c03Scenario([][]uint32{{5, 6}, {3, 4}},
			[][][]uint32{{{7}, {6}}, {{}, {7}}})
	},
	// (b) a fill in a tick where another group is still empty
	func() ([]*c03Group, int) {
		return c03Scenario([][]uint32{{3, 4}, {3, 4}},
			[][][]uint32{{{6}, {}}, {{}, {5, 6}}})
	},
	// both: lagging group, losses at tick starts on both sides
	func() ([]*c03Group, int) {
		return c03Scenario([][]uint32{{3, 4}, {3, 4}, {2, 3, 4}},
			[][][]uint32{{{5, 6}, {}, {6}}, {{8, 9}, {5}, {}}, {{11}, {7, 9}, {7, 8, 9, 10, 11}}, {{}, {11}, {}}})
	},
}

// c03Build makes a real packet.  NewData increments the sequence number it was created with.
func c03Build(grp *c03Group, p c03Pkt, k int) *packets.Packet {
	pk := packets.NewPacket(10, 20, p.sn-1, grp.first)
	if p.ts {
		// timestamps proportional to the frame count, so every group reports the same sample rate
		pk.SetTimestamp(&packets.PacketTimestamp{T: 1000 + uint64(k)*uint64(grp.fpp)*8, Rate: 1e6})
	}
	var err error
	if p.wide {
		d := make([]int32, len(p.vals))
		for i, v := range p.vals {
			d[i] = int32(v)
		}
		err = pk.NewData(d, []int16{int16(grp.nchan)})
	} else {
		d := make([]int16, len(p.vals))
		for i, v := range p.vals {
			d[i] = int16(v)
		}
		err = pk.NewData(d, []int16{int16(grp.nchan)})
	}
	if err != nil {
		panic(err)
	}
	return pk
}

// c03RunOn does one acquisition of the case on the given source object.
func c03RunOn(src *dastard.VerifC03Source, c c03Case) string {
	groups, nticks, perGroup, mergeSeed, viaStartRun, f0 := c.groups, c.nticks, c.perGroup, c.mergeSeed, c.viaStartRun, c.f0
	nprod := 1
	if perGroup {
		nprod = len(groups)
	}
	mr := NewRng(mergeSeed)
	sample := make([][]*packets.Packet, nprod)
	ticks := make([][][]*packets.Packet, nprod)
	for i := range ticks {
		ticks[i] = make([][]*packets.Packet, nticks)
	}
	// merge keeps each group's order and interleaves the groups at random
	merge := func(lists [][]*packets.Packet) []*packets.Packet {
		out := []*packets.Packet{}
		pos := make([]int, len(lists))
		for {
			live := []int{}
			for i := range lists {
				if pos[i] < len(lists[i]) {
					live = append(live, i)
				}
			}
			if len(live) == 0 {
				return out
			}
			i := live[mr.Intn(len(live))]
			out = append(out, lists[i][pos[i]])
			pos[i]++
		}
	}
	if perGroup {
		for g, grp := range groups {
			for _, p := range grp.sample {
				sample[g] = append(sample[g], c03Build(grp, p, int(p.sn-grp.sample[0].sn)))
			}
			for t := 0; t < nticks; t++ {
				for _, p := range grp.ticks[t] {
					ticks[g][t] = append(ticks[g][t], c03Build(grp, p, int(p.sn-grp.sample[0].sn)))
				}
			}
		}
	} else {
		ls := make([][]*packets.Packet, len(groups))
		for g, grp := range groups {
			for _, p := range grp.sample {
				ls[g] = append(ls[g], c03Build(grp, p, int(p.sn-grp.sample[0].sn)))
			}
		}
		sample[0] = merge(ls)
		for t := 0; t < nticks; t++ {
			ls := make([][]*packets.Packet, len(groups))
			for g, grp := range groups {
				for _, p := range grp.ticks[t] {
					ls[g] = append(ls[g], c03Build(grp, p, int(p.sn-grp.sample[0].sn)))
				}
			}
			ticks[0][t] = merge(ls)
		}
	}
	blocks, err := src.Run(sample, ticks, 500*time.Microsecond, viaStartRun, f0)
	if err != nil {
		return "ERR " + strings.ReplaceAll(err.Error(), " ", "_")
	}
	var sb strings.Builder
	fmt.Fprintf(&sb, "%d", len(blocks))
	for _, b := range blocks {
		uni := 1
		for i := range b.FirstFrame {
			if b.FirstFrame[i] != b.FirstFrame[0] || b.Dropped[i] != b.Dropped[0] {
				uni = 0
			}
		}
		var ff int64
		var dr int
		if len(b.FirstFrame) > 0 {
			ff, dr = b.FirstFrame[0], b.Dropped[0]
		}
		fmt.Fprintf(&sb, " %d %d %d %d %d", b.Tick, uni, dr, ff, len(b.Data))
		for _, ch := range b.Data {
			fmt.Fprintf(&sb, " %d", len(ch))
			for _, v := range ch {
				fmt.Fprintf(&sb, " %d", v)
			}
		}
	}
	return sb.String()
}
