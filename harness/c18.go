package main

import (
	"fmt"
	"os"
	"runtime/debug"
	"strings"

	"github.com/usnistgov/dastard/ringbuffer"
)

func init() { gens["C18"] = genC18 }

// genC18 drives a real RingBuffer (POSIX shared memory; one writer handle, one reader handle)
// through generated op sequences.  Ops: W data | R n | M k | A | D k.
func genC18(r *Rng, tier string, o *Out) {
	// a fault on the memory mapping (e.g. a copy running past the end of the mapped ring) becomes a panic of
	// the operation instead of killing the process: it is then an observed output like any other panic
	defer debug.SetPanicOnFault(debug.SetPanicOnFault(true))
	n := 800
	if tier == "thorough" {
		n = 12000
	}
	for i := 0; i < n; i++ {
		capv := r.Pick(2, 3, 4, 5, 7, 8, 16, 17, 64, 100, 255, 256)
		if r.Chance(10) {
			capv = r.Range(2, 4096)
		}
		// a few rings larger than the packet size recorded in the buffer description (8192 by default), read in
		// chunks of exactly that size (and its neighbours): no chunk size is special
		big := r.Chance(3)
		if big {
			capv = r.Pick(8193, 8200, 10000, 16384, 24581)
		}
		raw := fmt.Sprintf("dvh_raw_%d_%d", os.Getpid(), i)
		desc := fmt.Sprintf("dvh_desc_%d_%d", os.Getpid(), i)
		if r.Chance(15) {
			// a LEFTOVER region of an earlier writer (closed without Unlink, e.g. after a crash or restart): a
			// ring created over it must start empty all the same
			old, _ := ringbuffer.NewRingBuffer(raw, desc)
			oldcap := r.Pick(capv, capv, 64, 100, r.Range(2, 4096))
			if err := old.Create(oldcap); err == nil {
				junk := make([]byte, r.Range(1, 2*oldcap))
				for j := range junk {
					junk[j] = 0xbb
				}
				for len(junk) > 0 {
					nw, _ := old.Write(junk)
					junk = junk[nw:]
					old.Read(r.Range(0, oldcap))
				}
				old.Close()
			}
		}
		wr, _ := ringbuffer.NewRingBuffer(raw, desc)
		if err := wr.Create(capv); err != nil {
			panic(err)
		}
		rd, _ := ringbuffer.NewRingBuffer(raw, desc)
		if err := rd.Open(); err != nil {
			panic(err)
		}
		nops := r.Range(1, 40)
		if big {
			nops = r.Range(3, 14)
		}
		pktSize := 0
		if ps, err := wr.PacketSize(); err == nil {
			pktSize = int(ps)
		}
		done := 0 // ops completed (their tokens are in sb)
		cur := "" // the op being executed, for a panic report
		panicked := ""
		var sb strings.Builder
		func() {
			defer func() {
				if e := recover(); e != nil {
					panicked = strings.ReplaceAll(cur, " ", "_")
				}
			}()
			allowRewind := r.Chance(8) // a minority of histories may contain rewinding discards
			next := byte(r.Intn(256))
			written, readpos := 0, 0 // logical positions, to steer towards full/empty and guard rewinds
			// a directed minority: writes that do not fit, reads past a stride boundary, a discard back onto
			// that boundary (the known backwards move), then a write of the true room plus a little and a
			// read of everything: after a backwards move the ring must still be a coherent FIFO
			directed := r.Chance(8) && !big
			script := []int{}
			if directed {
				allowRewind = true
				for j := r.Range(2, 4); j > 0; j-- {
					script = append(script, 45, 51) // a write of more than half the ring, then read everything
				}
				script = append(script, 95, 41, 85) // discard back onto a boundary, overfill write, read all
				nops = len(script)
			}
			for k := 0; k < nops; k++ {
				c := r.Intn(100)
				if directed && k < len(script) {
					c = script[k]
				}
				if big { // mostly writes of any length and chunk-constrained reads
					c = r.Pick(10, 10, 10, 10, 70, 70, 70, 50, 85, 95)
				}
				switch {
				case c < 40 || c == 41 || c == 45: // write
					if wr.BytesWriteable() < 0 {
						cur = "D 1"
						rd.DiscardStride(1)
						fmt.Fprintf(&sb, " D 1 %d", rd.BytesReadable()) // only after a rewind: re-empty the buffer instead
						readpos = written
						done++
						continue
					}
					var ln int
					sel := r.Intn(4)
					if c == 41 {
						sel = 1
					} else if c == 45 {
						sel = 3
					}
					switch sel {
					case 0:
						ln = wr.BytesWriteable() // exactly fill
					case 1:
						ln = wr.BytesWriteable() + r.Range(1, 5) // overfill
					default:
						ln = r.Range(0, capv)
						if c == 45 {
							ln = r.Range(capv/2, capv)
						}
					}
					d := make([]byte, ln)
					for j := range d {
						d[j] = next
						next = next*31 + 7
					}
					cur = fmt.Sprintf("W %d", len(d))
					nw, _ := wr.Write(d)
					written += nw
					fmt.Fprintf(&sb, " W %s %d", hexs(d), nw)
					if !directed && wr.BytesWriteable() == 0 && r.Chance(30) {
						// the ring is exactly full: a reader that attaches now must find every byte
						done++
						cur = "O"
						rd.Close()
						rd, _ = ringbuffer.NewRingBuffer(raw, desc)
						if err := rd.Open(); err != nil {
							panic(err)
						}
						fmt.Fprintf(&sb, " O %d", rd.BytesReadable())
					}
				case c < 65: // read n
					var sz int
					sel := r.Intn(5)
					if c == 51 {
						sel = 2
					}
					switch sel {
					case 0:
						sz = rd.BytesReadable() // exactly empty it
					case 1:
						sz = r.Range(-2, 0)
					case 2:
						sz = capv + r.Range(0, 10)
					default:
						sz = r.Range(1, capv)
					}
					cur = fmt.Sprintf("R %d", sz)
					d, _ := rd.Read(sz)
					cp := append([]byte{}, d...)
					readpos += len(cp)
					fmt.Fprintf(&sb, " R %d %s", sz, hexs(cp))
				case c < 80: // read multiple of k (k>=1; 0 divides by zero in the code: excluded)
					kk := r.Pick(1, 2, 3, 4, 8, capv-1, capv, capv+1)
					if big && pktSize > 0 {
						kk = r.Pick(pktSize, pktSize, pktSize, pktSize-1, pktSize+1, 100, capv-1)
					}
					if kk < 1 {
						kk = 1
					}
					cur = fmt.Sprintf("M %d", kk)
					d, err := rd.ReadMultipleOf(kk)
					if err != nil {
						fmt.Fprintf(&sb, " M %d E", kk)
					} else {
						cp := append([]byte{}, d...)
						readpos += len(cp)
						fmt.Fprintf(&sb, " M %d %s", kk, hexs(cp))
					}
				case c < 90: // read all
					cur = "A"
					d, _ := rd.ReadAll()
					cp := append([]byte{}, d...)
					readpos += len(cp)
					fmt.Fprintf(&sb, " A %s", hexs(cp))
				case c == 96 && !directed: // ReadMinimum: refused when k >= size, otherwise (k bytes being readable) everything
				kk := r.Pick(0, 1, rd.BytesReadable(), rd.BytesReadable()/2, capv, capv+1, capv-1)
				if kk < capv && kk > rd.BytesReadable() {
					kk = rd.BytesReadable() // never a call that would block
				}
				if kk < 0 {
					kk = 0
				}
				cur = fmt.Sprintf("N %d", kk)
				d, err := rd.ReadMinimum(kk)
				if err != nil {
					fmt.Fprintf(&sb, " N %d E", kk)
				} else {
					cp := append([]byte{}, d...)
					readpos += len(cp)
					fmt.Fprintf(&sb, " N %d %s", kk, hexs(cp))
				}
			case c == 95 && !directed && !big: // DiscardAll
				cur = "X"
				rd.DiscardAll()
				readpos = written
				fmt.Fprintf(&sb, " X %d", rd.BytesReadable())
			case c >= 97 && !directed: // the reader detaches and attaches again (Dastard stop/start): nothing may change
					cur = "O"
					rd.Close()
					rd, _ = ringbuffer.NewRingBuffer(raw, desc)
					if err := rd.Open(); err != nil {
						panic(err)
					}
					fmt.Fprintf(&sb, " O %d", rd.BytesReadable())
				default: // discard to stride (k>=1)
					kk := r.Pick(1, 2, 3, 4, 8, 16)
					if directed {
						kk = r.Pick(capv, capv, capv, capv-1, 32, 16)
						if kk < 1 {
							kk = 1
						}
					}
					np := written - written%kk
					if np < readpos && !allowRewind {
						kk = 1
						np = written
					}
					cur = fmt.Sprintf("D %d", kk)
					rd.DiscardStride(uint64(kk))
					readpos = np
					fmt.Fprintf(&sb, " D %d %d", kk, rd.BytesReadable())
				}
				done++
			}
		}()
		rd.Close()
		wr.Close()
		wr.Unlink()
		if panicked != "" {
			// a panic inside the ring buffer is an observed output: the ops completed so far, then PANIC <op>
			o.Case("cap %d ops %d%s PANIC %s", capv, done, sb.String(), panicked)
		} else {
			o.Case("cap %d ops %d%s", capv, done, sb.String())
		}
	}
	nl := 3
	if tier == "thorough" {
		nl = 10
	}
	for i := 0; i < nl; i++ {
		c18Large(r, i, o)
	}
	genRingPk(r, tier, o)
}

func c18Hash(d []byte) uint32 {
	var h uint32
	for _, b := range d {
		h = h*131 + uint32(b) + 1
	}
	return h
}

// c18Large: rings of several megabytes (the production Abaco rings are 256 MB) with reader backlogs of more than
// 4 MiB, chunk sizes that divide no power of two.  Contents do not travel through the line protocol: every
// write takes its bytes from the recurrence b -> 31b+7 and is reported as `W start len accepted`, every read
// as `length hash`; the Lean oracle regenerates the accepted stream and compares lengths and hashes.
func c18Large(r *Rng, i int, o *Out) {
	capv := r.Pick(4<<20+1+r.Range(1, 5000), 5<<20, 9000001, 8<<20+r.Range(0, 3), 6<<20+r.Range(1, 9999))
	raw := fmt.Sprintf("dvh_rawL_%d_%d", os.Getpid(), i)
	desc := fmt.Sprintf("dvh_descL_%d_%d", os.Getpid(), i)
	wr, _ := ringbuffer.NewRingBuffer(raw, desc)
	if err := wr.Create(capv); err != nil {
		panic(err)
	}
	rd, _ := ringbuffer.NewRingBuffer(raw, desc)
	if err := rd.Open(); err != nil {
		panic(err)
	}
	nops := r.Range(5, 12)
	done := 0
	cur := ""
	panicked := ""
	var sb strings.Builder
	func() {
		defer func() {
			if e := recover(); e != nil {
				panicked = strings.ReplaceAll(cur, " ", "_")
			}
		}()
		next := byte(r.Intn(256))
		written, readpos := 0, 0
		for k := 0; k < nops; k++ {
			c := r.Pick(10, 10, 10, 70, 70, 70, 50, 85, 95, 97)
			if k == 0 || (k%3 == 0 && wr.BytesWriteable() > capv/2) {
				c = 10 // build a backlog first
			}
			switch {
			case c == 10:
				var ln int
				switch r.Intn(4) {
				case 0:
					ln = wr.BytesWriteable()
				case 1:
					ln = wr.BytesWriteable() + r.Range(1, 5)
				case 2:
					ln = r.Range(capv/2, capv)
				default:
					ln = r.Range(0, capv)
				}
				d := make([]byte, ln)
				start := next
				for j := range d {
					d[j] = next
					next = next*31 + 7
				}
				cur = fmt.Sprintf("W %d", ln)
				nw, _ := wr.Write(d)
				written += nw
				// the generator continues after the ACCEPTED bytes
				next = start
				for j := 0; j < nw; j++ {
					next = next*31 + 7
				}
				fmt.Fprintf(&sb, " W %d %d %d", start, ln, nw)
			case c == 50:
				sz := r.Pick(rd.BytesReadable(), capv+r.Range(0, 10), 4<<20+r.Range(-3, 3), r.Range(1, capv), r.Range(-2, 0))
				cur = fmt.Sprintf("R %d", sz)
				d, _ := rd.Read(sz)
				readpos += len(d)
				fmt.Fprintf(&sb, " R %d %d %d", sz, len(d), c18Hash(d))
			case c == 70:
				kk := r.Pick(3000, 8192, 12345, 7, 1<<20, 4<<20-1, 4<<20+1, 1000, 8192+r.Range(-5, 5), r.Range(1, capv+2))
				cur = fmt.Sprintf("M %d", kk)
				d, err := rd.ReadMultipleOf(kk)
				if err != nil {
					fmt.Fprintf(&sb, " M %d E", kk)
				} else {
					readpos += len(d)
					fmt.Fprintf(&sb, " M %d %d %d", kk, len(d), c18Hash(d))
				}
			case c == 85:
				cur = "A"
				d, _ := rd.ReadAll()
				readpos += len(d)
				fmt.Fprintf(&sb, " A %d %d", len(d), c18Hash(d))
			case c == 97:
				cur = "O"
				rd.Close()
				rd, _ = ringbuffer.NewRingBuffer(raw, desc)
				if err := rd.Open(); err != nil {
					panic(err)
				}
				fmt.Fprintf(&sb, " O %d", rd.BytesReadable())
			default:
				kk := r.Pick(1, 3000, 8192, 4096, 12345)
				if written-written%kk < readpos {
					kk = 1
				}
				cur = fmt.Sprintf("D %d", kk)
				rd.DiscardStride(uint64(kk))
				readpos = written - written%kk
				fmt.Fprintf(&sb, " D %d %d", kk, rd.BytesReadable())
			}
			done++
		}
	}()
	rd.Close()
	wr.Close()
	wr.Unlink()
	if panicked != "" {
		o.Case("lens cap %d ops %d%s PANIC %s", capv, done, sb.String(), panicked)
	} else {
		o.Case("lens cap %d ops %d%s", capv, done, sb.String())
	}
}
