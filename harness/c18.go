package main

import (
	"fmt"
	"os"
	"strings"

	"github.com/usnistgov/dastard/ringbuffer"
)

func init() { gens["C18"] = genC18 }

// genC18 drives a real RingBuffer (POSIX shared memory; one writer handle, one reader handle)
// through generated op sequences.  Ops: W data | R n | M k | A | D k.
func genC18(r *Rng, tier string, o *Out) {
	n := 800
	if tier == "thorough" {
		n = 12000
	}
	for i := 0; i < n; i++ {
		capv := r.Pick(2, 3, 4, 5, 7, 8, 16, 17, 64, 100, 255, 256)
		if r.Chance(10) {
			capv = r.Range(2, 4096)
		}
		// a few rings larger than the packet size recorded in the buffer description (8192 by default), read in
		// chunks of exactly that size (and its neighbours): no chunk size is special
		big := r.Chance(3)
		if big {
			capv = r.Pick(8193, 8200, 10000, 16384, 24581)
		}
		raw := fmt.Sprintf("dvh_raw_%d_%d", os.Getpid(), i)
		desc := fmt.Sprintf("dvh_desc_%d_%d", os.Getpid(), i)
		if r.Chance(15) {
			// a LEFTOVER region of an earlier writer (closed without Unlink, e.g. after a crash or restart): a
			// ring created over it must start empty all the same
			old, _ := ringbuffer.NewRingBuffer(raw, desc)
			oldcap := r.Pick(capv, capv, 64, 100, r.Range(2, 4096))
			if err := old.Create(oldcap); err == nil {
				junk := make([]byte, r.Range(1, 2*oldcap))
				for j := range junk {
					junk[j] = 0xbb
				}
				for len(junk) > 0 {
					nw, _ := old.Write(junk)
					junk = junk[nw:]
					old.Read(r.Range(0, oldcap))
				}
				old.Close()
			}
		}
		wr, _ := ringbuffer.NewRingBuffer(raw, desc)
		if err := wr.Create(capv); err != nil {
			panic(err)
		}
		rd, _ := ringbuffer.NewRingBuffer(raw, desc)
		if err := rd.Open(); err != nil {
			panic(err)
		}
		nops := r.Range(1, 40)
		if big {
			nops = r.Range(3, 14)
		}
		pktSize := 0
		if ps, err := wr.PacketSize(); err == nil {
			pktSize = int(ps)
		}
		done := 0 // ops completed (their tokens are in sb)
		cur := "" // the op being executed, for a panic report
		panicked := ""
		var sb strings.Builder
		func() {
			defer func() {
				if e := recover(); e != nil {
					panicked = strings.ReplaceAll(cur, " ", "_")
				}
			}()
			allowRewind := r.Chance(8) // a minority of histories may contain rewinding discards
			next := byte(r.Intn(256))
			written, readpos := 0, 0 // logical positions, to steer towards full/empty and guard rewinds
			// a directed minority: writes that do not fit, reads past a stride boundary, a discard back onto
			// that boundary (the known backwards move), then a write of the true room plus a little and a
			// read of everything: after a backwards move the ring must still be a coherent FIFO
			directed := r.Chance(8) && !big
			script := []int{}
			if directed {
				allowRewind = true
				for j := r.Range(2, 4); j > 0; j-- {
					script = append(script, 45, 51) // a write of more than half the ring, then read everything
				}
				script = append(script, 95, 41, 85) // discard back onto a boundary, overfill write, read all
				nops = len(script)
			}
			for k := 0; k < nops; k++ {
				c := r.Intn(100)
				if directed && k < len(script) {
					c = script[k]
				}
				if big { // mostly writes of any length and chunk-constrained reads
					c = r.Pick(10, 10, 10, 10, 70, 70, 70, 50, 85, 95)
				}
				switch {
				case c < 40 || c == 41 || c == 45: // write
					if wr.BytesWriteable() < 0 {
						cur = "D 1"
						rd.DiscardStride(1)
						fmt.Fprintf(&sb, " D 1 %d", rd.BytesReadable()) // only after a rewind: re-empty the buffer instead
						readpos = written
						done++
						continue
					}
					var ln int
					sel := r.Intn(4)
					if c == 41 {
						sel = 1
					} else if c == 45 {
						sel = 3
					}
					switch sel {
					case 0:
						ln = wr.BytesWriteable() // exactly fill
					case 1:
						ln = wr.BytesWriteable() + r.Range(1, 5) // overfill
					default:
						ln = r.Range(0, capv)
						if c == 45 {
							ln = r.Range(capv/2, capv)
						}
					}
					d := make([]byte, ln)
					for j := range d {
						d[j] = next
						next = next*31 + 7
					}
					cur = fmt.Sprintf("W %d", len(d))
					nw, _ := wr.Write(d)
					written += nw
					fmt.Fprintf(&sb, " W %s %d", hexs(d), nw)
					if !directed && wr.BytesWriteable() == 0 && r.Chance(30) {
						// the ring is exactly full: a reader that attaches now must find every byte
						done++
						cur = "O"
						rd.Close()
						rd, _ = ringbuffer.NewRingBuffer(raw, desc)
						if err := rd.Open(); err != nil {
							panic(err)
						}
						fmt.Fprintf(&sb, " O %d", rd.BytesReadable())
					}
				case c < 65: // read n
					var sz int
					sel := r.Intn(5)
					if c == 51 {
						sel = 2
					}
					switch sel {
					case 0:
						sz = rd.BytesReadable() // exactly empty it
					case 1:
						sz = r.Range(-2, 0)
					case 2:
						sz = capv + r.Range(0, 10)
					default:
						sz = r.Range(1, capv)
					}
					cur = fmt.Sprintf("R %d", sz)
					d, _ := rd.Read(sz)
					cp := append([]byte{}, d...)
					readpos += len(cp)
					fmt.Fprintf(&sb, " R %d %s", sz, hexs(cp))
				case c < 80: // read multiple of k (k>=1; 0 divides by zero in the code: excluded)
					kk := r.Pick(1, 2, 3, 4, 8, capv-1, capv, capv+1)
					if big && pktSize > 0 {
						kk = r.Pick(pktSize, pktSize, pktSize, pktSize-1, pktSize+1, 100, capv-1)
					}
					if kk < 1 {
						kk = 1
					}
					cur = fmt.Sprintf("M %d", kk)
					d, err := rd.ReadMultipleOf(kk)
					if err != nil {
						fmt.Fprintf(&sb, " M %d E", kk)
					} else {
						cp := append([]byte{}, d...)
						readpos += len(cp)
						fmt.Fprintf(&sb, " M %d %s", kk, hexs(cp))
					}
				case c < 90: // read all
					cur = "A"
					d, _ := rd.ReadAll()
					cp := append([]byte{}, d...)
					readpos += len(cp)
					fmt.Fprintf(&sb, " A %s", hexs(cp))
				case c >= 97 && !directed: // the reader detaches and attaches again (Dastard stop/start): nothing may change
					cur = "O"
					rd.Close()
					rd, _ = ringbuffer.NewRingBuffer(raw, desc)
					if err := rd.Open(); err != nil {
						panic(err)
					}
					fmt.Fprintf(&sb, " O %d", rd.BytesReadable())
				default: // discard to stride (k>=1)
					kk := r.Pick(1, 2, 3, 4, 8, 16)
					if directed {
						kk = r.Pick(capv, capv, capv, capv-1, 32, 16)
						if kk < 1 {
							kk = 1
						}
					}
					np := written - written%kk
					if np < readpos && !allowRewind {
						kk = 1
						np = written
					}
					cur = fmt.Sprintf("D %d", kk)
					rd.DiscardStride(uint64(kk))
					readpos = np
					fmt.Fprintf(&sb, " D %d %d", kk, rd.BytesReadable())
				}
				done++
			}
		}()
		rd.Close()
		wr.Close()
		wr.Unlink()
		if panicked != "" {
			// a panic inside the ring buffer is an observed output: the ops completed so far, then PANIC <op>
			o.Case("cap %d ops %d%s PANIC %s", capv, done, sb.String(), panicked)
		} else {
			o.Case("cap %d ops %d%s", capv, done, sb.String())
		}
	}
}
