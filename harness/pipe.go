package main

// Pipeline harness shared by C01, C02, C08: a scripted source (real AnySource) prepared by the real
// PrepareRun, configured through the real SourceControl RPC methods, fed block by block through the
// real ProcessSegments.  Every published record is captured and written to the case line.

import (
	"fmt"
	"strings"
	"time"

	"github.com/spf13/viper"
	"github.com/usnistgov/dastard"
)

type tsSpec struct {
	auto                       bool
	autoDelaySamples           int
	autoVeto                   int
	level, levelRising         bool
	levelLevel                 int
	edge, edgeRising, edgeFall bool
	edgeLevel                  int
	edgeMulti                  bool
	// compat fields
	noise, contaminated, short, disableZT bool
	emLevel, emNMono                      int
}

func (t tsSpec) triggerState(periodNs int64) dastard.TriggerState {
	var s dastard.TriggerState
	s.AutoTrigger = t.auto
	s.AutoDelay = time.Duration(int64(t.autoDelaySamples) * periodNs)
	s.AutoVetoRange = dastard.RawType(t.autoVeto)
	s.LevelTrigger = t.level
	s.LevelRising = t.levelRising
	s.LevelLevel = dastard.RawType(t.levelLevel)
	s.EdgeTrigger = t.edge
	s.EdgeRising = t.edgeRising
	s.EdgeFalling = t.edgeFall
	s.EdgeLevel = int32(t.edgeLevel)
	s.EdgeMulti = t.edgeMulti
	s.EdgeMultiNoise = t.noise
	s.EdgeMultiMakeContaminatedRecords = t.contaminated
	s.EdgeMultiMakeShortRecords = t.short
	s.EdgeMultiDisableZeroThreshold = t.disableZT
	s.EdgeMultiLevel = int32(t.emLevel)
	s.EdgeMultiVerifyNMonotone = t.emNMono
	return s
}

// tsLine: the 11 TS integers; the auto delay in samples is computed with the code's own expression
func (t tsSpec) tsLine(periodNs int64, rate float64) string {
	d := time.Duration(int64(t.autoDelaySamples) * periodNs)
	ads := int(d.Seconds()*rate + 0.5)
	return fmt.Sprintf("%d %d %d %d %d %d %d %d %d %d %d", b2i(t.auto), ads, t.autoVeto, b2i(t.level), b2i(t.levelRising),
		t.levelLevel, b2i(t.edge), b2i(t.edgeRising), b2i(t.edgeFall), t.edgeLevel, b2i(t.edgeMulti))
}

func (t tsSpec) compatLine() string {
	return fmt.Sprintf("%d %d %d %d %d %d", b2i(t.noise), b2i(t.contaminated), b2i(t.short), b2i(t.disableZT), t.emLevel, t.emNMono)
}

type pipeOp struct {
	kind  string // T L GA GD GS B
	chans []int
	ts    tsSpec
	nsamp int
	npre  int
	pairs [][2]int
	first int64
	t0    int64
	data  [][]dastard.RawType
}

type pipeCase struct {
	nch      int
	rate     float64
	periodNs int64
	npre     int
	nsamp    int
	saved    map[int]tsSpec
	signed   []bool
	ops      []pipeOp
	streams  [][]dastard.RawType // ground truth per channel (concatenation of the block data)
	zt       bool                // compute the zero-threshold table
}

func (c *pipeCase) input() string {
	var sb strings.Builder
	fmt.Fprintf(&sb, "nch %d npre %d nsamp %d saved %d", c.nch, c.npre, c.nsamp, len(c.saved))
	for ch := 0; ch < c.nch; ch++ {
		if ts, ok := c.saved[ch]; ok {
			fmt.Fprintf(&sb, " %d %s", ch, ts.tsLine(c.periodNs, c.rate))
		}
	}
	sb.WriteString(" zt")
	var f0 int64
	for _, op := range c.ops {
		if op.kind == "B" {
			f0 = op.first
			break
		}
	}
	for ch := 0; ch < c.nch; ch++ {
		var ps [][2]int
		if c.zt {
			g := c.streams[ch]
			for p := 4; p+3 < len(g); p++ {
				sh := int(dastard.VerifZeroThreshold(g, int32(p))) - p
				if sh != 0 {
					ps = append(ps, [2]int{int(f0) + p, sh})
				}
			}
		}
		sb.WriteString(" " + pairsStr(ps))
	}
	fmt.Fprintf(&sb, " ops %d", len(c.ops))
	for _, op := range c.ops {
		switch op.kind {
		case "T":
			fmt.Fprintf(&sb, " T %s %s %s", ints(op.chans), op.ts.tsLine(c.periodNs, c.rate), op.ts.compatLine())
		case "L":
			fmt.Fprintf(&sb, " L %d %d", op.nsamp, op.npre)
		case "GA", "GD":
			fmt.Fprintf(&sb, " %s %s", op.kind, pairsStr(op.pairs))
		case "GS":
			sb.WriteString(" GS")
		case "B":
			fmt.Fprintf(&sb, " B %d %d %d", op.first, op.t0, c.periodNs)
			for ch := 0; ch < c.nch; ch++ {
				fmt.Fprintf(&sb, " %d", b2i(c.signed[ch]))
			}
			for ch := 0; ch < c.nch; ch++ {
				sb.WriteString(" " + ints(op.data[ch]))
			}
		}
	}
	return sb.String()
}

func recsStr(nch int, recs map[int][]dastard.VerifRecord) string {
	var sb strings.Builder
	sb.WriteString("R")
	for ch := 0; ch < nch; ch++ {
		rs := recs[ch]
		fmt.Fprintf(&sb, " %d", len(rs))
		for _, r := range rs {
			fmt.Fprintf(&sb, " %d %d %d %d %s", r.TrigFrame, r.TrigTimeNs, r.Presamples, b2i(r.Signed), ints(r.Data))
		}
	}
	return sb.String()
}

// callRPC runs an RPC method in a goroutine and services the request queue like the core loop does.
func callRPC(sc *dastard.SourceControl, call func() error) error {
	done := make(chan error, 1)
	go func() { done <- call() }()
	for {
		select {
		case f := <-sc.VerifQueue():
			f()
		case err := <-done:
			return err
		}
	}
}

// run executes the case against the real code; the result is the OUT part of the line.
func (c *pipeCase) run() string {
	dastard.VerifStartClientDrain()
	var fts []dastard.FullTriggerState
	for ch := 0; ch < c.nch; ch++ {
		if ts, ok := c.saved[ch]; ok {
			fts = append(fts, dastard.FullTriggerState{ChannelIndices: []int{ch}, TriggerState: ts.triggerState(c.periodNs)})
		}
	}
	viper.Set("trigger", fts)
	vs := dastard.NewVerifSource(c.nch, c.rate)
	if err := vs.VerifPrepare(c.npre, c.nsamp); err != nil {
		return "PANIC prepare-error"
	}
	sc := dastard.VerifNewSourceControl(vs, c.npre, c.nsamp)
	var sb strings.Builder
	fmt.Fprintf(&sb, "%d", len(c.ops))
	for _, op := range c.ops {
		switch op.kind {
		case "T":
			fts := dastard.FullTriggerState{ChannelIndices: op.chans, TriggerState: op.ts.triggerState(c.periodNs)}
			var reply bool
			err := callRPC(sc, func() error { return sc.ConfigureTriggers(&fts, &reply) })
			fmt.Fprintf(&sb, " E %d", b2i(err != nil))
		case "L":
			var reply bool
			err := callRPC(sc, func() error {
				return sc.ConfigurePulseLengths(dastard.SizeObject{Nsamp: op.nsamp, Npre: op.npre}, &reply)
			})
			fmt.Fprintf(&sb, " E %d", b2i(err != nil))
		case "GA", "GD":
			conn := make(map[int][]int)
			for _, p := range op.pairs {
				conn[p[0]] = append(conn[p[0]], p[1])
			}
			gts := dastard.GroupTriggerState{Connections: conn}
			vs.ChangeGroupTrigger(op.kind == "GA", &gts)
			sb.WriteString(" E 0")
		case "GS":
			vs.StopTriggerCoupling()
			sb.WriteString(" E 0")
		case "B":
			data := make([][]dastard.RawType, c.nch)
			for ch := range data {
				data[ch] = append([]dastard.RawType{}, op.data[ch]...)
			}
			recs, err := vs.VerifProcessBlock(op.first, op.t0, c.periodNs, data, c.signed, nil, 0)
			if err != nil {
				return "PANIC process-error"
			}
			sb.WriteString(" " + recsStr(c.nch, recs))
		}
	}
	return sb.String()
}

// ---------------------------------------------------------------------------------------------
// generators

// genStream makes one channel's ground-truth stream of n samples.
// genStream keeps the original signature (other generators use it).
func genStream(r *Rng, n int, nsamp int, signed bool) []dastard.RawType {
	return genStreamHot(r, n, nsamp, signed, false)
}

func genStreamHot(r *Rng, n int, nsamp int, signed bool, hot bool) []dastard.RawType {
	g := make([]dastard.RawType, n)
	kind := r.Intn(7)
	if hot { // edge-rich streams (C02 / C08 profiles)
		kind = r.Pick(1, 2, 6, 7, 7, 7, 3, 5, 0)
	}
	rising := 0      // kind 7: samples of rise left
	riseStep := 0.0
	gapLeft := 0
	base := r.Pick(1000, 5000, 30000, 32700, 60000, 100)
	if signed {
		base = r.Pick(0, 100, 65000, 32000, 33000)
	}
	noise := r.Pick(0, 0, 1, 3, 20)
	level := float64(base)
	pulse := 0.0
	decay := 0.7 + float64(r.Intn(25))/100
	for i := 0; i < n; i++ {
		switch kind {
		case 0: // flat + noise
		case 1, 2: // pulses
			if r.Intn(max1(nsamp/2)) == 0 {
				pulse += float64(r.Pick(50, 200, 1000, 5000) * r.Pick(1, 1, 1, -1))
			}
			pulse *= decay
		case 3: // steps
			if r.Intn(max1(nsamp)) == 0 {
				level += float64(r.Range(-3000, 3000))
			}
		case 4: // ramp
			level += float64(r.Range(-3, 6))
		case 5: // extremes
			level = float64(r.Pick(0, 65535, 32767, 32768, 1, 65534, base))
		case 6: // dense edges: many qualifying samples close together
			if r.Intn(3) == 0 {
				pulse += float64(r.Pick(150, 400, -200))
			}
			pulse *= 0.5
		case 7: // pulses with a finite rise time (monotone runs), sometimes in close pairs
			if rising > 0 {
				pulse += riseStep
				rising--
			} else {
				pulse *= decay
				if gapLeft > 0 {
					gapLeft--
				} else if r.Intn(max1(nsamp/3)) == 0 {
					rising = r.Range(1, 5)
					riseStep = float64(r.Pick(60, 120, 350, 1500) * r.Pick(1, 1, 1, -1))
					gapLeft = r.Pick(0, 0, 1, 2, nsamp/2, nsamp)
				}
			}
		}
		v := int(level+pulse) + r.Range(-noise, noise)
		v = ((v % 65536) + 65536) % 65536
		g[i] = dastard.RawType(v)
	}
	return g
}

func max1(x int) int {
	if x < 1 {
		return 1
	}
	return x
}

// partition cuts n samples into block lengths drawn from a set built around npre/nsamp.
func partition(r *Rng, n, npre, nsamp int) []int {
	style := r.Intn(5)
	var out []int
	rem := n
	for rem > 0 {
		var l int
		switch style {
		case 0: // tiny blocks
			l = r.Pick(1, 1, 2, 3)
		case 1: // around a record
			l = r.Pick(npre-1, npre, npre+1, nsamp-1, nsamp, nsamp+1, nsamp-npre, 2*nsamp+9, 2*nsamp+10, 2*nsamp+11)
		case 2: // mixed
			l = r.Pick(1, 2, 3, npre, nsamp, 2*nsamp+10, 3*nsamp, r.Range(1, 3*nsamp))
		case 3: // large
			l = r.Range(nsamp, 4*nsamp)
		default: // one block
			l = rem
		}
		if l < 1 {
			l = 1
		}
		if l > rem {
			l = rem
		}
		out = append(out, l)
		rem -= l
	}
	return out
}

func genTS(r *Rng, nsamp int, allowEMT bool, onlyEMT bool) tsSpec {
	var t tsSpec
	if onlyEMT || (allowEMT && r.Chance(20)) {
		t.edgeMulti = true
		t.emLevel = r.Pick(50, 100, 300, -100, -50, 1, 0)
		t.emNMono = r.Pick(0, 1, 1, 2, 3)
		switch r.Intn(3) {
		case 0:
			t.contaminated = true
		case 1:
			t.short = true
		}
		t.disableZT = r.Chance(50)
		if r.Chance(3) {
			t.noise = true
		}
		if r.Chance(3) {
			t.contaminated, t.short = true, true
		}
		return t
	}
	mask := r.Range(1, 7)
	if mask&1 != 0 {
		t.edge = true
		t.edgeRising = r.Chance(70)
		t.edgeFall = !t.edgeRising || r.Chance(30)
		t.edgeLevel = r.Pick(20, 100, 400, 2000, 1)
	}
	if mask&2 != 0 {
		t.level = true
		t.levelRising = r.Chance(70)
		t.levelLevel = r.Pick(1100, 5200, 30100, 100, 65000, 32768, 0, 150)
	}
	if mask&4 != 0 {
		t.auto = true
		t.autoDelaySamples = r.Pick(0, 1, nsamp/2, nsamp, nsamp+1, 2*nsamp, 3*nsamp+7)
		if r.Chance(30) {
			t.autoVeto = r.Pick(1, 10, 100, 1000, 65535)
		}
	}
	return t
}

// genPipe builds a case. profile: "C01" (everything), "C02" (edge/level/auto, control histories),
// "C08" (edge-multi only).
func genPipe(r *Rng, tier string, profile string) *pipeCase {
	c := &pipeCase{}
	// profile C09: the C01 pipeline with group-trigger connections always present (chains, fans, cycles,
	// self loops), edited between blocks, on trigger-rich streams of 2..4 channels
	c09 := profile == "C09"
	if c09 {
		profile = "C01"
	}
	c.nch = r.Pick(1, 1, 2, 2, 3)
	if c09 {
		c.nch = r.Pick(2, 2, 3, 3, 4)
	}
	if profile == "C08" {
		c.nch = r.Pick(1, 1, 2)
	}
	// directed share of C08: a trigger storm - an edge every other sample, so that ONE block holds well over
	// a thousand triggers while the same samples cut into blocks hold a few hundred each
	storm := profile == "C08" && r.Chance(1)
	if storm {
		c.nch = 1
	}
	// directed share of C08: RECONFIGURATION in mid-stream (pulse lengths - also the pre-trigger length alone -
	// or the edge-multi settings again) while edges are pending: no crash, records exact, and between two
	// requests the records must not depend on how the stream is cut into blocks
	reconf := profile == "C08" && !storm && r.Chance(15)
	// directed share of C01: an edge-multi channel is the group-trigger SOURCE of channels that are in
	// another trigger mode (their secondaries are cut at frames found by the edge-multi search, possibly
	// one block late) - needs every channel to retain the same history
	mixed := profile == "C01" && r.Chance(12) && !c09
	if mixed {
		c.nch = r.Pick(2, 2, 3)
	}
	c.rate = float64(r.Pick(1000, 10000, 100000, 125000))
	c.periodNs = int64(1e9 / c.rate)
	sizes := [][2]int{{3, 4}, {3, 8}, {4, 8}, {4, 9}, {5, 12}, {6, 15}, {8, 20}, {10, 40}, {16, 64}}
	if tier == "thorough" && r.Chance(15) {
		sizes = [][2]int{{64, 256}, {100, 400}, {30, 100}}
	}
	sz := sizes[r.Intn(len(sizes))]
	if storm {
		sz = [2]int{3, 4}
	}
	c.npre, c.nsamp = sz[0], sz[1]
	c.signed = make([]bool, c.nch)
	for ch := range c.signed {
		c.signed[ch] = r.Chance(30)
	}
	total := r.Range(c.nsamp, 12*c.nsamp)
	if mixed {
		total = r.Range(6*c.nsamp, 16*c.nsamp)
	}
	if profile != "C01" {
		total = r.Range(3*c.nsamp, 30*c.nsamp)
	}
	if r.Chance(20) && (profile == "C01" || r.Chance(40)) {
		total = r.Range(1, 3*c.nsamp)
	}
	if c09 {
		total = r.Range(4*c.nsamp, 20*c.nsamp)
	}
	if storm {
		total = r.Range(2300, 3400)
	}
	c.streams = make([][]dastard.RawType, c.nch)
	for ch := range c.streams {
		c.streams[ch] = genStreamHot(r, total, c.nsamp, c.signed[ch], (profile != "C01" && r.Chance(80)) || mixed || (c09 && r.Chance(85)))
	}
	if storm {
		base := r.Pick(1000, 20000)
		if c.signed[0] {
			base = 100
		}
		for i := range c.streams[0] {
			v := base
			if i%2 == 1 {
				v = base + 500
			}
			c.streams[0][i] = dastard.RawType(v)
		}
	}
	// start of the run: restored settings and/or a ConfigureTriggers request
	c.saved = map[int]tsSpec{}
	allowEMT := profile != "C02"
	onlyEMT := profile == "C08"
	startStyle := r.Intn(4)
	if profile == "C08" {
		startStyle = 1
	}
	if mixed {
		startStyle = 4 // handled below
	}
	if startStyle == 0 || startStyle == 3 { // restored settings
		for ch := 0; ch < c.nch; ch++ {
			if r.Chance(80) {
				c.saved[ch] = genTS(r, c.nsamp, false, false)
			}
		}
	}
	allChans := func() []int {
		out := make([]int, c.nch)
		for i := range out {
			out[i] = i
		}
		return out
	}
	if mixed {
		c.ops = append(c.ops, pipeOp{kind: "T", chans: []int{0}, ts: genTS(r, c.nsamp, true, true)})
		rest := allChans()[1:]
		if r.Chance(70) {
			c.ops = append(c.ops, pipeOp{kind: "T", chans: rest, ts: genTS(r, c.nsamp, false, false)})
		}
		ps := [][2]int{{0, 1}}
		if c.nch > 2 && r.Chance(60) {
			ps = append(ps, [2]int{0, 2})
		}
		c.ops = append(c.ops, pipeOp{kind: "GA", pairs: ps})
	} else if storm {
		t := tsSpec{edgeMulti: true, emLevel: 100, emNMono: r.Pick(0, 1), disableZT: true}
		if r.Chance(50) {
			t.contaminated = true
		} else {
			t.short = true
		}
		c.ops = append(c.ops, pipeOp{kind: "T", chans: allChans(), ts: t})
	} else if startStyle >= 1 { // explicit configuration before the first block
		c.ops = append(c.ops, pipeOp{kind: "T", chans: allChans(), ts: genTS(r, c.nsamp, allowEMT, onlyEMT)})
		if c.nch > 1 && r.Chance(40) && !onlyEMT {
			c.ops = append(c.ops, pipeOp{kind: "T", chans: []int{r.Intn(c.nch)}, ts: genTS(r, c.nsamp, allowEMT, false)})
		}
		if r.Chance(8) { // a request with a channel index outside [0, nch): must be refused and change nothing
			bad := append(allChans(), r.Pick(-1, c.nch, c.nch+3, -7))
			k := r.Intn(len(bad)) // the offending index at a random position
			bad[k], bad[len(bad)-1] = bad[len(bad)-1], bad[k]
			c.ops = append(c.ops, pipeOp{kind: "T", chans: bad, ts: genTS(r, c.nsamp, allowEMT, false)})
		}
	}
	if profile == "C01" && c.nch > 1 && (r.Chance(50) || c09) {
		np := r.Range(1, 3)
		if c09 {
			np = r.Range(1, 5)
		}
		var ps [][2]int
		for i := 0; i < np; i++ {
			ps = append(ps, [2]int{r.Intn(c.nch), r.Intn(c.nch)})
		}
		c.ops = append(c.ops, pipeOp{kind: "GA", pairs: ps})
	}
	// blocks, with control requests in between
	first := int64(r.Pick(0, 0, 1000, 123456789, 1<<40))
	if profile == "C02" && r.Chance(70) {
		first = int64(r.Pick(1000, 123456789, 1<<40)) // away from the frame-0 pseudo trigger
	}
	curNpre, curNsamp := c.npre, c.nsamp
	// directed share (C02, C01): a FRESH start on restored settings only, and before the first block - before any
	// trigger - the records are made LONGER (ConfigurePulseLengths): the search must still begin at the new
	// pre-trigger length, whatever the record length was when the channel was created; mostly from frame 0
	if (profile == "C02" || profile == "C01") && startStyle == 0 && len(c.ops) == 0 && r.Chance(40) {
		var longer [][2]int
		for _, s2 := range sizes {
			if s2[1]-c.nsamp > s2[0] {
				longer = append(longer, s2)
			}
		}
		if len(longer) > 0 {
			s2 := longer[r.Intn(len(longer))]
			c.ops = append(c.ops, pipeOp{kind: "L", nsamp: s2[1], npre: s2[0]})
			curNpre, curNsamp = s2[0], s2[1]
			if r.Chance(75) {
				first = int64(r.Pick(0, 0, 0, 1, 5))
			}
		}
	}
	t0 := int64(1700000000)*1e9 + int64(r.Intn(1000000))
	parts := partition(r, total, c.npre, c.nsamp)
	jitter := profile == "C01" && r.Chance(35)
	pos := 0
	for _, l := range parts {
		if pos > 0 && c09 && r.Chance(12) { // connection edits between blocks
			c.ops = append(c.ops, pipeOp{kind: []string{"GA", "GD"}[r.Intn(2)], pairs: [][2]int{{r.Intn(c.nch), r.Intn(c.nch)}}})
		}
		if pos > 0 && reconf && r.Chance(30) {
			switch r.Intn(4) {
			case 0: // the pre-trigger length alone
				c.ops = append(c.ops, pipeOp{kind: "L", nsamp: curNsamp, npre: r.Range(1, curNsamp-1)})
			case 1:
				s2 := sizes[r.Intn(len(sizes))]
				c.ops = append(c.ops, pipeOp{kind: "L", nsamp: s2[1], npre: s2[0]})
				curNpre, curNsamp = s2[0], s2[1]
			case 2:
				c.ops = append(c.ops, pipeOp{kind: "L", nsamp: curNsamp, npre: curNpre}) // re-sent
			default:
				c.ops = append(c.ops, pipeOp{kind: "T", chans: allChans(), ts: genTS(r, curNsamp, true, true)})
			}
		}
		if pos > 0 && r.Chance(6) && profile != "C08" {
			switch r.Intn(5) {
			case 0, 1:
				c.ops = append(c.ops, pipeOp{kind: "T", chans: allChans(), ts: genTS(r, curNsamp, allowEMT, onlyEMT)})
			case 2:
				if r.Chance(50) {
					c.ops = append(c.ops, pipeOp{kind: "L", nsamp: curNsamp, npre: curNpre}) // no change
				} else {
					s2 := sizes[r.Intn(len(sizes))]
					c.ops = append(c.ops, pipeOp{kind: "L", nsamp: s2[1], npre: s2[0]})
					curNpre, curNsamp = s2[0], s2[1]
				}
			case 3:
				if profile == "C01" {
					c.ops = append(c.ops, pipeOp{kind: "GS"})
				}
				if c09 { // and connect again
					c.ops = append(c.ops, pipeOp{kind: "GA", pairs: [][2]int{{r.Intn(c.nch), r.Intn(c.nch)}, {r.Intn(c.nch), r.Intn(c.nch)}}})
				}
			case 4:
				c.ops = append(c.ops, pipeOp{kind: "L", nsamp: r.Pick(0, 2, 3, 5, -1), npre: r.Pick(0, 1, 2, 3, 7)}) // mostly invalid
			}
		}
		data := make([][]dastard.RawType, c.nch)
		for ch := range data {
			data[ch] = c.streams[ch][pos : pos+l]
		}
		// the time stamp a block carries is the read-out's own clock reading: in a share of the cases it is not
		// exactly on the frame grid of the first block (jitter, drift) - records must be stamped from THEIR block
		bt := t0 + int64(pos)*c.periodNs
		if jitter {
			bt += int64(r.Range(-3000, 3000))
		}
		c.ops = append(c.ops, pipeOp{kind: "B", first: first + int64(pos), t0: bt, data: data})
		pos += l
	}
	for _, op := range c.ops {
		if op.kind == "T" && op.ts.edgeMulti && !op.ts.disableZT {
			c.zt = true
		}
	}
	return c
}

// oneBlock is the same case with all data blocks merged into a single block (requests that
// precede the first block are kept; consecutive blocks between two requests are merged).
func (c *pipeCase) oneBlock() *pipeCase {
	d := *c
	d.ops = nil
	var merged *pipeOp
	for _, op := range c.ops {
		if op.kind != "B" {
			// a request between blocks (reconfiguration cases): the blocks before it are one block, those after
			// it the next
			if merged != nil {
				d.ops = append(d.ops, *merged)
				merged = nil
			}
			d.ops = append(d.ops, op)
			continue
		}
		if merged == nil {
			m := pipeOp{kind: "B", first: op.first, t0: op.t0, data: make([][]dastard.RawType, c.nch)}
			merged = &m
		}
		for ch := range op.data {
			merged.data[ch] = append(merged.data[ch], op.data[ch]...)
		}
	}
	if merged != nil {
		d.ops = append(d.ops, *merged)
	}
	return &d
}

func pipeCount(quick, thorough int) func(string) int {
	return func(tier string) int {
		if tier == "thorough" {
			return thorough
		}
		return quick
	}
}

func init() {
	caseGens["C01"] = caseGen{count: pipeCount(400, 12000), gen: func(r *Rng, tier string, idx int) (string, func() string) {
		c := genPipe(r, tier, "C01")
		return c.input(), c.run
	}}
	caseGens["C09"] = caseGen{count: pipeCount(250, 1500), gen: func(r *Rng, tier string, idx int) (string, func() string) {
		c := genPipe(r, tier, "C09")
		return "pipe " + c.input(), c.run
	}}
	caseGens["C02"] = caseGen{count: pipeCount(500, 12000), gen: func(r *Rng, tier string, idx int) (string, func() string) {
		c := genPipe(r, tier, "C02")
		return c.input(), c.run
	}}
	caseGens["C08"] = caseGen{count: pipeCount(500, 12000), gen: func(r *Rng, tier string, idx int) (string, func() string) {
		c := genPipe(r, tier, "C08")
		return c.input(), func() string {
			many := c.run()
			if strings.HasPrefix(many, "PANIC") {
				return many
			}
			one := c.oneBlock().run()
			if strings.HasPrefix(one, "PANIC") {
				return one
			}
			return many + " ONE " + one
		}
	}}
}
