package main

// C20 — run-log side files (external_trigger.bin, data_drop.txt, experiment_state.txt).
// A prepared scripted source; blocks carrying external-trigger row counts and a dropped-frame count
// go through the real ProcessSegments (-> HandleExternalTriggers / HandleDataDrop); START / STOP /
// PAUSE / UNPAUSE [label] through the real SourceControl.WriteControl, state labels through the real
// SourceControl.SetExperimentStateLabel (WaitForError).  Whenever a STOP ends a run the three files
// of that run are read back from disk; at the end of the history all of them are read again.

import (
	"bytes"
	"encoding/binary"
	"fmt"
	"os"
	"path/filepath"
	"regexp"
	"strconv"
	"strings"
	"time"

	"github.com/spf13/viper"
	"github.com/usnistgov/dastard"
)

type c20Op struct {
	kind     string // Q L T B
	ts       int64  // T: the time stamp handed to AnySource.SetExperimentStateLabel
	req      string
	l22      bool
	off, l3  bool
	label    string
	nsamples int
	first    int64
	dropped  int
	ext      []int64
}

type c20Case struct {
	idx  int
	nch  int
	proj []bool // channels with projectors (only those get an OFF writer)
	ops  []c20Op
}

func (c *c20Case) input() string {
	var sb strings.Builder
	fmt.Fprintf(&sb, "nch %d proj", c.nch)
	anyProj := false
	for ch := 0; ch < c.nch; ch++ {
		p := ch < len(c.proj) && c.proj[ch]
		anyProj = anyProj || p
		fmt.Fprintf(&sb, " %d", b2i(p))
	}
	fmt.Fprintf(&sb, " ops %d", len(c.ops))
	for _, op := range c.ops {
		switch op.kind {
		case "Q":
			// valid: a START with these file types can be carried out (some type; OFF only with projectors on some channel)
			valid := (op.l22 || op.l3 || op.off) && (!op.off || anyProj)
			fmt.Fprintf(&sb, " Q %s %d %d %d %d", hexs([]byte(op.req)), b2i(valid), b2i(op.l22), b2i(op.off), b2i(op.l3))
		case "L":
			fmt.Fprintf(&sb, " L %s", hexs([]byte(op.label)))
		case "T":
			fmt.Fprintf(&sb, " T %d %s", op.ts, hexs([]byte(op.label)))
		case "B":
			fmt.Fprintf(&sb, " B %d %d %s", op.first, op.dropped, ints(op.ext))
		}
	}
	return sb.String()
}

var c20StateLine = regexp.MustCompile(`^([0-9]+), (.*)$`)

// Explicit time stamps are chosen outside any plausible wall-clock window: "past" ones around
// 10^18 ns (2001), "future" ones around 4*10^18 ns (2096), and a few tiny ones.
const c20Past, c20Future = int64(1000000000000000000), int64(4000000000000000000)

// c20ReadRun reads the three side files that belong to a file pattern and renders them canonically:
//
//	X present hdr n v1..vn | P present hdr n (first dropped)* | T present hdr n line*
//
// where a state line is "<stamp> <hex of its label>", or b<hex of the line> when it is not
// "<digits>, <label>"; <stamp> is w when the time stamp lies in the wall-clock window [t0, now] of
// the case (the code stamped the line itself), else its decimal value.
func c20ReadRun(pattern string, t0 int64) string {
	var sb strings.Builder
	// external triggers
	if b, err := os.ReadFile(fmt.Sprintf(pattern, "external_trigger", "bin")); err != nil {
		sb.WriteString("X 0 0 0")
	} else {
		k := bytes.IndexByte(b, '\n')
		hdr := k >= 0 && len(b) > 0 && b[0] == '#' && (len(b)-k-1)%8 == 0
		var vals []int64
		if hdr {
			for p := k + 1; p+8 <= len(b); p += 8 {
				vals = append(vals, int64(binary.LittleEndian.Uint64(b[p:])))
			}
		}
		fmt.Fprintf(&sb, "X 1 %d %s", b2i(hdr), ints(vals))
	}
	// data drops
	if b, err := os.ReadFile(fmt.Sprintf(pattern, "data_drop", "txt")); err != nil {
		sb.WriteString(" P 0 0 0")
	} else {
		lines := strings.Split(string(b), "\n")
		hdr := len(lines) > 0 && strings.HasPrefix(lines[0], "#") && lines[len(lines)-1] == ""
		var out []int64
		if hdr {
			for _, ln := range lines[1 : len(lines)-1] {
				var f, d int64
				if n, err := fmt.Sscanf(ln, "%d %d", &f, &d); n != 2 || err != nil {
					hdr = false
					break
				}
				out = append(out, f, d)
			}
		}
		if !hdr {
			out = nil
		}
		fmt.Fprintf(&sb, " P 1 %d %d", b2i(hdr), len(out)/2)
		for _, v := range out {
			fmt.Fprintf(&sb, " %d", v)
		}
	}
	// experiment state
	if b, err := os.ReadFile(fmt.Sprintf(pattern, "experiment_state", "txt")); err != nil {
		sb.WriteString(" T 0 0 0")
	} else {
		lines := strings.Split(string(b), "\n")
		hdr := len(lines) > 0 && strings.HasPrefix(lines[0], "#") && lines[len(lines)-1] == ""
		if !hdr {
			sb.WriteString(" T 1 0 0")
		} else {
			body := lines[1 : len(lines)-1]
			fmt.Fprintf(&sb, " T 1 1 %d", len(body))
			for _, ln := range body {
				if m := c20StateLine.FindStringSubmatch(ln); m != nil {
					stamp := m[1]
					if v, err := strconv.ParseInt(m[1], 10, 64); err == nil && v >= t0 && v <= time.Now().UnixNano() {
						stamp = "w"
					}
					fmt.Fprintf(&sb, " %s %s", stamp, hexs([]byte(m[2])))
				} else {
					fmt.Fprintf(&sb, " b%s", hexs([]byte(ln)))
				}
			}
		}
	}
	return sb.String()
}

func (c *c20Case) run() string {
	dastard.VerifStartClientDrain()
	wall0 := time.Now().UnixNano()
	root := c06Workdir("c20", c.idx)
	os.RemoveAll(root)
	if err := os.MkdirAll(root, 0755); err != nil {
		return "PANIC workdir"
	}
	defer os.RemoveAll(root)
	viper.Set("trigger", []dastard.FullTriggerState{})
	vs := dastard.NewVerifSource(c.nch, 10000)
	if err := vs.VerifPrepare(3, 8); err != nil {
		return "PANIC prepare-error"
	}
	for ch, p := range c.proj {
		if p && ch < c.nch {
			if err := vs.VerifC06LoadProjectors(ch, c06NBases); err != nil {
				return "PANIC projectors-error"
			}
		}
	}
	sc := dastard.VerifNewSourceControl(vs, 3, 8)
	var sb strings.Builder
	fmt.Fprintf(&sb, "%d", len(c.ops))
	var patterns []string
	t0 := int64(1700000000) * 1e9
	signed := make([]bool, c.nch)
	for _, op := range c.ops {
		switch op.kind {
		case "Q":
			before := vs.ComputeWritingState()
			cfg := dastard.WriteControlConfig{Request: op.req, WriteLJH22: op.l22, WriteOFF: op.off, WriteLJH3: op.l3,
				Path: filepath.Join(root, "p0")}
			var reply bool
			err := callRPC(sc, func() error { return sc.WriteControl(&cfg, &reply) })
			fmt.Fprintf(&sb, " E %d", b2i(err != nil))
			after := vs.ComputeWritingState()
			if before.Active && !after.Active { // a run ended: read its files
				patterns = append(patterns, before.FilenamePattern)
				fmt.Fprintf(&sb, " RUN %s FD %d", c20ReadRun(before.FilenamePattern, wall0), c06OpenFds(root))
			}
		case "L":
			cfg := dastard.StateLabelConfig{Label: op.label, WaitForError: true}
			var reply bool
			err := callRPC(sc, func() error { return sc.SetExperimentStateLabel(&cfg, &reply) })
			fmt.Fprintf(&sb, " E %d", b2i(err != nil))
		case "T": // the exported AnySource method, with the caller's own time stamp
			err := vs.SetExperimentStateLabel(time.Unix(0, op.ts), op.label)
			fmt.Fprintf(&sb, " E %d", b2i(err != nil))
		case "B":
			data := make([][]dastard.RawType, c.nch)
			for ch := range data {
				data[ch] = make([]dastard.RawType, op.nsamples)
			}
			if _, err := vs.VerifProcessBlock(op.first, t0, 100000, data, signed, op.ext, op.dropped); err != nil {
				return "PANIC process-error"
			}
			t0 += int64(op.nsamples) * 100000
			sb.WriteString(" -")
		}
	}
	// the files of finished runs must not have changed since their STOP
	fmt.Fprintf(&sb, " FINAL %d", len(patterns))
	for _, p := range patterns {
		fmt.Fprintf(&sb, " RUN %s", c20ReadRun(p, wall0))
	}
	var reply bool
	stop := dastard.WriteControlConfig{Request: "STOP"}
	callRPC(sc, func() error { return sc.WriteControl(&stop, &reply) })
	return sb.String()
}

// ---------------------------------------------------------------------------------------------

// c20Label: a state label is an arbitrary single-line byte string and must reach the file verbatim.
func c20Label(r *Rng) string {
	if r.Chance(35) { // characters that mean something to printf, to a shell, to a CSV reader, to a terminal
		hot := []string{"50% power", "%", "%%", "%d", "%s", "%v", "100%", "a%", "%!", "%5.2f x", "%[1]d", "%+q", "rate=%d Hz", "x %",
			"back\\slash", "\\n", "C:\\tmp", "\"quoted\"", "it's", "`tick`", "tab\there", "\t", "  lead", "trail  ", " both ",
			"\u00b5K bath", "caf\u00e9", "\u6e2c\u5b9a", "\U0001f9ca cold", "\xff\xfe raw", "nul\x00byte", "bell\x07", "a, b, c", "1700000000000000000, fake",
			"# comment", ";", "$HOME", "<tag>", "{}", "%s%s%s%s%s%s%s%s%s%s", "%n", "%*d", "%c%c"}
		l := hot[r.Intn(len(hot))]
		if r.Chance(15) {
			l += hot[r.Intn(len(hot))]
		}
		return l
	}
	if r.Chance(4) { // very long
		unit := []string{"long label ", "%d,", "x"}[r.Intn(3)]
		return strings.Repeat(unit, r.Pick(50, 400, 4096/len(unit)+1, 9000/len(unit)))
	}
	return []string{"A", "calib", "state 7", " ", "  x", "UNPAUSE", "Zz~", "STOP", "START", "a,b", "1, 2", "#", "x y z", "PAUSE"}[r.Intn(14)]
}

func genC20(r *Rng, tier string, idx int) *c20Case {
	if idx == 0 { // scripted: the minimal history of the repaired defect (fix 00d4efc) plus a restart
		return &c20Case{idx: idx, nch: 1, ops: []c20Op{
			{kind: "Q", req: "START", l22: true}, {kind: "L", label: "a\nb"}, {kind: "L", label: "ok"},
			{kind: "B", nsamples: 8, first: 100, dropped: 3, ext: []int64{7, 8, 9}}, {kind: "Q", req: "UNPAUSE x\ny"},
			{kind: "Q", req: "STOP"}, {kind: "B", nsamples: 8, first: 111, dropped: 2, ext: []int64{10}},
			{kind: "Q", req: "START", l22: true}, {kind: "B", nsamples: 8, first: 121, ext: []int64{11}}, {kind: "Q", req: "STOP"}}}
	}
	if idx == 1 { // scripted: labels whose time stamps are older than / equal to / newer than the line before
		return &c20Case{idx: idx, nch: 1, ops: []c20Op{
			{kind: "Q", req: "START", l22: true}, {kind: "T", label: "A", ts: c20Past + 5}, {kind: "L", label: "B"},
			{kind: "T", label: "C", ts: c20Past + 5}, {kind: "T", label: "D", ts: c20Past + 4}, {kind: "T", label: "E", ts: c20Future},
			{kind: "L", label: "F"}, {kind: "Q", req: "UNPAUSE G"}, {kind: "T", label: "H", ts: c20Future - 1},
			{kind: "T", label: "", ts: 0}, {kind: "Q", req: "STOP"},
			{kind: "Q", req: "START", l22: true}, {kind: "T", label: "I", ts: 1}, {kind: "Q", req: "STOP"}}}
	}
	if idx == 2 { // scripted: labels with printf verbs, a trailing %, backslashes, quotes, a tab, UTF-8
		return &c20Case{idx: idx, nch: 1, ops: []c20Op{
			{kind: "Q", req: "START", l22: true}, {kind: "L", label: "50% power"}, {kind: "L", label: "100%"}, {kind: "L", label: "next"},
			{kind: "Q", req: "UNPAUSE %d items %s"}, {kind: "T", label: "%%", ts: c20Past + 1}, {kind: "L", label: "C:\\tmp\\new \"q\""},
			{kind: "L", label: "tab\there"}, {kind: "Q", req: "unpause \u00b5K %"}, {kind: "Q", req: "STOP"}}}
	}
	if idx == 3 { // scripted: OFF-only writing with projectors NOT on channel 0; a second START while active must be refused
		return &c20Case{idx: idx, nch: 3, proj: []bool{false, false, true}, ops: []c20Op{
			{kind: "Q", req: "START", off: true}, {kind: "L", label: "A"}, {kind: "B", nsamples: 8, first: 100, ext: []int64{1, 2}},
			{kind: "Q", req: "START", off: true}, {kind: "L", label: "B"}, {kind: "B", nsamples: 8, first: 108, dropped: 4, ext: []int64{3}},
			{kind: "Q", req: "START", l22: true}, {kind: "Q", req: "STOP"}, {kind: "Q", req: "START", off: true, l3: true},
			{kind: "B", nsamples: 8, first: 120, ext: []int64{4}}, {kind: "Q", req: "STOP"}}}
	}
	c := &c20Case{idx: idx, nch: r.Pick(1, 1, 2, 3, 4)}
	// projectors over all subsets of the channels: none, all, only the last, all but channel 0, random
	c.proj = make([]bool, c.nch)
	switch r.Intn(6) {
	case 0: // none
	case 1:
		for i := range c.proj {
			c.proj[i] = true
		}
	case 2:
		c.proj[c.nch-1] = true
	case 3:
		for i := 1; i < c.nch; i++ {
			c.proj[i] = true
		}
	default:
		for i := range c.proj {
			c.proj[i] = r.Bool()
		}
	}
	// the file types of this case's STARTs
	startTypes := func() (bool, bool, bool) {
		switch r.Intn(10) {
		case 0, 1, 2, 3:
			return true, false, false
		case 4, 5, 6:
			return false, true, false // OFF only
		case 7:
			return false, false, true
		default:
			m := r.Range(1, 7)
			return m&1 != 0, m&2 != 0, m&4 != 0
		}
	}
	anyProj := false
	for _, p := range c.proj {
		anyProj = anyProj || p
	}
	lastTs := c20Past + int64(r.Intn(1000))
	nops := r.Range(1, 60)
	if r.Chance(25) {
		nops = r.Range(1, 10)
	}
	active := false
	frame := int64(r.Pick(0, 1000, 123456789, 1<<40))
	extBase := int64(r.Pick(0, 5000, 1<<33, -50))
	illegalPct := r.Pick(0, 10, 25, 40)
	// burst modes: enough side-file content between two flushes (1 s / 10 s tickers, STOP) to cross the
	// 4096-byte buffers of the writers at varying alignments
	extBurst := r.Chance(12) // blocks with 1..600 external triggers
	dropBurst := r.Chance(4) // hundreds of blocks that report dropped frames (22 bytes per line)
	blockPct := 50
	if dropBurst {
		nops = r.Range(150, 450)
		blockPct = 90
		extBurst = false
	} else if extBurst {
		nops = r.Range(3, 25)
	}
	if extBurst || dropBurst { // start a run early so that the content is recorded
		c.ops = append(c.ops, c20Op{kind: "Q", req: "START", l22: true})
		active = true
	}
	for k := 0; k < nops; k++ {
		switch x := r.Intn(100); {
		case x < blockPct: // a block
			op := c20Op{kind: "B", nsamples: r.Pick(1, 4, 8, 9, 20), first: frame}
			if r.Chance(30) || (dropBurst && r.Chance(85)) {
				op.dropped = r.Pick(1, 2, 7, 1000, 99999999)
			}
			if r.Chance(4) {
				op.dropped = -r.Range(1, 5) // never produced by a source; not a drop
			}
			if r.Chance(55) {
				n := r.Pick(1, 1, 2, 3, 10, 40)
				if extBurst {
					n = r.Pick(1, 7, 50, 100, 200, 300, 493, 494, 495, 500, 511, 512, 513, 600, r.Range(1, 600), r.Range(1, 600))
				}
				for j := 0; j < n; j++ {
					extBase += int64(r.Range(0, 300))
					v := extBase
					if r.Chance(3) {
						v = int64(r.Pick(0, -1, 1<<62, -(1 << 62), 255, 256, 65536))
					}
					op.ext = append(op.ext, v)
				}
			}
			frame += int64(op.nsamples + op.dropped)
			if op.dropped < 0 {
				frame = op.first + int64(op.nsamples)
			}
			c.ops = append(c.ops, op)
		case x < blockPct+24: // a state label
			lab := c20Label(r)
			if r.Chance(8) {
				lab = ""
			}
			if r.Chance(5) { // not a single line
				lab = []string{"two\nlines", "x\n", "\n", "a\r\nb", "cr\rcr"}[r.Intn(5)]
			}
			if r.Chance(45) { // a caller-supplied time stamp: earlier than, equal to, later than the one before
				switch r.Intn(8) {
				case 0, 1:
					lastTs -= int64(r.Range(1, 1000))
				case 2:
					// equal
				case 3, 4:
					lastTs += int64(r.Range(1, 1000))
				case 5:
					lastTs = c20Future + int64(r.Intn(1000)) // newer than every clock-stamped line
				case 6:
					lastTs = c20Past + int64(r.Intn(1000)) // older than every clock-stamped line
				default:
					lastTs = int64(r.Pick(0, 1, 12345))
				}
				if lastTs < 0 {
					lastTs = 0
				}
				c.ops = append(c.ops, c20Op{kind: "T", label: lab, ts: lastTs})
			} else if r.Chance(50) {
				c.ops = append(c.ops, c20Op{kind: "L", label: lab})
			} else if lab != "" {
				c.ops = append(c.ops, c20Op{kind: "Q", req: c06ReqString(r, "UNPAUSE") + " " + lab, l22: r.Bool()})
			}
		default: // a write-control request
			illegal := r.Chance(illegalPct)
			var word string
			if !illegal {
				if active {
					word = []string{"STOP", "STOP", "PAUSE", "UNPAUSE", "START"}[r.Intn(5)] // START while active: must be refused
				} else {
					word = "START"
				}
			} else {
				word = []string{"START", "STOP", "PAUSE", "UNPAUSE", "BAD", "START0"}[r.Intn(6)]
			}
			switch word {
			case "START":
				a, b, d := startTypes()
				c.ops = append(c.ops, c20Op{kind: "Q", req: c06ReqString(r, "START"), l22: a, off: b, l3: d})
				if (a || b || d) && (!b || anyProj) {
					active = true
				}
			case "START0": // no file type selected: refused
				c.ops = append(c.ops, c20Op{kind: "Q", req: "START", l22: false})
			case "STOP":
				c.ops = append(c.ops, c20Op{kind: "Q", req: c06ReqString(r, "STOP"), l22: r.Bool()})
				active = false
			case "PAUSE", "UNPAUSE":
				c.ops = append(c.ops, c20Op{kind: "Q", req: c06ReqString(r, word), l22: r.Bool()})
			default:
				c.ops = append(c.ops, c20Op{kind: "Q", req: c06Invalid(r), l22: r.Bool()})
			}
		}
	}
	if active && r.Chance(85) {
		c.ops = append(c.ops, c20Op{kind: "Q", req: "STOP"})
	}
	return c
}

func init() {
	caseGens["C20"] = caseGen{count: c06Count(1500, 5000), gen: func(r *Rng, tier string, idx int) (string, func() string) {
		c := genC20(r, tier, idx)
		return c.input(), c.run
	}}
}
