package main

// C10 at the RPC layer on the Lancero source (simulated card lancero.NoHardware): a rejected configuration is
// remembered and makes Start fail — until the source is configured correctly; then Start must succeed.

import (
	"fmt"
	"os"
	"path/filepath"
	"strings"
	"time"

	"github.com/usnistgov/dastard"
	"github.com/usnistgov/dastard/lancero"
)

// lcCfgErr runs a history of  cfgBad | cfgGood | start | stop  through the real SourceControl methods
// ConfigureLanceroSource / Start / Stop and records every reply.  Only these replies go into the line (the
// Lancero producer has no life-cycle hook sites of its own).
func lcCfgErr(idx int, ops []string) string {
	lcInit()
	dir := filepath.Join(lcWorkdir(), fmt.Sprintf("cfg_%d_%d", os.Getpid(), idx))
	os.MkdirAll(dir, 0755)
	defer os.RemoveAll(dir)
	cg := `{"SETT": 18, "seqln": 4, "lsync": 1000, "testpattern": 2, "propagationdelay": 9, "NSAMP": 4, "carddelay": 7, "XPT": 3}`
	cgpath := filepath.Join(dir, "cringeGlobals.json")
	os.WriteFile(cgpath, []byte(cg), 0644)
	old := dastard.VerifSetCringeGlobalsPath(cgpath)
	defer dastard.VerifSetCringeGlobalsPath(old)

	sc := dastard.VerifNewSourceControl(dastard.NewErroringSource(), 8, 32)
	sc.VerifSetActive(false)
	_, _, _, lanc := sc.VerifC17Sources()
	card, _ := lancero.NewNoHardware(1, 4, 1000)
	dastard.VerifC17Lancero(lanc, card, 1, 4, 1000) // installs card 0 (and an initial valid configuration)
	dastard.VerifReadPeriod = 10 * time.Millisecond
	name := "LanceroSource"
	var ok bool
	var toks []string
	hang := 0
	call := func(f func() error) int {
		done := make(chan error, 1)
		go func() { done <- f() }()
		select {
		case err := <-done:
			return b2i(err != nil)
		case <-time.After(10 * time.Second):
			hang = 1
			return 2
		}
	}
	for _, op := range ops {
		r := 0
		switch op {
		case "cfgBad": // names a card that does not exist
			r = call(func() error {
				return sc.ConfigureLanceroSource(&dastard.LanceroSourceConfig{CardDelay: []int{0}, ActiveCards: []int{7}, FirstRow: 1}, &ok)
			})
		case "cfgDup": // names the same card twice
			r = call(func() error {
				return sc.ConfigureLanceroSource(&dastard.LanceroSourceConfig{CardDelay: []int{0, 0}, ActiveCards: []int{0, 0}, FirstRow: 1}, &ok)
			})
		case "cfgGood":
			r = call(func() error {
				return sc.ConfigureLanceroSource(&dastard.LanceroSourceConfig{CardDelay: []int{0}, ActiveCards: []int{0}, FirstRow: 1}, &ok)
			})
		case "start":
			r = call(func() error { return sc.Start(&name, &ok) })
		case "stop":
			r = call(func() error { return sc.Stop(&name, &ok) })
		}
		toks = append(toks, fmt.Sprintf("H:op.%s.%d", op, r))
		if r == 2 {
			break
		}
	}
	st := int(lanc.GetState())
	if st != 0 && hang == 0 { // leave nothing running
		call(func() error { return sc.Stop(&name, &ok) })
	}
	census := 0
	for i := 0; i < 400; i++ {
		census = 0
		for range lcWorkers() {
			census++
		}
		if census == 0 {
			break
		}
		time.Sleep(5 * time.Millisecond)
	}
	return fmt.Sprintf("TR %d %s CALLS 0 FIN st %d go %d wr 0 res 0 hang %d", len(toks), strings.Join(toks, " "), st, 0*census, hang)
}
