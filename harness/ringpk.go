package main

import (
	"bytes"
	"fmt"
	"io"
	"os"
	"strings"

	dastard "github.com/usnistgov/dastard"
	"github.com/usnistgov/dastard/packets"
	"github.com/usnistgov/dastard/ringbuffer"
)

// Ring -> packets (the glue between C18, C15 and the Abaco ingest): the real packets.ReadPacketPlusPad loop on
// byte strings with any stride (`pad` lines) and the real AbacoRing.start / ReadAllPackets on a shared-memory
// ring that a test producer fills with padded packets (`rpk` lines).  Judged by Model/RingPackets.lean.

func rpkErrKind(err error) string {
	switch err {
	case nil:
		return "-"
	case io.EOF:
		return "eof"
	case io.ErrUnexpectedEOF:
		return "short"
	}
	return "bad"
}

// rpkPacket builds a real packet: 16- or 32-bit payload of nvals values in nchan channels, optional timestamp.
func rpkPacket(r *Rng, seq uint32, nvals int) *packets.Packet {
	pk := packets.NewPacket(10, uint32(r.Range(1, 40)), seq, r.Pick(0, 0, 4, 100))
	if r.Chance(50) {
		pk.SetTimestamp(&packets.PacketTimestamp{T: uint64(r.Range(1, 1<<30)), Rate: 1e6})
	}
	nchan := r.Pick(1, 2, 4, 8)
	for nvals%nchan != 0 {
		nchan /= 2
	}
	var err error
	if r.Chance(30) {
		d := make([]int32, nvals)
		for i := range d {
			d[i] = int32(r.U64())
		}
		err = pk.NewData(d, []int16{int16(nchan)})
	} else {
		d := make([]int16, nvals)
		for i := range d {
			d[i] = int16(r.U64())
		}
		err = pk.NewData(d, []int16{int16(nchan)})
	}
	if err != nil {
		if nvals > 1 {
			return rpkPacket(r, seq, nvals/2) // over the 8192-byte limit of NewData: a smaller one
		}
		panic(err)
	}
	return pk
}

func rpkView(p *packets.Packet) string {
	return fmt.Sprintf("%d %d %s", p.SequenceNumber(), p.Length(), c15Data(p.Data, true))
}

// rpkPad: the bare loop of ReadAllPackets on a byte string.
func rpkPad(r *Rng, o *Out) {
	stride := r.Pick(1, 2, 3, 7, 8, 16, 64, 100, 128, 256, 1000, 8192)
	var buf []byte
	n := r.Range(0, 5)
	for i := 0; i < n; i++ {
		nv := r.Pick(0, 1, 2, 3, 4, 8, 13, 32, r.Range(1, 120))
		b := rpkPacket(r, uint32(r.Range(0, 1000)), nv).Bytes()
		switch r.Intn(8) {
		case 0: // a structured datagram of the decoder check: declared lengths the decoder does not consume
			// entirely (no format, odd payload, ...), so the padding is computed from a length nobody read
			b, _, _, _ = c15Structured(r, "quick")
		case 1:
			b = c15Malformed(r, "quick")
		}
		pad := (stride - len(b)%stride) % stride
		switch r.Intn(12) {
		case 0:
			pad = r.Range(0, stride) // wrong padding
		case 1:
			if pad > 0 && i == n-1 {
				pad = r.Range(0, pad-1) // the last pad is cut short
			}
		}
		buf = append(buf, b...)
		for j := 0; j < pad; j++ {
			buf = append(buf, byte(r.Pick(0, 0, 0, 0xff, 0x81)))
		}
	}
	switch r.Intn(10) {
	case 0:
		if len(buf) > 0 {
			buf = buf[:r.Range(0, len(buf)-1)] // truncated stream
		}
	case 1:
		buf = append(buf, c15Rand(r, r.Range(1, 40))...) // junk tail
	}
	rd := bytes.NewReader(buf)
	var sb strings.Builder
	k := 0
	var last error
	for {
		p, err := packets.ReadPacketPlusPad(rd, stride)
		if err != nil {
			last = err
			break
		}
		k++
		fmt.Fprintf(&sb, " %d %d %d", len(buf)-rd.Len(), p.SequenceNumber(), p.Length())
	}
	o.Case("pad stride %d in %s OUT %d%s E %s %d", stride, hexs(buf), k, sb.String(), rpkErrKind(last), len(buf)-rd.Len())
}

// rpkRing: a real ring (packet size 8192 as Create records it), a producer writing padded packets, the real
// AbacoRing reading them.
func rpkRing(r *Rng, idx int, o *Out) {
	const stride = 8192
	nslots := r.Range(2, 6)
	capv := nslots*stride + r.Pick(1, 1, 2, 100, 4096, 8191)
	ringnum := -(os.Getpid()%100000*1000 + idx%1000 + 1)
	raw := fmt.Sprintf("xdma%d_c2h_0_buffer", ringnum)
	desc := fmt.Sprintf("xdma%d_c2h_0_description", ringnum)
	wr, _ := ringbuffer.NewRingBuffer(raw, desc)
	if err := wr.Create(capv); err != nil {
		panic(err)
	}
	defer func() {
		wr.Close()
		wr.Unlink()
	}()
	dev, err := dastard.NewAbacoRing(ringnum)
	if err != nil {
		panic(err)
	}
	dirty := r.Chance(25)
	var sb strings.Builder
	nops := 0
	seq := uint32(r.Range(0, 1000))
	put := func() {
		nv := r.Pick(1, 2, 4, 8, 16, 50, r.Range(1, 200))
		if r.Chance(8) {
			nv = r.Pick(2000, 4000, 4040, 4056, 4060, 4064, 4068, 4072) // up to exactly one slot (NewData refuses more than 8192 bytes)
		}
		pk := rpkPacket(r, seq, nv)
		seq++
		b := append([]byte{}, pk.Bytes()...)
		padTo := len(b) + (stride-len(b)%stride)%stride
		if dirty && r.Chance(30) {
			padTo = len(b) + r.Range(0, 100) // an unpadded or mis-padded write
		}
		if !dirty && wr.BytesWriteable() < padTo {
			return // the producer waits for room
		}
		sl := make([]byte, padTo)
		copy(sl, b)
		nw, _ := wr.Write(sl)
		fmt.Fprintf(&sb, " W %s %d %d", hexs(b), padTo, nw)
		nops++
	}
	// what was written before dastard attaches is stale
	for i := r.Range(0, 3); i > 0; i-- {
		put()
	}
	if err := dastard.VerifRingStart(dev); err != nil {
		panic(err)
	}
	rdProbe, _ := ringbuffer.NewRingBuffer(raw, desc)
	rdProbe.Open()
	fmt.Fprintf(&sb, " S %d", rdProbe.BytesReadable())
	rdProbe.Close()
	nops++
	total := r.Range(3, 14)
	for k := 0; k < total; k++ {
		if r.Chance(60) && k != total-1 {
			put()
			continue
		}
		ps, err := dev.ReadAllPackets()
		if ps == nil && err != nil {
			fmt.Fprintf(&sb, " P E")
		} else {
			fmt.Fprintf(&sb, " P %d", len(ps))
			for _, p := range ps {
				fmt.Fprintf(&sb, " %s", rpkView(p))
			}
			fmt.Fprintf(&sb, " %s", rpkErrKind(err))
		}
		nops++
	}
	dastard.VerifRingStop(dev)
	o.Case("rpk cap %d stride %d ops %d%s", capv, stride, nops, sb.String())
}

func genRingPk(r *Rng, tier string, o *Out) {
	npad, nring := 150, 12
	if tier == "thorough" {
		npad, nring = 3000, 150
	}
	for i := 0; i < npad; i++ {
		rpkPad(r, o)
	}
	for i := 0; i < nring; i++ {
		rpkRing(r, i, o)
	}
}
