package main

// C10 on a hardware-style source: the real AbacoSource on a scripted packet producer (hook VerifC17Abaco).  Its
// getNextBlock launches one assembler goroutine per call (an "acquisition step"); the life-cycle histories here
// interleave queued requests, which the core loop serves between blocks, before the Stops.

import (
	"fmt"
	"sync/atomic"
	"time"

	"github.com/usnistgov/dastard"
	"github.com/usnistgov/dastard/packets"
)

// c10Abaco is a scripted Abaco stream: one channel group, fpp frames per packet, ppt packets per reader tick.
type c10Abaco struct {
	nchan, fpp, ppt int
	chan0           int // channel offset in the packet header (= first channel number of the group)
	sn              uint32
	k               uint64
	stopped         atomic.Bool
}

func (a *c10Abaco) packet() *packets.Packet {
	pk := packets.NewPacket(10, 20, a.sn, a.chan0)
	a.sn++
	pk.SetTimestamp(&packets.PacketTimestamp{T: 1000 + a.k*uint64(a.fpp)*8, Rate: 1e6})
	a.k++
	d := make([]int16, a.nchan*a.fpp)
	for f := 0; f < a.fpp; f++ {
		v := int16((int(a.k)*a.fpp + f) % 50 * 20)
		for c := 0; c < a.nchan; c++ {
			d[f*a.nchan+c] = v + int16(c)
		}
	}
	if err := pk.NewData(d, []int16{int16(a.nchan)}); err != nil {
		panic(err)
	}
	return pk
}

func (a *c10Abaco) next() []*packets.Packet {
	if a.stopped.Load() {
		return nil // the packet stream has stopped
	}
	out := make([]*packets.Packet, 0, a.ppt)
	for i := 0; i < a.ppt; i++ {
		out = append(out, a.packet())
	}
	return out
}

// lcAsmReq: rounds of  Start -> a block or two -> nreq queued requests served by the core loop (with blocks in
// between) -> k Stops -> (the devices are re-armed, as a client's Configure would) Start again.
func lcAsmReq(idx, rounds, nreq, k int) string {
	h := lcNew("tri", idx)
	as, err := dastard.NewAbacoSource()
	if err != nil {
		return h.finish(false)
	}
	gen := &c10Abaco{nchan: 4, fpp: 16, ppt: 20}
	arm := func() {
		sample := []*packets.Packet{gen.packet(), gen.packet(), gen.packet(), gen.packet()}
		dastard.VerifC17Abaco(as, sample, gen.next)
	}
	h.kind = "abaco"
	h.ds = as
	h.sc = dastard.VerifNewSourceControl(as, 8, 32)
	h.sc.VerifSetActive(false)
	dastard.VerifPointsOn()
	waitBlocks := func(n int) {
		base := lcCount(dastard.VerifTrace(0), "loop.processed")
		lcWaitTrace(2*time.Second, func(tr []dastard.VerifEvent) bool { return lcCount(tr, "loop.processed") >= base+n })
	}
	for rd := 0; rd < rounds; rd++ {
		arm()
		s := h.spawnStart()
		if !s.wait(5*time.Second) || s.ret != 0 {
			break
		}
		h.flagOn()
		waitBlocks(1)
		var reply bool
		for i := 0; i < nreq; i++ {
			h.nR++
			which := (idx + i) % 3
			c := h.spawn(fmt.Sprintf("R%d", h.nR), func() error {
				switch which {
				case 0:
					b := false
					return h.sc.CoupleErrToFB(&b, &reply)
				case 1:
					st := &dastard.FullTriggerState{ChannelIndices: []int{0, 1}}
					return h.sc.ConfigureTriggers(st, &reply)
				default:
					var d bool
					return h.sc.StopTriggerCoupling(&d, &reply)
				}
			})
			c.wait(3 * time.Second)
			if i%2 == 1 {
				waitBlocks(1)
			}
		}
		waitBlocks(1)
		var ks []*lcCall
		for i := 0; i < k; i++ {
			ks = append(ks, h.spawnStopNoSettle())
		}
		for _, c := range ks {
			c.wait(5 * time.Second)
		}
		h.sc.VerifRefresh()
		dastard.VerifNote("flag.refresh")
		lcSettle()
	}
	return h.finish(true)
}

// lcAbacoSelfEnd: a running Abaco source whose packet stream stops and nobody calls Stop.  The reader's no-data
// time-out (5 s) must end the run cleanly: devices released, nextBlock closed, source Inactive, and the same
// object startable again.  The reader's timer is re-armed right after it queues its last buffer; the block
// assembler's own watchdog (which panics) is armed only when the loop asks for the next block after processing
// that buffer.  To keep that order independent of the machine's load the loop is parked at `loop.processed`
// (before its next getNextBlock) and, once the stream has stopped, held there for 300 ms.
func lcAbacoSelfEnd(idx int) string {
	h := lcNew("tri", idx)
	as, err := dastard.NewAbacoSource()
	if err != nil {
		return h.finish(false)
	}
	gen := &c10Abaco{nchan: 4, fpp: 16, ppt: 20}
	arm := func() {
		sample := []*packets.Packet{gen.packet(), gen.packet(), gen.packet(), gen.packet()}
		dastard.VerifC17Abaco(as, sample, gen.next)
	}
	h.kind = "abaco"
	h.ds = as
	h.sc = dastard.VerifNewSourceControl(as, 8, 32)
	h.sc.VerifSetActive(false)
	dastard.VerifPointsOn()
	dastard.VerifGate("loop.processed")
	var holding atomic.Bool
	stopReleaser := lcGateReleaser(&holding)
	arm()
	s := h.spawnStart()
	if !s.wait(5*time.Second) || s.ret != 0 {
		stopReleaser()
		return h.finish(true)
	}
	h.flagOn()
	lcWaitTrace(3*time.Second, func(tr []dastard.VerifEvent) bool { return lcCount(tr, "loop.processed") >= 3 })
	// from now on every processed block is held for 300 ms; only when one such block has gone by is the stream
	// stopped, so the LAST block (whichever it is) is certainly held
	holding.Store(true)
	base := lcCount(dastard.VerifTrace(0), "loop.processed")
	lcWaitTrace(3*time.Second, func(tr []dastard.VerifEvent) bool { return lcCount(tr, "loop.processed") >= base+2 })
	gen.stopped.Store(true)
	t0 := time.Now()
	ended := lcWaitTrace(7500*time.Millisecond, func([]dastard.VerifEvent) bool { return h.ds.GetState() == dastard.Inactive })
	dastard.VerifNote(fmt.Sprintf("obs.selfend.%d.%d.%d", b2i(ended), int(h.ds.GetState()), int(time.Since(t0)/time.Second)))
	stopReleaser()
	h.openGates()
	if ended {
		// restartable: re-arm the devices (as a client's Configure would) and run again
		gen.stopped.Store(false)
		arm()
		s2 := h.spawnStart()
		if s2.wait(5*time.Second) && s2.ret == 0 {
			lcWaitTrace(2*time.Second, func(tr []dastard.VerifEvent) bool {
				return lcCount(tr, "start.runStarted") >= 2 && lcCount(tr, "loop.processed") >= 4
			})
		}
	}
	return h.finish(true)
}

// lcGateReleaser lets every goroutine parked at a gate through at once while `holding` is false and 300 ms late
// once it is true; the returned function stops it.
func lcGateReleaser(holding *atomic.Bool) (stop func()) {
	stopRelease := make(chan struct{})
	relDone := make(chan struct{})
	go func() {
		defer close(relDone)
		for {
			select {
			case <-stopRelease:
				return
			default:
			}
			ws := dastard.VerifParked()
			if len(ws) == 0 {
				time.Sleep(200 * time.Microsecond)
				continue
			}
			if holding.Load() {
				time.Sleep(300 * time.Millisecond)
			}
			for _, w := range ws {
				dastard.VerifRelease(w.ID)
			}
		}
	}()
	return func() {
		close(stopRelease)
		<-relDone
	}
}
