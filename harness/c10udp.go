package main

// C10 on the real AbacoSource over UDP (loopback): a sender streams valid packets, then ONE undecodable datagram
// arrives.  The run must go on, Stop must return, the source must end Inactive and be restartable.

import (
	"fmt"
	"net"
	"os"
	"sync/atomic"
	"time"

	"github.com/usnistgov/dastard"
)

// lcUDPBad: variant 0 = 40 zero bytes, 1 = a valid packet with a corrupted magic number.
func lcUDPBad(idx, variant int) string {
	h := lcNew("tri", idx)
	as, err := dastard.NewAbacoSource()
	if err != nil {
		return h.finish(false)
	}
	h.kind, h.ds = "abaco", as
	h.sc = dastard.VerifNewSourceControl(as, 8, 32)
	h.sc.VerifSetActive(false)
	gen := &c10Abaco{nchan: 4, fpp: 16, ppt: 5}
	var conn *net.UDPConn
	var stopSend atomic.Bool
	sendDone := make(chan struct{})
	startSender := func(host string) {
		addr, _ := net.ResolveUDPAddr("udp", host)
		conn, _ = net.DialUDP("udp", nil, addr)
		stopSend.Store(false)
		sendDone = make(chan struct{})
		go func() { // 5 packets every 2 ms
			defer close(sendDone)
			for !stopSend.Load() {
				for i := 0; i < 5; i++ {
					conn.Write(gen.packet().Bytes())
				}
				time.Sleep(2 * time.Millisecond)
			}
		}()
	}
	stopSender := func() {
		stopSend.Store(true)
		<-sendDone
		conn.Close()
	}
	waitBlocks := func(n int, d time.Duration) bool {
		base := lcCount(dastard.VerifTrace(0), "loop.processed")
		return lcWaitTrace(d, func(tr []dastard.VerifEvent) bool { return lcCount(tr, "loop.processed") >= base+n })
	}
	dastard.VerifPointsOn()
	// start on a free port (the socket is bound by Sample, inside Start)
	var s *lcCall
	host := ""
	for try := 0; try < 10; try++ {
		port := 21000 + (os.Getpid()*31+idx*17+try*7919)%30000
		host = fmt.Sprintf("127.0.0.1:%d", port)
		if err := as.Configure(&dastard.AbacoSourceConfig{HostPortUDP: []string{host}}); err != nil {
			continue
		}
		startSender(host)
		s = h.spawnStart()
		if s.wait(6*time.Second) && s.ret == 0 {
			break
		}
		stopSender()
	}
	if s == nil || s.ret != 0 {
		return h.finish(true)
	}
	h.flagOn()
	waitBlocks(2, 3*time.Second)
	// the one undecodable datagram
	bad := make([]byte, 40)
	if variant == 1 {
		bad = append([]byte{}, gen.packet().Bytes()...)
		gen.sn-- // it does not take a sequence number of the valid stream
		bad[5] ^= 0x5a
	}
	conn.Write(bad)
	progress := waitBlocks(2, 2*time.Second) // the valid stream goes on: so must the run
	k := h.spawnStopNoSettle()
	stopped := k.wait(3 * time.Second)
	dastard.VerifNote(fmt.Sprintf("obs.udpbad.%d.%d.%d", b2i(progress), b2i(stopped), int(h.ds.GetState())))
	stopSender()
	if stopped && h.ds.GetState() == dastard.Inactive {
		// restartable: configure again (a client does), start, a block, stop
		if err := as.Configure(&dastard.AbacoSourceConfig{HostPortUDP: []string{host}}); err == nil {
			startSender(host)
			s2 := h.spawnStart()
			if s2.wait(6*time.Second) && s2.ret == 0 {
				waitBlocks(1, 3*time.Second)
				h.spawnStopNoSettle().wait(3 * time.Second)
			}
			stopSender()
		}
	}
	return h.finish(true)
}
