package main

// C10 on the real RoachSource and on an AbacoSource configured through the RPC layer: the sources are configured with
// the real SourceControl.ConfigureRoachSource / ConfigureAbacoSource (UDP sockets on the loopback interface), started and
// stopped with SourceControl.Start / Stop, while a sender goroutine streams datagrams.

import (
	"encoding/binary"
	"fmt"
	"net"
	"os"
	"sync/atomic"
	"time"

	"github.com/usnistgov/dastard"
)

// roachDatagram: 16-byte big-endian header (unused u8, fluxramp u8, Nchan u16, Nsamp u16, Flags u16 = 1: 2-byte words,
// Sampnum u64) followed by Nchan*Nsamp big-endian uint16 words, frame-major.
func roachDatagram(nchan, nsamp int, sampnum uint64) []byte {
	b := make([]byte, 16+2*nchan*nsamp)
	binary.BigEndian.PutUint16(b[2:], uint16(nchan))
	binary.BigEndian.PutUint16(b[4:], uint16(nsamp))
	binary.BigEndian.PutUint16(b[6:], 1)
	binary.BigEndian.PutUint64(b[8:], sampnum)
	for j := 0; j < nsamp; j++ {
		for c := 0; c < nchan; c++ {
			v := uint16((int(sampnum)+j)%200*10 + c)
			binary.BigEndian.PutUint16(b[16+2*(j*nchan+c):], v)
		}
	}
	return b
}

type udpSender struct {
	conn *net.UDPConn
	stop atomic.Bool
	done chan struct{}
}

// startSender streams what next() returns every 2 ms to host until stopped.
func startSender(host string, next func() [][]byte) *udpSender {
	addr, _ := net.ResolveUDPAddr("udp", host)
	conn, err := net.DialUDP("udp", nil, addr)
	if err != nil {
		return nil
	}
	s := &udpSender{conn: conn, done: make(chan struct{})}
	go func() {
		defer close(s.done)
		for !s.stop.Load() {
			for _, d := range next() {
				conn.Write(d)
			}
			time.Sleep(2 * time.Millisecond)
		}
	}()
	return s
}

func (s *udpSender) halt() {
	if s == nil {
		return
	}
	s.stop.Store(true)
	<-s.done
	s.conn.Close()
}

func portFree(host string) int {
	addr, _ := net.ResolveUDPAddr("udp", host)
	c, err := net.ListenUDP("udp", addr)
	if err != nil {
		return 0
	}
	c.Close()
	return 1
}

// lcRoachSrc: variant 0 run/requests/stops/restart, 1 the sender stops by itself (2 s keep-alive ends the run),
// 2 Start with no sender (Sample's 1 s deadline: a failed Start), 3 Configure with a port that is already bound,
// 4 Rates and HostPort of different lengths.  Each ends with a configure + start + block + stop on the same object.
func lcRoachSrc(idx, variant int, bias bool, k int) string {
	h := lcNew("tri", idx)
	sc := dastard.VerifNewSourceControl(dastard.NewErroringSource(), 8, 32)
	sc.VerifSetActive(false)
	h.sc = sc
	h.kind = "roach"
	name := "ROACHSOURCE"
	var ok bool
	opts := dastard.AbacoUnwrapOptions{RescaleRaw: true, Unwrap: true, Bias: bias, ResetAfter: 20000, PulseSign: 1}
	host := ""
	pickPort := func(try int) string {
		return fmt.Sprintf("127.0.0.1:%d", 22000+(os.Getpid()*41+idx*13+try*7919)%30000)
	}
	var samp uint64 = 1000
	next := func() [][]byte {
		out := make([][]byte, 0, 4)
		for i := 0; i < 4; i++ {
			out = append(out, roachDatagram(4, 50, samp))
			samp += 50
		}
		return out
	}
	waitBlocks := func(n int, d time.Duration) bool {
		base := lcCount(dastard.VerifTrace(0), "loop.processed")
		return lcWaitTrace(d, func(tr []dastard.VerifEvent) bool { return lcCount(tr, "loop.processed") >= base+n })
	}
	rpc := func(role string, f func() error) *lcCall { return h.spawn(role, f) }
	configure := func(hosts []string, rates []float64) int {
		err := sc.ConfigureRoachSource(&dastard.RoachSourceConfig{HostPort: hosts, Rates: rates, AbacoUnwrapOptions: opts}, &ok)
		r := b2i(err != nil)
		dastard.VerifNote(fmt.Sprintf("obs.cfg.%d", r))
		return r
	}
	goodConfigure := func() bool {
		for try := 0; try < 10; try++ {
			host = pickPort(try)
			if portFree(host) == 1 && configure([]string{host}, []float64{1e5}) == 0 {
				return true
			}
		}
		return false
	}
	startRPC := func() *lcCall {
		h.nS++
		return rpc(fmt.Sprintf("S%d", h.nS), func() error { return sc.Start(&name, &ok) })
	}
	stopRPC := func() *lcCall {
		h.nK++
		return rpc(fmt.Sprintf("K%d", h.nK), func() error {
			var dummy string
			return sc.Stop(&dummy, &ok)
		})
	}
	dastard.VerifPointsOn()
	// one complete round: configure, sender, start, blocks, stop(s); reports whether it went through
	round := func(nstops int, requests bool) bool {
		if !goodConfigure() {
			return false
		}
		snd := startSender(host, next)
		defer snd.halt()
		s := startRPC()
		if !s.wait(4*time.Second) || s.ret != 0 {
			return false
		}
		h.ds = sc.VerifActiveSource()
		waitBlocks(2, 3*time.Second)
		if requests {
			var reply bool
			b := false
			h.timed(func() error { return sc.CoupleErrToFB(&b, &reply) })
			h.timed(func() error {
				return sc.ConfigureTriggers(&dastard.FullTriggerState{ChannelIndices: []int{0, 1}}, &reply)
			})
			waitBlocks(1, 3*time.Second)
		}
		var ks []*lcCall
		for i := 0; i < nstops; i++ {
			ks = append(ks, stopRPC())
		}
		back := true
		for _, c := range ks {
			if !c.wait(4 * time.Second) {
				back = false
			}
		}
		return back
	}
	observe := func(tag string) { // state, goroutines of the life cycle, port free again
		census := 0
		for i := 0; i < 200; i++ {
			if census = h.census(); census == 0 {
				break
			}
			time.Sleep(5 * time.Millisecond)
		}
		st := 0
		if h.ds != nil {
			st = int(h.ds.GetState())
		}
		dastard.VerifNote(fmt.Sprintf("obs.end.%s.%d.%d.%d", tag, st, census, portFree(host)))
	}
	switch variant {
	case 0:
		if round(k, true) {
			observe("stop")
		}
	case 1:
		if goodConfigure() {
			snd := startSender(host, next)
			s := startRPC()
			if s.wait(4*time.Second) && s.ret == 0 {
				h.ds = sc.VerifActiveSource()
				waitBlocks(2, 3*time.Second)
				snd.halt() // the stream stops: the device's keep-alive (2 s) must end the run
				ended := lcWaitTrace(4*time.Second, func([]dastard.VerifEvent) bool { return h.ds.GetState() == dastard.Inactive })
				dastard.VerifNote(fmt.Sprintf("obs.selfend.%d.%d.2", b2i(ended), int(h.ds.GetState())))
				observe("self")
				stopRPC().wait(3 * time.Second) // refreshes the RPC layer's flag ("no source"/"not active" are fine)
			} else {
				snd.halt()
			}
		}
	case 2:
		if goodConfigure() {
			s := startRPC() // nobody sends: Sample's deadline expires, the Start must FAIL and leave the source Inactive
			s.wait(4 * time.Second)
			h.ds, _ = sc.VerifActiveSource(), 0
			dastard.VerifNote(fmt.Sprintf("obs.nosender.%d.%d", s.ret, int(h.ds.GetState())))
		}
	case 3:
		busy := pickPort(3)
		addr, _ := net.ResolveUDPAddr("udp", busy)
		hold, err := net.ListenUDP("udp", addr)
		if err == nil {
			r := configure([]string{busy}, []float64{1e5})
			dastard.VerifNote(fmt.Sprintf("obs.cfgBusy.%d", r))
			hold.Close()
		}
	case 4:
		r := configure([]string{pickPort(5), pickPort(6)}, []float64{1e5})
		dastard.VerifNote(fmt.Sprintf("obs.cfgLen.%d", r))
	case 5:
		// TWO devices (2 and 3 channels), a sender for each: Start must succeed with 5 channels and blocks must flow
		for try := 0; try < 10; try++ {
			h1, h2 := pickPort(2*try+20), pickPort(2*try+21)
			if portFree(h1) == 1 && portFree(h2) == 1 && configure([]string{h1, h2}, []float64{1e4, 1e4}) == 0 {
				var s1, s2 uint64 = 1000, 1000
				snd1 := startSender(h1, func() [][]byte { d := roachDatagram(2, 10, s1); s1 += 10; return [][]byte{d} })
				snd2 := startSender(h2, func() [][]byte { d := roachDatagram(3, 10, s2); s2 += 10; return [][]byte{d} })
				host = h1
				s := startRPC()
				if s.wait(4*time.Second) && s.ret == 0 {
					h.ds = sc.VerifActiveSource()
					flowing := waitBlocks(2, 3*time.Second)
					dastard.VerifNote(fmt.Sprintf("obs.multi.%d.%d", h.ds.Nchan(), b2i(flowing)))
					stopRPC().wait(4 * time.Second)
					observe("multi")
				}
				snd1.halt()
				snd2.halt()
				break
			}
		}
	}
	// whatever happened: the same object can be configured and run again
	if round(1, false) {
		observe("again")
	} else {
		dastard.VerifNote("obs.again.failed")
	}
	_, _, abaco, lanc := sc.VerifC17Sources()
	abaco.Delete() // the clean-up calls of RunRPCServer: harmless on sources that never ran
	lanc.Delete()
	if h.ds == nil {
		h.ds = abaco
	}
	return h.finish(true)
}

// lcAbacoRPC: an AbacoSource configured through the real ConfigureAbacoSource (HostPortUDP), started and stopped
// through the RPC layer with a sender streaming valid packets; then Delete.
func lcAbacoRPC(idx, k int) string {
	h := lcNew("tri", idx)
	sc := dastard.VerifNewSourceControl(dastard.NewErroringSource(), 8, 32)
	sc.VerifSetActive(false)
	h.sc = sc
	h.kind = "abaco"
	name := "ABACOSOURCE"
	var ok bool
	gen := &c10Abaco{nchan: 4, fpp: 16, ppt: 5}
	next := func() [][]byte {
		out := make([][]byte, 0, 5)
		for i := 0; i < 5; i++ {
			out = append(out, gen.packet().Bytes())
		}
		return out
	}
	dastard.VerifPointsOn()
	host := ""
	for round := 0; round < 2; round++ {
		configured := false
		for try := 0; try < 10; try++ {
			host = fmt.Sprintf("127.0.0.1:%d", 22500+(os.Getpid()*43+idx*11+try*7919)%30000)
			if portFree(host) == 1 && sc.ConfigureAbacoSource(&dastard.AbacoSourceConfig{HostPortUDP: []string{host}}, &ok) == nil {
				configured = true
				break
			}
		}
		if !configured {
			break
		}
		snd := startSender(host, next)
		h.nS++
		s := h.spawn(fmt.Sprintf("S%d", h.nS), func() error { return sc.Start(&name, &ok) })
		if !s.wait(6*time.Second) || s.ret != 0 {
			snd.halt()
			break
		}
		h.ds = sc.VerifActiveSource()
		base := lcCount(dastard.VerifTrace(0), "loop.processed")
		lcWaitTrace(3*time.Second, func(tr []dastard.VerifEvent) bool { return lcCount(tr, "loop.processed") >= base+2 })
		var ks []*lcCall
		for i := 0; i < k; i++ {
			h.nK++
			ks = append(ks, h.spawn(fmt.Sprintf("K%d", h.nK), func() error {
				var dummy string
				return sc.Stop(&dummy, &ok)
			}))
		}
		for _, c := range ks {
			c.wait(4 * time.Second)
		}
		snd.halt()
		census := 0
		for i := 0; i < 200; i++ {
			if census = h.census(); census == 0 {
				break
			}
			time.Sleep(5 * time.Millisecond)
		}
		dastard.VerifNote(fmt.Sprintf("obs.end.stop.%d.%d.%d", int(h.ds.GetState()), census, portFree(host)))
	}
	_, _, abaco, _ := sc.VerifC17Sources()
	abaco.Delete()
	if h.ds == nil {
		h.ds = abaco
	}
	return h.finish(true)
}
