package main

// C07 — file writing is record-atomic and order-preserving under any disk timing.
//
// Three kinds of cases, each run in a child process (a hang or crash is an observed output):
//
//   AB    the real asyncbufio.Writer (queue depth 1..8) on top of a gate the harness opens and closes.
//         The harness is the producer; after every producer action it reads the gate's length and the
//         queue length (verif accessor) and writes the consumer steps that happened in between as
//         explicit `p n` (channel receives) / `y n` (bytes handed to the file) tokens, so the OUT part is
//         an explicit schedule the Lean model replays.  The inference is exact (see c07AB.write).
//   LJH22 / LJH3 / OFF
//         the real ljh.Writer / ljh.Writer3 / off.Writer writing to a named pipe that the harness
//         drains ("disk runs") or does not drain ("disk stalls") until the 1000-deep queue is full and
//         records are rejected.  The bytes a record must contribute are taken from a second, never
//         stalled, writer of the same type (Flush after every record, file growth = that record).
//   PD    records pushed through the real processSegment -> PublishData with the writers on stalled pipes.
//
// Token syntax of the OUT part (`T n tok…`): see lean/DastardV/Model/C07.lean (`Tok`).
// The number of `w.writer.Write` calls per WriteRecord / WriteHeader is re-counted from the source
// (go/ast) on every run and written on the line (`wpr`, `hdrw`); the model assumes wpr = 1.

import (
	"fmt"
	"go/ast"
	"go/parser"
	"go/token"
	"os"
	"path/filepath"
	"strings"
	"sync"
	"syscall"
	"time"

	"github.com/usnistgov/dastard"
	"github.com/usnistgov/dastard/asyncbufio"
	"github.com/usnistgov/dastard/ljh"
	"github.com/usnistgov/dastard/off"
	"gonum.org/v1/gonum/mat"
)

func init() {
	caseGens["C07"] = caseGen{
		count: func(tier string) int {
			if tier == "thorough" {
				return 5000
			}
			return 320
		},
		gen: c07Gen,
	}
}

// ---------------------------------------------------------------------------------------------
// facts re-read from the source

func c07Repo() string {
	if d := os.Getenv("VERIF_REPO"); d != "" {
		return d
	}
	return "/repo"
}

// c07CountWrites counts the `<recv>.writer.Write(...)`/`WriteString(...)` calls in method `method`
// of type `recv` in `file` (relative to the repository).  99 = a call sits inside a loop; -1 = not found.
func c07CountWrites(file, recv, method string) int {
	fset := token.NewFileSet()
	f, err := parser.ParseFile(fset, filepath.Join(c07Repo(), file), nil, 0)
	if err != nil {
		return -1
	}
	for _, d := range f.Decls {
		fd, ok := d.(*ast.FuncDecl)
		if !ok || fd.Name.Name != method || fd.Recv == nil || len(fd.Recv.List) != 1 || fd.Body == nil {
			continue
		}
		t := fd.Recv.List[0].Type
		if s, ok := t.(*ast.StarExpr); ok {
			t = s.X
		}
		if id, ok := t.(*ast.Ident); !ok || id.Name != recv {
			continue
		}
		n := 0
		var walk func(node ast.Node, inLoop bool)
		walk = func(node ast.Node, inLoop bool) {
			ast.Inspect(node, func(x ast.Node) bool {
				switch v := x.(type) {
				case *ast.ForStmt:
					if x != node {
						walk(v.Body, true)
						return false
					}
				case *ast.RangeStmt:
					if x != node {
						walk(v.Body, true)
						return false
					}
				case *ast.CallExpr:
					if sel, ok := v.Fun.(*ast.SelectorExpr); ok && (sel.Sel.Name == "Write" || sel.Sel.Name == "WriteString") {
						if in, ok := sel.X.(*ast.SelectorExpr); ok && in.Sel.Name == "writer" {
							if inLoop {
								n = 99
							} else if n < 99 {
								n++
							}
						}
					}
				}
				return true
			})
		}
		walk(fd.Body, false)
		return n
	}
	return -1
}

type c07Facts struct{ wpr, hdrw map[string]int }

var c07FactsOnce sync.Once
var c07F c07Facts

func c07GetFacts() c07Facts {
	c07FactsOnce.Do(func() {
		c07F.wpr = map[string]int{
			"LJH22": c07CountWrites("ljh/ljh.go", "Writer", "WriteRecord"),
			"LJH3":  c07CountWrites("ljh/ljh.go", "Writer3", "WriteRecord"),
			"OFF":   c07CountWrites("off/off.go", "Writer", "WriteRecord"),
		}
		c07F.hdrw = map[string]int{
			"LJH22": c07CountWrites("ljh/ljh.go", "Writer", "WriteHeader"),
			"LJH3":  c07CountWrites("ljh/ljh.go", "Writer3", "WriteHeader"),
			"OFF":   c07CountWrites("off/off.go", "Writer", "WriteHeader"),
		}
	})
	return c07F
}

func c07Max(m map[string]int) int {
	x := 0
	for _, v := range m {
		if v > x {
			x = v
		}
	}
	return x
}

// ---------------------------------------------------------------------------------------------
// case dispatch

func c07Gen(r *Rng, tier string, idx int) (string, func() string) {
	f := c07GetFacts()
	switch {
	case idx == 0:
		return c07WRCase(r, "LJH22", true, f, 0, 0)
	case idx == 1:
		return c07WRCase(r, "LJH3", true, f, 0, 0)
	case idx == 2:
		return c07WRCase(r, "OFF", true, f, 0, 0)
	case idx == 3:
		return c07PDCase(r, []string{"ljh22", "ljh3", "off"}, true)
	case idx == 4:
		return c07PDCase(r, []string{"ljh22", "ljh3"}, true)
	case idx >= 5 && idx <= 12:
		return c07ABCase(r, tier, idx-4, f)
	case idx == 13 || idx == 14 || idx == 15:
		return c07PUBCase(r, idx-12)
	}
	// Flush/Close with the disk stalled for SECONDS (longer than any plausible give-up timeout).  Each
	// sits in a different worker chunk of the parent (main.go splits the index range over 12 workers), so
	// they run concurrently with the rest and with each other.
	if tier == "thorough" {
		if idx%417 == 30 {
			return c07WRCase(r, []string{"LJH22", "LJH3", "OFF"}[(idx/417)%3], false, f, 3000+500*((idx/417)%5), 0)
		}
		if idx%417 == 60 {
			return c07WRCase(r, "LJH3", false, f, 0, 1)
		}

	} else if idx == 30 || idx == 60 || idx == 90 {
		return c07WRCase(r, []string{"LJH22", "LJH3", "OFF"}[idx/30-1], false, f, 3000, 0)
	} else if idx == 120 || idx == 121 {
		return c07WRCase(r, "LJH3", false, f, 0, 1)
	}
	switch c := r.Intn(1000); {
	case c >= 940:
		return c07PUBCase(r, 0)
	case c < 25:
		return c07WRCase(r, []string{"LJH22", "LJH3", "OFF"}[r.Intn(3)], false, f, 0, 0)
	case c < 30:
		ws := [][]string{{"ljh22"}, {"ljh3"}, {"off"}, {"ljh22", "off"}, {"ljh22", "ljh3", "off"}, {"ljh3", "ljh22"}}
		return c07PDCase(r, ws[r.Intn(len(ws))], false)
	}
	if r.Chance(4) {
		return c07ABCase(r, tier, 9, f)
	}
	return c07ABCase(r, tier, 0, f)
}

// ---------------------------------------------------------------------------------------------
// AB: asyncbufio.Writer on a gate

type c07Gate struct {
	mu      sync.Mutex
	cv      *sync.Cond
	open    bool
	data    []byte
	blocked int
}

func newC07Gate() *c07Gate {
	g := &c07Gate{open: true}
	g.cv = sync.NewCond(&g.mu)
	return g
}

func (g *c07Gate) Write(p []byte) (int, error) {
	g.mu.Lock()
	for !g.open {
		g.blocked++
		g.cv.Wait()
		g.blocked--
	}
	g.data = append(g.data, p...)
	g.mu.Unlock()
	return len(p), nil
}
func (g *c07Gate) Len() int { g.mu.Lock(); defer g.mu.Unlock(); return len(g.data) }
func (g *c07Gate) Blocked() bool {
	g.mu.Lock()
	defer g.mu.Unlock()
	return g.blocked > 0
}
func (g *c07Gate) SetOpen(o bool) { g.mu.Lock(); g.open = o; g.cv.Broadcast(); g.mu.Unlock() }
func (g *c07Gate) IsOpen() bool   { g.mu.Lock(); defer g.mu.Unlock(); return g.open }
func (g *c07Gate) Slice(a, b int) []byte {
	g.mu.Lock()
	defer g.mu.Unlock()
	return append([]byte{}, g.data[a:b]...)
}

type c07Hop struct {
	kind    string // R (record), G0, G1, G1n, G1t, T, B, L, F, Z, S, C
	chunks  [][]byte
	free, n int // L: one-byte records until `free` slots are left, then ONE write of n bytes
}

// c07hex: lowercase hex with runs of >= 16 equal bytes written as `xx*count`; segments joined by '.'
// (a 64 KiB record of constant samples is a few characters on the line).  `-` = empty.
func c07hex(b []byte) string {
	if len(b) == 0 {
		return "-"
	}
	if len(b) < 64 {
		return fmt.Sprintf("%x", b)
	}
	var segs []string
	lit := 0 // start of the pending literal stretch
	i := 0
	for i < len(b) {
		j := i
		for j < len(b) && b[j] == b[i] {
			j++
		}
		if j-i >= 16 {
			if lit < i {
				segs = append(segs, fmt.Sprintf("%x", b[lit:i]))
			}
			segs = append(segs, fmt.Sprintf("%02x*%d", b[i], j-i))
			lit = j
		}
		i = j
	}
	if lit < len(b) {
		segs = append(segs, fmt.Sprintf("%x", b[lit:]))
	}
	return strings.Join(segs, ".")
}

type c07AB struct {
	cap, lastQ, lastG, seen, accBytes int
	noTick, closed                    bool
	tickUs                            int   // flush interval (microseconds, 0 = none)
	hasBig                            bool  // the script holds a chunk larger than bufio's buffer
	inTick                            bool  // the consumer was SEEN blocked in the gate inside its periodic flush
	tickBytes                         int   // bytes that periodic flush is writing
	accLens                           []int // lengths of the accepted chunks, in order
	nPopped                           int   // chunks received by the consumer so far
	fill                              byte  // content of the next L record
	g                                 *c07Gate
	aw                                *asyncbufio.Writer
	toks                              []string
}

func (a *c07AB) tok(f string, x ...interface{}) { a.toks = append(a.toks, fmt.Sprintf(f, x...)) }

func (a *c07AB) poppedBytes() int {
	n := 0
	for _, l := range a.accLens[:a.nPopped] {
		n += l
	}
	return n
}

// observe: the consumer steps since the last look, as explicit tokens.  The file length is read
// BEFORE the queue length: every byte seen in the file belongs to a chunk already received.
// While a periodic flush is known to be stalled (inTick) the consumer does nothing; the first receive or
// file growth seen afterwards means that flush has finished (`te n`, n = the bytes it held).
func (a *c07AB) observe(acc int, popFirst bool) (pre, post []string) {
	g := a.g.Len()
	q := a.aw.VerifQueueLen()
	p := a.lastQ + acc - q
	if a.inTick && p > 0 && g-a.lastG < a.tickBytes {
		// the periodic flush ended between the two reads: its bytes are in the file by now
		g = a.g.Len()
		q = a.aw.VerifQueueLen()
		p = a.lastQ + acc - q
	}
	dy := g - a.lastG
	a.nPopped += p
	var te []string
	if a.inTick && (p > 0 || dy > 0) {
		te = []string{fmt.Sprintf("te %d", a.tickBytes)}
		dy -= a.tickBytes
		a.inTick = false
	}
	if popFirst && p > 0 {
		pre = append(te, "p 1")
		te = nil
		p--
	}
	post = te
	if p > 0 {
		post = append(post, fmt.Sprintf("p %d", p))
	}
	if dy > 0 {
		post = append(post, fmt.Sprintf("y %d", dy))
	}
	a.lastQ, a.lastG = q, g
	return pre, post
}

// write issues one real Write.  Exactness of the inferred schedule: if the call failed the channel
// held `cap` chunks at that instant, so no receive happened since the last look (lastQ = cap) and all
// receives seen now come after it; if it succeeded with lastQ = cap, one receive must have come first.
func (a *c07AB) write(c []byte) bool {
	full := a.lastQ == a.cap
	_, err := a.aw.Write(c)
	ok := err == nil
	if ok {
		a.accLens = append(a.accLens, len(c))
	}
	pre, post := a.observe(b2i(ok), ok && full)
	a.toks = append(a.toks, pre...)
	a.tok("w %s %d", c07hex(c), b2i(ok))
	a.toks = append(a.toks, post...)
	if ok {
		a.accBytes += len(c)
	}
	return ok
}

func (a *c07AB) idle() {
	_, post := a.observe(0, false)
	a.toks = append(a.toks, post...)
}

// pinCheck: is the consumer blocked in the gate inside its PERIODIC flush?  (Outside a Flush/Close
// rendezvous and with small chunks only the ticker branch reaches the gate.)  The state is stable while
// the gate stays closed, so the reads are exact.  The channel is then empty (the periodic flush drained
// it before entering bufio.Flush): `tb 0` after the receives already reported.
func (a *c07AB) pinCheck() {
	if a.inTick || a.closed || a.hasBig || a.noTick || a.g.IsOpen() || !a.g.Blocked() {
		a.idle()
		return
	}
	a.idle()
	if a.lastQ != 0 {
		return
	}
	a.tickBytes = a.poppedBytes() - a.lastG
	if a.tickBytes <= 0 {
		return
	}
	a.inTick = true
	a.tok("tb 0")
}

func c07WaitUntil(d time.Duration, cond func() bool) bool {
	t0 := time.Now()
	for !cond() {
		if time.Since(t0) > d {
			return false
		}
		time.Sleep(20 * time.Microsecond)
	}
	return true
}

// rendezvous runs Flush/Close; when the gate is closed the call first hangs in the stalled consumer
// for a moment, then the gate is opened so that it can return (the producer is blocked meanwhile).
func (a *c07AB) rendezvous(call func()) (panicked bool) {
	done := make(chan bool, 1)
	go func() {
		defer func() {
			if recover() != nil {
				done <- true
			}
		}()
		call()
		done <- false
	}()
	if !a.g.IsOpen() {
		select {
		case p := <-done:
			return p
		case <-time.After(300 * time.Microsecond):
		}
		a.g.SetOpen(true)
	}
	return <-done
}

func (a *c07AB) run(hops []c07Hop) string {
	for _, h := range hops {
		switch h.kind {
		case "R":
			ok := true
			for _, c := range h.chunks {
				if !a.write(c) {
					ok = false
					break // WriteRecord: `return err` at the first failed Write
				}
			}
			a.tok("e %d", b2i(ok))
		case "G0":
			a.g.SetOpen(false)
			if !a.closed {
				c07WaitUntil(3*time.Millisecond, a.g.Blocked)
			}
			a.pinCheck()
		case "B": // wait until the consumer is stuck in the closed gate (it received a chunk larger than bufio's buffer)
			if !a.closed && !a.g.IsOpen() {
				c07WaitUntil(5*time.Millisecond, a.g.Blocked)
			}
			a.idle()
		case "L": // bring the queue to `free` free slots with one-byte records, then ONE long write
			for tries := 0; tries < a.cap+3 && !a.closed; tries++ {
				if a.cap-a.aw.VerifQueueLen() <= h.free {
					break
				}
				a.fill++
				ok := a.write([]byte{a.fill})
				a.tok("e %d", b2i(ok))
			}
			a.fill++
			c := make([]byte, h.n)
			for i := range c {
				c[i] = a.fill
			}
			ok := a.write(c)
			a.tok("e %d", b2i(ok))
		case "T": // wait for the ticker to fire into the closed gate
			if !a.closed && !a.noTick && !a.g.IsOpen() {
				c07WaitUntil(time.Duration(2*a.tickUs+2000)*time.Microsecond, a.g.Blocked)
			}
			a.pinCheck()
		case "G1t": // the disk resumes; wait only until the stalled periodic flush is through, not for the next tick
			was := a.inTick
			want := a.lastG + a.tickBytes
			a.g.SetOpen(true)
			if was {
				c07WaitUntil(20*time.Millisecond, func() bool { return !a.g.Blocked() && a.g.Len() >= want })
				time.Sleep(50 * time.Microsecond)
			}
			a.idle()
		case "G1", "G1n":
			a.g.SetOpen(true)
			if h.kind == "G1" && !a.closed {
				c07WaitUntil(20*time.Millisecond, func() bool {
					return a.aw.VerifQueueLen() == 0 && (a.noTick || a.g.Len() == a.accBytes)
				})
			}
			a.idle()
		case "S":
			time.Sleep(300 * time.Microsecond)
			a.idle()
		case "Z":
			a.idle()
			a.tok("z %s", c07hex(a.g.Slice(a.seen, a.lastG)))
			a.seen = a.lastG
		case "F", "C":
			var p bool
			if h.kind == "F" {
				p = a.rendezvous(func() { a.aw.Flush() })
			} else {
				p = a.rendezvous(a.aw.Close)
			}
			if p {
				a.tok("%sx", strings.ToLower(h.kind))
				continue
			}
			g := a.g.Len()
			q := a.aw.VerifQueueLen()
			a.tok("%s %d %s", strings.ToLower(h.kind), q, c07hex(a.g.Slice(a.seen, g)))
			a.lastQ, a.lastG, a.seen = q, g, g
			a.nPopped = len(a.accLens) - q
			a.inTick = false
			if h.kind == "C" {
				a.closed = true
			}
		}
	}
	return fmt.Sprintf("T %d %s", len(a.toks), strings.Join(a.toks, " "))
}

func c07ABCase(r *Rng, tier string, hot int, f c07Facts) (string, func() string) {
	capv := r.Pick(1, 1, 2, 2, 3, 4, 5, 8)
	k := 1
	chk := 1
	// the records of a `chk 1` line are chunked the way the real writers chunk theirs
	ks := []int{f.wpr["LJH22"], f.wpr["LJH3"], f.wpr["OFF"]}
	k = ks[r.Intn(3)]
	if k < 1 || k > 20 {
		k = 1
	}
	if r.Chance(25) || hot == 1 || hot == 2 {
		chk = 0 // multi-chunk client: only model = implementation is compared (not a dastard file)
		k = r.Pick(2, 3, 5, 8)
	}
	tick := r.Pick(100, 100, 200, 1000, 3000, 3000, 0) // microseconds; 0 = one hour (no periodic flush)
	hasBig := false
	next := byte(r.Intn(256))
	minLen := 0
	mkRec := func(k int, big bool) c07Hop {
		h := c07Hop{kind: "R"}
		for j := 0; j < k; j++ {
			n := r.Range(0, 5)
			if r.Chance(15) {
				n = 0
			}
			if n < minLen {
				n = minLen
			}
			if big {
				hasBig = true
				n = 4097 + r.Intn(200) // larger than bufio's buffer: the consumer writes it straight to the file
				big = false
			}
			c := make([]byte, n)
			for i := range c {
				c[i] = next
				next++
			}
			h.chunks = append(h.chunks, c)
		}
		return h
	}
	var hops []c07Hop
	add := func(kind string) { hops = append(hops, c07Hop{kind: kind}) }
	switch hot {
	case 1: // the Lean witness of C07_multichunk_counterexample: cap 1, stalled, one 2-chunk record, flush
		capv, k, tick = 1, 2, 100
		hops = []c07Hop{{kind: "R", chunks: [][]byte{{7}}}, {kind: "G0"}, {kind: "R", chunks: [][]byte{{1}, {2}}}, {kind: "G1"}, {kind: "F"}, {kind: "C"}}
	case 2: // LJH2.2-shaped 3-chunk records against a queue of 4 under a stall
		capv, k, tick = 4, 3, 100
		hops = append(hops, mkRec(3, false), c07Hop{kind: "G0"}, mkRec(3, false), mkRec(3, false), mkRec(3, false), c07Hop{kind: "G1"}, c07Hop{kind: "F"}, mkRec(3, false), c07Hop{kind: "C"})
	case 6, 7, 8, 9: // ONE write of about / more than 64 KiB against a nearly full queue under a stall
		capv, chk = r.Pick(2, 3, 4, 5, 8), 1
		k = ks[0]
		if k < 1 || k > 20 {
			k = 1
		}
		for j := r.Intn(3); j > 0; j-- {
			hops = append(hops, mkRec(k, false))
		}
		// the consumer receives the >4 KiB chunk and sticks in the closed gate: nothing is received after it
		hops = append(hops, c07Hop{kind: "G0"}, mkRec(1, true), c07Hop{kind: "B"})
		for j := r.Range(1, 2); j > 0; j-- {
			n := r.Pick(65535, 65536, 65537, 70000, 131071, 131072, 131073, 140024, 196609)
			if r.Chance(25) {
				n = r.Range(1, 200000)
			}
			hops = append(hops, c07Hop{kind: "L", free: r.Range(0, 3), n: n})
		}
		hops = append(hops, c07Hop{kind: "G1"}, c07Hop{kind: "F"}, mkRec(k, false), c07Hop{kind: "C"})
	case 3, 4, 5: // a write lands while the PERIODIC flush is stalled on the disk; the disk resumes; explicit Flush
		capv, tick, chk = r.Pick(2, 3, 5, 8), r.Pick(3000, 5000), 1
		k = ks[0]
		if k < 1 || k > 20 {
			k = 1
		}
		for j := r.Intn(3); j > 0; j-- {
			hops = append(hops, mkRec(k, false))
		}
		minLen = 1
		hops = append(hops, c07Hop{kind: "G0"}, mkRec(k, false), c07Hop{kind: "T"})
		for j := r.Range(1, 2); j > 0; j-- {
			hops = append(hops, mkRec(k, false))
		}
		hops = append(hops, c07Hop{kind: "G1t"}, c07Hop{kind: "F"}, mkRec(k, false), c07Hop{kind: "C"})
	default:
		n := r.Range(3, 30)
		gateOpen := true
		for i := 0; i < n; i++ {
			switch c := r.Intn(100); {
			case c < 12 && gateOpen && tick > 0: // stalled periodic flush with writes inside, then resume (+ Flush)
				add("G0")
				minLen = 1
				hops = append(hops, mkRec(k, false))
				add("T")
				for j := r.Range(0, capv+1); j > 0; j-- {
					hops = append(hops, mkRec(k, false))
				}
				minLen = 0
				switch r.Intn(4) {
				case 0:
					add("F") // Flush issued while the periodic flush is still stalled
				case 1:
					add("G1t")
					add("Z")
				default:
					add("G1t")
					add("F")
				}
			case c < 45:
				hops = append(hops, mkRec(k, tier == "thorough" && r.Chance(1)))
			case c < 60:
				if gateOpen {
					add("G0")
					gateOpen = false
					// aim at exactly-full / over-full while the consumer is stuck
					m := capv + r.Range(-1, 3)
					for j := 0; j < m; j++ {
						hops = append(hops, mkRec(k, false))
					}
				} else {
					switch c := r.Intn(100); {
					case c < 50:
						add("G1")
					case c < 70:
						add("G1n")
					default:
						add("G1t")
						if r.Chance(60) {
							add("F")
						}
					}
					gateOpen = true
				}
			case c < 72:
				add("F")
				gateOpen = true
			case c < 84:
				add("Z")
			case c < 94:
				add("S")
			default:
				hops = append(hops, mkRec(k, false), mkRec(k, false))
			}
		}
		add("C")
		if r.Chance(12) { // use after Close (outside the property; model = implementation only)
			for j := r.Range(1, capv+2); j > 0; j-- {
				hops = append(hops, mkRec(k, false))
			}
			add([]string{"F", "C", "Z"}[r.Intn(3)])
		}
	}
	var sb strings.Builder
	for _, h := range hops {
		if h.kind == "R" {
			sb.WriteString(" R")
			for _, c := range h.chunks {
				fmt.Fprintf(&sb, ":%d", len(c))
			}
		} else if h.kind == "L" {
			fmt.Fprintf(&sb, " L%d:%d", h.free, h.n)
		} else {
			sb.WriteString(" " + h.kind)
		}
	}
	wpr := c07Max(f.wpr)
	in := fmt.Sprintf("AB cap %d wpr %d hdrw %d chk %d tick %d first %d scen%s", capv, wpr, c07Max(f.hdrw), chk, tick, next, sb.String())
	return in, func() string {
		d := time.Duration(tick) * time.Microsecond
		if tick == 0 {
			d = time.Hour
		}
		a := &c07AB{cap: capv, g: newC07Gate(), noTick: tick == 0, tickUs: tick, hasBig: hasBig}
		a.aw = asyncbufio.NewWriter(a.g, capv, d)
		if a.aw.VerifQueueCap() != capv {
			return "PANIC queue-capacity-differs"
		}
		out := a.run(hops)
		a.g.SetOpen(true)
		return out
	}
}

// ---------------------------------------------------------------------------------------------
// real file writers on a named pipe

type c07Pipe struct {
	path string
	rfd  int
	data []byte
}

var c07PipeSeq int

func c07Dir() string {
	d := os.Getenv("VERIF_WORKDIR")
	if d == "" {
		d = os.TempDir()
	}
	d = filepath.Join(d, fmt.Sprintf("c07_%d", os.Getpid()))
	os.MkdirAll(d, 0o755)
	return d
}

func newC07Pipe(name string) (*c07Pipe, error) {
	c07PipeSeq++
	p := &c07Pipe{path: filepath.Join(c07Dir(), fmt.Sprintf("%s_%d.fifo", name, c07PipeSeq))}
	os.Remove(p.path)
	if err := syscall.Mkfifo(p.path, 0o600); err != nil {
		return nil, err
	}
	fd, err := syscall.Open(p.path, syscall.O_RDONLY|syscall.O_NONBLOCK, 0)
	if err != nil {
		return nil, err
	}
	p.rfd = fd
	const fSetPipeSz = 1031
	syscall.Syscall(syscall.SYS_FCNTL, uintptr(fd), fSetPipeSz, 4096) // small kernel buffer: the stall bites early
	return p, nil
}

// drain reads whatever the pipe holds right now ("the disk takes it").
func (p *c07Pipe) drain() {
	buf := make([]byte, 65536)
	for {
		n, err := syscall.Read(p.rfd, buf)
		if n > 0 {
			p.data = append(p.data, buf[:n]...)
		}
		if n <= 0 || err != nil {
			return
		}
	}
}
func (p *c07Pipe) close() { syscall.Close(p.rfd); os.Remove(p.path) }

// c07W: the three real writers behind one face.
type c07W interface {
	create() error
	header() error
	rec(i int) error
	flush()
	close()
	qlen() int
	qcap() int
}

var c07T0 = time.Unix(1700000000, 123456000)

type c07L22 struct {
	w     *ljh.Writer
	nsamp int
}

func newC07L22(path string, nsamp int) *c07L22 {
	return &c07L22{nsamp: nsamp, w: &ljh.Writer{ChannelIndex: 3, Presamples: 1, Samples: nsamp, FramesPerSample: 1,
		Timebase: 1e-5, TimestampOffset: c07T0, NumberOfRows: 4, NumberOfColumns: 2, NumberOfChans: 8,
		SubframeDivisions: 4, SubframeOffset: 1, FileName: path, DastardVersion: "v", GitHash: "g", SourceName: "s",
		ChanName: "chan3", ChannelNumberMatchingName: 3, ColumnNum: 1, RowNum: 1, PixelName: "px"}}
}
func c07Samples(i, n int) []uint16 {
	d := make([]uint16, n)
	for j := range d {
		if n > 1000 {
			d[j] = uint16(i%200+1) * 0x0101 // long records: constant bytes (run-length encoded on the line)
		} else {
			d[j] = uint16(i*131 + j*7 + 1)
		}
	}
	return d
}

// c07LongAt: record index -> sample count, for the LJH3 records the running case decided to make long
// (shared by the stalled writer and the reference writer; one case at a time per process).
var c07LongAt = map[int]int{}
func (x *c07L22) create() error { return x.w.CreateFile() }
func (x *c07L22) header() error { return x.w.WriteHeader(c07T0) }
func (x *c07L22) rec(i int) error {
	return x.w.WriteRecord(int64(1000+i), int64(5000000+i*3), c07Samples(i, x.nsamp))
}
func (x *c07L22) flush()    { x.w.Flush() }
func (x *c07L22) close()    { x.w.Close() }
func (x *c07L22) qlen() int { return x.w.VerifQueueLen() }
func (x *c07L22) qcap() int { return x.w.VerifQueueCap() }

type c07L3 struct {
	w     *ljh.Writer3
	nsamp int
}

func newC07L3(path string, nsamp int) *c07L3 {
	return &c07L3{nsamp: nsamp, w: &ljh.Writer3{ChannelIndex: 3, Timebase: 1e-5, NumberOfRows: 4, NumberOfColumns: 2,
		SubframeDivisions: 4, SubframeOffset: 1, FileName: path}}
}
func (x *c07L3) create() error { return x.w.CreateFile() }
func (x *c07L3) header() error { return x.w.WriteHeader() }
func (x *c07L3) rec(i int) error {
	// LJH3 records may vary in length
	n := x.nsamp + i%3
	if v, ok := c07LongAt[i]; ok {
		n = v
	}
	return x.w.WriteRecord(int32(2), int64(1000+i), int64(5000000+i*3), c07Samples(i, n))
}
func (x *c07L3) flush()    { x.w.Flush() }
func (x *c07L3) close()    { x.w.Close() }
func (x *c07L3) qlen() int { return x.w.VerifQueueLen() }
func (x *c07L3) qcap() int { return x.w.VerifQueueCap() }

type c07Off struct {
	w  *off.Writer
	nb int
}

func newC07Off(path string, nb int) *c07Off {
	ns := 4
	pr := mat.NewDense(nb, ns, nil)
	ba := mat.NewDense(ns, nb, nil)
	for i := 0; i < nb; i++ {
		for j := 0; j < ns; j++ {
			pr.Set(i, j, float64(i*10+j)+0.5)
			ba.Set(j, i, float64(j*10+i)-0.25)
		}
	}
	w := off.NewWriter(path, 3, "chan3", 3, 1, ns, 1e-5, pr, ba, "model", "v", "g", "s",
		off.TimeDivisionMultiplexingInfo{NumberOfRows: 4, NumberOfColumns: 2, NumberOfChans: 8, SubframeDivisions: 4, ColumnNum: 1, RowNum: 1, SubframeOffset: 1},
		off.PixelInfo{XPosition: 1, YPosition: 2, Name: "px"})
	w.CreationInfo.CreationTime = c07T0 // NewWriter stamps time.Now(): make the two writers' headers comparable
	return &c07Off{w: w, nb: nb}
}
func (x *c07Off) create() error { return x.w.CreateFile() }
func (x *c07Off) header() error { return x.w.WriteHeader() }
func (x *c07Off) rec(i int) error {
	d := make([]float32, x.nb)
	for j := range d {
		d[j] = float32(i) + float32(j)/8
	}
	return x.w.WriteRecord(4, 1, int64(1000+i), int64(5000000+i*3), float32(i)/2, float32(i)/4, float32(i)/16, d)
}
func (x *c07Off) flush()    { x.w.Flush() }
func (x *c07Off) close()    { x.w.Close() }
func (x *c07Off) qlen() int { return x.w.VerifQueueLen() }
func (x *c07Off) qcap() int { return x.w.VerifQueueCap() }

func newC07W(kind, path string, size int) c07W {
	switch kind {
	case "LJH22":
		return newC07L22(path, size)
	case "LJH3":
		return newC07L3(path, size)
	}
	return newC07Off(path, size)
}

// c07Ref: a never-stalled writer of the same type on a regular file; record i's bytes = the file's
// growth over WriteRecord(i)+Flush.
type c07Ref struct {
	w    c07W
	f    *os.File
	size int64
	hdr  []byte
	recs [][]byte
}

func newC07Ref(kind string, size int) (*c07Ref, error) {
	c07PipeSeq++
	path := filepath.Join(c07Dir(), fmt.Sprintf("ref_%d.dat", c07PipeSeq))
	r := &c07Ref{w: newC07W(kind, path, size)}
	if err := r.w.create(); err != nil {
		return nil, err
	}
	f, err := os.Open(path)
	if err != nil {
		return nil, err
	}
	r.f = f
	os.Remove(path)
	if err := r.w.header(); err != nil {
		return nil, err
	}
	r.hdr = r.grow()
	return r, nil
}
func (r *c07Ref) grow() []byte {
	r.w.flush()
	st, _ := r.f.Stat()
	b := make([]byte, st.Size()-r.size)
	r.f.ReadAt(b, r.size)
	r.size = st.Size()
	return b
}
func (r *c07Ref) rec(i int) []byte {
	for len(r.recs) <= i {
		if err := r.w.rec(len(r.recs)); err != nil {
			panic("reference writer rejected a record")
		}
		r.recs = append(r.recs, r.grow())
		if n := len(r.recs); n >= 2 && len(r.recs[n-2]) > 4096 {
			r.recs[n-2] = nil // records are asked for once, in order: do not keep long ones
		}
	}
	return r.recs[i]
}
func (r *c07Ref) close() { r.w.close(); r.f.Close() }

type c07WR struct {
	kind        string
	k, hk       int
	w           c07W
	ref         *c07Ref
	p           *c07Pipe
	cap         int
	lastQ, seen int
	open        bool
	nrec, nrej  int
	toks        []string
}

func (x *c07WR) tok(f string, a ...interface{}) { x.toks = append(x.toks, fmt.Sprintf(f, a...)) }

// look: queue length now -> receives since the last look.
func (x *c07WR) look(acc int, popFirst bool) (string, string) {
	q := x.w.qlen()
	p := x.lastQ + acc - q
	pre, post := "", ""
	if popFirst && p > 0 {
		pre = "p 1"
		p--
	}
	if p > 0 {
		post = fmt.Sprintf("p %d", p)
	}
	x.lastQ = q
	return pre, post
}

// settle: the disk runs: drain the pipe until the queue is empty.
func (x *c07WR) settle() {
	c07WaitUntil(2*time.Second, func() bool { x.p.drain(); return x.w.qlen() == 0 })
	if _, post := x.look(0, false); post != "" && x.k == 1 {
		x.tok("%s", post)
	}
}

func (x *c07WR) record() {
	i := x.nrec
	x.nrec++
	want := x.ref.rec(i)
	full := x.lastQ == x.cap
	err := x.w.rec(i)
	ok := err == nil
	if !ok {
		x.nrej++
	}
	if x.k != 1 { // chunk-level outcome not visible: an opaque record, judged by the oracle only
		x.tok("R %s %d", c07hex(want), b2i(ok))
		x.lastQ = x.w.qlen()
		return
	}
	pre, post := x.look(b2i(ok), ok && full)
	if pre != "" {
		x.tok("%s", pre)
	}
	x.tok("w %s %d e %d", c07hex(want), b2i(ok), b2i(ok))
	if post != "" {
		x.tok("%s", post)
	}
}

// rendezvous: Flush/Close; under a stall the call hangs for a moment, then the disk resumes.
//
// `stall` is how long the disk stays stalled after the call was issued.  The property holds for ANY stall
// length, so a few directed cases keep it stalled for seconds — longer than any plausible "give up
// waiting for the disk" timeout: a Flush/Close that returns during the stall (outstanding data cannot
// have reached the pipe: queue full, bufio and pipe full) is then judged by the oracle on what the file
// holds at that moment (flush-incomplete).
func (x *c07WR) rendezvous(name string, call func(), stall time.Duration) {
	done := make(chan struct{})
	go func() { call(); close(done) }()
	if !x.open {
		select {
		case <-done:
		case <-time.After(stall):
		}
		x.open = true
	}
	for {
		x.p.drain()
		select {
		case <-done:
			x.p.drain()
			q := x.w.qlen()
			x.tok("%s %d %s", name, q, c07hex(x.p.data[x.seen:]))
			x.seen = len(x.p.data)
			x.lastQ = q
			return
		default:
			time.Sleep(20 * time.Microsecond)
		}
	}
}

type c07Phase struct {
	kind string // free n | stall rejects | F | C | FL ms | CL ms (Flush / Close with the disk stalled that long)
	// stallL: stall, small records until n%4 queue slots are left, then ONE record of n/4 samples (LJH3)
	n int
}

func c07WRCase(r *Rng, kind string, hot bool, f c07Facts, long int, big int) (string, func() string) {
	size := r.Range(1, 6)
	var phases []c07Phase
	if big == 1 {
		// LJH3 (records of any length): a record of about / more than 64 KiB when the stalled queue is nearly full
		kind = "LJH3"
		phases = []c07Phase{{kind: "free", n: r.Range(0, 5)}}
		for j := r.Range(1, 3); j > 0; j-- {
			ns := r.Pick(32755, 32756, 32757, 32760, 65500, 65524, 65525, 70000, 98300) // 24+2n bytes: around 1x, 2x, 3x 65536
			if r.Chance(20) {
				ns = r.Range(20000, 100000)
			}
			phases = append(phases, c07Phase{kind: "stallL", n: ns*4 + r.Range(0, 3)}, c07Phase{kind: "free", n: r.Range(0, 3)})
			if r.Chance(50) {
				phases = append(phases, c07Phase{kind: "F"})
			}
		}
		phases = append(phases, c07Phase{kind: "C"})
	} else if big == 2 {
		// LJH2.2 (fixed record length): EVERY record is about / more than 64 KiB (16+2n bytes).  NOT scheduled:
		// filling the 1000-deep queue takes 65 MB per stall, too much for the list-based Lean driver; the
		// same asyncbufio.Write is reached with long LJH3 records and direct writes (kept for manual runs).
		kind = "LJH22"
		size = r.Pick(32752, 32759, 32760, 32761, 32768, 35000)
		phases = []c07Phase{{kind: "free", n: 2}, {kind: "stall", n: r.Range(1, 4)}, {kind: "free", n: 1}, {kind: "F"}, {kind: "C"}}
	} else if long > 0 {
		// queue full + consumer stuck in the pipe, then Close (sometimes a Flush first) with the disk
		// stalled for `long` ms more
		phases = []c07Phase{{"free", r.Range(0, 8)}, {"stall", r.Range(1, 20)}}
		if r.Chance(30) {
			phases = append(phases, c07Phase{"FL", long}, c07Phase{"stall", r.Range(1, 10)})
		}
		phases = append(phases, c07Phase{"CL", long})
	} else if hot {
		phases = []c07Phase{{"free", 12}, {"stall", 40}, {"free", 5}, {"F", 0}, {"stall", 3}, {"F", 0}, {"free", 3}, {"C", 0}}
	} else {
		n := r.Range(1, 5)
		for i := 0; i < n; i++ {
			switch c := r.Intn(100); {
			case c < 35:
				phases = append(phases, c07Phase{"free", r.Range(0, 40)})
			case c < 75:
				phases = append(phases, c07Phase{"stall", r.Range(1, 60)})
			default:
				phases = append(phases, c07Phase{"F", 0})
			}
		}
		phases = append(phases, c07Phase{"C", 0})
	}
	var sb strings.Builder
	for _, p := range phases {
		if p.kind == "stallL" {
			fmt.Fprintf(&sb, " stallL:%d:%d", p.n/4, p.n%4)
		} else {
			fmt.Fprintf(&sb, " %s:%d", p.kind, p.n)
		}
	}
	in := fmt.Sprintf("%s cap %d wpr %d hdrw %d chk 1 size %d scen%s", kind, 1000, f.wpr[kind], f.hdrw[kind], size, sb.String())
	return in, func() string {
		c07LongAt = map[int]int{}
		ref, err := newC07Ref(kind, size)
		if err != nil {
			return "PANIC reference-writer-" + err.Error()
		}
		defer ref.close()
		p, err := newC07Pipe(strings.ToLower(kind))
		if err != nil {
			return "PANIC mkfifo"
		}
		defer p.close()
		if big == 2 { // 64 KiB records: a roomier kernel buffer keeps the drain phases short
			syscall.Syscall(syscall.SYS_FCNTL, uintptr(p.rfd), 1031, 1<<20)
		}
		x := &c07WR{kind: kind, k: f.wpr[kind], hk: f.hdrw[kind], ref: ref, p: p, open: true}
		x.w = newC07W(kind, p.path, size)
		if err := x.w.create(); err != nil {
			return "PANIC create-on-fifo"
		}
		x.cap = x.w.qcap()
		if x.cap != 1000 {
			return fmt.Sprintf("PANIC queue-capacity-%d", x.cap)
		}
		// header: hk chunk writes into the fresh queue; their concatenation is the reference header
		herr := x.w.header()
		if herr != nil || x.hk < 1 || x.hk > 50 {
			x.tok("R %s %d", c07hex(ref.hdr), b2i(herr == nil))
			x.lastQ = x.w.qlen()
		} else {
			x.tok("w %s 1", c07hex(ref.hdr))
			for j := 1; j < x.hk; j++ {
				x.tok("w - 1")
			}
			x.tok("e 1")
			if _, post := x.look(x.hk, false); post != "" && x.k == 1 {
				x.tok("%s", post)
			}
		}
		closed := false
		for _, ph := range phases {
			switch ph.kind {
			case "free":
				x.open = true
				x.settle()
				for j := 0; j < ph.n; j++ {
					x.record()
					x.settle()
				}
			case "stall":
				x.open = false
				start := x.nrej
				for n := 0; x.nrej-start < ph.n && n < 20000; n++ {
					x.record()
				}
			case "stallL":
				x.open = false
				for n := 0; n < 20000 && x.cap-x.w.qlen() > ph.n%4; n++ {
					x.record()
				}
				c07LongAt[x.nrec] = ph.n / 4
				x.record()
				for j := 0; j < 3; j++ {
					x.record()
				}
			case "F":
				x.rendezvous("f", x.w.flush, 500*time.Microsecond)
			case "FL":
				x.rendezvous("f", x.w.flush, time.Duration(ph.n)*time.Millisecond)
			case "C":
				x.rendezvous("c", x.w.close, 500*time.Microsecond)
				closed = true
			case "CL":
				x.rendezvous("c", x.w.close, time.Duration(ph.n)*time.Millisecond)
				closed = true
			}
		}
		if !closed {
			x.rendezvous("c", x.w.close, 500*time.Microsecond)
		}
		return fmt.Sprintf("T %d %s", len(x.toks), strings.Join(x.toks, " "))
	}
}

// ---------------------------------------------------------------------------------------------
// PD: through the real processSegment / PublishData

// c07PDPipe is one prepared pipeline: scripted source -> real ProcessSegments -> processSegment ->
// PublishData -> the channel's real file writers.
type c07PDPipe struct {
	vs  *dastard.VerifSource
	dsp *dastard.DataStreamProcessor
}

const c07PDnsamp, c07PDnpre = 4, 1

func newC07PDPipe(writers []string, path func(w string) string) (*c07PDPipe, error) {
	dastard.VerifSetSavedTriggers([]dastard.FullTriggerState{{ChannelIndices: []int{0},
		TriggerState: dastard.TriggerState{AutoTrigger: true}}})
	vs := dastard.NewVerifSource(1, 100000.0)
	if err := vs.VerifPrepare(c07PDnpre, c07PDnsamp); err != nil {
		return nil, err
	}
	dsp := vs.VerifProcessor(0)
	for _, w := range writers {
		switch w {
		case "ljh22":
			dsp.SetLJH22(0, c07PDnpre, c07PDnsamp, 1, 1e-5, c07T0, 1, 1, 1, 1, 0, 0, 0, path(w), "src", "chan0", 0, dastard.Pixel{})
		case "ljh3":
			dsp.SetLJH3(0, 1e-5, 1, 1, 1, 0, path(w))
		case "off":
			nb := 2
			pr := mat.NewDense(nb, c07PDnsamp, []float64{1, 0, 0, 0, 0, 1, 0, 0})
			ba := mat.NewDense(c07PDnsamp, nb, []float64{1, 0, 0, 1, 0, 0, 0, 0})
			if err := dsp.SetProjectorsBasis(pr, ba, "m"); err != nil {
				return nil, err
			}
			dsp.SetOFF(0, c07PDnpre, c07PDnsamp, 1, 1e-5, c07T0, 1, 1, 1, 1, 0, 0, 0, path(w), "src", "chan0", 0, pr, ba, "m", dastard.Pixel{})
			dsp.OFF.CreationInfo.CreationTime = c07T0
		}
	}
	return &c07PDPipe{vs: vs, dsp: dsp}, nil
}

// block b: one record length of samples; the auto trigger makes (at most) one record per block.
func (p *c07PDPipe) block(b int) error {
	d := make([]dastard.RawType, c07PDnsamp)
	for j := range d {
		d[j] = dastard.RawType(b*37 + j*5 + 3)
	}
	first := int64(100000 + b*c07PDnsamp)
	p.vs.VerifProcessSegment(0, first, c07T0.UnixNano()+first*10000, 10000, d)
	return nil
}
func (p *c07PDPipe) nwritten(w string) int {
	switch w {
	case "ljh22":
		return p.dsp.LJH22.RecordsWritten
	case "ljh3":
		return p.dsp.LJH3.RecordsWritten
	}
	return p.dsp.OFF.RecordsWritten()
}
func (p *c07PDPipe) qlen(w string) int {
	switch w {
	case "ljh22":
		return p.dsp.LJH22.VerifQueueLen()
	case "ljh3":
		return p.dsp.LJH3.VerifQueueLen()
	}
	return p.dsp.OFF.VerifQueueLen()
}
func (p *c07PDPipe) remove(w string) {
	switch w {
	case "ljh22":
		p.dsp.RemoveLJH22()
	case "ljh3":
		p.dsp.RemoveLJH3()
	default:
		p.dsp.RemoveOFF()
	}
}

func c07PDCase(r *Rng, writers []string, hot bool) (string, func() string) {
	nfree := r.Range(2, 12)
	nrej := r.Range(1, 30)
	if !hot && r.Chance(40) {
		nrej = 0 // the disk never stalls
	}
	nmore := r.Range(0, 6)
	in := fmt.Sprintf("PD writers %d %s free %d rej %d more %d", len(writers), strings.Join(writers, " "), nfree, nrej, nmore)
	return in, func() string {
		dastard.VerifStartClientDrain()
		// reference pipeline on regular files: per block, the bytes each writer adds
		c07PipeSeq++
		seq := c07PipeSeq
		refFiles := map[string]*os.File{}
		refSize := map[string]int64{}
		ref, err := newC07PDPipe(writers, func(w string) string { return filepath.Join(c07Dir(), fmt.Sprintf("pdref_%d.%s", seq, w)) })
		if err != nil {
			return "PANIC pd-prepare"
		}
		pipes := map[string]*c07Pipe{}
		for _, w := range writers {
			pp, err := newC07Pipe("pd_" + w)
			if err != nil {
				return "PANIC mkfifo"
			}
			pipes[w] = pp
			defer pp.close()
		}
		tst, err := newC07PDPipe(writers, func(w string) string { return pipes[w].path })
		if err != nil {
			return "PANIC pd-prepare"
		}
		toks := map[string][]string{}
		seen := map[string]int{}
		rejected := map[string]int{}
		drainAll := func() {
			for _, pp := range pipes {
				pp.drain()
			}
		}
		settle := func() {
			c07WaitUntil(2*time.Second, func() bool {
				drainAll()
				for _, w := range writers {
					if tst.qlen(w) > 0 {
						return false
					}
				}
				return true
			})
		}
		nblock := 0
		oneBlock := func() string {
			b := nblock
			nblock++
			before := map[string]int{}
			rbefore := map[string]int{}
			for _, w := range writers {
				before[w], rbefore[w] = tst.nwritten(w), ref.nwritten(w)
			}
			if err := ref.block(b); err != nil {
				return "PANIC pd-ref-process"
			}
			ref.dsp.Flush()
			if err := tst.block(b); err != nil { // a rejected OFF record panics inside a processing goroutine: the process dies here
				return "PANIC pd-process-error"
			}
			for _, w := range writers {
				dref := ref.nwritten(w) - rbefore[w]
				if dref == 0 {
					continue
				}
				if dref != 1 {
					return "PANIC pd-more-than-one-record-per-block"
				}
				if refFiles[w] == nil {
					f, err := os.Open(filepath.Join(c07Dir(), fmt.Sprintf("pdref_%d.%s", seq, w)))
					if err != nil {
						return "PANIC pd-ref-file"
					}
					refFiles[w] = f
				}
				st, _ := refFiles[w].Stat()
				grow := make([]byte, st.Size()-refSize[w])
				refFiles[w].ReadAt(grow, refSize[w])
				refSize[w] = st.Size()
				d := tst.nwritten(w) - before[w]
				if d != 0 && d != 1 {
					return "PANIC pd-counter"
				}
				if d == 0 {
					rejected[w]++
				}
				// the first unit holds the header too (written by the same PublishData call into the empty queue)
				toks[w] = append(toks[w], fmt.Sprintf("R %s %d", c07hex(grow), d))
			}
			return ""
		}
		rendezvous := func(name string, call func()) {
			done := make(chan struct{})
			go func() { call(); close(done) }()
			for {
				drainAll()
				select {
				case <-done:
					drainAll()
					for _, w := range writers {
						pp := pipes[w]
						q := 0
						if name == "f" {
							q = tst.qlen(w)
						}
						toks[w] = append(toks[w], fmt.Sprintf("%s %d %s", name, q, c07hex(pp.data[seen[w]:])))
						seen[w] = len(pp.data)
					}
					return
				default:
					time.Sleep(20 * time.Microsecond)
				}
			}
		}
		for i := 0; i < nfree; i++ {
			if e := oneBlock(); e != "" {
				return e
			}
			settle()
		}
		// the disk stalls: nobody drains the pipes
		for n := 0; n < 30000 && nrej > 0; n++ {
			if e := oneBlock(); e != "" {
				return e
			}
			min := 1 << 30
			for _, w := range writers {
				if rejected[w] < min {
					min = rejected[w]
				}
			}
			if min >= nrej {
				break
			}
		}
		settle()
		rendezvous("f", tst.dsp.Flush)
		for i := 0; i < nmore; i++ {
			if e := oneBlock(); e != "" {
				return e
			}
			settle()
		}
		rendezvous("c", func() {
			for _, w := range writers {
				tst.remove(w)
			}
		})
		for _, w := range writers {
			ref.remove(w)
			if refFiles[w] != nil {
				refFiles[w].Close()
			}
		}
		var sb strings.Builder
		fmt.Fprintf(&sb, "D %d", len(writers))
		for _, w := range writers {
			fmt.Fprintf(&sb, " %s T %d %s", w, len(toks[w]), strings.Join(toks[w], " "))
		}
		return sb.String()
	}
}

// ---------------------------------------------------------------------------------------------
// PUB: the real DataPublisher (PublishData / Flush / SetPause / Remove*) with real writers on regular
// files.  No stall is needed: the file is read IMMEDIATELY after every Flush / SetPause / Remove* return
// (never waiting for the writers' 3 s ticker) and must then hold everything accepted so far.

type c07Pub struct {
	dp    *dastard.DataPublisher
	paths map[string]string
}

func newC07Pub(writers []string, tag string) *c07Pub {
	c07PipeSeq++
	p := &c07Pub{dp: &dastard.DataPublisher{}, paths: map[string]string{}}
	for _, w := range writers {
		path := filepath.Join(c07Dir(), fmt.Sprintf("pub%s_%d.%s", tag, c07PipeSeq, w))
		os.Remove(path)
		p.paths[w] = path
		switch w {
		case "ljh22":
			p.dp.SetLJH22(0, c07PDnpre, c07PDnsamp, 1, 1e-5, c07T0, 1, 1, 1, 1, 0, 0, 0, path, "src", "chan0", 0, dastard.Pixel{})
		case "ljh3":
			p.dp.SetLJH3(0, 1e-5, 1, 1, 1, 0, path)
		case "off":
			pr := mat.NewDense(2, c07PDnsamp, []float64{1, 0, 0, 0, 0, 1, 0, 0})
			ba := mat.NewDense(c07PDnsamp, 2, []float64{1, 0, 0, 1, 0, 0, 0, 0})
			p.dp.SetOFF(0, c07PDnpre, c07PDnsamp, 1, 1e-5, c07T0, 1, 1, 1, 1, 0, 0, 0, path, "src", "chan0", 0, pr, ba, "m", dastard.Pixel{})
			p.dp.OFF.CreationInfo.CreationTime = c07T0
		}
	}
	return p
}
func (p *c07Pub) nwritten(w string) int {
	switch w {
	case "ljh22":
		return p.dp.LJH22.RecordsWritten
	case "ljh3":
		return p.dp.LJH3.RecordsWritten
	}
	return p.dp.OFF.RecordsWritten()
}
func (p *c07Pub) remove(w string) {
	switch w {
	case "ljh22":
		p.dp.RemoveLJH22()
	case "ljh3":
		p.dp.RemoveLJH3()
	default:
		p.dp.RemoveOFF()
	}
}
func (p *c07Pub) read(w string) []byte {
	b, _ := os.ReadFile(p.paths[w])
	return b
}
func c07PubRecord(i int) dastard.VerifRecord {
	d := make([]dastard.RawType, c07PDnsamp)
	for j := range d {
		d[j] = dastard.RawType(i*41 + j*3 + 2)
	}
	return dastard.VerifRecord{Data: d, TrigFrame: int64(5000 + 7*i), TrigTimeNs: c07T0.UnixNano() + int64(i)*1000000,
		Presamples: c07PDnpre, VoltsPerArb: 1, SampPeriod: 1e-5, PretrigMean: float64(i), PretrigDelta: 0.5, PulseAverage: 1,
		PulseRMS: 2, PeakValue: 3, ModelCoefs: []float64{float64(i) + 0.25, float64(i) - 0.5}, ResidualStdDev: 0.125}
}

func c07PUBCase(r *Rng, hot int) (string, func() string) {
	all := [][]string{{"ljh22"}, {"ljh3"}, {"off"}, {"ljh22", "off"}, {"ljh22", "ljh3", "off"}, {"ljh3", "ljh22"}}
	writers := all[r.Intn(len(all))]
	var ops []string
	switch hot {
	case 1: // records, pause (its flush must put them on disk), flush while paused, resume
		writers = []string{"ljh22", "ljh3", "off"}
		ops = []string{"P", "P", "S1", "P", "F", "S0", "P", "F"}
	case 2: // flush while paused after the writer's own data arrived just before
		writers = []string{"ljh22"}
		ops = []string{"S1", "S0", "P", "S1", "F", "P", "S0", "P", "S1"}
	case 3:
		writers = []string{"off", "ljh3"}
		ops = []string{"F", "P", "F", "P", "P", "S1", "S1", "F", "S0", "F"}
	default:
		n := r.Range(3, 24)
		for i := 0; i < n; i++ {
			switch c := r.Intn(100); {
			case c < 50:
				ops = append(ops, "P")
			case c < 65:
				ops = append(ops, "F")
			case c < 85:
				ops = append(ops, "S1")
			default:
				ops = append(ops, "S0")
			}
		}
	}
	in := fmt.Sprintf("PUB writers %d %s scen %s", len(writers), strings.Join(writers, " "), strings.Join(ops, " "))
	return in, func() string {
		tst := newC07Pub(writers, "t")
		ref := newC07Pub(writers, "r")
		toks := map[string][]string{}
		seen := map[string]int{}
		refSeen := map[string]int{}
		sample := func(name string) {
			for _, w := range writers {
				b := tst.read(w)
				if len(b) < seen[w] {
					toks[w] = append(toks[w], name+" 0 -") // the file shrank: reported as missing data by the oracle
					continue
				}
				toks[w] = append(toks[w], fmt.Sprintf("%s 0 %s", name, c07hex(b[seen[w]:])))
				seen[w] = len(b)
			}
		}
		nrec := 0
		for _, op := range ops {
			switch op {
			case "P":
				rec := c07PubRecord(nrec)
				nrec++
				before := map[string]int{}
				for _, w := range writers {
					before[w] = tst.nwritten(w)
				}
				if err := dastard.VerifPublish(tst.dp, []dastard.VerifRecord{rec}); err != nil {
					return "PANIC publish-returned-error"
				}
				acc := 0
				for _, w := range writers {
					acc += tst.nwritten(w) - before[w]
				}
				if acc == 0 {
					continue // paused: nothing handed to the writers
				}
				if acc != len(writers) {
					return "PANIC publish-accepted-by-some-writers-only"
				}
				// the reference publisher (never paused, flushed after every record) tells the bytes
				if err := dastard.VerifPublish(ref.dp, []dastard.VerifRecord{rec}); err != nil {
					return "PANIC reference-publish-error"
				}
				ref.dp.Flush()
				for _, w := range writers {
					b := ref.read(w)
					toks[w] = append(toks[w], fmt.Sprintf("R %s 1", c07hex(b[refSeen[w]:])))
					refSeen[w] = len(b)
				}
			case "F":
				tst.dp.Flush()
				sample("f")
			case "S1":
				tst.dp.SetPause(true)
				sample("f")
			case "S0":
				tst.dp.SetPause(false)
				sample("f")
			}
		}
		for _, w := range writers {
			tst.remove(w)
			ref.remove(w)
		}
		sample("c")
		for _, w := range writers {
			os.Remove(tst.paths[w])
			os.Remove(ref.paths[w])
		}
		var sb strings.Builder
		fmt.Fprintf(&sb, "D %d", len(writers))
		for _, w := range writers {
			fmt.Fprintf(&sb, " %s T %d %s", w, len(toks[w]), strings.Join(toks[w], " "))
		}
		return sb.String()
	}
}
