module dvharness

go 1.21

require (
	github.com/pebbe/zmq4 v1.2.11
	github.com/spf13/viper v1.18.2
	github.com/usnistgov/dastard v0.0.0
	gonum.org/v1/gonum v0.15.0
	gopkg.in/yaml.v3 v3.0.1
)

require (
	github.com/davecgh/go-spew v1.1.2-0.20180830191138-d8f796af33cc // indirect
	github.com/fabiokung/shm v0.0.0-20150728212823-2852b0d79bae // indirect
	github.com/fsnotify/fsnotify v1.7.0 // indirect
	github.com/hashicorp/hcl v1.0.0 // indirect
	github.com/magiconair/properties v1.8.7 // indirect
	github.com/mitchellh/mapstructure v1.5.0 // indirect
	github.com/nlpodyssey/gopickle v0.3.0 // indirect
	github.com/pelletier/go-toml/v2 v2.2.2 // indirect
	github.com/sagikazarmark/slog-shim v0.1.0 // indirect
	github.com/sbinet/npyio v0.9.0 // indirect
	github.com/spf13/afero v1.11.0 // indirect
	github.com/spf13/cast v1.6.0 // indirect
	github.com/spf13/pflag v1.0.5 // indirect
	github.com/subosito/gotenv v1.6.0 // indirect
	golang.org/x/sys v0.20.0 // indirect
	golang.org/x/text v0.15.0 // indirect
	gopkg.in/ini.v1 v1.67.0 // indirect
)

replace github.com/usnistgov/dastard => /repo
