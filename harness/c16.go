package main

// C16 — status replay, configuration persistence, crash safety.
//
// Case kinds (one protocol line each; every case runs in a worker child of the case runner):
//
//	F  facts re-read from the source with go/ast on every run: the ordered file-system steps of
//	   saveState (with their error policy), the no-publish / no-save tag sets, the tags saveState
//	   inserts into the cache.  The Lean driver compares them with the model's constants.
//	H  cache histories: a real RunClientUpdater fed through the real clientMessageChan, observed by a
//	   real ZeroMQ SUB socket on its status port (live messages, SENDALL replies), and the config
//	   file it saves by itself (2 s after a change) read back.
//	K  crash points: real saveState in a child process that exits at a chosen step boundary (or
//	   "inside" the write of the temporary file), then the real start-up path (cmd/dastard built with
//	   -tags verif: makeFileExist + setupViper) reads the directory.
//	R  round trip of the persisted structures: typed configurations saved by the real saveState,
//	   restored by the real start-up (setupViper, RunRPCServer, PrepareRun) and compared field by field.
//
// No case touches ~/.dastard: every child gets HOME inside $VERIF_WORKDIR.

import (
	"bytes"
	"crypto/sha1"
	"encoding/hex"
	"encoding/json"
	"fmt"
	"go/ast"
	"go/parser"
	"go/token"
	"math"
	"net"
	"os"
	"os/exec"
	"path/filepath"
	"reflect"
	"sort"
	"strconv"
	"strings"
	"sync"
	"syscall"
	"time"

	"github.com/pebbe/zmq4"
	"github.com/spf13/viper"
	"github.com/usnistgov/dastard"
	"gopkg.in/yaml.v3"
)

func init() {
	if os.Getenv("DVH_C16_CHILD") != "" {
		c16ChildMain() // never returns
	}
	caseGens["C16"] = caseGen{count: c16Count, gen: c16Gen}
}

func c16Count(tier string) int {
	if tier == "thorough" {
		return 1 + 3000
	}
	return 1 + 420
}

func c16Gen(r *Rng, tier string, idx int) (string, func() string) {
	if idx == 0 {
		return "F", func() string { return c16Facts().line }
	}
	// an S op may wait for the updater's delayed save (2 s) and, when that does not come, for the
	// periodic one (thorough tier): the runner's per-case limit must cover the worst case
	caseTimeout = 60 * time.Second
	if tier == "thorough" {
		caseTimeout = 240 * time.Second
	}
	c16Facts()
	if idx%60 == 13 {
		return c16GenT(r, tier, idx)
	}
	switch k := idx % 10; {
	case k < 3:
		if idx%20 < 10 && k == 2 || r.Chance(12) {
			return c16GenHWindow(r, tier, idx)
		}
		return c16GenH(r, tier, idx)
	case k < 8:
		return c16GenK(r, tier, idx)
	default:
		return c16GenR(r, tier, idx)
	}
}

// ---------------------------------------------------------------------------------------------
// environment

func c16Repo() string {
	if p := os.Getenv("VERIF_REPO"); p != "" {
		return p
	}
	return "/repo"
}

var c16WorkOnce sync.Once
var c16WorkDir string

// c16Work is a private scratch directory ($VERIF_WORKDIR when run by ./check).
func c16Work() string {
	c16WorkOnce.Do(func() {
		d := os.Getenv("VERIF_WORKDIR")
		if d == "" {
			d = filepath.Join(os.TempDir(), fmt.Sprintf("c16_dvh_%d", os.Getuid()))
		}
		d = filepath.Join(d, "c16")
		os.MkdirAll(d, 0775)
		c16WorkDir = d
	})
	return c16WorkDir
}

// c16Dastard builds (once per work directory) the real cmd/dastard with -tags verif from the
// repository's working tree and returns its path.
func c16Dastard() (string, error) {
	bin := filepath.Join(c16Work(), "dastard_c16")
	if _, err := os.Stat(bin); err == nil {
		return bin, nil
	}
	lk, err := os.OpenFile(bin+".lock", os.O_CREATE|os.O_RDWR, 0664)
	if err != nil {
		return "", err
	}
	defer lk.Close()
	if err := syscall.Flock(int(lk.Fd()), syscall.LOCK_EX); err != nil {
		return "", err
	}
	defer syscall.Flock(int(lk.Fd()), syscall.LOCK_UN)
	if _, err := os.Stat(bin); err == nil {
		return bin, nil
	}
	tmp := fmt.Sprintf("%s.%d", bin, os.Getpid())
	cmd := exec.Command("go", "build", "-tags", "verif", "-o", tmp, "./cmd/dastard")
	cmd.Dir = c16Repo()
	cmd.Env = append(os.Environ(), "GOFLAGS=-mod=mod", "GOPROXY=off", "GOSUMDB=off", "GOTOOLCHAIN=local")
	if out, err := cmd.CombinedOutput(); err != nil {
		return "", fmt.Errorf("go build cmd/dastard: %v: %s", err, out)
	}
	return bin, os.Rename(tmp, bin)
}

// c16Port picks a TCP port in 12000..27999 derived from the pid, the job and a counter, and checks it is free.
var c16PortCtr int

func c16Port() int {
	job, _ := strconv.Atoi(os.Getenv("VERIF_JOB"))
	for try := 0; try < 200; try++ {
		c16PortCtr++
		p := 12000 + (os.Getpid()*37+job*4001+c16PortCtr*101)%16000
		l, err := net.Listen("tcp", fmt.Sprintf(":%d", p))
		if err == nil {
			l.Close()
			return p
		}
	}
	return 0
}

func hexStr(s string) string { return hexs([]byte(s)) }

// ---------------------------------------------------------------------------------------------
// F: facts from the source

type c16FactSet struct {
	line    string   // the OUT part of the F line
	ok      bool     // the step sequence was discovered (dynamically)
	sites   []string // crash sites in the order saveState reaches them
	siteOps []int    // number of file-system steps completed before each site
	writeAt []int    // indices of write steps
	nops    int
	adds    []string // keys saveState inserts into the cache
	nosave  []string // lower-cased probe tags a save does not write
}

// c16Dyn is what the discovery child observed of ONE real saveState (see c16ChildDiscover).
type c16Dyn struct {
	Err      string
	Steps    []string // W:tmp RM:bak LN:main:bak RN:tmp:main ... in the order they took effect
	Sites    []string
	SiteOps  []int
	Adds     []string
	Saved    []string // lower-cased probe tags present in the saved file
	NotSaved []string
}

var c16FactsOnce sync.Once
var c16FactsVal c16FactSet

// built-in defaults, used only if the discovery itself fails (the F line then reports that)
var c16DefaultAdds = []string{"CURRENTTIME", "___1", "___2"}
var c16DefaultNoSave = []string{"alive", "channelnames", "externaltrigger", "newdastard", "numberwritten", "tesmap", "triggerrate"}

// c16Facts ties the model's constants to the code.  PRIMARY: behaviour — one real saveState is run in a
// child process with an observer at the verifC16Point sites; the directory is photographed at every site
// and the file-system steps are inferred from the differences; the keys saveState adds and the probe tags
// it does not write are read off the same run.  SECONDARY: the go/ast reader of saveState, a cross-check
// that is skipped (and reported as an ok-tag) when it does not recognise the shape of the code.
func c16Facts() c16FactSet {
	c16FactsOnce.Do(func() {
		if os.Getenv("DVH_C16_CHILD") != "" { // children never discover (they hold a live viper state)
			c16FactsVal = c16FactSet{adds: c16DefaultAdds, nosave: c16DefaultNoSave}
			return
		}
		dyn := c16Discover()
		st := c16Extract(filepath.Join(c16Repo(), "client_updater.go"))
		f := c16FactSet{adds: c16DefaultAdds, nosave: c16DefaultNoSave}
		var sb strings.Builder
		if dyn.Err != "" {
			fmt.Fprintf(&sb, "dyn FAILED %s", strings.Join(strings.Fields(dyn.Err), "_"))
		} else {
			f.ok = true
			f.sites, f.siteOps, f.adds, f.nosave, f.nops = dyn.Sites, dyn.SiteOps, dyn.Adds, dyn.NotSaved, len(dyn.Steps)
			for i, st := range dyn.Steps {
				if strings.HasPrefix(st, "W:") {
					f.writeAt = append(f.writeAt, i)
				}
			}
			fmt.Fprintf(&sb, "dyn steps %d %s sites %d", len(dyn.Steps), strings.Join(dyn.Steps, " "), len(dyn.Sites))
			for i, s := range dyn.Sites {
				fmt.Fprintf(&sb, " %s %d", s, dyn.SiteOps[i])
			}
			fmt.Fprintf(&sb, " adds %d %s notsaved %d %s saved %d %s", len(dyn.Adds), strings.Join(dyn.Adds, " "),
				len(dyn.NotSaved), strings.Join(dyn.NotSaved, " "), len(dyn.Saved), strings.Join(dyn.Saved, " "))
		}
		if st.ok {
			fmt.Fprintf(&sb, " static ok %s", st.line)
		} else {
			fmt.Fprintf(&sb, " static unrecognised %s", strings.Join(strings.Fields(strings.TrimPrefix(st.line, "UNRECOGNISED ")), "_"))
		}
		f.line = strings.Join(strings.Fields(sb.String()), " ")
		c16FactsVal = f
	})
	return c16FactsVal
}

// c16Discover runs (once per work directory) the discovery child and returns its report.
func c16Discover() c16Dyn {
	var d c16Dyn
	cache := filepath.Join(c16Work(), "facts_dyn.json")
	read := func() bool {
		b, err := os.ReadFile(cache)
		return err == nil && json.Unmarshal(b, &d) == nil
	}
	if read() {
		return d
	}
	lk, err := os.OpenFile(cache+".lock", os.O_CREATE|os.O_RDWR, 0664)
	if err != nil {
		return c16Dyn{Err: "lock " + err.Error()}
	}
	defer lk.Close()
	syscall.Flock(int(lk.Fd()), syscall.LOCK_EX)
	defer syscall.Flock(int(lk.Fd()), syscall.LOCK_UN)
	if read() {
		return d
	}
	home := filepath.Join(c16Work(), fmt.Sprintf("discover_%d", os.Getpid()))
	os.RemoveAll(home)
	defer os.RemoveAll(home)
	dir := filepath.Join(home, ".dastard")
	os.MkdirAll(dir, 0775)
	// a directory in which every step of a save has a visible effect
	os.WriteFile(filepath.Join(dir, "config.yaml"), []byte("statelabel: old-run\n"), 0664)
	os.WriteFile(filepath.Join(dir, "config.yaml.bak"), []byte("statelabel: older-run\n"), 0664)
	self, _ := os.Executable()
	tmpOut := fmt.Sprintf("%s.%d", cache, os.Getpid())
	cmd := exec.Command(self)
	cmd.Env = append(os.Environ(), "DVH_C16_CHILD=discover", "HOME="+home, "DVH_C16_OUT="+tmpOut)
	var se bytes.Buffer
	cmd.Stderr = &se
	if err := cmd.Run(); err != nil {
		return c16Dyn{Err: "child " + err.Error() + " " + panicClass(se.String())}
	}
	if err := os.Rename(tmpOut, cache); err != nil || !read() {
		return c16Dyn{Err: "no report"}
	}
	return d
}

// c16ChildDiscover (child process): one real saveState, observed.
func c16ChildDiscover() {
	silenceStdout()
	home, _ := os.UserHomeDir()
	dir := filepath.Join(home, ".dastard")
	var rep c16Dyn
	finish := func() {
		b, _ := json.Marshal(rep)
		os.WriteFile(os.Getenv("DVH_C16_OUT"), b, 0664)
		os.Exit(0)
	}
	viper.SetConfigName("config")
	viper.AddConfigPath(dir)
	if err := viper.ReadInConfig(); err != nil {
		rep.Err = "read-config"
		finish()
	}
	type snap struct {
		c  [3]string // content of main, tmp, bak ("" = absent, "E" = empty)
		fi [3]os.FileInfo
	}
	names := []string{"config.yaml", "config.tmp.yaml", "config.yaml.bak"}
	take := func() snap {
		var s snap
		for i, n := range names {
			if b, err := os.ReadFile(filepath.Join(dir, n)); err == nil {
				s.c[i] = "E"
				if len(b) > 0 {
					s.c[i] = c16Canon(b)
				}
				s.fi[i], _ = os.Stat(filepath.Join(dir, n))
			}
		}
		return s
	}
	// steps that turn directory a into directory b (site boundaries: no write is in flight)
	infer := func(a, b snap) []string {
		var st []string
		isNew := func(c string) bool {
			return c != "" && c != "E" && c != a.c[0] && c != a.c[2] && !strings.Contains(c, "old-run")
		}
		const M, T, B = 0, 1, 2
		mainFromTmp := b.c[M] != a.c[M] && a.c[T] != "" && b.c[M] == a.c[T] && b.c[T] == ""
		if b.c[T] != a.c[T] && !(mainFromTmp && b.c[T] == "") {
			switch {
			case b.c[T] == "":
				st = append(st, "RM:tmp")
			case isNew(b.c[T]):
				st = append(st, "W:tmp")
			default:
				st = append(st, "?:tmp-became-"+c16Short(b.c[T]))
			}
		}
		mainToBak := false
		if b.c[B] != a.c[B] {
			switch {
			case b.c[B] == "":
				st = append(st, "RM:bak")
			case b.c[B] == a.c[M] && a.c[M] != "":
				if a.c[B] != "" {
					st = append(st, "RM:bak")
				}
				switch {
				case b.c[M] == "" || (b.c[M] != a.c[M] && !mainFromTmp):
					st = append(st, "RN:main:bak")
					mainToBak = true
				case b.fi[B] != nil && b.fi[M] != nil && os.SameFile(b.fi[B], b.fi[M]) || mainFromTmp && a.fi[M] != nil && os.SameFile(b.fi[B], a.fi[M]):
					st = append(st, "LN:main:bak")
				default:
					st = append(st, "CP:main:bak")
				}
			default:
				st = append(st, "?:bak-became-"+c16Short(b.c[B]))
			}
		}
		if b.c[M] != a.c[M] {
			switch {
			case mainFromTmp:
				st = append(st, "RN:tmp:main")
			case b.c[M] == "" && mainToBak:
			case b.c[M] == "":
				st = append(st, "RM:main")
			case isNew(b.c[M]):
				st = append(st, "W:main")
			default:
				st = append(st, "?:main-became-"+c16Short(b.c[M]))
			}
		}
		return st
	}
	probe := map[string]interface{}{}
	before := map[string]interface{}{}
	for i, t := range c16Tags {
		probe[t] = 1000 + i
		before[t] = 1000 + i
	}
	prev := take()
	dastard.VerifC16OnPoint(func(site string) {
		cur := take()
		rep.Steps = append(rep.Steps, infer(prev, cur)...)
		rep.Sites = append(rep.Sites, site)
		rep.SiteOps = append(rep.SiteOps, len(rep.Steps))
		prev = cur
	})
	dastard.VerifC16SaveState(probe)
	dastard.VerifC16OnPoint(nil)
	rep.Steps = append(rep.Steps, infer(prev, take())...)
	if len(rep.Sites) == 0 {
		rep.Err = "saveState reached no verifC16Point site"
		finish()
	}
	isAdd := map[string]bool{}
	for k, v := range probe { // inserted, or overwritten with a value of saveState's own
		if b, had := before[k]; !had || b != v {
			rep.Adds = append(rep.Adds, k)
			isAdd[strings.ToLower(k)] = true
		}
	}
	sort.Strings(rep.Adds)
	var m map[string]interface{}
	b, err := os.ReadFile(filepath.Join(dir, "config.yaml"))
	if err != nil || yaml.Unmarshal(b, &m) != nil {
		rep.Err = "saved file unreadable"
		finish()
	}
	for _, t := range c16Tags {
		k := strings.ToLower(t)
		if isAdd[k] {
			continue
		}
		if _, ok := m[k]; ok {
			rep.Saved = append(rep.Saved, k)
		} else {
			rep.NotSaved = append(rep.NotSaved, k)
		}
	}
	sort.Strings(rep.Saved)
	sort.Strings(rep.NotSaved)
	finish()
}

func c16Short(c string) string {
	sum := sha1.Sum([]byte(c))
	return hex.EncodeToString(sum[:3])
}

func c16MapKeys(f *ast.File, name string) ([]string, bool) {
	for _, d := range f.Decls {
		gd, ok := d.(*ast.GenDecl)
		if !ok {
			continue
		}
		for _, sp := range gd.Specs {
			vs, ok := sp.(*ast.ValueSpec)
			if !ok || len(vs.Names) != 1 || vs.Names[0].Name != name || len(vs.Values) != 1 {
				continue
			}
			cl, ok := vs.Values[0].(*ast.CompositeLit)
			if !ok {
				return nil, false
			}
			var keys []string
			for _, e := range cl.Elts {
				kv, ok := e.(*ast.KeyValueExpr)
				if !ok {
					return nil, false
				}
				bl, ok := kv.Key.(*ast.BasicLit)
				if !ok || bl.Kind != token.STRING {
					return nil, false
				}
				s, _ := strconv.Unquote(bl.Value)
				keys = append(keys, s)
			}
			sort.Strings(keys)
			return keys, true
		}
	}
	return nil, false
}

func c16Callee(e ast.Expr) (string, *ast.CallExpr) {
	c, ok := e.(*ast.CallExpr)
	if !ok {
		return "", nil
	}
	switch f := c.Fun.(type) {
	case *ast.SelectorExpr:
		if x, ok := f.X.(*ast.Ident); ok {
			return x.Name + "." + f.Sel.Name, c
		}
	case *ast.Ident:
		return f.Name, c
	}
	return "?", c
}

// c16ErrPolicy classifies the `if err != nil ...` statement that follows a step:
// abort (any error returns), ne (a not-exist error is ignored, others return), log (never returns).
func c16ErrPolicy(next ast.Stmt) string {
	is, ok := next.(*ast.IfStmt)
	if !ok || is.Init != nil {
		return "log"
	}
	mentionsErr, notExist := false, false
	ast.Inspect(is.Cond, func(n ast.Node) bool {
		if id, ok := n.(*ast.Ident); ok && id.Name == "err" {
			mentionsErr = true
		}
		if name, _ := c16Callee(exprOf(n)); name == "os.IsNotExist" {
			notExist = true
		}
		return true
	})
	if !mentionsErr {
		return "log"
	}
	returns := false
	for _, s := range is.Body.List {
		if _, ok := s.(*ast.ReturnStmt); ok {
			returns = true
		}
	}
	switch {
	case !returns:
		return "log"
	case notExist:
		// only the form `err != nil && !os.IsNotExist(err)` is recognised
		be, ok := is.Cond.(*ast.BinaryExpr)
		if ok && be.Op == token.LAND {
			if u, ok := be.Y.(*ast.UnaryExpr); ok && u.Op == token.NOT {
				if name, _ := c16Callee(u.X); name == "os.IsNotExist" {
					return "ne"
				}
			}
		}
		return "?"
	default:
		return "abort"
	}
}

func exprOf(n ast.Node) ast.Expr {
	if e, ok := n.(ast.Expr); ok {
		return e
	}
	return nil
}

func c16Extract(path string) c16FactSet {
	fs := token.NewFileSet()
	f, err := parser.ParseFile(fs, path, nil, 0)
	if err != nil {
		return c16FactSet{line: "UNRECOGNISED parse-error"}
	}
	bad := func(why string) c16FactSet { return c16FactSet{line: "UNRECOGNISED " + why} }
	nopub, ok1 := c16MapKeys(f, "nopublishMessages")
	nosave, ok2 := c16MapKeys(f, "nosaveMessages")
	if !ok1 || !ok2 {
		return bad("tag-sets")
	}
	var fn *ast.FuncDecl
	for _, d := range f.Decls {
		if fd, ok := d.(*ast.FuncDecl); ok && fd.Name.Name == "saveState" && fd.Recv == nil {
			fn = fd
		}
	}
	if fn == nil {
		return bad("no-saveState")
	}
	names := map[string]string{} // Go identifier -> main|tmp|bak
	var adds []string
	var toks []string
	out := c16FactSet{}
	resolve := func(e ast.Expr) string {
		if id, ok := e.(*ast.Ident); ok {
			if n, ok := names[id.Name]; ok {
				return n
			}
		}
		return "?"
	}
	mapParam := ""
	if len(fn.Type.Params.List) == 1 && len(fn.Type.Params.List[0].Names) == 1 {
		mapParam = fn.Type.Params.List[0].Names[0].Name
	}
	stmts := fn.Body.List
	for i, st := range stmts {
		var rhs ast.Expr
		var lhs ast.Expr
		define := false
		var inlineIf *ast.IfStmt // the idiom `if err := step(...); err != nil ... { ... }`
		switch s := st.(type) {
		case *ast.AssignStmt:
			if len(s.Lhs) == 1 && len(s.Rhs) == 1 {
				lhs, rhs, define = s.Lhs[0], s.Rhs[0], s.Tok == token.DEFINE
			}
		case *ast.ExprStmt:
			rhs = s.X
		case *ast.IfStmt:
			if as, ok := s.Init.(*ast.AssignStmt); ok && s.Else == nil && len(as.Lhs) == 1 && len(as.Rhs) == 1 {
				if id, ok := as.Lhs[0].(*ast.Ident); ok && id.Name == "err" {
					cp := *s
					cp.Init = nil
					inlineIf = &cp
					lhs, rhs = as.Lhs[0], as.Rhs[0]
				}
			}
		}
		// a file name bound earlier must not be re-bound
		if as, ok := st.(*ast.AssignStmt); ok {
			for _, l := range as.Lhs {
				if id, ok := l.(*ast.Ident); ok {
					if _, bound := names[id.Name]; bound {
						return bad("file-name-reassigned:" + id.Name)
					}
				}
			}
		}
		// lastMessages["X"] = ...
		if ix, ok := lhs.(*ast.IndexExpr); ok {
			if id, ok := ix.X.(*ast.Ident); ok && id.Name == mapParam {
				if bl, ok := ix.Index.(*ast.BasicLit); ok && bl.Kind == token.STRING {
					s, _ := strconv.Unquote(bl.Value)
					adds = append(adds, s)
					continue
				}
				return bad("cache-insert-with-computed-key")
			}
		}
		name, call := c16Callee(rhs)
		// file names
		if define && lhs != nil {
			if id, ok := lhs.(*ast.Ident); ok {
				switch {
				case name == "viper.ConfigFileUsed":
					names[id.Name] = "main"
					continue
				case name == "strings.Replace" && len(call.Args) == 4 && resolve(call.Args[0]) == "main":
					a, oka := call.Args[1].(*ast.BasicLit)
					b, okb := call.Args[2].(*ast.BasicLit)
					if oka && okb && a.Value != b.Value {
						names[id.Name] = "tmp"
						continue
					}
				}
				if be, ok := rhs.(*ast.BinaryExpr); ok && be.Op == token.ADD && resolve(be.X) == "main" {
					if bl, ok := be.Y.(*ast.BasicLit); ok && bl.Kind == token.STRING && bl.Value != `""` {
						names[id.Name] = "bak"
						continue
					}
				}
			}
		}
		var next ast.Stmt
		if i+1 < len(stmts) {
			next = stmts[i+1]
		}
		pol := func() string {
			if lhs == nil { // result discarded
				return "log"
			}
			if inlineIf != nil {
				nested := false // the body must not hide further steps
				ast.Inspect(inlineIf.Body, func(n ast.Node) bool {
					if nm, c := c16Callee(exprOf(n)); c != nil && (strings.HasPrefix(nm, "os.") && nm != "os.IsNotExist" || strings.HasPrefix(nm, "viper.")) {
						nested = true
					}
					return true
				})
				if nested {
					return "?"
				}
				return c16ErrPolicy(inlineIf)
			}
			if id, ok := lhs.(*ast.Ident); !ok || id.Name != "err" || next == nil {
				return "?"
			}
			return c16ErrPolicy(next)
		}
		switch name {
		case "verifC16Point":
			if len(call.Args) == 1 {
				if bl, ok := call.Args[0].(*ast.BasicLit); ok {
					s, _ := strconv.Unquote(bl.Value)
					toks = append(toks, "P:"+s)
					out.sites = append(out.sites, s)
					out.siteOps = append(out.siteOps, out.nops)
				}
			}
		case "viper.WriteConfigAs":
			toks = append(toks, fmt.Sprintf("W:%s:%s", resolve(call.Args[0]), pol()))
			out.writeAt = append(out.writeAt, out.nops)
			out.nops++
		case "os.Remove":
			toks = append(toks, fmt.Sprintf("RM:%s:%s", resolve(call.Args[0]), pol()))
			out.nops++
		case "os.Rename":
			toks = append(toks, fmt.Sprintf("RN:%s:%s:%s", resolve(call.Args[0]), resolve(call.Args[1]), pol()))
			out.nops++
		case "os.Link":
			toks = append(toks, fmt.Sprintf("LN:%s:%s:%s", resolve(call.Args[0]), resolve(call.Args[1]), pol()))
			out.nops++
		default:
			// any other call into os / io / viper's writers, at any depth of this statement, is a
			// file-system step this reader does not understand
			unknown := ""
			ast.Inspect(st, func(n ast.Node) bool {
				if nm, c := c16Callee(exprOf(n)); c != nil {
					pkg := strings.SplitN(nm, ".", 2)[0]
					switch {
					case nm == "os.IsNotExist" || nm == "viper.Set" || nm == "viper.ConfigFileUsed":
					case pkg == "os" || pkg == "ioutil" || pkg == "io" || pkg == "afero" ||
						strings.HasPrefix(nm, "viper.Write") || strings.HasPrefix(nm, "viper.SafeWrite") ||
						nm == "verifC16Point":
						unknown = nm
					}
				}
				return true
			})
			if unknown != "" {
				return bad("step:" + unknown)
			}
		}
	}
	for _, t := range toks {
		if strings.Contains(t, "?") {
			return bad("step-shape:" + t)
		}
	}
	sort.Strings(adds)
	var sb strings.Builder
	fmt.Fprintf(&sb, "ops %d %s", len(toks), strings.Join(toks, " "))
	fmt.Fprintf(&sb, " nopub %d %s", len(nopub), strings.Join(nopub, " "))
	fmt.Fprintf(&sb, " nosave %d %s", len(nosave), strings.Join(nosave, " "))
	fmt.Fprintf(&sb, " adds %d %s", len(adds), strings.Join(adds, " "))
	out.line = strings.Join(strings.Fields(sb.String()), " ")
	out.ok = true
	out.adds = adds
	out.nosave = nosave
	return out
}

// ---------------------------------------------------------------------------------------------
// generic (untyped) status values whose JSON text survives YAML: strings, ints, bools, int lists

func c16Val(r *Rng, salt int) interface{} {
	if r.Chance(3) {
		// a state json.Marshal rejects (no real status structure can hold one: outside the property's
		// domain, but the model transcribes what the code does with it, and that is compared)
		return math.NaN()
	}
	switch r.Intn(6) {
	case 0:
		return r.Intn(3) + salt
	case 1:
		return r.Bool()
	case 2:
		n := r.Intn(4)
		xs := make([]int, n)
		for i := range xs {
			xs[i] = r.Intn(5) - 1
		}
		return xs
	case 3:
		return r.Pick(0, -1, 1<<31, -(1 << 40), 65535)
	default:
		words := []string{"a", "no map file", "yes", "null", "1e3", "x: y", "", "émission", "/tmp/data dir", "{}", "~", "0x1f", "#c", "- d", "T", "multi\nline"}
		return words[r.Intn(len(words))] + strings.Repeat("'", r.Intn(2))
	}
}

func c16JSON(v interface{}) string {
	b, err := json.Marshal(v)
	if err != nil {
		return "" // protocol token "-"
	}
	return string(b)
}

// ---------------------------------------------------------------------------------------------
// H: cache histories against the real RunClientUpdater + ZeroMQ

var c16Tags = []string{
	"STATUS", "WRITING", "TRIGGER", "GROUPTRIGGER", "TRIGCOUPLING", "MIX", "STATELABEL", "TRIANGLE", "SIMPULSE",
	"LANCERO", "ABACO", "ROACH", "TESMAPFILE", "DATADROP", "RAWDATABLOCK", // persistent
	"CHANNELNAMES", "ALIVE", "TRIGGERRATE", "NUMBERWRITTEN", "TESMAP", "EXTERNALTRIGGER", // not saved
	"CURRENTTIME", "___1", "___2", "___3", "___4", "___5", // never published
	"NEWDASTARD", // published, never remembered
	"XTOPIC", "Y2", "ZZ_9",
}

type c16Op struct {
	kind string // U, A (send all), S (wait for the updater's own save)
	tag  string
	val  interface{}
}

func c16GenH(r *Rng, tier string, idx int) (string, func() string) {
	// a small pool of tags and of values per tag, so repeats and unchanged values are frequent
	npool := r.Range(1, 7)
	pool := make([]string, npool)
	for i := range pool {
		pool[i] = c16Tags[r.Intn(len(c16Tags))]
	}
	vals := map[string][]interface{}{}
	for _, t := range pool {
		n := r.Range(1, 3)
		for i := 0; i < n; i++ {
			vals[t] = append(vals[t], c16Val(r, i))
		}
	}
	// initial config file
	type kv = c16KV
	var cfg []kv
	seen := map[string]bool{}
	for i, n := 0, r.Pick(0, 0, 1, 2, 3); i < n; i++ {
		k := strings.ToLower(c16Tags[r.Intn(len(c16Tags))])
		if r.Chance(30) {
			k = c16PickS(r, "foo", "oldkey", "verbose")
		}
		if strings.HasPrefix(k, "___") || k == "currenttime" || seen[k] {
			continue
		}
		seen[k] = true
		cfg = append(cfg, kv{k, c16Val(r, 7)})
	}
	sort.Slice(cfg, func(i, j int) bool { return cfg[i].k < cfg[j].k })
	nops := r.Range(1, 30)
	if tier == "thorough" && r.Chance(20) {
		nops = r.Range(30, 120)
	}
	waits := 0
	if r.Chance(22) {
		waits = r.Pick(1, 1, 2)
	}
	var ops []c16Op
	for k := 0; k < nops; k++ {
		switch c := r.Intn(100); {
		case c < 78:
			t := pool[r.Intn(len(pool))]
			ops = append(ops, c16Op{kind: "U", tag: t, val: vals[t][r.Intn(len(vals[t]))]})
		case c < 94:
			ops = append(ops, c16Op{kind: "A"})
		default:
			if waits > 0 {
				waits--
				// a save happens 2 s after the last CHANGE of a persistent topic; half of the waits are
				// preceded by a fresh change, the others take the window as the history left it
				if r.Bool() {
					ops = append(ops, c16Op{kind: "U", tag: "STATELABEL", val: fmt.Sprintf("wait-%d-%d", idx, k)})
				}
				ops = append(ops, c16Op{kind: "S", val: 7})
			}
		}
	}
	ops = append(ops, c16Op{kind: "A"})
	return c16HCase(cfg, ops, idx)
}

type c16KV struct {
	k string
	v interface{}
}

// c16HCase renders the input part of an H line and returns the function that runs it on the real updater.
func c16HCase(cfg []c16KV, ops []c16Op, idx int) (string, func() string) {
	var sb strings.Builder
	fmt.Fprintf(&sb, "H cfg %d", len(cfg))
	for _, e := range cfg {
		fmt.Fprintf(&sb, " %s %s", e.k, hexStr(c16JSON(e.v)))
	}
	fmt.Fprintf(&sb, " ops %d", len(ops))
	for _, o := range ops {
		switch o.kind {
		case "U":
			fmt.Fprintf(&sb, " U %s %s", o.tag, hexStr(c16JSON(o.val)))
		default:
			fmt.Fprintf(&sb, " %s", o.kind)
		}
	}
	run := func() string {
		home := filepath.Join(c16Work(), fmt.Sprintf("h%d_%d", idx, os.Getpid()))
		defer os.RemoveAll(home)
		dir := filepath.Join(home, ".dastard")
		os.MkdirAll(dir, 0775)
		mainf := filepath.Join(dir, "config.yaml")
		m := map[string]interface{}{}
		for _, e := range cfg {
			m[e.k] = e.v
		}
		var content []byte
		if len(m) > 0 {
			content, _ = yaml.Marshal(m)
		}
		os.WriteFile(mainf, content, 0664)
		viper.Reset()
		viper.SetConfigFile(mainf)
		if err := viper.ReadInConfig(); err != nil {
			return "HARNESS-ERROR read-config"
		}
		return c16RunHistory(ops, mainf)
	}
	return sb.String(), run
}

func c16PickS(r *Rng, xs ...string) string { return xs[r.Intn(len(xs))] }

const c16Mark = "\x00c16-mark-"

// c16RunHistory drives one real RunClientUpdater through the ops and returns the observed events.
func c16RunHistory(ops []c16Op, mainf string) string {
	port := c16Port()
	if port == 0 {
		return "HARNESS-ERROR no-port"
	}
	abort := make(chan struct{})
	done := make(chan struct{})
	go func() { dastard.RunClientUpdater(port, abort); close(done) }()
	defer func() {
		close(abort)
		select {
		case <-done:
		case <-time.After(5 * time.Second):
		}
	}()
	sub, err := zmq4.NewSocket(zmq4.SUB)
	if err != nil {
		return "HARNESS-ERROR zmq-socket"
	}
	type wire struct{ tag, body string }
	msgs := make(chan wire, 4096)
	stop := make(chan struct{})
	rdone := make(chan struct{})
	sub.SetRcvtimeo(50 * time.Millisecond)
	sub.SetLinger(0)
	sub.SetRcvhwm(100000)
	sub.SetSubscribe("")
	if err := sub.Connect(fmt.Sprintf("tcp://127.0.0.1:%d", port)); err != nil {
		return "HARNESS-ERROR zmq-connect"
	}
	go func() {
		defer close(rdone)
		defer sub.Close()
		for {
			select {
			case <-stop:
				return
			default:
			}
			parts, err := sub.RecvMessageBytes(0)
			if err != nil {
				continue
			}
			w := wire{tag: string(parts[0])}
			if len(parts) > 1 {
				w.body = string(parts[1])
			}
			if len(parts) != 2 {
				w.tag = fmt.Sprintf("!%dparts!%s", len(parts), w.tag)
			}
			msgs <- w
		}
	}()
	defer func() { close(stop); <-rdone }()

	markN := 0
	isMark := func(w wire) (string, bool) {
		if w.tag != "NEWDASTARD" {
			return "", false
		}
		var s string
		if json.Unmarshal([]byte(w.body), &s) == nil && strings.HasPrefix(s, c16Mark) {
			return s, true
		}
		return "", false
	}
	// wait until the subscription is live: NEWDASTARD is published but never remembered
	synced := false
	deadline := time.Now().Add(8 * time.Second)
	for !synced && time.Now().Before(deadline) {
		markN++
		dastard.VerifC16SendUpdate("NEWDASTARD", fmt.Sprintf("%ssync-%d", c16Mark, markN))
		select {
		case w := <-msgs:
			if _, ok := isMark(w); ok {
				synced = true
			}
		case <-time.After(30 * time.Millisecond):
		}
	}
	if !synced {
		return "HARNESS-ERROR no-sync"
	}
	// barrier sends a marker and returns everything received before it (markers removed)
	barrier := func() ([]wire, bool) {
		markN++
		want := fmt.Sprintf("%sb-%d", c16Mark, markN)
		dastard.VerifC16SendUpdate("NEWDASTARD", want)
		var got []wire
		to := time.After(10 * time.Second)
		for {
			select {
			case w := <-msgs:
				if s, ok := isMark(w); ok {
					if s == want {
						return got, true
					}
					continue // left-over sync markers
				}
				got = append(got, w)
			case <-to:
				return got, false
			}
		}
	}
	if _, ok := barrier(); !ok {
		return "HARNESS-ERROR barrier"
	}
	var sb strings.Builder
	latest := map[string]string{} // lower-cased tag -> JSON text of the last update sent
	emitLive := func(ws []wire) {
		for _, w := range ws {
			fmt.Fprintf(&sb, " L %s %s", w.tag, hexStr(w.body))
		}
	}
	for _, o := range ops {
		switch o.kind {
		case "U":
			dastard.VerifC16SendUpdate(o.tag, o.val)
			if o.tag != "SENDALL" && o.tag != "NEWDASTARD" {
				// (a value that does not marshal reads as "": it replaces a stored text, but is not
				// stored when nothing was stored before — the stopping rule must wait for the former)
				if k, j := strings.ToLower(o.tag), c16JSON(o.val); latest[k] != j {
					latest[k] = j
				}
			}
		case "A":
			live, ok := barrier()
			if !ok {
				return "HARNESS-ERROR barrier"
			}
			emitLive(live)
			dastard.VerifC16SendUpdate("SENDALL", 0)
			rep, ok := barrier()
			if !ok {
				return "HARNESS-ERROR barrier"
			}
			sort.Slice(rep, func(i, j int) bool {
				if rep[i].tag != rep[j].tag {
					return rep[i].tag < rep[j].tag
				}
				return rep[i].body < rep[j].body
			})
			fmt.Fprintf(&sb, " A %d", len(rep))
			for _, w := range rep {
				fmt.Fprintf(&sb, " %s %s", w.tag, hexStr(w.body))
			}
		case "S":
			live, ok := barrier()
			if !ok {
				return "HARNESS-ERROR barrier"
			}
			emitLive(live)
			// Wait for the save points.  On a correct updater the delayed save comes 2 s after the last
			// change of a persistent topic (none, if nothing changed since the last save).  The wait ends
			// as soon as the file holds the latest value of every topic sent so far that the source's
			// no-save list does not exclude (a stopping rule only: the verdict is the Lean oracle's), or
			// after the time limit (7 s: the delayed save is overdue; 63 s: the periodic one too) — then
			// the file is reported as it is.
			saved, ok := c16WaitQuiet(mainf, latest, time.Duration(o.val.(int))*time.Second)
			if !ok {
				sb.WriteString(" S NOSAVE")
				continue
			}
			fmt.Fprintf(&sb, " S %d", len(saved))
			for _, e := range saved {
				fmt.Fprintf(&sb, " %s %s", e[0], hexStr(e[1]))
			}
		}
	}
	return strings.TrimSpace(sb.String())
}

// c16WaitSaved polls the config file until it contains `label` as the statelabel and no temporary
// file is left, then returns its top-level keys (except the bookkeeping keys) with canonical JSON values.
func c16WaitSaved(mainf, label string, max time.Duration) ([][2]string, bool) {
	deadline := time.Now().Add(max)
	for time.Now().Before(deadline) {
		time.Sleep(25 * time.Millisecond)
		b, err := os.ReadFile(mainf)
		if err != nil {
			continue
		}
		var m map[string]interface{}
		if yaml.Unmarshal(b, &m) != nil {
			continue
		}
		if s, _ := m["statelabel"].(string); s != label {
			continue
		}
		return nil, true
	}
	return nil, false
}

// c16WaitQuiet polls the config file until it holds every wanted (key, JSON) pair that the no-save
// list read from the source does not exclude, or until `max` has passed; it returns the file's keys as
// they are then.  false = the file could not be read or parsed at all.
func c16WaitQuiet(mainf string, latest map[string]string, max time.Duration) ([][2]string, bool) {
	facts := c16Facts()
	want := map[string]string{}
	{
		skip := map[string]bool{}
		for _, k := range facts.nosave {
			skip[k] = true
		}
		for _, a := range facts.adds {
			skip[strings.ToLower(a)] = true
		}
		for k, v := range latest {
			if !skip[k] {
				want[k] = v
			}
		}
	}
	deadline := time.Now().Add(max)
	var last [][2]string
	got := false
	for {
		b, err := os.ReadFile(mainf)
		var m map[string]interface{}
		if err == nil && yaml.Unmarshal(b, &m) == nil {
			last, got = c16SavedKeys(m), true
			have := map[string]string{}
			for _, e := range last {
				have[e[0]] = e[1]
			}
			all := true
			for k, v := range want {
				if h, present := have[k]; !present || h != v {
					all = false
				}
			}
			if all {
				return last, true
			}
		}
		if time.Now().After(deadline) {
			return last, got
		}
		time.Sleep(25 * time.Millisecond)
	}
}

// c16GenHWindow: histories aimed at the save-debounce window.  Several persistent topics get a first
// value and are saved; then, inside ONE window (no wait in between), some change for good, some change
// away and back to the value already saved, some flip twice, some are repeated unchanged, mixed with
// no-save topics and SENDALLs in any interleaving; then the save points are awaited and the file read.
func c16GenHWindow(r *Rng, tier string, idx int) (string, func() string) {
	persistent := c16Tags[:15]
	ntags := r.Range(2, 4)
	var tags []string
	used := map[string]bool{}
	for len(tags) < ntags {
		t := persistent[r.Intn(len(persistent))]
		if r.Chance(15) {
			t = c16PickS(r, "XTOPIC", "Y2", "___3")
		}
		if !used[t] {
			used[t] = true
			tags = append(tags, t)
		}
	}
	val := func(ti, k int) interface{} { // distinct values per tag, of mixed kinds
		switch (ti + k) % 3 {
		case 0:
			return fmt.Sprintf("%c%d", 'a'+ti, k)
		case 1:
			return 100*ti + k
		default:
			return []int{ti, k}
		}
	}
	cur := make([]int, ntags) // index of the value each tag currently has (and, after a wait, the saved one)
	var cfg []c16KV
	if r.Chance(40) { // some of the first values are already in the file read at start-up
		for ti, t := range tags {
			if r.Bool() && !strings.HasPrefix(t, "___") {
				cfg = append(cfg, c16KV{strings.ToLower(t), val(ti, 0)})
			}
		}
		sort.Slice(cfg, func(i, j int) bool { return cfg[i].k < cfg[j].k })
	}
	var ops []c16Op
	for ti, t := range tags {
		ops = append(ops, c16Op{kind: "U", tag: t, val: val(ti, 0)})
	}
	c16Shuffle(r, ops)
	limit := func() int {
		if tier == "thorough" && r.Chance(12) {
			return 63 // long enough for the periodic save as well
		}
		return 7
	}
	ops = append(ops, c16Op{kind: "S", val: limit()})
	next := 1
	for w, nw := 0, r.Pick(1, 1, 2); w < nw; w++ {
		seqs := make([][]c16Op, 0, ntags+1)
		var revert []c16Op
		for ti, t := range tags {
			u := func(k int) c16Op { return c16Op{kind: "U", tag: t, val: val(ti, k)} }
			var q []c16Op
			switch c := r.Intn(100); {
			case c < 30: // changes for good
				q = []c16Op{u(next)}
				cur[ti] = next
			case c < 65: // away and back to the saved value
				q = []c16Op{u(next), u(cur[ti])}
				if r.Chance(30) {
					q = []c16Op{u(next), u(next + 1), u(cur[ti])}
				}
				if revert == nil && r.Bool() {
					revert, q = q, nil
				}
			case c < 80: // two changes
				q = []c16Op{u(next), u(next + 1)}
				cur[ti] = next + 1
			case c < 90: // repeated unchanged
				q = []c16Op{u(cur[ti]), u(cur[ti])}
			}
			if q != nil {
				seqs = append(seqs, q)
			}
		}
		next += 2
		if r.Chance(50) {
			seqs = append(seqs, []c16Op{{kind: "U", tag: "ALIVE", val: w}, {kind: "U", tag: "NUMBERWRITTEN", val: []int{w}}})
		}
		if r.Chance(30) {
			seqs = append(seqs, []c16Op{{kind: "A"}})
		}
		// random interleaving that keeps each topic's own order
		for len(seqs) > 0 {
			i := r.Intn(len(seqs))
			ops = append(ops, seqs[i][0])
			if seqs[i] = seqs[i][1:]; len(seqs[i]) == 0 {
				seqs = append(seqs[:i], seqs[i+1:]...)
			}
		}
		ops = append(ops, revert...) // (when chosen) the window ends with a return to a saved value
		ops = append(ops, c16Op{kind: "S", val: limit()})
	}
	ops = append(ops, c16Op{kind: "A"})
	return c16HCase(cfg, ops, idx)
}

func c16Shuffle(r *Rng, ops []c16Op) {
	for i := len(ops) - 1; i > 0; i-- {
		j := r.Intn(i + 1)
		ops[i], ops[j] = ops[j], ops[i]
	}
}

func c16SavedKeys(m map[string]interface{}) [][2]string {
	var out [][2]string
	skip := map[string]bool{}
	for _, a := range c16Facts().adds { // bookkeeping keys saveState adds itself (texts, wall clock)
		skip[strings.ToLower(a)] = true
	}
	for k, v := range m {
		if skip[k] {
			continue
		}
		out = append(out, [2]string{k, c16JSON(v)})
	}
	sort.Slice(out, func(i, j int) bool { return out[i][0] < out[j][0] })
	return out
}

// ---------------------------------------------------------------------------------------------
// K: crash points of saveState, then the real start-up

type c16ChildSpec struct {
	Kind      string // K or R
	Seed      uint64 // case seed (the child regenerates the case's values from it)
	Idx       int
	Tier      string
	Saves     int
	CrashSite string
	CrashNth  int
	FailWrite bool   // the last save's write of the temporary file fails (a value the YAML encoder refuses)
	CopyTo    string // copy the main file to CopyTo/main.<j> after save j
}

func c16RunChild(home string, spec c16ChildSpec) (int, string) {
	self, _ := os.Executable()
	b, _ := json.Marshal(spec)
	cmd := exec.Command(self)
	cmd.Env = append(os.Environ(), "DVH_C16_CHILD=save", "HOME="+home, "DVH_C16_SPEC="+string(b))
	var se bytes.Buffer
	cmd.Stderr = &se
	err := cmd.Run()
	if err == nil {
		return 0, ""
	}
	if ee, ok := err.(*exec.ExitError); ok {
		return ee.ExitCode(), se.String()
	}
	return -1, err.Error()
}

// c16SaveValues is what save number j of case (seed) stores: used by parent and child alike.
func c16SaveValuesK(seed uint64, j int) map[string]interface{} {
	r := NewRng(seed*31 + uint64(j))
	return map[string]interface{}{
		"STATELABEL": fmt.Sprintf("save-%d-%d", j, r.Intn(1000000)),
		"WRITING":    &dastard.WritingState{BasePath: fmt.Sprintf("/data/run%d", r.Intn(1000)), WriteLJH22: r.Bool()},
		"MIX":        []float64{float64(r.Intn(100)) / 8, float64(j)},
		"ALIVE":      r.Intn(100), // never saved
	}
}

func c16ChildMain() {
	if os.Getenv("DVH_C16_CHILD") == "discover" {
		c16ChildDiscover() // never returns
	}
	var spec c16ChildSpec
	if err := json.Unmarshal([]byte(os.Getenv("DVH_C16_SPEC")), &spec); err != nil {
		fmt.Fprintln(os.Stderr, "bad spec", err)
		os.Exit(5)
	}
	silenceStdout()
	home, _ := os.UserHomeDir()
	mainf := filepath.Join(home, ".dastard", "config.yaml")
	// what setupViper does after makeFileExist (the file exists: a run that saves has started up)
	viper.SetConfigName("config")
	viper.AddConfigPath(filepath.Join(home, ".dastard"))
	if err := viper.ReadInConfig(); err != nil {
		fmt.Fprintln(os.Stderr, "read config:", err)
		os.Exit(6)
	}
	if spec.Kind == "R" {
		if t := c16TypedValues(NewRng(spec.Seed)); t.Rej != "" {
			c16ChildRejected(t, mainf)
		}
	}
	if spec.Kind == "T2" {
		c16ChildStartDuringSave(spec) // never returns
	}
	last := map[string]interface{}{}
	for j := 1; j <= spec.Saves; j++ {
		var vals map[string]interface{}
		if spec.Kind == "R" {
			vals = c16TypedValues(NewRng(spec.Seed)).asMap()
		} else if spec.Kind == "T" {
			_, trig := c16TValues(spec.Seed)
			vals = map[string]interface{}{"TRIGGER": trig, "STATELABEL": "earlier run"}
		} else {
			vals = c16SaveValuesK(spec.Seed, j)
		}
		for k, v := range vals {
			last[k] = v
		}
		if j == spec.Saves && spec.CrashSite != "" {
			dastard.VerifC16SetCrashPoint(spec.CrashSite, 1)
		}
		if j == spec.Saves && spec.FailWrite {
			last["UNSAVABLE"] = c16Unsavable{X: j}
		}
		dastard.VerifC16SaveState(last)
		if spec.CopyTo != "" {
			if b, err := os.ReadFile(mainf); err == nil {
				os.WriteFile(filepath.Join(spec.CopyTo, fmt.Sprintf("main.%d", j)), b, 0664)
			}
		}
	}
	os.Exit(0)
}

// c16Unsavable has a JSON text like any status value, but the YAML encoder refuses it: viper.WriteConfigAs
// then fails AFTER it has created/truncated the file it writes to — what a full disk, an exceeded quota or
// an I/O error do to the write of the temporary file.
type c16Unsavable struct{ X int }

func (c16Unsavable) MarshalYAML() (interface{}, error) {
	return nil, fmt.Errorf("c16: this value cannot be written as YAML")
}

// c16ChildRejected is "a run of dastard in which a client sent a configuration request that was
// rejected": the real RunClientUpdater, the real SourceControl.Configure*Source (which publishes the
// request even when it returns an error), the other settings as ordinary updates; the updater saves
// the file by itself two seconds later.  Exit 0 once the file is there.
func c16ChildRejected(t *c16Typed, mainf string) {
	port := c16Port()
	abort := make(chan struct{})
	go dastard.RunClientUpdater(port, abort)
	time.Sleep(300 * time.Millisecond)
	sc := dastard.VerifNewSourceControl(nil, 100, 400)
	var ok bool
	var err error
	if strings.HasPrefix(t.Rej, "tri") {
		err = sc.ConfigureTriangleSource(&t.Tri, &ok)
	} else {
		err = sc.ConfigureSimPulseSource(&t.Sim, &ok)
	}
	if err == nil {
		fmt.Fprintln(os.Stderr, "request was not rejected:", t.Rej)
		os.Exit(9)
	}
	for k, v := range t.asMap() {
		if (k == "TRIANGLE" && strings.HasPrefix(t.Rej, "tri")) || (k == "SIMPULSE" && strings.HasPrefix(t.Rej, "sim")) {
			continue // already published by the rejected request itself
		}
		dastard.VerifC16SendUpdate(k, v)
	}
	if _, ok := c16WaitSaved(mainf, t.StateLbl, 8*time.Second); !ok {
		fmt.Fprintln(os.Stderr, "the updater did not save")
		os.Exit(10)
	}
	os.Exit(0)
}

// c16Canon removes the wall-clock line from a config file.
func c16Canon(b []byte) string {
	var out []string
	for _, ln := range strings.Split(string(b), "\n") {
		if strings.HasPrefix(ln, "currenttime:") {
			continue
		}
		out = append(out, ln)
	}
	return strings.Join(out, "\n")
}

type c16Startup struct {
	Existed  bool                   `json:"existed"`
	Err      string                 `json:"err"`
	Used     string                 `json:"used"`
	Settings map[string]interface{} `json:"settings"`
	Updates  [][2]string            `json:"updates"`
	Triggers []dastard.FullTriggerState
	PrepErr  string `json:"prepareErr"`
	exit     int
	stderr   string
}

// c16RunStartup runs the real start-up path of cmd/dastard (built with -tags verif) on `home`.
func c16RunStartup(home, mode string, nchan int) (c16Startup, error) {
	var res c16Startup
	bin, err := c16Dastard()
	if err != nil {
		return res, err
	}
	outf := filepath.Join(home, "startup.json")
	os.Remove(outf)
	cmd := exec.Command(bin)
	cmd.Dir = home
	cmd.Env = append(os.Environ(), "HOME="+home, "DASTARD_VERIF_C16="+mode, "DASTARD_VERIF_C16_OUT="+outf,
		fmt.Sprintf("DASTARD_VERIF_C16_NCHAN=%d", nchan))
	if mode == "restore" {
		cmd.Env = append(cmd.Env, fmt.Sprintf("DASTARD_VERIF_C16_PORT=%d", c16Port()))
	}
	var se bytes.Buffer
	cmd.Stderr = &se
	runErr := cmd.Run()
	res.stderr = se.String()
	if runErr != nil {
		if ee, ok := runErr.(*exec.ExitError); ok {
			res.exit = ee.ExitCode()
			return res, nil // a crash of the start-up is an observation
		}
		return res, runErr
	}
	b, err := os.ReadFile(outf)
	if err != nil {
		return res, err
	}
	var raw struct {
		c16Startup
		Triggers json.RawMessage `json:"triggers"`
	}
	if err := json.Unmarshal(b, &raw); err != nil {
		return res, err
	}
	res = raw.c16Startup
	if len(raw.Triggers) > 0 {
		json.Unmarshal(raw.Triggers, &res.Triggers)
	}
	return res, nil
}

func c16SettingsKey(m map[string]interface{}) string {
	c := map[string]interface{}{}
	for k, v := range m {
		if k != "currenttime" {
			c[k] = v
		}
	}
	return c16JSON(c)
}

func c16GenK(r *Rng, tier string, idx int) (string, func() string) {
	facts := c16Facts()
	seed := r.U64() >> 8
	mainInit := c16PickS(r, "E", "C0", "C0", "C0")
	bakInit := c16PickS(r, "-", "B", "B")
	tmpInit := c16PickS(r, "-", "-", "-", "T", "TP")
	pre := r.Pick(0, 0, 0, 1, 1, 2)
	crash := "none"
	site := ""
	switch c := r.Intn(100); {
	case c < 8:
	case c < 20 && len(facts.writeAt) > 0:
		// fault injection: the write fails (the file is left created/truncated: 0 of its bytes); no kill
		crash = fmt.Sprintf("fail %d 0", facts.writeAt[r.Intn(len(facts.writeAt))])
	case c < 38 && len(facts.writeAt) > 0:
		w := facts.writeAt[r.Intn(len(facts.writeAt))]
		crash = fmt.Sprintf("inw %d %d", w, r.Intn(4))
	case len(facts.sites) > 0:
		i := r.Intn(len(facts.sites))
		site = facts.sites[i]
		crash = fmt.Sprintf("at %d %s", facts.siteOps[i], site)
	}
	in := fmt.Sprintf("K main %s bak %s tmp %s pre %d crash %s", mainInit, bakInit, tmpInit, pre, crash)
	run := func() string {
		base := filepath.Join(c16Work(), fmt.Sprintf("k%d_%d", idx, os.Getpid()))
		os.RemoveAll(base)
		defer os.RemoveAll(base)
		// initial directory
		c0, _ := yaml.Marshal(map[string]interface{}{"statelabel": "old-run", "writing": map[string]interface{}{"basepath": "/old"}, "mix": []float64{1.5}})
		initial := map[string][]byte{}
		if mainInit == "C0" {
			initial["config.yaml"] = c0
		} else {
			initial["config.yaml"] = []byte{}
		}
		if bakInit == "B" {
			initial["config.yaml.bak"] = []byte("statelabel: older-run\n")
		}
		switch tmpInit {
		case "T":
			initial["config.tmp.yaml"] = []byte("statelabel: stale-tmp\nmix:\n    - 9\n")
		case "TP":
			initial["config.tmp.yaml"] = []byte("statelabel: stale-tm")
		}
		mk := func(name string) string {
			h := filepath.Join(base, name)
			os.MkdirAll(filepath.Join(h, ".dastard"), 0775)
			for fn, b := range initial {
				os.WriteFile(filepath.Join(h, ".dastard", fn), b, 0664)
			}
			return h
		}
		// reference run: all saves complete; main after save j = content C<j>
		ref := mk("ref")
		if code, se := c16RunChild(ref, c16ChildSpec{Kind: "K", Seed: seed, Idx: idx, Saves: pre + 1, CopyTo: ref}); code != 0 {
			return fmt.Sprintf("HARNESS-ERROR ref-child %d %s", code, hexStr(se))
		}
		labels := map[string]string{} // canonical content -> label
		raws := map[string][]byte{}
		if mainInit == "C0" {
			labels[c16Canon(c0)] = "C0"
			raws["C0"] = c0
		}
		if b, ok := initial["config.yaml.bak"]; ok {
			labels[c16Canon(b)] = "B"
		}
		if b, ok := initial["config.tmp.yaml"]; ok {
			labels[c16Canon(b)] = tmpInit
		}
		for j := 1; j <= pre+1; j++ {
			b, err := os.ReadFile(filepath.Join(ref, fmt.Sprintf("main.%d", j)))
			if err != nil {
				return "HARNESS-ERROR ref-main-missing"
			}
			labels[c16Canon(b)] = fmt.Sprintf("C%d", j)
			raws[fmt.Sprintf("C%d", j)] = b
		}
		// crashing run
		run := mk("run")
		spec := c16ChildSpec{Kind: "K", Seed: seed, Idx: idx, Saves: pre + 1}
		var inw []string
		if strings.HasPrefix(crash, "at ") {
			spec.CrashSite = site
		} else if strings.HasPrefix(crash, "fail ") {
			spec.FailWrite = true
		} else if strings.HasPrefix(crash, "inw ") {
			inw = strings.Fields(crash)
			// a kill inside the write of the temporary file: stop right after it and cut the file
			k := sort.SearchInts(facts.siteOps, atoi(inw[1])+1)
			if k >= len(facts.sites) || facts.siteOps[k] != atoi(inw[1])+1 {
				return "HARNESS-ERROR no-site-after-write"
			}
			spec.CrashSite = facts.sites[k]
		}
		code, se := c16RunChild(run, spec)
		if code != 0 && code != 77 {
			return fmt.Sprintf("HARNESS-ERROR run-child %d %s", code, hexStr(se))
		}
		d := filepath.Join(run, ".dastard")
		if inw != nil {
			tmpf := filepath.Join(d, "config.tmp.yaml")
			b, err := os.ReadFile(tmpf)
			if err != nil {
				return "HARNESS-ERROR tmp-missing-after-write"
			}
			q := atoi(inw[2])
			cut := b[:len(b)*q/4]
			os.WriteFile(tmpf, cut, 0664)
			if len(cut) > 0 {
				labels[c16Canon(cut)] = fmt.Sprintf("P%d:%d", pre+1, q)
			}
		}
		label := func(fn string) string {
			b, err := os.ReadFile(filepath.Join(d, fn))
			if err != nil {
				return "-"
			}
			if len(b) == 0 {
				return "E"
			}
			if l, ok := labels[c16Canon(b)]; ok {
				return l
			}
			return "X"
		}
		fsMain, fsTmp, fsBak := label("config.yaml"), label("config.tmp.yaml"), label("config.yaml.bak")
		// the next start-up
		su, err := c16RunStartup(run, "startup", 0)
		if err != nil {
			return "HARNESS-ERROR startup " + hexStr(err.Error())
		}
		after := label("config.yaml")
		read := "X"
		switch {
		case su.exit != 0:
			read = "CRASH"
		case su.Err != "":
			read = "ERR"
		default:
			// which complete version did it read?  Compare with start-ups on the reference contents.
			got := c16SettingsKey(su.Settings)
			cands := []string{"E", fmt.Sprintf("C%d", pre), fmt.Sprintf("C%d", pre+1)}
			for _, c := range cands {
				var content []byte
				if c != "E" {
					var ok bool
					if content, ok = raws[c]; !ok {
						continue
					}
				}
				h := filepath.Join(base, "cand"+strings.ReplaceAll(c, ":", "_"))
				os.MkdirAll(filepath.Join(h, ".dastard"), 0775)
				os.WriteFile(filepath.Join(h, ".dastard", "config.yaml"), content, 0664)
				cs, err := c16RunStartup(h, "startup", 0)
				if err == nil && cs.exit == 0 && cs.Err == "" && c16SettingsKey(cs.Settings) == got {
					read = c
					break
				}
			}
		}
		return fmt.Sprintf("exit %d fs %s %s %s su %d %s %s", code, fsMain, fsTmp, fsBak, b2i(su.Existed), after, read)
	}
	return in, run
}

func atoi(s string) int { n, _ := strconv.Atoi(s); return n }

// ---------------------------------------------------------------------------------------------
// R: typed round trip through the real saveState and the real start-up restore

type c16Typed struct {
	Sim      dastard.SimPulseSourceConfig
	Tri      dastard.TriangleSourceConfig
	Lan      dastard.LanceroSourceConfig
	Aba      dastard.AbacoSourceConfig
	Roa      dastard.RoachSourceConfig
	Status   dastard.ServerStatus
	Writing  dastard.WritingState
	Trig     []dastard.FullTriggerState
	Nchan    int
	Have     map[string]bool
	OldFile  bool // the directory already holds a config file of an earlier run with other values
	MapFile  string
	StateLbl string
	Rej      string // which rejected request the saved values contain ("" = all accepted)
}

func (t *c16Typed) asMap() map[string]interface{} {
	m := map[string]interface{}{}
	// the states have the dynamic types the servers send (pointers for the configurations)
	if t.Have["SIMPULSE"] {
		m["SIMPULSE"] = &t.Sim
	}
	if t.Have["TRIANGLE"] {
		m["TRIANGLE"] = &t.Tri
	}
	if t.Have["LANCERO"] {
		m["LANCERO"] = &t.Lan
	}
	if t.Have["ABACO"] {
		m["ABACO"] = &t.Aba
	}
	if t.Have["ROACH"] {
		m["ROACH"] = &t.Roa
	}
	if t.Have["STATUS"] {
		m["STATUS"] = t.Status
	}
	if t.Have["WRITING"] {
		m["WRITING"] = &t.Writing
	}
	if t.Have["TRIGGER"] {
		m["TRIGGER"] = t.Trig
	}
	m["STATELABEL"] = t.StateLbl
	m["ALIVE"] = dastard.Heartbeat{Running: true, Time: 1.5}
	return m
}

func c16Float(r *Rng) float64 {
	switch r.Intn(5) {
	case 0:
		return float64(r.Range(1, 1000000))
	case 1:
		return float64(r.Range(1, 1000000)) / 7
	case 2:
		return float64(r.Range(1, 1<<30)) * 1e-9
	case 3:
		return 1e6 / 3
	default:
		return float64(r.Range(1, 500)) * 1000
	}
}

func c16Ints(r *Rng, maxn, hi int) []int {
	n := r.Intn(maxn + 1)
	xs := make([]int, n)
	for i := range xs {
		xs[i] = r.Intn(hi)
	}
	return xs
}

func c16Unwrap(r *Rng) dastard.AbacoUnwrapOptions {
	u := dastard.AbacoUnwrapOptions{RescaleRaw: r.Bool(), Bias: r.Bool(), ResetAfter: r.Pick(0, 1, 20000, 999999),
		PulseSign: r.Pick(-1, 0, 1), InvertChan: c16Ints(r, 3, 64)}
	u.Unwrap = u.RescaleRaw && r.Bool() // the valid combinations
	return u
}

func c16TypedValues(r *Rng) *c16Typed {
	t := &c16Typed{Have: map[string]bool{}}
	for _, k := range []string{"SIMPULSE", "TRIANGLE", "LANCERO", "ABACO", "ROACH", "STATUS", "WRITING", "TRIGGER"} {
		t.Have[k] = r.Chance(75)
	}
	t.OldFile = r.Chance(50)
	t.StateLbl = fmt.Sprintf("lbl%d", r.Intn(1000))
	// simulated pulses: accepted iff Nchan>=1 and cycle time <= 4 s
	t.Sim.Nchan = r.Range(1, 40)
	t.Sim.SampleRate = c16Float(r) + 1000
	t.Sim.Pedestal = float64(r.Intn(20000)) / 4
	t.Sim.Nsamp = r.Range(1, 2000)
	for i, n := 0, r.Intn(4); i < n; i++ {
		t.Sim.Amplitudes = append(t.Sim.Amplitudes, float64(r.Intn(40000))/3)
	}
	if float64(len(t.Sim.Amplitudes)*t.Sim.Nsamp)/t.Sim.SampleRate > 3.9 {
		t.Sim.Nsamp = 10
	}
	// triangle: Min<=Max, cycle <= 4 s
	t.Tri.Nchan = r.Range(1, 300)
	t.Tri.SampleRate = c16Float(r) + 20000
	a, b := r.Intn(65536), r.Intn(65536)
	if a > b {
		a, b = b, a
	}
	if lim := int(t.Tri.SampleRate * 1.9); b-a > lim { // one cycle is 2*(Max-Min) samples
		b = a + lim
	}
	t.Tri.Min, t.Tri.Max = dastard.RawType(a), dastard.RawType(b)
	if r.Chance(10) {
		t.Tri.Max = t.Tri.Min
	}
	// A configuration REQUEST that Configure rejects is published (and therefore saved) all the same:
	// the next start-up must survive reading it back.
	if r.Chance(15) {
		t.Rej = c16PickS(r, "tri-minmax", "tri-long", "tri-nchan-neg", "sim-long", "sim-nchan-neg")
		switch t.Rej {
		case "tri-minmax":
			t.Tri.Min, t.Tri.Max = 500, 100
		case "tri-long":
			t.Tri.Min, t.Tri.Max, t.Tri.SampleRate = 0, 65535, 10000
		case "tri-nchan-neg":
			t.Tri.Nchan = -3
		case "sim-long":
			t.Sim.Amplitudes, t.Sim.Nsamp, t.Sim.SampleRate = []float64{1000, 2000, 3000}, 100000, 1000
		case "sim-nchan-neg":
			t.Sim.Nchan = -1
		}
		if strings.HasPrefix(t.Rej, "tri") {
			t.Have["TRIANGLE"] = true
		} else {
			t.Have["SIMPULSE"] = true
		}
	}
	// lancero (no hardware here: Configure fails, the settable fields must survive all the same)
	t.Lan.FiberMask = uint32(r.Pick(0, 1, 0xffff, 0x8001, 0xffffffff))
	t.Lan.CardDelay = c16Ints(r, 3, 30)
	t.Lan.ActiveCards = c16Ints(r, 3, 4)
	t.Lan.ShouldAutoRestart = r.Bool()
	t.Lan.FirstRow = r.Intn(3)
	t.Lan.ChanSepCards = r.Pick(0, 1000, 10000)
	t.Lan.ChanSepColumns = r.Pick(0, 100, 1000)
	t.Lan.DastardOutput.Nsamp = r.Intn(17)
	// abaco / roach (ports that nothing listens on; binding them is harmless)
	job, _ := strconv.Atoi(os.Getenv("VERIF_JOB"))
	t.Aba.ActiveCards = c16Ints(r, 2, 3)
	sort.Ints(t.Aba.ActiveCards)
	t.Aba.ActiveCards = c16Uniq(t.Aba.ActiveCards)
	for i, n := 0, r.Intn(3); i < n; i++ {
		t.Aba.HostPortUDP = append(t.Aba.HostPortUDP, fmt.Sprintf("127.0.0.1:%d", 28000+(job*977+r.Intn(1900))%1990))
	}
	sort.Strings(t.Aba.HostPortUDP)
	t.Aba.HostPortUDP = c16UniqS(t.Aba.HostPortUDP)
	t.Aba.AbacoUnwrapOptions = c16Unwrap(r)
	for i, n := 0, r.Intn(3); i < n; i++ {
		t.Roa.HostPort = append(t.Roa.HostPort, fmt.Sprintf("127.0.0.1:%d", 30000-1-(job*977+r.Intn(1900))%1990))
		t.Roa.Rates = append(t.Roa.Rates, 40000)
	}
	t.Roa.AbacoUnwrapOptions = c16Unwrap(r)
	// record lengths
	// record lengths: ordinary pairs, the boundaries of what ConfigurePulseLengths accepts (it needs
	// npre >= 1 and nsamp >= npre+1), large values, and ILLEGAL saved pairs, which the start-up replaces
	// by its documented defaults (the Lean model has that rule)
	switch c := r.Intn(100); {
	case c < 25:
		t.Status.Npresamp = r.Pick(1, 2, 3, 500, r.Range(1, 5000))
		t.Status.Nsamples = t.Status.Npresamp + 1
	case c < 35:
		t.Status.Npresamp = 3
		t.Status.Nsamples = r.Pick(4, 5, 100)
	case c < 45:
		t.Status.Npresamp = r.Pick(100000, 1<<20, 1<<30)
		t.Status.Nsamples = t.Status.Npresamp + r.Pick(1, 2, 1<<20)
	case c < 78:
		t.Status.Npresamp = r.Range(1, 5000)
		t.Status.Nsamples = t.Status.Npresamp + r.Range(1, 20000)
	default:
		n := r.Range(1, 5000)
		switch r.Intn(7) {
		case 0:
			t.Status.Npresamp, t.Status.Nsamples = 0, r.Range(0, 2000)
		case 1:
			t.Status.Npresamp, t.Status.Nsamples = -r.Range(1, 50), r.Range(1, 2000)
		case 2:
			t.Status.Npresamp, t.Status.Nsamples = n, n
		case 3:
			t.Status.Npresamp, t.Status.Nsamples = n, n-1
		case 4:
			t.Status.Npresamp, t.Status.Nsamples = n, 0
		case 5:
			t.Status.Npresamp, t.Status.Nsamples = n, -1
		default:
			t.Status.Npresamp, t.Status.Nsamples = 0, 0
		}
	}
	t.Status.SamplePeriod = time.Duration(r.Range(1, 1000000)) * time.Nanosecond
	t.Status.Running = r.Bool()
	t.Status.SourceName = c16PickS(r, "Triangles", "SimPulses", "Lancero", "")
	t.Status.Nchannels = r.Intn(100)
	t.Status.ChannelsWithProjectors = c16Ints(r, 3, 10)
	for i, n := 0, r.Intn(3); i < n; i++ {
		t.Status.ChanGroups = append(t.Status.ChanGroups, dastard.GroupIndex{Firstchan: i * 10, Nchan: r.Range(1, 10)})
	}
	// output path
	t.Writing.BasePath = c16PickS(r, "/tmp", "/data/run 7", "", "/home/pcuser/data/été", "relative/dir", "C:\\data", "/a: b #c")
	t.Writing.Active = r.Bool()
	t.Writing.Paused = r.Bool()
	t.Writing.FilenamePattern = "/tmp/x/%s_chan%d.ljh"
	t.Writing.WriteLJH22 = r.Bool()
	// trigger settings (EdgeMulti and its parameters are deliberately not restored: issue #271)
	t.Nchan = r.Range(1, 12)
	used := map[int]bool{}
	for i, n := 0, r.Intn(4); i < n; i++ {
		var fts dastard.FullTriggerState
		for c := 0; c < t.Nchan+2; c++ {
			if !used[c] && r.Chance(40) {
				used[c] = true
				fts.ChannelIndices = append(fts.ChannelIndices, c)
			}
		}
		if len(fts.ChannelIndices) == 0 {
			continue
		}
		ts := &fts.TriggerState
		ts.AutoTrigger = r.Bool()
		ts.AutoDelay = time.Duration(r.Pick(0, 1, 250000000, 1000000001, 123456789012))
		ts.AutoVetoRange = dastard.RawType(r.Intn(65536))
		ts.LevelTrigger = r.Bool()
		ts.LevelRising = r.Bool()
		ts.LevelLevel = dastard.RawType(r.Intn(65536))
		ts.EdgeTrigger = r.Bool()
		ts.EdgeRising = r.Bool()
		ts.EdgeFalling = r.Bool()
		ts.EdgeLevel = int32(r.Pick(0, 1, -1, 100, -2147483648, 2147483647, 12345))
		ts.EdgeMulti = r.Chance(30)
		ts.EdgeMultiLevel = int32(r.Intn(1000))
		ts.EdgeMultiVerifyNMonotone = r.Intn(5)
		t.Trig = append(t.Trig, fts)
	}
	return t
}

// c16TriggersMatch: every channel (< nchan) of the saved trigger groups has the saved settings in `got`
// (EdgeMulti and its parameters excluded: deliberately not restored, issue #271).
func c16TriggersMatch(saved []dastard.FullTriggerState, nchan int, gotGroups []dastard.FullTriggerState) bool {
	got := map[int]dastard.TriggerState{}
	for _, f := range gotGroups {
		for _, c := range f.ChannelIndices {
			got[c] = f.TriggerState
		}
	}
	strip := func(ts dastard.TriggerState) dastard.TriggerState {
		ts.EdgeMulti = false
		ts.EMTBackwardCompatibleRPCFields = dastard.EMTBackwardCompatibleRPCFields{}
		ts.EMTState = dastard.EMTState{}
		return ts
	}
	for _, f := range saved {
		for _, c := range f.ChannelIndices {
			if c >= nchan {
				continue
			}
			g, have := got[c]
			if !have || c16JSON(strip(g)) != c16JSON(strip(f.TriggerState)) {
				return false
			}
		}
	}
	return true
}

// ---------------------------------------------------------------------------------------------
// T: a source is started WHILE a save is in progress

// c16TValues: channels and non-default trigger groups that cover at least channel 0.
func c16TValues(seed uint64) (int, []dastard.FullTriggerState) {
	r := NewRng(seed)
	nchan := r.Range(1, 8)
	var trig []dastard.FullTriggerState
	next := 0
	for g, ng := 0, r.Range(1, 3); g < ng && next < nchan; g++ {
		var fts dastard.FullTriggerState
		for n := r.Range(1, 3); n > 0 && next < nchan; n-- {
			fts.ChannelIndices = append(fts.ChannelIndices, next)
			next++
		}
		ts := &fts.TriggerState
		ts.AutoTrigger = true // differs from the default (all triggers off)
		ts.AutoDelay = time.Duration(r.Pick(1000000, 250000000, 1000000001))
		ts.LevelTrigger = r.Bool()
		ts.LevelLevel = dastard.RawType(1000 + 100*g + r.Intn(50))
		ts.EdgeTrigger = r.Bool()
		ts.EdgeRising = r.Bool()
		ts.EdgeLevel = int32(200 + g)
		trig = append(trig, fts)
	}
	return nchan, trig
}

type c16TReport struct {
	Err      string
	Waited   bool // the start had not finished 300 ms after it began, while the save was held inside saveState
	Started  bool // the start finished once the save was released
	Triggers []dastard.FullTriggerState
}

// c16ChildStartDuringSave (child process = "the next run of dastard"): the configuration read at start-up
// holds the saved triggers; a save is held at a step boundary INSIDE the real saveState (observer at the
// verifC16Point site); meanwhile a source is started (the real Sample/PrepareChannels/PrepareRun); then the
// save is released.  Afterwards the trigger state of the started source is published as SourceControl.Start
// does, i.e. it reaches the next save.
func c16ChildStartDuringSave(spec c16ChildSpec) {
	var rep c16TReport
	finish := func() {
		b, _ := json.Marshal(rep)
		os.WriteFile(os.Getenv("DVH_C16_OUT"), b, 0664)
		os.Exit(0)
	}
	nchan, _ := c16TValues(spec.Seed)
	inSave, release, saveDone, startDone := make(chan struct{}), make(chan struct{}), make(chan struct{}), make(chan struct{})
	var once sync.Once
	dastard.VerifC16OnPoint(func(site string) {
		if site == spec.CrashSite {
			first := false
			once.Do(func() { first = true; close(inSave) })
			if first {
				<-release
			}
		}
	})
	go func() {
		dastard.VerifC16SaveState(map[string]interface{}{"STATELABEL": "save in progress"})
		close(saveDone)
	}()
	select {
	case <-inSave:
	case <-time.After(5 * time.Second):
		rep.Err = "site-not-reached"
		finish()
	}
	vs := dastard.NewVerifSource(nchan, 10000)
	var perr error
	go func() { perr = vs.VerifPrepare(100, 400); close(startDone) }()
	select {
	case <-startDone:
	case <-time.After(300 * time.Millisecond):
		rep.Waited = true
	}
	close(release)
	select {
	case <-saveDone:
	case <-time.After(5 * time.Second):
		rep.Err = "save-stuck"
		finish()
	}
	select {
	case <-startDone:
		rep.Started = true
	case <-time.After(5 * time.Second):
		finish()
	}
	dastard.VerifC16OnPoint(nil)
	if perr != nil {
		rep.Err = "prepare-error"
		finish()
	}
	rep.Triggers = vs.ComputeFullTriggerState()
	dastard.VerifC16SaveState(map[string]interface{}{"TRIGGER": rep.Triggers})
	finish()
}

func c16GenT(r *Rng, tier string, idx int) (string, func() string) {
	facts := c16Facts()
	seed := r.U64() >> 8
	nchan, trig := c16TValues(seed)
	site := "-"
	if len(facts.sites) > 0 {
		site = facts.sites[r.Intn(len(facts.sites))]
	}
	nset := 0
	for _, f := range trig {
		nset += len(f.ChannelIndices)
	}
	sum := sha1.Sum([]byte(c16JSON(trig)))
	in := fmt.Sprintf("T nch %d ngroups %d nset %d site %s h %s", nchan, len(trig), nset, site, hex.EncodeToString(sum[:6]))
	run := func() string {
		if site == "-" {
			return "HARNESS-ERROR no-site"
		}
		home := filepath.Join(c16Work(), fmt.Sprintf("t%d_%d", idx, os.Getpid()))
		os.RemoveAll(home)
		defer os.RemoveAll(home)
		os.MkdirAll(filepath.Join(home, ".dastard"), 0775)
		os.WriteFile(filepath.Join(home, ".dastard", "config.yaml"), nil, 0664)
		// an earlier run persisted the trigger settings
		if code, se := c16RunChild(home, c16ChildSpec{Kind: "T", Seed: seed, Idx: idx, Saves: 1}); code != 0 {
			return fmt.Sprintf("HARNESS-ERROR persist-child %d %s", code, hexStr(se))
		}
		// this run: a source is started during a save
		outf := filepath.Join(home, "t.json")
		self, _ := os.Executable()
		b, _ := json.Marshal(c16ChildSpec{Kind: "T2", Seed: seed, Idx: idx, CrashSite: site})
		cmd := exec.Command(self)
		cmd.Env = append(os.Environ(), "DVH_C16_CHILD=save", "HOME="+home, "DVH_C16_SPEC="+string(b), "DVH_C16_OUT="+outf)
		var se bytes.Buffer
		cmd.Stderr = &se
		if err := cmd.Run(); err != nil {
			return "PANIC " + panicClass(se.String())
		}
		var rep c16TReport
		if rb, err := os.ReadFile(outf); err != nil || json.Unmarshal(rb, &rep) != nil {
			return "HARNESS-ERROR no-report"
		}
		if rep.Err != "" {
			return "HARNESS-ERROR " + rep.Err
		}
		if !rep.Started {
			return fmt.Sprintf("waited %d started 0 trig 0 persisted 0", b2i(rep.Waited))
		}
		trigOK := c16TriggersMatch(trig, nchan, rep.Triggers)
		// the next start-up: what do the saved triggers look like now?
		su, err := c16RunStartup(home, "restore", nchan)
		if err != nil {
			return "HARNESS-ERROR restore " + hexStr(err.Error())
		}
		if su.exit != 0 {
			return "PANIC " + panicClass(su.stderr)
		}
		persisted := su.Err == "" && su.PrepErr == "" && c16TriggersMatch(trig, nchan, su.Triggers)
		return fmt.Sprintf("waited %d started 1 trig %d persisted %d", b2i(rep.Waited), b2i(trigOK), b2i(persisted))
	}
	return in, run
}

func c16Uniq(xs []int) []int {
	var out []int
	for i, x := range xs {
		if i == 0 || x != xs[i-1] {
			out = append(out, x)
		}
	}
	return out
}
func c16UniqS(xs []string) []string {
	var out []string
	for i, x := range xs {
		if i == 0 || x != xs[i-1] {
			out = append(out, x)
		}
	}
	return out
}

func c16GenR(r *Rng, tier string, idx int) (string, func() string) {
	seed := r.U64() >> 8
	t := c16TypedValues(NewRng(seed))
	var have []string
	for _, k := range []string{"SIMPULSE", "TRIANGLE", "LANCERO", "ABACO", "ROACH", "STATUS", "WRITING", "TRIGGER"} {
		if t.Have[k] {
			have = append(have, strings.ToLower(k))
		}
	}
	sum := sha1.Sum([]byte(c16JSON(t)))
	rej := t.Rej
	if rej == "" {
		rej = "-"
	}
	in := fmt.Sprintf("R old %d nch %d ntrig %d st %d %d rej %s have %d %s h %s", b2i(t.OldFile), t.Nchan, len(t.Trig),
		t.Status.Npresamp, t.Status.Nsamples, rej, len(have), strings.Join(have, " "), hex.EncodeToString(sum[:6]))
	in = strings.Join(strings.Fields(in), " ")
	run := func() string {
		home := filepath.Join(c16Work(), fmt.Sprintf("r%d_%d", idx, os.Getpid()))
		os.RemoveAll(home)
		defer os.RemoveAll(home)
		d := filepath.Join(home, ".dastard")
		os.MkdirAll(d, 0775)
		var old []byte
		if t.OldFile {
			// the file of an earlier run, written by the same code with other values
			prev := filepath.Join(home, "prev")
			os.MkdirAll(filepath.Join(prev, ".dastard"), 0775)
			os.WriteFile(filepath.Join(prev, ".dastard", "config.yaml"), nil, 0664)
			if code, se := c16RunChild(prev, c16ChildSpec{Kind: "R", Seed: seed ^ 0x5555, Idx: idx, Saves: 1}); code != 0 {
				return fmt.Sprintf("HARNESS-ERROR prev-child %d %s", code, hexStr(se))
			}
			old, _ = os.ReadFile(filepath.Join(prev, ".dastard", "config.yaml"))
		}
		os.WriteFile(filepath.Join(d, "config.yaml"), old, 0664)
		if code, se := c16RunChild(home, c16ChildSpec{Kind: "R", Seed: seed, Idx: idx, Saves: 1}); code != 0 {
			return fmt.Sprintf("HARNESS-ERROR save-child %d %s", code, hexStr(se))
		}
		su, err := c16RunStartup(home, "restore", t.Nchan)
		if err != nil {
			return "HARNESS-ERROR restore " + hexStr(err.Error())
		}
		if su.exit != 0 {
			if os.Getenv("DVH_C16_DEBUG") != "" {
				fmt.Fprintln(os.Stderr, su.stderr)
			}
			return "CRASH " + panicClass(su.stderr)
		}
		if su.Err != "" {
			return "ERR"
		}
		return c16CompareRestored(t, su)
	}
	return in, run
}

// c16CompareRestored reports, per persisted structure that was saved, whether the start-up restored
// the same values (1) or not (0).
func c16CompareRestored(t *c16Typed, su c16Startup) string {
	upd := map[string]string{}
	for _, u := range su.Updates {
		upd[u[0]] = u[1] // the last one of each tag
	}
	same := func(got string, want interface{}, into interface{}, norm func(interface{})) int {
		if got == "" {
			return 0
		}
		if err := json.Unmarshal([]byte(got), into); err != nil {
			return 0
		}
		w := reflect.New(reflect.TypeOf(into).Elem()).Interface()
		json.Unmarshal([]byte(c16JSON(want)), w)
		if norm != nil {
			norm(into)
			norm(w)
		}
		return b2i(c16JSON(into) == c16JSON(w))
	}
	var sb strings.Builder
	if t.Have["SIMPULSE"] {
		fmt.Fprintf(&sb, " simpulse %d", same(upd["SIMPULSE"], t.Sim, &dastard.SimPulseSourceConfig{}, func(x interface{}) {
			c := x.(*dastard.SimPulseSourceConfig)
			if len(c.Amplitudes) == 0 {
				c.Amplitudes = nil
			}
		}))
	}
	if t.Have["TRIANGLE"] {
		fmt.Fprintf(&sb, " triangle %d", same(upd["TRIANGLE"], t.Tri, &dastard.TriangleSourceConfig{}, nil))
	}
	if t.Have["LANCERO"] {
		// DastardOutput is filled in by Configure from the hardware: not a setting
		fmt.Fprintf(&sb, " lancero %d", same(upd["LANCERO"], t.Lan, &dastard.LanceroSourceConfig{}, func(x interface{}) {
			c := x.(*dastard.LanceroSourceConfig)
			c.DastardOutput = dastard.LanceroDastardOutputJSON{}
			if len(c.CardDelay) == 0 {
				c.CardDelay = nil
			}
			if len(c.ActiveCards) == 0 {
				c.ActiveCards = nil
			}
		}))
	}
	normU := func(u *dastard.AbacoUnwrapOptions) {
		if len(u.InvertChan) == 0 {
			u.InvertChan = nil
		}
	}
	if t.Have["ABACO"] {
		fmt.Fprintf(&sb, " abaco %d", same(upd["ABACO"], t.Aba, &dastard.AbacoSourceConfig{}, func(x interface{}) {
			c := x.(*dastard.AbacoSourceConfig)
			c.AvailableCards = nil // output of Configure
			if len(c.ActiveCards) == 0 {
				c.ActiveCards = nil
			}
			if len(c.HostPortUDP) == 0 {
				c.HostPortUDP = nil
			}
			normU(&c.AbacoUnwrapOptions)
		}))
	}
	if t.Have["ROACH"] {
		fmt.Fprintf(&sb, " roach %d", same(upd["ROACH"], t.Roa, &dastard.RoachSourceConfig{}, func(x interface{}) {
			c := x.(*dastard.RoachSourceConfig)
			if len(c.HostPort) == 0 {
				c.HostPort = nil
			}
			if len(c.Rates) == 0 {
				c.Rates = nil
			}
			normU(&c.AbacoUnwrapOptions)
		}))
	}
	if t.Have["STATUS"] {
		// record lengths (the rest of STATUS describes the running source, reset at start-up)
		// reported as npre/nsamp: the Lean driver judges them against the saved pair (legal pairs must come
		// back unchanged) and against the start-up's defaulting rule (illegal pairs)
		var st dastard.ServerStatus
		if json.Unmarshal([]byte(upd["STATUS"]), &st) == nil {
			fmt.Fprintf(&sb, " status %d/%d", st.Npresamp, st.Nsamples)
		} else {
			sb.WriteString(" status ?")
		}
	}
	if t.Have["WRITING"] {
		var ws dastard.WritingState
		ok := 0
		if json.Unmarshal([]byte(upd["WRITING"]), &ws) == nil && ws.BasePath == t.Writing.BasePath {
			ok = 1
		}
		fmt.Fprintf(&sb, " writing %d", ok)
	}
	if t.Have["TRIGGER"] {
		ok := 1
		if su.PrepErr != "" {
			ok = 0
		}
		if !c16TriggersMatch(t.Trig, t.Nchan, su.Triggers) {
			ok = 0
		}
		fmt.Fprintf(&sb, " trigger %d", ok)
	}
	s := strings.TrimSpace(sb.String())
	if s == "" {
		s = "none"
	}
	return s
}
