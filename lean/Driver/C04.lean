import Driver.Loop
import DastardV.Model.C04
open DastardV

def main : IO Unit := driverMain C04.runLine
