import Driver.Loop
import DastardV.Model.C12
open DastardV

def main : IO Unit := driverMain C12.runLine
