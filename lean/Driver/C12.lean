import Driver.Loop
import DastardV.Model.C12
import DastardV.Model.C12Roach
open DastardV

def main : IO Unit := driverMain fun ts =>
  match ts.head? with
  | some "rdev" => Roach.runLine ts
  | _ => C12.runLine ts
