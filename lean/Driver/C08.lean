import Driver.Loop
import DastardV.Model.C08
open DastardV

def main : IO Unit := driverMain C08.runLine
