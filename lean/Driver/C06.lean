import Driver.Loop
import DastardV.Model.C06
open DastardV

def main : IO Unit := driverMain C06.runLine
