import Driver.Loop
import DastardV.Model.C02
open DastardV

def main : IO Unit := driverMain C02.runLine
