import Driver.Loop
import DastardV.Model.C03
import DastardV.Model.UdpPackets
open DastardV

def main : IO Unit := driverMain fun ts =>
  match ts.head? with
  | some "udp" => UdpPk.runLine ts
  | _ => C03.runLine ts
