import Driver.Loop
import DastardV.Model.C03
open DastardV

def main : IO Unit := driverMain C03.runLine
