import Driver.Loop
import DastardV.Model.C15
open DastardV

def main : IO Unit := driverMain C15.runLine
