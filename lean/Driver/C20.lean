import Driver.Loop
import DastardV.Model.C20
open DastardV

def main : IO Unit := driverMain C20.runLine
