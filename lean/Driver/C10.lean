import Driver.Loop
import DastardV.Model.C10
open DastardV

def main : IO Unit := driverMain C10.runLine
