/-
Line-protocol driver loop.  Reads case lines `Cxx <id> <seed> …` on stdin, runs the model and
the property oracle (`runLine`), prints `<id> <verdict>` per line.  Pure function of its input.
-/
import DastardV.Proto
open DastardV

partial def driverLoop (runLine : List String → Verdict) (h : IO.FS.Stream) (out : IO.FS.Stream) : IO Unit := do
  let line ← h.getLine
  if line.isEmpty then return ()
  match toks (line.trimAscii).toString with
  | _prop :: id :: _seed :: rest =>
    out.putStrLn s!"{id} {(runLine rest).render}"
  | [] => pure ()
  | _ => out.putStrLn "? bad short line"
  driverLoop runLine h out

def driverMain (runLine : List String → Verdict) : IO Unit := do
  let stdin ← IO.getStdin
  let stdout ← IO.getStdout
  driverLoop runLine stdin stdout
  stdout.flush
