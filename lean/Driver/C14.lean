import Driver.Loop
import DastardV.Model.C14
open DastardV

def main : IO Unit := driverMain C14.runLine
