import Driver.Loop
import DastardV.Model.C18
open DastardV

def main : IO Unit := driverMain C18.runLine
