import Driver.Loop
import DastardV.Model.C18
import DastardV.Model.RingPackets
open DastardV

def main : IO Unit := driverMain fun ts =>
  match ts.head? with
  | some "pad" | some "rpk" => RingPk.runLine ts
  | _ => C18.runLine ts
