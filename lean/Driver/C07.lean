import Driver.Loop
import DastardV.Model.C07
open DastardV

def main : IO Unit := driverMain C07.runLine
