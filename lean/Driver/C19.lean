import Driver.Loop
import DastardV.Model.C19
open DastardV

def main : IO Unit := driverMain C19.runLine
