import Driver.Loop
import DastardV.Model.C05
open DastardV

def main : IO Unit := driverMain C05.runLine
