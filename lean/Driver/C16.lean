import Driver.Loop
import DastardV.Model.C16
open DastardV

def main : IO Unit := driverMain C16.runLine
