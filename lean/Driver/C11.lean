import Driver.Loop
import DastardV.Model.C11
open DastardV

def main : IO Unit := driverMain C11.runLine
