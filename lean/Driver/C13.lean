import Driver.Loop
import DastardV.Model.C13
open DastardV

def main : IO Unit := driverMain C13.runLine
