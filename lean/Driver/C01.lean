import Driver.Loop
import DastardV.Model.PipeJudge
open DastardV

def main : IO Unit := driverMain Pipe.runLineC01
