/-
Line-protocol driver.  Reads case lines `Cxx <id> <seed> …` on stdin, runs the model and
the property oracle, prints `<id> <verdict>` per line.  Pure function of its input.
-/
import DastardV.Proto
import DastardV.Model.C09
import DastardV.Model.PipeJudge
import DastardV.Model.C12
import DastardV.Model.C14
import DastardV.Model.C18
open DastardV

def dispatch (prop : String) (rest : List String) : Verdict :=
  match prop with
  | "C01" => Pipe.runLineC01 rest
  | "C09" => C09.runLine rest
  | "C12" => C12.runLine rest
  | "C14" => C14.runLine rest
  | "C18" => C18.runLine rest
  | _ => .bad s!"unknown property {prop}"

partial def loop (h : IO.FS.Stream) (out : IO.FS.Stream) : IO Unit := do
  let line ← h.getLine
  if line.isEmpty then return ()
  match toks (line.trimAscii).toString with
  | prop :: id :: _seed :: rest =>
    out.putStrLn s!"{id} {(dispatch prop rest).render}"
  | [] => pure ()
  | _ => out.putStrLn "? bad short line"
  loop h out

def main : IO Unit := do
  let stdin ← IO.getStdin
  let stdout ← IO.getStdout
  loop stdin stdout
  stdout.flush
