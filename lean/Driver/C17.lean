import Driver.Loop
import DastardV.Model.C17
open DastardV

def main : IO Unit := driverMain C17.runLine
