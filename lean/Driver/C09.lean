import Driver.Loop
import DastardV.Model.C09
open DastardV

def main : IO Unit := driverMain C09.runLine
