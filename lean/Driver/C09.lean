import Driver.Loop
import DastardV.Model.C09Pipe
open DastardV

def main : IO Unit := driverMain Pipe.runLineC09All
