-- Root of the `DastardV` library: models and property theorems.
import DastardV.Proto
import DastardV.Model.C12
import DastardV.Props.C12
import DastardV.Model.C14
import DastardV.Props.C14
import DastardV.Model.C18
import DastardV.Props.C18
import DastardV.Model.C09
import DastardV.Props.C09
