/-
C04 — Lancero ingest.  Transcription of

* `lancero.FindFrameBits`            (lancero/lancero.go)            → `findFrameBits`
* the ticker branch of `launchLanceroReader` (lancero_source.go)     → `readerTick`, `runReader`
* `updateChanOrderMap`                                               → `c2rTable`
* `Mix.MixRetardFb`                  (mix.go)                        → `mixRetard`
* `distributeData` (ext-trigger scan, mix, segment stamping)         → `distribute`
* the mix-request branch of `getNextBlock` / `ConfigureMixFraction`  → `configureMix`

Bytes, 16-bit samples and counts are `Nat`; frame numbers and times are `Int`.  Go panics are
values (`Panic`).  Float arithmetic of the mixer is abstracted by `FloatOps` (theorems hold for
every instance); the driver instantiates it with IEEE doubles (`floatOps`).
Single card only (the code panics "not yet implemented" for more).
-/
import DastardV.Proto
namespace DastardV.C04

/-! ### Geometry and byte layout -/

structure Geom where
  nc : Nat      -- columns
  nr : Nat      -- rows
deriving Repr, DecidableEq

/-- words per frame -/
def Geom.F (g : Geom) : Nat := g.nc * g.nr
/-- `dev.frameSize` (bytes) -/
def Geom.fs (g : Geom) : Nat := g.nc * g.nr * 4
/-- number of channels (err, fb per word) -/
def Geom.nchan (g : Geom) : Nat := g.nc * g.nr * 2

def lsb (x : Nat) : Bool := x % 2 == 1

/-- `b[0]&1, b[4]&1, b[8]&1, …` for every index `< len b` -/
def every4 : List Nat → List Bool
  | [] => []
  | a :: _ :: _ :: _ :: rest => lsb a :: every4 rest
  | a :: _ => [lsb a]

/-- the bits `b[off]&1, b[off+4]&1, …` that `for i := off; i < len(b); i += 4` visits -/
def bitsAt (off : Nat) (b : List Nat) : List Bool := every4 (b.drop off)

/-- `bytesToRawType`: little-endian 16-bit view (a trailing odd byte is not visible) -/
def u16s : List Nat → List Nat
  | lo :: hi :: rest => (lo + 256 * hi) :: u16s rest
  | _ => []

/-! ### FindFrameBits -/

/-- first loop: skip until a word without frame bit was seen, then the index of the next word
with frame bit (`frameBitInPreviousWord` is never set in this loop, its branch is dead). -/
def findQ : List Bool → Nat → Bool → Option Nat
  | [], _, _ => none
  | x :: xs, i, seen =>
    if seen then (if x then some i else findQ xs (i + 1) true)
    else findQ xs (i + 1) (!x)

/-- second loop: number of consecutive set bits -/
def countTrue : List Bool → Nat
  | true :: xs => countTrue xs + 1
  | _ => 0

/-- third loop: first a word without frame bit, then the index of the next one with it -/
def findP : List Bool → Nat → Bool → Option Nat
  | [], _, _ => none
  | x :: xs, i, prev =>
    if prev && !x then findP xs (i + 1) false
    else if !prev && x then some i
    else findP xs (i + 1) prev

structure FFB where
  q : Nat
  p : Nat
  n : Nat
  ok : Bool      -- err == nil
deriving Repr, DecidableEq

/-- `FindFrameBits(b, 2)` with the results in words (`q/4`, `p/4`).  When no `q` is found the Go
variable stays 0 and the later loops run over byte offset 0 (the error low bytes). -/
def findFrameBits (b : List Nat) : FFB :=
  let B2 := bitsAt 2 b
  match findQ B2 0 false with
  | some w =>
    let tail := B2.drop w
    let n := countTrue tail
    if n < 1 then { q := w, p := 0, n := 0, ok := false } else
    match findP (tail.drop n) (w + n) true with
    | some p => { q := w, p := p, n := n, ok := true }
    | none => { q := w, p := 0, n := n, ok := false }
  | none =>
    let B0 := bitsAt 0 b
    let n := countTrue B0
    if n < 1 then { q := 0, p := 0, n := 0, ok := false } else
    match findP (B0.drop n) n true with
    | some p => { q := 0, p := p, n := n, ok := true }
    | none => { q := 0, p := 0, n := n, ok := false }

/-! ### The reader tick -/

inductive Panic where
  | divZero          -- `nrows := (p - q) / ncols` with ncols = 0
  | firstWordZero    -- "not sure what to do here, but it wont self fix"
  | dropFromEnd      -- "expect dropFromEnd>0"
  | noFrames         -- "should not get here"
deriving Repr, DecidableEq

inductive Tick where
  | small                                   -- fewer than 3 frames available: nothing released
  | discard (rel : Nat)                     -- buffer not understood: all of it released
  | deliver (drop : Bool) (rel : Nat) (raw : List Nat) (nframes : Nat)
  | panic (p : Panic)
deriving Repr, DecidableEq

/-- One pass of the `case <-ticker.C` branch on the available bytes `b`.
`raw` is the 16-bit view of the (re-aligned) buffer, `nframes = framesUsed`,
`rel` the total number of bytes handed back to the driver. -/
def readerTick (g : Geom) (b : List Nat) : Tick :=
  if b.length < 3 * g.fs then .small else
  let f := findFrameBits b
  if f.n = 0 then .panic .divZero else
  let nrows : Int := Int.tdiv ((f.p : Int) - f.q) f.n
  if f.n ≠ g.nc ∨ nrows ≠ g.nr ∨ !f.ok ∨ f.q > g.nc * g.nr then .discard b.length else
  if f.q ≠ g.nc * g.nr then
    if f.q = 0 then .panic .firstWordZero else
    let dropFromStart := f.q * 4
    if g.fs ≤ dropFromStart then .panic .dropFromEnd else
    let dropFromEnd := g.fs - dropFromStart
    let b' := (b.drop dropFromStart).take (b.length - dropFromEnd - dropFromStart)
    let nframes := b'.length / g.fs
    if nframes = 0 then .panic .noFrames else
    .deliver true (dropFromStart + nframes * g.fs) (u16s b') nframes
  else
    let nframes := b.length / g.fs
    if nframes = 0 then .panic .noFrames else
    .deliver false (nframes * g.fs) (u16s b) nframes

/-- the demultiplexing loop: `datacopies[i][j] = buffer[i + j*nchan]` (readout order) -/
def demux (nchan nframes : Nat) (raw : List Nat) : List (List Nat) :=
  let buffer := raw.toArray      -- (an array only so that the driver indexes in constant time)
  (List.range nchan).map fun i => (List.range nframes).map fun j => buffer.getD (i + j * nchan) 0

/-- what the reader puts on `buffersChan` -/
structure Buf where
  dc : List (List Nat)     -- datacopies (readout order), each `framesUsed` long
  t : Int                  -- lastSampleTime, in frame periods
  drop : Bool
deriving Repr, DecidableEq

/-- the scripted card: bytes already visible and not released, bytes not yet visible -/
structure Card where
  pending : List Nat
  future : List Nat
deriving Repr, DecidableEq

/-- Ticks of the reader loop.  Tick `k` first makes `chunk` more bytes visible (the card's DMA),
the card's time stamp is `t`.  `disc` = `discardedBuffer`: an earlier buffer was released unread,
the next block reports a data drop.  A panic ends the process. -/
def runReader (g : Geom) : Card → Bool → List (Nat × Int) → Except Panic (List Buf)
  | _, _, [] => .ok []
  | c, disc, (chunk, t) :: rest =>
    let b := c.pending ++ c.future.take chunk
    let fut := c.future.drop chunk
    match readerTick g b with
    | .small => runReader g { pending := b, future := fut } disc rest
    | .discard rel => runReader g { pending := b.drop rel, future := fut } true rest
    | .panic p => .error p
    | .deliver drop rel raw nframes =>
      match runReader g { pending := b.drop rel, future := fut } false rest with
      | .error p => .error p
      | .ok bufs => .ok ({ dc := demux g.nchan nframes raw, t := t, drop := drop || disc } :: bufs)

/-! ### Channel order -/

/-- channel number of a readout index (body of the loop in `updateChanOrderMap`) -/
def channum (g : Geom) (readIdx : Nat) : Nat :=
  let rownum := (readIdx / 2) / g.nc
  let colnum := (readIdx / 2) % g.nc
  (readIdx % 2) + rownum * 2 + (colnum * g.nr) * 2

/-- `ls.chan2readoutOrder` as built by `updateChanOrderMap` (one device) -/
def c2rTable (g : Geom) : List Nat :=
  (List.range g.nchan).foldl (fun t readIdx => t.set (channum g readIdx) readIdx)
    (List.replicate g.nchan 0)

/-! ### Mix -/

/-- the float operations `MixRetardFb` uses, abstracted -/
structure FloatOps (σ ρ : Type) where
  isZero : σ → Bool                -- `m.errorScale == 0.0`
  mulAdd : σ → Int → Nat → ρ       -- `float64(int16(err))*m.errorScale + float64(fb)`
  geMax : ρ → Bool                 -- `>= math.MaxUint16`
  ltZero : ρ → Bool                -- `< 0`
  round : ρ → Nat                  -- `RawType(roundint(x))`

/-- `x & ^0x03` on a 16-bit value -/
def mask (x : Nat) : Nat := x - x % 4

/-- one sample of the non-zero branch -/
def mixOne {σ ρ} (ops : FloatOps σ ρ) (s : σ) (err : Nat) (fb : Nat) : Nat :=
  let x := ops.mulAdd s (toInt16 err) fb
  if ops.geMax x then 65535 else if ops.ltZero x then 0 else ops.round x

/-- `MixRetardFb`: `xs` = the (fb, err) samples of one block, `last` = `m.lastFb`.
Returns the new fb data and the new `lastFb`. -/
def mixRetard {σ ρ} (ops : FloatOps σ ρ) (s : σ) : Nat → List (Nat × Nat) → List Nat × Nat
  | last, [] => ([], last)
  | last, (fb, err) :: rest =>
    let out := if ops.isZero s then last else mixOne ops s err last
    let (outs, l') := mixRetard ops s (mask fb) rest
    (out :: outs, l')

/-! ### distributeData -/

/-- rising-edge scan over (count, flag) items, carrying `externalTriggerLastState` -/
def edgeScan : Bool → List (Int × Bool) → List Int × Bool
  | last, [] => ([], last)
  | last, (cnt, s) :: rest =>
    let (out, l') := edgeScan s rest
    (if s && !last then cnt :: out else out, l')

/-- external trigger bit = second least significant bit of a feedback sample -/
def extBit (v : Nat) : Bool := v / 2 % 2 == 1

/-- index into `datacopies` that the external-trigger scan reads for `row`:
`ls.chan2readoutOrder[row*2+1]` (feedback of column 0 of that row); `tbl` = the table. -/
def extIdx (tbl : List Nat) (row : Nat) : Nat := tbl.getD (row * 2 + 1) 0

/-- the (rowcount, flag) items of one block in scan order (frame-major, then row) -/
def extItems (g : Geom) (tbl : List Nat) (dc : List (List Nat)) (nframes : Nat) (frame0 : Int) : List (Int × Bool) :=
  let rows := (List.range g.nr).map fun (r : Nat) => (r, dc.getD (extIdx tbl r) [])
  (List.range nframes).flatMap fun (f : Nat) => rows.map fun (rd : Nat × List Nat) =>
    (((f : Int) + frame0) * (g.nr : Int) + (rd.1 : Int), extBit (rd.2.getD f 0))

structure DState (σ : Type) where
  next : Int               -- ls.nextFrameNum
  extLast : Bool           -- ls.externalTriggerLastState
  prevT : Int              -- ls.previousLastSampleTime
  lastFb : List Nat        -- Mix[ch].lastFb per channel index
  scale : List σ           -- Mix[ch].errorScale per channel index

structure Block where
  first : Int              -- firstFrameIndex (all segments)
  dropped : Int            -- droppedFrames (all segments)
  nframes : Nat            -- block.nSamp
  ext : List Int           -- externalTriggerRowcounts
  data : List (List Nat)   -- per channel index
deriving Repr, DecidableEq

instance : Inhabited Block := ⟨{ first := 0, dropped := 0, nframes := 0, ext := [], data := [] }⟩

/-- one pass of the segment loop for channel `ch`: `s` = `ls.Mix[ch].errorScale`, `last` =
`ls.Mix[ch].lastFb` (every channel has its own `Mix` object); returns the segment's data and the
new `lastFb`.  `tbl` = `ls.chan2readoutOrder`. -/
def chanOut {σ ρ} (ops : FloatOps σ ρ) (tbl : List Nat) (dc : List (List Nat)) (s : σ) (last : Nat) (ch : Nat) :
    List Nat × Nat :=
  let data := dc.getD (tbl.getD ch 0) []
  if ch % 2 = 1 then
    let errData := dc.getD (tbl.getD (ch - 1) 0) []
    mixRetard ops s last (data.zip errData)
  else (data, last)

/-- `dc` is what the code may assume: one slice per channel, all `framesUsed` long -/
def rect (g : Geom) (dc : List (List Nat)) : Bool :=
  dc.length == g.nchan && dc.all (fun d => d.length == (dc.headD []).length)

/-- `distributeData`.  `none`: the buffers are not rectangular (never produced by the reader). -/
def distribute {σ ρ} (ops : FloatOps σ ρ) (zero : σ) (g : Geom) (st : DState σ) (b : Buf) :
    Option (DState σ × Block) :=
  if !rect g b.dc then none else
  let nframes := (b.dc.headD []).length
  -- dropped-frame estimate (wall clock in the code; here the difference of the scripted times)
  let dropped : Int := if b.drop then b.t - st.prevT else 0
  let next := st.next + dropped          -- `ls.nextFrameNum += FrameIndex(droppedFrames)`
  let tbl := c2rTable g
  let (ext, extLast) := edgeScan st.extLast (extItems g tbl b.dc nframes next)
  let outs := (List.range g.nchan).map fun ch =>
    chanOut ops tbl b.dc (st.scale.getD ch zero) (st.lastFb.getD ch 0) ch
  some ({ st with next := next + nframes, extLast := extLast, prevT := b.t, lastFb := outs.map (·.2) },
        { first := next, dropped := dropped, nframes := nframes, ext := ext, data := outs.map (·.1) })

def distributeAll {σ ρ} (ops : FloatOps σ ρ) (zero : σ) (g : Geom) :
    DState σ → List Buf → Option (DState σ × List Block)
  | st, [] => some (st, [])
  | st, b :: bs =>
    match distribute ops zero g st b with
    | none => none
    | some (st1, blk) =>
      match distributeAll ops zero g st1 bs with
      | none => none
      | some (st2, blks) => some (st2, blk :: blks)

/-- `ConfigureMixFraction` + the mix-request branch of `getNextBlock`: all indices are validated
first (odd, in range); `none` = the request is rejected and nothing changes. -/
def configureMix {σ} (g : Geom) (scaleOf : Nat → σ) (st : DState σ) (req : List (Int × Nat)) : Option (DState σ) :=
  if req.all (fun (i, _) => 0 ≤ i ∧ i < g.nchan ∧ i % 2 = 1) then
    some { st with scale := req.foldl (fun sc (i, fr) => sc.set i.toNat (scaleOf fr)) st.scale }
  else none

def DState.init {σ} (g : Geom) (zero : σ) (first t0 : Int) : DState σ :=
  { next := first, extLast := false, prevT := t0,
    lastFb := List.replicate g.nchan 0, scale := List.replicate g.nchan zero }

/-- a history of what `getNextBlock` sees: mix requests and buffer messages -/
inductive Step where
  | mix (req : List (Int × Nat))
  | buf (b : Buf)

inductive DRes where
  | mix (ok : Bool)
  | blk (b : Block)
deriving DecidableEq

/-- the `getNextBlock` loop over a history (a non-rectangular buffer message is skipped: unmodelled) -/
def runSteps {σ ρ} (ops : FloatOps σ ρ) (zero : σ) (scaleOf : Nat → σ) (g : Geom) :
    DState σ → List Step → List DRes
  | _, [] => []
  | st, Step.mix req :: rest =>
    match configureMix g scaleOf st req with
    | some st' => DRes.mix true :: runSteps ops zero scaleOf g st' rest
    | none => DRes.mix false :: runSteps ops zero scaleOf g st rest
  | st, Step.buf b :: rest =>
    match distribute ops zero g st b with
    | some (st', blk) => DRes.blk blk :: runSteps ops zero scaleOf g st' rest
    | none => runSteps ops zero scaleOf g st rest

/-- the scale table in force at each buffer message of a history -/
def scalesAt {σ} (scaleOf : Nat → σ) (g : Geom) : List σ → List Step → List (List σ)
  | _, [] => []
  | sc, Step.mix req :: rest =>
    if req.all (fun (i, _) => 0 ≤ i ∧ i < g.nchan ∧ i % 2 = 1) then
      scalesAt scaleOf g (req.foldl (fun sc (i, fr) => sc.set i.toNat (scaleOf fr)) sc) rest
    else scalesAt scaleOf g sc rest
  | sc, Step.buf _ :: rest => sc :: scalesAt scaleOf g sc rest

/-! ### IEEE instance used by the driver (amd64 Go: no fused multiply-add) -/

def floatOps : FloatOps Float Float where
  isZero s := s == 0.0
  mulAdd s e fb := Float.ofInt e * s + Float.ofNat fb
  geMax x := x >= 65535.0
  ltZero x := x < 0.0
  round x := (Float.floor (x + 0.5)).toUInt64.toNat % 65536

/-- `errorScale = fraction / float64(nsamp)`, fraction given by its IEEE bits -/
def scaleOfBits (nsamp : Nat) (bits : Nat) : Float := Float.ofBits (UInt64.ofNat bits) / Float.ofNat nsamp

/-! ### The property, as a decidable oracle on observed blocks

Everything below the model is written in "closed form" (no state machine): the expected content of
a channel is a `map` over the frames, the expected feedback stream a `zipWith` against the stream
shifted by one sample, the expected trigger counts a filter over adjacent flag pairs. -/

abbrev Word := Nat × Nat          -- (err, fb)
abbrev Frame := List Word         -- `nc*nr` words in readout order r0c0, r0c1, …, r1c0, …

def wordsOf (b : List Nat) : List Word :=
  let rec go : List Nat → List Word
    | e :: f :: rest => (e, f) :: go rest
    | _ => []
  go (u16s b)

def chunks {α} (n : Nat) : Nat → List α → List (List α)
  | 0, _ => []
  | k + 1, xs => xs.take n :: chunks n k (xs.drop n)

/-- the whole frames contained in a byte string -/
def framesOf (g : Geom) (b : List Nat) : List Frame :=
  chunks g.F (b.length / g.fs) (wordsOf b)

/-- frame bit (lsb of fb) exactly on the words of row 0 -/
def frameWF (g : Geom) (fr : Frame) : Bool :=
  fr.length == g.F &&
  (List.range g.F).all fun i => lsb ((fr.getD i (0, 0)).2) == decide (i < g.nc)

def geomOK (g : Geom) : Bool := decide (1 ≤ g.nc) && decide (2 ≤ g.nr)

/-- component `e` (0 = err, 1 = fb) of the word at (row r, column c) -/
def wordAt (g : Geom) (fr : Frame) (r c e : Nat) : Nat :=
  let w := fr.getD (r * g.nc + c) (0, 0)
  if e = 0 then w.1 else w.2

/-- THE CHANNEL NUMBERING OF THE STATEMENT: channel `2(c·nrows+r)+e` carries component `e` of (r, c). -/
def chanTrue (g : Geom) (frs : List Frame) (ch : Nat) : List Nat :=
  let k := ch / 2
  frs.map fun fr => wordAt g fr (k % g.nr) (k / g.nr) (ch % 2)

/-- expected feedback stream: delayed by one sample, flag bits cleared, scaled error of the SAME
sample added with saturation.  `ss` = the scale in force for each sample. -/
def mixSpec {σ ρ} (ops : FloatOps σ ρ) (ss : List σ) (errs fbs : List Nat) (last0 : Nat) : List Nat :=
  List.zipWith (fun (se : σ × Nat) prev => if ops.isZero se.1 then prev else mixOne ops se.1 se.2 prev)
    (ss.zip errs) (last0 :: fbs.map mask)

/-- the flag the card reports for (frame, row): feedback bit 1 of column 0 -/
def rowFlag (g : Geom) (fr : Frame) (r : Nat) : Bool := extBit (wordAt g fr r 0 1)

def flagsUniform (g : Geom) (fr : Frame) : Bool :=
  (List.range g.nr).all fun r => (List.range g.nc).all fun c => extBit (wordAt g fr r c 1) == rowFlag g fr r

/-- (rowcount, flag) for every (frame, row) of `frs`, frames numbered from `frame0` -/
def flagItems (g : Geom) (frs : List Frame) (frame0 : Int) : List (Int × Bool) :=
  (List.zip (List.range frs.length) frs).flatMap fun (f, fr) =>
    (List.range g.nr).map fun (r : Nat) => (((f : Int) + frame0) * (g.nr : Int) + (r : Int), rowFlag g fr r)

/-- expected counts: item `i` is reported iff its flag is set and item `i-1`'s is not -/
def edgeSpec (init : Bool) (items : List (Int × Bool)) : List Int :=
  (List.zipWith (fun (it : Int × Bool) prev => if it.2 && !prev then some it.1 else none)
    items (init :: items.map (·.2))).filterMap id

def concatChan (blocks : List Block) (ch : Nat) : List Nat := blocks.flatMap fun b => b.data.getD ch []

def totalFrames (blocks : List Block) : Nat := (blocks.map (·.nframes)).sum

/-- later blocks never start before the end of an earlier one -/
def monotone : List Block → Bool
  | a :: b :: rest => decide (a.first + a.nframes ≤ b.first) && monotone (b :: rest)
  | _ => true

/-- blocks numbered contiguously from `first`, no loss reported -/
def contiguous : Int → List Block → Bool
  | _, [] => true
  | first, b :: rest => decide (b.first = first) && decide (b.dropped = 0) && contiguous (first + b.nframes) rest

def evenChans (g : Geom) : List Nat := (List.range g.nchan).filter (· % 2 == 0)
def oddChans (g : Geom) : List Nat := (List.range g.nchan).filter (· % 2 == 1)

/-- every block has one slice per channel and all of the announced length -/
def shapeOK (g : Geom) (blocks : List Block) : Bool :=
  blocks.all fun b => b.data.length == g.nchan && b.data.all (·.length == b.nframes)

/-- the error channels of `blocks` are exactly frames `start, start+1, …` of `frs` -/
def cleanRun (g : Geom) (frs : List Frame) (blocks : List Block) (start : Nat) : Bool :=
  let m := totalFrames blocks
  decide (start + m ≤ frs.length) &&
  (evenChans g).all fun ch => concatChan blocks ch == chanTrue g ((frs.drop start).take m) ch

/-- remove the byte ranges `(pos, len)` (ascending, in coordinates of the original) -/
def cut (orig : List Nat) (gaps : List (Nat × Nat)) : List Nat :=
  gaps.foldr (fun (pl : Nat × Nat) s => s.take pl.1 ++ s.drop (pl.1 + pl.2)) orig

/-! #### Reader cases -/

structure RIn where
  g : Geom
  nsamp : Nat
  first : Int
  t0 : Int
  mix : List (Int × Nat)          -- (channel index, IEEE bits of the fraction), set before the reader starts
  orig : List Nat                 -- the card's byte stream before any loss
  gaps : List (Nat × Nat)
  ticks : List (Nat × Int)        -- bytes becoming visible at each reader tick, card time stamp

inductive ROut where
  | panic (cls : String)
  | hang
  | blocks (mixOK : Bool) (bs : List Block)

def RIn.stream (i : RIn) : List Nat := cut i.orig i.gaps
def RIn.avail (i : RIn) : Nat := min ((i.ticks.map (·.1)).sum) i.stream.length

/-- model of a reader case -/
def runR (i : RIn) : Except Panic (Bool × List Block) :=
  let st0 : DState Float := DState.init i.g 0.0 i.first i.t0
  let (mixOK, st1) := match configureMix i.g (scaleOfBits i.nsamp) st0 i.mix with
    | some s => (true, s)
    | none => (false, st0)
  match runReader i.g { pending := [], future := i.stream } false i.ticks with
  | .error p => .error p
  | .ok bufs =>
    match distributeAll floatOps 0.0 i.g st1 bufs with
    | some (_, blks) => .ok (mixOK, blks)
    | none => .ok (mixOK, [])      -- unreachable: the reader's buffers are rectangular

/-- The statement on a reader run.  `none` = satisfied; `some sig` = violated. -/
def chkR (i : RIn) (out : ROut) : Option String :=
  let g := i.g
  let frs := framesOf g i.orig
  let wf := geomOK g && i.orig.length % g.fs == 0 && frs.all (frameWF g)
  if !wf then none else
  match out with
  | .panic cls => some s!"C04:reader-panic the reader crashed ({cls}) on a stream of well-formed frames{if i.gaps.isEmpty then "" else " with lost bytes"}"
  | .hang => some "C04:reader-hang no answer"
  | .blocks _ bs =>
    if !shapeOK g bs then some "C04:block-shape a block's slices do not have the announced length" else
    let n := totalFrames bs
    if i.gaps.isEmpty then
      -- well-formed stream, arbitrary chunking
      if !(cleanRun g frs bs 0) then some "C04:word-placement an error channel is not the (row,column) word sequence of its channel number" else
      if !(decide (i.avail < (n + 3) * g.fs)) then some "C04:frames-withheld three or more whole frames are visible but were not delivered" else
      if !(contiguous i.first bs) then some "C04:frame-numbering loss reported or frame numbers not contiguous on a loss-free stream" else
      let st0 : DState Float := DState.init g 0.0 i.first i.t0
      let sc := match configureMix g (scaleOfBits i.nsamp) st0 i.mix with
        | some s => s.scale
        | none => st0.scale
      let used := frs.take n
      if !((oddChans g).all fun ch =>
            concatChan bs ch == mixSpec floatOps (List.replicate n (sc.getD ch 0.0))
              (chanTrue g used (ch - 1)) (chanTrue g used ch) 0)
      then some "C04:fb-retard-mix a feedback channel is not the delayed, flag-cleared feedback plus the scaled error of the same sample" else
      if used.all (flagsUniform g) && (bs.flatMap (·.ext)) != edgeSpec false (flagItems g used i.first)
      then some "C04:ext-trigger-row external trigger counts are not frame*rows+row of the rising edges" else
      none
    else
      if !(monotone bs) then some "C04:frames-backwards a later block starts before the end of an earlier one" else
      match i.gaps with
      | [(pos, len)] =>
        if len % g.fs == 0 then none else
        -- largest clean pre-gap prefix
        let pre := ((List.range (bs.length + 1)).filter fun k =>
          cleanRun g frs (bs.take k) 0 && decide (totalFrames (bs.take k) * g.fs ≤ pos)).foldl max 0
        let rest := bs.drop pre
        let gmin := (pos + len + g.fs - 1) / g.fs
        let starts := (List.range (frs.length + 1)).filter (· ≥ gmin)
        if rest.isEmpty then none else
        if starts.any (cleanRun g frs rest) then
          (if (rest.headD default).dropped == 0 then some "C04:gap-not-reported data resumed after lost bytes without any block reporting a loss" else none)
        else if starts.any (cleanRun g frs (rest.drop 1)) || (rest.drop 1).isEmpty then
          some "C04:gap-garbage-block the block in which the loss sits was delivered with misaligned words (re-alignment only at the next read)"
        else some "C04:gap-not-realigned after lost bytes the blocks are not whole frames in order"
      | _ => none

/-! #### distributeData cases -/

inductive DStep where
  | mix (req : List (Int × Nat))
  | buf (nframes : Nat) (t : Int) (drop : Bool) (bytes : List Nat)

structure DIn where
  g : Geom
  nsamp : Nat
  first : Int
  t0 : Int
  steps : List DStep

/-- the harness's demultiplexing of whole frames into readout-order slices -/
def bufOf (g : Geom) (nframes : Nat) (t : Int) (drop : Bool) (bytes : List Nat) : Buf :=
  { dc := demux g.nchan nframes (u16s bytes), t := t, drop := drop }

def DStep.toStep (g : Geom) : DStep → Step
  | .mix req => .mix req
  | .buf n t d bytes => .buf (bufOf g n t d bytes)

def runD (i : DIn) : List DRes :=
  runSteps floatOps 0.0 (scaleOfBits i.nsamp) i.g (DState.init i.g 0.0 i.first i.t0) (i.steps.map (DStep.toStep i.g))

/-- per buffer step: frames, scale table in force, time, drop flag -/
def dBufs (i : DIn) : List (List Frame × List Float × Int × Bool) :=
  let bufSteps := i.steps.filterMap fun s => match s with
    | .buf n t d bytes => some (chunks i.g.F n (wordsOf bytes), t, d)
    | _ => none
  let scs := scalesAt (scaleOfBits i.nsamp) i.g (List.replicate i.g.nchan 0.0) (i.steps.map (DStep.toStep i.g))
  List.zipWith (fun (b : List Frame × Int × Bool) sc => (b.1, sc, b.2.1, b.2.2)) bufSteps scs

def chkD (i : DIn) (res : List DRes) : Option String :=
  let g := i.g
  if !geomOK g then none else
  let bs := res.filterMap fun r => match r with | .blk b => some b | _ => none
  let bufs := dBufs i
  if bs.length != bufs.length then some "C04:block-count not one block per buffer" else
  if !shapeOK g bs then some "C04:block-shape a block's slices do not have the announced length" else
  let frsAll := bufs.flatMap (·.1)
  if !((List.zip bs bufs).all fun (b, bu) => b.nframes == bu.1.length) then some "C04:block-shape wrong block length" else
  if !(cleanRun g frsAll bs 0) then some "C04:word-placement an error channel is not the (row,column) word sequence of its channel number" else
  if !((oddChans g).all fun ch =>
        concatChan bs ch == mixSpec floatOps (bufs.flatMap fun bu => List.replicate bu.1.length (bu.2.1.getD ch 0.0))
          (chanTrue g frsAll (ch - 1)) (chanTrue g frsAll ch) 0)
  then some "C04:fb-retard-mix a feedback channel is not the delayed, flag-cleared feedback plus the scaled error of the same sample" else
  -- loss report and numbering
  let times := i.t0 :: bufs.map (·.2.2.1)
  let est : List Int := (List.zip bufs times).map fun (bu, tprev) => if bu.2.2.2 then bu.2.2.1 - tprev else 0
  -- the statement wants a loss REPORTED, not a particular estimate: a block without a detected loss reports
  -- none, a block with a detected loss and a non-zero elapsed time reports one
  if (List.zip bs est).any (fun (b, e) => (e == 0 && b.dropped != 0) || (e != 0 && b.dropped == 0))
  then some "C04:drop-report a loss is reported without a detected loss, or a detected loss is not reported" else
  if bs.all (·.dropped ≥ 0) && !(monotone bs) then some "C04:frames-backwards a later block starts before the end of an earlier one" else
  if est.all (· == 0) && !(contiguous i.first bs) then some "C04:frame-numbering frame numbers not contiguous on a loss-free run" else
  if frsAll.all (flagsUniform g) &&
     (bs.flatMap (·.ext)) != edgeSpec false ((List.zip bs bufs).flatMap fun (b, bu) => flagItems g bu.1 b.first)
  then some "C04:ext-trigger-row external trigger counts are not frame*rows+row of the rising edges" else
  none

/-! ### Driver -/

def panicClass : Panic → String
  | .divZero => "div-zero"
  | .firstWordZero => "other:not_sure_what_to_do_here,"
  | .dropFromEnd => "other:expect_dropFromEnd>0"
  | .noFrames => "other:should_not_get_here"

open P in
def pBlock : P Block := do
  let first ← int
  let same ← nat
  let dropped ← int
  let nframes ← nat
  let ext ← list int
  let data ← list (do let b ← bytes; pure (u16s b))
  -- `same = 0`: the segments of the block disagree on first frame / dropped frames
  pure { first := if same == 1 then first else first - 1000000007, dropped, nframes, ext, data }

open P in
def pMix : P (List (Int × Nat)) := list (do let i ← int; let b ← nat; pure (i, b))

open P in
def pR : P (RIn × ROut) := do
  let nc ← nat; let nr ← nat; let nsamp ← nat; let first ← int; let t0 ← int
  kw "mix"; let mix ← pMix
  kw "orig"; let orig ← bytes
  kw "gaps"; let gaps ← list (do let p ← nat; let l ← nat; pure (p, l))
  kw "ticks"; let ticks ← list (do let c ← nat; let t ← int; pure (c, t))
  kw "OUT"
  let t ← tok
  let out ← match t with
    | "PANIC" => do let c ← tok; pure (ROut.panic c)
    | "HANG" => pure ROut.hang
    | "mixres" => do
      let ok ← nat
      kw "blocks"
      let bs ← list pBlock
      pure (ROut.blocks (ok == 1) bs)
    | _ => fail s!"bad output {t}"
  pure ({ g := { nc, nr }, nsamp, first, t0, mix, orig, gaps, ticks }, out)

open P in
def pD : P (DIn × List DRes) := do
  let nc ← nat; let nr ← nat; let nsamp ← nat; let first ← int; let t0 ← int
  kw "steps"
  let steps ← list (do
    let t ← tok
    match t with
    | "M" => do let m ← pMix; pure (DStep.mix m)
    | "B" => do
      let n ← nat; let tm ← int; let d ← nat; let b ← bytes
      pure (DStep.buf n tm (d == 1) b)
    | _ => fail s!"bad step {t}")
  kw "OUT"
  let t ← tok
  if t == "PANIC" || t == "HANG" then pure ({ g := { nc, nr }, nsamp, first, t0, steps }, []) else
  if t != "res" then fail s!"bad output {t}" else
  let res ← list (do
    let t ← tok
    match t with
    | "M" => do let ok ← nat; pure (DRes.mix (ok == 1))
    | "B" => do let b ← pBlock; pure (DRes.blk b)
    | _ => fail s!"bad result {t}")
  pure ({ g := { nc, nr }, nsamp, first, t0, steps }, res)

def blockDiff (m i : List Block) : String :=
  match firstDiff m i 0 with
  | none => "-"
  | some k =>
    let a := m.getD k default
    let b := i.getD k default
    if k ≥ m.length || k ≥ i.length then s!"number of blocks: model {m.length} impl {i.length}"
    else if a.first != b.first then s!"block {k} first frame: model {a.first} impl {b.first}"
    else if a.dropped != b.dropped then s!"block {k} dropped: model {a.dropped} impl {b.dropped}"
    else if a.nframes != b.nframes then s!"block {k} frames: model {a.nframes} impl {b.nframes}"
    else if a.ext != b.ext then s!"block {k} ext counts: model {a.ext} impl {b.ext}"
    else s!"block {k} data, channel {(firstDiff a.data b.data 0).getD 0}"

def satHit (bs : List Block) : Bool :=
  bs.any fun b => (List.zip (List.range b.data.length) b.data).any fun (ch, d) => ch % 2 == 1 && d.any (· == 65535)

def runLine (ts : List String) : Verdict :=
  match ts with
  | "R" :: rest =>
    match P.run pR rest with
    | .error e => .bad e
    | .ok (i, out) =>
      let m := runR i
      let agree := match m, out with
        | .ok (mok, mb), .blocks iok ib => mok == iok && mb == ib
        | _, _ => false
      match chkR i out with
      | some sig =>
        -- the unrepaired finding is reproduced by the model: a disagreement there is still reported
        if sig.startsWith "C04:gap-garbage-block" && !agree then
          .diff "model and implementation differ on a run with a loss in the middle of a read"
        else .viol sig
      | none =>
        let geomTags := [s!"nc{i.g.nc}", if i.g.nr ≤ 8 then "nr<=8" else "nr>8"]
        match m, out with
        | .error p, .panic cls =>
          if panicClass p == cls then .ok (["reader", "panic", "malformed"] ++ geomTags) else .diff s!"panic class: model {panicClass p} impl {cls}"
        | .error p, _ => .diff s!"model panics ({panicClass p}), implementation did not"
        | .ok _, .panic cls => .diff s!"implementation panicked ({cls}), model does not"
        | .ok _, .hang => .diff "implementation hung"
        | .ok (mok, mb), .blocks iok ib =>
          if mok != iok then .diff "mix request accepted/rejected differently" else
          if mb != ib then .diff (blockDiff mb ib) else
          let frs := framesOf i.g i.orig
          let wf := geomOK i.g && i.orig.length % i.g.fs == 0 && frs.all (frameWF i.g)
          .ok (["reader"] ++ geomTags ++
            (if mb.isEmpty then ["noblocks"] else ["blocks"]) ++
            (if wf then (if i.gaps.isEmpty then ["wellformed"] else ["gap"]) else ["malformed"]) ++
            (if mb.any (·.dropped != 0) then ["lossreported"] else []) ++
            (if mb.any (!·.ext.isEmpty) then ["ext"] else []) ++
            (if !i.mix.isEmpty && mok then ["mix"] else []) ++
            (if satHit mb then ["sat"] else []) ++
            (if i.ticks.any (fun (c, _) => c < 3 * i.g.fs) then ["shortreads"] else []) ++
            (if i.ticks.any (fun (c, _) => c % i.g.fs != 0) then ["unaligned"] else []))
  | "D" :: rest =>
    match P.run pD rest with
    | .error e => .bad e
    | .ok (i, res) =>
      if res.isEmpty && !i.steps.isEmpty then .diff "implementation crashed or hung in distributeData" else
      match chkD i res with
      | some sig => .viol sig
      | none =>
        let m := runD i
        if m.length != res.length then .diff s!"number of results: model {m.length} impl {res.length}" else
        match (List.zip m res).find? (fun (a, b) => a != b) with
        | some (.blk a, .blk b) => .diff (blockDiff [a] [b])
        | some _ => .diff "mix request accepted/rejected differently"
        | none =>
          let bs := res.filterMap fun r => match r with | .blk b => some b | _ => none
          .ok (["dist", s!"nc{i.g.nc}", if i.g.nr ≤ 8 then "nr<=8" else "nr>8"] ++
            (if bs.isEmpty then [] else ["blocks"]) ++
            (if bs.any (·.dropped != 0) then ["lossreported"] else []) ++
            (if bs.any (!·.ext.isEmpty) then ["ext"] else []) ++
            (if res.any (fun r => r == .mix true) then ["mix"] else []) ++
            (if res.any (fun r => r == .mix false) then ["mixrejected"] else []) ++
            (if satHit bs then ["sat"] else []))
  | _ => .bad "C04: unknown case kind"

end DastardV.C04
