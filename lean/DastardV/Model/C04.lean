/- C04: model not built yet (stub so that the per-property driver links). -/
import DastardV.Proto
namespace DastardV.C04

def runLine (_ts : List String) : Verdict := .bad "C04: model not built yet"

end DastardV.C04
