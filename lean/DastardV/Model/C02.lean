/-
C02 — "no pulse lost or invented": the oracle is an INDEPENDENT scan of the ground-truth
stream (the concatenation of the blocks the harness fed) for criterion-satisfying samples,
compared with the trigger frames of the records the implementation emitted.  It knows
nothing about blocks, retained history or hold-off bookkeeping: only stream positions,
configuration epochs and the emitted trigger positions.

Reading of the statement (DESIGN.md §5 C02):
* epoch = the stretch between (re)configurations of a channel: start of the source (restored
  or default settings), every accepted ConfigureTriggers naming the channel, every
  ConfigurePulseLengths that changes the lengths;
* a sample at stream position `p` is *eligible* in an epoch `[e, e')` when it has `npre`
  samples of history inside the epoch (`e + npre ≤ p`) and `nsamp − npre` samples after it
  had arrived, plus one (`p + (nsamp − npre) < e'`, the code's strict loop bound);
* dead time after a trigger `T` is `(T, T + nsamp]`;
* (history) ConfigureTriggers used to reset the hold-off reference to ABSOLUTE frame 0, i.e. a
  pseudo trigger at frame 0 that silenced samples with absolute frame < nsamp; repaired in /repo
  (`fix: ConfigureTrigger forgets the last trigger…`).  The oracle makes no allowance for it: a
  miss that only that rule would excuse is reported as `C02:frame0-pseudo-trigger`.
-/
import DastardV.Model.PipeJudge
namespace DastardV.C02
open Trig Pipe

structure Epoch where
  start : Nat            -- stream position where the epoch begins
  ts : TS
  npre : Int
  nsamp : Int
  fromT : Bool           -- started by ConfigureTriggers (hold-off reference := frame 0)
  inherit : Bool         -- started by ConfigurePulseLengths: LastTrigger is kept
  back : Nat := 0        -- ConfigureTriggers: the tail of the previous epoch that could not be searched yet
                         -- (its last nsamp−npre samples) is searched again with the new settings, as far as
                         -- the history they need was retained; `back` = how far before `start` that reaches
deriving Repr

structure ChanTruth where
  g : Array Nat := #[]
  signed : Bool := false
  epochs : List Epoch            -- newest first
  trigs : List (Nat × Nat) := [] -- (position, index of the epoch it was emitted in), oldest first
  ret : Nat := 0                 -- samples retained between blocks (rule: at most 2·nsamp+10, `NToKeepOnTrim`)
deriving Repr

structure St where
  chans : List ChanTruth
  f0 : Option Int := none        -- absolute frame of stream position 0
  npre : Int
  nsamp : Int
deriving Repr

def gget (g : Array Nat) (p : Int) : Nat := if p < 0 then 0 else g.getD p.toNat 0

/-- the criteria, on the ground-truth stream -/
def edgeAt (ts : TS) (signed : Bool) (g : Array Nat) (p : Nat) : Bool :=
  ts.edge && p ≥ 3 && p < g.size &&
  edgeCrit { npre := 0, nsamp := 0, ts := ts, signed := signed } (gget g p) (gget g (p - 1)) (gget g (p - 2)) (gget g (p - 3))

def levelAt (ts : TS) (signed : Bool) (g : Array Nat) (p : Nat) : Bool :=
  ts.level && p ≥ 1 && p < g.size &&
  levelCrit { npre := 0, nsamp := 0, ts := ts, signed := signed } (gget g p) (gget g (p - 1))

def spanAt (g : Array Nat) (a n : Nat) : Nat :=
  let xs := (List.range n).map fun k => g.getD (a + k) 0
  match xs with
  | [] => 0
  | x :: r => r.foldl max x - r.foldl min x

/-- evaluate every clause for one channel; `endPos` = samples delivered at the end of the case.
`strictFrame0 = true` ignores the frame-0 pseudo trigger (full-strength statement). -/
def evalChan (ch : Nat) (c : ChanTruth) (f0 : Int) (strictFrame0 : Bool) : Option String :=
  let eps := c.epochs.reverse                 -- oldest first
  let endPos := c.g.size
  let n := eps.length
  firstSome (List.range n) fun k =>
    match eps[k]? with
    | none => none
    | some ep =>
      let e' : Nat := match eps[k + 1]? with | some nx => nx.start | none => endPos
      let eI : Int := Int.ofNat e'
      let post : Int := ep.nsamp - ep.npre
      let mine := (c.trigs.filter (·.2 == k)).map (·.1)
      -- triggers whose dead time counts in this epoch
      let hold : List Nat := if ep.inherit then (c.trigs.filter (·.2 ≤ k)).map (·.1) else mine
      let covered (p : Nat) : Bool := hold.any fun t => t < p ∧ (p : Int) ≤ t + ep.nsamp
      let near (p : Nat) : Bool := hold.any fun t => (t : Int) - ep.nsamp ≤ p ∧ (p : Int) ≤ t + ep.nsamp
      let eligible (p : Nat) : Bool :=
        (ep.start : Int) - ep.back + ep.npre ≤ p ∧ (p : Int) + post < eI ∧
        (strictFrame0 || !ep.fromT || f0 + p ≥ ep.nsamp)
      -- (a) soundness of every trigger emitted in this epoch
      let unsound := mine.find? fun p =>
        !(edgeAt ep.ts c.signed c.g p || levelAt ep.ts c.signed c.g p || ep.ts.auto)
      match unsound with
      | some p => some s!"unsound ch{ch} epoch {k}: trigger at stream position {p} (frame {f0 + p}) satisfies no enabled criterion"
      | none =>
      -- (a') a trigger that satisfies neither the edge nor the level criterion can only be an auto trigger,
      -- and the auto criterion is: no trigger for the auto delay (or one record, if longer)
      let adelay : Int := if ep.ts.autoDelay < ep.nsamp then ep.nsamp else ep.ts.autoDelay
      let rec tooSoon : List Nat → Option (Nat × Nat)
        | a :: b :: r =>
          if !(edgeAt ep.ts c.signed c.g b || levelAt ep.ts c.signed c.g b) && (b : Int) - a < adelay then some (a, b)
          else tooSoon (b :: r)
        | _ => none
      match (if ep.ts.auto then tooSoon mine else none) with
      | some (a, b) => some s!"unsound-auto ch{ch} epoch {k}: trigger at stream position {b} (frame {f0 + b}) satisfies neither the edge nor the level criterion and comes only {b - a} samples after the trigger at {a} (auto delay {adelay})"
      | none =>
      let positions := (List.range (e' - (ep.start - ep.back))).map (· + (ep.start - ep.back))
      -- (b) edge completeness
      let missE := positions.find? fun p => edgeAt ep.ts c.signed c.g p && eligible p && !(mine.contains p) && !covered p
      match missE with
      | some p => some s!"edge-missed ch{ch} epoch {k} (start {ep.start}, npre {ep.npre} nsamp {ep.nsamp}): sample at stream position {p} (frame {f0 + p}) satisfies the edge criterion, is no trigger and in no dead time; triggers {mine}"
      | none =>
      -- (c) level completeness
      let missL := positions.find? fun p => levelAt ep.ts c.signed c.g p && eligible p && !(mine.contains p) && !near p
      match missL with
      | some p => some s!"level-missed ch{ch} epoch {k} (start {ep.start}, npre {ep.npre} nsamp {ep.nsamp}): sample at stream position {p} (frame {f0 + p}) satisfies the level criterion and is not within one record of a trigger; triggers {mine}"
      | none =>
      -- (d) edge-only: no overlapping records within the epoch
      let rec overlap : List Nat → Option (Nat × Nat)
        | a :: b :: r => if (b : Int) - a < ep.nsamp then some (a, b) else overlap (b :: r)
        | _ => none
      match (if ep.ts.edge && !ep.ts.level && !ep.ts.auto then overlap mine else none) with
      | some (a, b) => some s!"edge-overlap ch{ch} epoch {k}: edge-only triggers at positions {a} and {b} overlap (nsamp {ep.nsamp})"
      | none =>
      -- (e) auto, no veto: gaps
      if ep.ts.auto && ep.ts.autoVeto == 0 then
        let delay : Int := if ep.ts.autoDelay < ep.nsamp then ep.nsamp else ep.ts.autoDelay
        let bound : Int := delay + ep.nsamp
        let rec gaps : List Nat → Option (Nat × Nat)
          | a :: b :: r => if (b : Int) - a > bound then some (a, b) else gaps (b :: r)
          | _ => none
        match gaps mine with
        | some (a, b) => some s!"auto-gap ch{ch} epoch {k}: successive triggers at {a} and {b} are more than delay+record = {bound} apart"
        | none =>
          let refFrame0 : Int := if ep.fromT && !strictFrame0 then (if -f0 > ep.start then -f0 else ep.start) else ep.start
          match mine.head?, mine.getLast? with
          | none, _ =>
            if refFrame0 + ep.npre + bound + post < eI then
              some s!"auto-gap ch{ch} epoch {k} (start {ep.start}): no trigger at all although {e' - ep.start} samples arrived (bound {bound})"
            else none
          | some t1, some tl =>
            if (t1 : Int) > refFrame0 + ep.npre + bound then
              some s!"auto-gap ch{ch} epoch {k} (start {ep.start}): first trigger only at {t1} (bound {bound})"
            else if (tl : Int) + bound + post < eI then
              some s!"auto-gap ch{ch} epoch {k}: no trigger after {tl} although the stream continued to {e'} (bound {bound})"
            else none
          | _, _ => none
      else none

/-- walk the ops with the implementation's outputs, building the ground truth -/
def walk (st : St) : List Op → List Out → St
  | [], _ => st
  | _, [] => st
  | op :: ops, out :: outs =>
    match op, out with
    | .block first _ _ signed data, .recs rs =>
      let f0 := st.f0.getD first
      let chans := st.chans.zipIdx.map fun (c, ch) =>
        let d := data[ch]?.getD []
        let ek := c.epochs.length - 1
        let newT := (rs[ch]?.getD []).filterMap fun r =>
          let p := r.frame - f0
          if p < 0 then none else some (p.toNat, ek)
        let keep : Nat := (2 * st.nsamp + 10).toNat
        let ret := if c.ret + d.length > keep then keep else c.ret + d.length
        { c with g := c.g ++ d.toArray, signed := signed[ch]?.getD false, trigs := c.trigs ++ newT, ret := ret }
      walk { st with chans, f0 := some f0 } ops outs
    | .trig r, .err false =>
      let chans := st.chans.zipIdx.map fun (c, ch) =>
        if r.chans.contains (ch : Int) then
          -- the not-yet-searched tail of the stream so far: its last nsamp−npre samples; they are found
          -- with the new settings when their npre samples of history are still in the retained buffer
          let post : Nat := match c.epochs.head? with
            | some e => min (st.nsamp - st.npre).toNat (c.g.size - e.start + e.back)   -- never before the previous epoch's own reach
            | none => (st.nsamp - st.npre).toNat
          let back : Nat := if post + st.npre.toNat ≤ c.ret then post else 0
          { c with epochs := { start := c.g.size, ts := r.ts, npre := st.npre, nsamp := st.nsamp, fromT := true, inherit := false,
                               back := back } :: c.epochs }
        else c
      walk { st with chans } ops outs
    | .len ns np, .err false =>
      if ns ≤ 0 ∨ np ≤ 0 ∨ (ns = st.nsamp ∧ np = st.npre) then walk st ops outs else
      let chans := st.chans.map fun c =>
        let ts := match c.epochs.head? with | some e => e.ts | none => {}
        -- as for ConfigureTriggers: the tail of the stream so far that could not be searched yet (its last
        -- nsamp−npre samples under the OLD lengths; the tail an empty previous epoch had inherited, if no block
        -- came in between) is searched under the new lengths, when the new pre-trigger history of its first sample
        -- is still in the retained buffer (trimmed under the old lengths: at least 2·nsamp_old+10 samples)
        let tail : Nat := match c.epochs.head? with
          | some e => min (st.nsamp - st.npre).toNat (c.g.size - e.start + e.back)   -- never before the previous epoch's own reach
          | none => 0
        let back : Nat := if tail + np.toNat ≤ c.ret then tail else 0
        { c with epochs := { start := c.g.size, ts := ts, npre := np, nsamp := ns, fromT := false, inherit := true, back := back } :: c.epochs }
      walk { st with chans, npre := np, nsamp := ns } ops outs
    | _, _ => walk st ops outs

def initSt (c : Case) : St :=
  { npre := c.npre, nsamp := c.nsamp,
    chans := (List.range c.nch).map fun i =>
      let ts : TS := match c.saved.find? (·.1 == i) with
        | some (_, ts) => { ts with edgeMulti := false }
        | none => {}
      { epochs := [{ start := 0, ts := ts, npre := c.npre, nsamp := c.nsamp, fromT := false, inherit := false }] } }

def chkC02 (c : Case) (outs : List Out) : Option String :=
  let st := walk (initSt c) c.ops outs
  let f0 := st.f0.getD 0
  match firstSome st.chans.zipIdx fun (ct, ch) => evalChan ch ct f0 false with
  | some e => some e
  | none =>
    -- full-strength statement: without the frame-0 excuse
    match firstSome st.chans.zipIdx fun (ct, ch) => evalChan ch ct f0 true with
    | some e => some ("frame0-pseudo-trigger " ++ e)
    | none => none

def runLine (ts : List String) : Verdict :=
  match P.run parseCase ts with
  | .error e => .bad e
  | .ok c =>
    -- C02 is about edge / level / auto triggering only
    judgeWith "C02" c fun c outs =>
      match chkC01 (initTruth c) c.ops outs with
      | some e => some ("record-not-exact " ++ e)
      | none => chkC02 c outs

end DastardV.C02
