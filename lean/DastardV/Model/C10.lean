/- C10: model not built yet (stub so that the per-property driver links). -/
import DastardV.Proto
namespace DastardV.C10

def runLine (_ts : List String) : Verdict := .bad "C10: model not built yet"

end DastardV.C10
