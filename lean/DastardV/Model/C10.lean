/-
C10 / C11 — source life cycle and control-request rendezvous as a labelled transition system.

Threads (Go goroutines) and their program points, at the granularity of the `verifPoint` sites in
`Start`, `CoreLoop`, `AnySource.Stop` (data_source.go), the producers (simulated_data_sources.go)
and `runLaterIfActive` (rpc_server.go):

* Start callers: any number before `SetStateStarting` (`sEnter`), at most one past it (`sp`);
* Stop callers ×k: counters over the program points  enter → (lock section) → wait → cleanup;
* the core loop (`lp`), the producer (`pp`: union of the triangle / simpulse / erroring / scripted /
  UDP producer automata), RPC callers ×m (counters `rEnter`, `rSend`, `rWait`).

Shared state: `sourceState`, `abortSelf` closed?, `nextBlock` closed?, the `runDone` wait-group
counter, writing-active, resources opened by `Sample` (UDP sockets / reader goroutines), the RPC
layer's `isSourceActive` flag.  Every access of `sourceState`, `runDone.Add/Done` and the close of
`abortSelf` happens inside `sourceStateLock`; the log points sit inside those critical sections, so
a critical section is ONE atomic step here (the mutex itself is therefore never observed held).

`step` is a partial function: `none` = the event is not enabled in that state.  A Go panic is the
value `crashed := true` (no step is enabled afterwards).
-/
import DastardV.Proto
namespace DastardV.C10

inductive SrcState where
  | inactive | starting | active | stopping
deriving DecidableEq, Repr

/-- program point of the one Start call that got past `SetStateStarting` -/
inductive SPc where
  | idle          -- no accepted Start call in flight
  | starting      -- state set to Starting; before/in `Sample`
  | sampled       -- `Sample` ok; before/in `PrepareChannels`
  | chans         -- `PrepareChannels` ok; before/in `PrepareRun`
  | prepared      -- `PrepareRun` ok (fresh abort / nextBlock channels); before `RunDoneActivate`
  | activated     -- `RunDoneActivate` done; before/in `StartRun`
  | failing       -- Sample / PrepareChannels / PrepareRun failed; before `SetStateInactive`
  | runFailing    -- `StartRun` failed; before `RunDoneDeactivate`
deriving DecidableEq, Repr

/-- program point of the core loop -/
inductive LPc where
  | off                 -- no core loop goroutine
  | spawned             -- `go CoreLoop` done, loop not yet at its first select
  | select              -- in the select (between blocks)
  | block               -- `ProcessSegments` running
  | req (n : Nat)       -- running a request closure that will still send `n` replies
  | exiting             -- saw closed channel / error block; before the deferred `RunDoneDeactivate`
deriving DecidableEq, Repr

/-- program point of the producer goroutine -/
inductive PPc where
  | off | run | tick | send | sendErr | done
deriving DecidableEq, Repr

/-- effect of a request closure on the writing flag -/
inductive WEff where
  | keep | on | off
deriving DecidableEq, Repr

structure St where
  st : SrcState
  sEnter : Nat            -- Start calls before `SetStateStarting`
  sp : SPc
  kEnter : Nat            -- Stop calls before the lock section
  kDecided : Nat          -- Stop calls INSIDE the lock section that have read "Active" and not yet written
                          -- "Stopping": while one is here it holds `sourceStateLock` (no other lock section can run)
  kWait : Nat             -- Stop calls that switched to Stopping and wait for THEIR run's done channel, still open
  kReady : Nat            -- Stop calls whose run is over (its done channel is closed): before/at the end of the wait
  kClean : Nat            -- Stop calls after the wait, before returning
  lp : LPc
  pp : PPc
  abortClosed : Bool
  nbClosed : Bool
  wg : Nat                -- `runDone` counter
  writing : Bool
  res : Bool              -- resources opened by `Sample` are held
  opens : Bool            -- constant: this source's `Sample` opens resources (Abaco UDP)
  crashed : Bool
  fuel : Nat              -- how many more blocks the producer may start after abort is closed
  flag : Bool             -- `SourceControl.isSourceActive`
  rEnter : Nat            -- RPC callers before the flag test
  rSend : Nat             -- RPC callers blocked sending on `queuedRequests`
  rWait : Nat             -- RPC callers blocked receiving from `queuedResults`
  runOver : Bool          -- the most recent run is done (`RunDoneChan()` is closed); false before the first run
  -- ghost state (history, read by no guard)
  stopsDone : Nat         -- Stop calls returned since the last Start call was issued
  asm : Nat               -- acquisition steps pending: assembler goroutines launched by `getNextBlock` of a
                          -- hardware-style source (`opens`: Abaco, Lancero) that have neither delivered nor closed
deriving DecidableEq, Repr

def init (opens : Bool) : St :=
  { st := .inactive, sEnter := 0, sp := .idle, kEnter := 0, kDecided := 0, kWait := 0, kReady := 0, kClean := 0, lp := .off, pp := .off,
    abortClosed := false, nbClosed := false, wg := 0, writing := false, res := false, opens,
    crashed := false, fuel := 0, flag := false, rEnter := 0, rSend := 0, rWait := 0,
    runOver := false, stopsDone := 0, asm := 0 }

inductive Ev where
  -- Start
  | callStart | startOk | startRejected | sampled | sampleFailed | chans | chansFailed
  | prepared (fuel : Nat) | prepareFailed | setInactive | activate | runStarted | startRunFailed
  | starterDeactivate
  -- core loop
  | loopStart | gotBlock | processed | processFailed | gotRequest (nrep : Nat) (w : WEff) | reply
  | requestDone | gotClosed | gotError | loopDeactivate
  -- Stop
  | callStop | stopNotActive | stopOnStarting | stopAlready | stopDecide | stopSwitched | stopWaited | stopCleaned
  -- producer
  | tick | send | sendError | abortSeen | selfClose
  -- RPC layer
  | callRpc | rpcNotActive | rpcPass | rpcSourceGone | flagOn | flagOff | flagRefresh
  | scStartRefused | scStopNotActive
deriving DecidableEq, Repr

/-- environment events: new calls and the RPC layer's flag updates -/
def Ev.isEnv : Ev → Bool
  | .callStart | .callStop | .callRpc | .flagOn | .flagOff | .flagRefresh | .scStartRefused | .scStopNotActive => true
  | _ => false

def applyW (w : WEff) (b : Bool) : Bool :=
  match w with
  | .keep => b
  | .on => true
  | .off => false

/-- `RunDoneDeactivate` (state := Inactive; `runDone.Done()`): a negative counter is a Go panic -/
def deactivate (s : St) : St :=
  if s.wg = 0 then { s with crashed := true }
  else { s with st := .inactive, wg := s.wg - 1, runOver := true,
                -- the run's done channel is closed: every Stop caller that was stopping THIS run may go on
                kReady := s.kReady + s.kWait, kWait := 0 }

def step (s : St) (e : Ev) : Option St :=
  if s.crashed then none else
  match e with
  -- ---------------------------------------------------------------- Start (data_source.go Start)
  | .callStart => some { s with sEnter := s.sEnter + 1, stopsDone := 0 }
  | .startOk =>
    if s.sEnter > 0 ∧ s.st = .inactive ∧ s.kDecided = 0 then
      some { s with sEnter := s.sEnter - 1, sp := .starting, st := .starting } else none
  | .startRejected =>
    if s.sEnter > 0 ∧ s.st ≠ .inactive ∧ s.kDecided = 0 then some { s with sEnter := s.sEnter - 1 } else none
  | .sampled =>
    if s.sp = .starting then some { s with sp := .sampled, res := s.res || s.opens } else none
  | .sampleFailed =>
    -- a failing `Sample` releases what it opened (abaco.go: deferred closeDevices)
    if s.sp = .starting then some { s with sp := .failing, res := false } else none
  | .chans => if s.sp = .sampled then some { s with sp := .chans } else none
  -- `PrepareChannels` / `PrepareRun` of the sources that open resources in `Sample` cannot fail once
  -- `Sample` succeeded (PrepareRun only rejects nchan ≤ 0, which their `Sample` now rejects itself)
  | .chansFailed => if s.sp = .sampled ∧ s.opens = false then some { s with sp := .failing } else none
  | .prepared f =>
    if s.sp = .chans then
      some { s with sp := .prepared, abortClosed := false, nbClosed := false, fuel := f } else none
  | .prepareFailed => if s.sp = .chans ∧ s.opens = false then some { s with sp := .failing } else none
  | .setInactive =>
    if s.sp = .failing ∧ s.kDecided = 0 then some { s with sp := .idle, st := .inactive } else none
  | .activate =>
    -- `RunDoneActivate`, then `StartRun` begins: the producer goroutine may act from here on
    if s.sp = .prepared ∧ s.kDecided = 0 then
      some { s with sp := .activated, st := .active, wg := s.wg + 1, pp := .run, runOver := false } else none
  | .runStarted =>
    if s.sp = .activated then some { s with sp := .idle, lp := .spawned } else none
  | .startRunFailed => if s.sp = .activated ∧ s.opens = false then some { s with sp := .runFailing, pp := .off } else none
  | .starterDeactivate =>
    if s.sp = .runFailing ∧ s.kDecided = 0 then some { deactivate s with sp := .idle } else none
  -- ---------------------------------------------------------------- CoreLoop
  -- the first `getNextBlock()`: a hardware-style source launches an acquisition step
  | .loopStart => if s.lp = .spawned then some { s with lp := .select, asm := s.asm + (if s.opens then 1 else 0) } else none
  | .gotBlock =>
    if s.lp = .select ∧ s.pp = .send then some { s with lp := .block, pp := .run, asm := s.asm - 1 } else none
  -- `getNextBlock()` again after the block: the next acquisition step
  | .processed => if s.lp = .block then some { s with lp := .select, asm := s.asm + (if s.opens then 1 else 0) } else none
  | .processFailed => if s.lp = .block then some { s with crashed := true } else none
  | .gotRequest n w =>
    if s.lp = .select ∧ s.rSend > 0 then
      some { s with lp := .req n, rSend := s.rSend - 1, rWait := s.rWait + 1,
                    writing := applyW w s.writing } else none
  | .reply =>
    match s.lp with
    | .req (n + 1) => if s.rWait > 0 then some { s with lp := .req n, rWait := s.rWait - 1 } else none
    | _ => none
  | .requestDone => if s.lp = .req 0 then some { s with lp := .select } else none
  | .gotClosed => if s.lp = .select ∧ s.nbClosed then some { s with lp := .exiting } else none
  | .gotError =>
    if s.lp = .select ∧ s.pp = .sendErr then some { s with lp := .exiting, pp := .done, res := false, asm := 0 } else none
  | .loopDeactivate =>
    -- the loop's deferred functions: stop writing if active, then `RunDoneDeactivate`
    if s.lp = .exiting ∧ s.kDecided = 0 then some { deactivate s with lp := .off, writing := false } else none
  -- ---------------------------------------------------------------- AnySource.Stop
  | .callStop => some { s with kEnter := s.kEnter + 1 }
  | .stopNotActive =>
    if s.kEnter > 0 ∧ s.st = .inactive ∧ s.kDecided = 0 then
      some { s with kEnter := s.kEnter - 1, stopsDone := s.stopsDone + 1 } else none
  | .stopOnStarting =>
    if s.kEnter > 0 ∧ s.st = .starting ∧ s.kDecided = 0 then some { s with crashed := true } else none
  | .stopAlready =>
    if s.kEnter > 0 ∧ s.st = .stopping ∧ s.kDecided = 0 then
      some { s with kEnter := s.kEnter - 1, stopsDone := s.stopsDone + 1 } else none
  -- Stop's lock section on the Active path is two program points: the decision (lock taken, state read Active)
  -- and the write.  Between them the caller HOLDS the lock: every other lock section is disabled (`kDecided = 0`
  -- in their guards), so the state cannot change under the decision.
  | .stopDecide =>
    if s.kEnter > 0 ∧ s.st = .active ∧ s.kDecided = 0 then
      some { s with kEnter := s.kEnter - 1, kDecided := s.kDecided + 1 } else none
  | .stopSwitched =>
    if s.kDecided > 0 then
      some { s with kDecided := s.kDecided - 1, kWait := s.kWait + 1, st := .stopping, abortClosed := true }
    else none
  | .stopWaited =>
    -- the receive on the done channel of the run this caller stopped (whatever has been started since)
    if s.kReady > 0 then some { s with kReady := s.kReady - 1, kClean := s.kClean + 1 } else none
  | .stopCleaned =>
    if s.kClean > 0 then
      some { s with kClean := s.kClean - 1, writing := false, stopsDone := s.stopsDone + 1 } else none
  -- ---------------------------------------------------------------- producer
  | .tick =>
    if s.pp = .run ∧ (s.abortClosed = true → s.fuel > 0) then
      some { s with pp := .tick, fuel := if s.abortClosed then s.fuel - 1 else s.fuel } else none
  | .send => if s.pp = .tick then some { s with pp := .send } else none
  | .sendError => if s.pp = .run then some { s with pp := .sendErr } else none
  | .abortSeen =>
    -- for a hardware-style source it is the pending acquisition step that closes `nextBlock`
    if s.pp = .run ∧ s.abortClosed ∧ (s.opens = true → s.asm > 0) then
      (if s.nbClosed then some { s with crashed := true }     -- close of a closed channel
       else some { s with pp := .done, nbClosed := true, res := false, asm := s.asm - 1 })
    else none
  -- the producer of a hardware-style source ends the run BY ITSELF (its reader saw no data for its time-out): the
  -- pending acquisition step shuts the devices and closes `nextBlock`, although nobody closed `abortSelf`
  | .selfClose =>
    if s.pp = .run ∧ s.opens = true ∧ s.asm > 0 then
      (if s.nbClosed then some { s with crashed := true }
       else some { s with pp := .done, nbClosed := true, res := false, asm := s.asm - 1 })
    else none
  -- ---------------------------------------------------------------- runLaterIfActive
  | .callRpc => some { s with rEnter := s.rEnter + 1 }
  | .rpcNotActive => if s.rEnter > 0 ∧ s.flag = false then some { s with rEnter := s.rEnter - 1 } else none
  | .rpcPass =>
    if s.rEnter > 0 ∧ s.flag = true then some { s with rEnter := s.rEnter - 1, rSend := s.rSend + 1 } else none
  | .rpcSourceGone =>
    -- the hand-off selects on the run-done channel as well
    if s.rSend > 0 ∧ s.runOver then some { s with rSend := s.rSend - 1 } else none
  -- `SourceControl.Start` sets the flag after `Start` returned nil: some run has been started
  | .flagOn => if s.lp ≠ .off ∨ s.runOver then some { s with flag := true } else none
  | .flagOff => some { s with flag := false }
  -- `SourceControl.Start` / `SourceControl.Stop` turned away by the RPC layer's flag (no effect on the source)
  | .scStartRefused => if s.flag = true then some s else none
  | .scStopNotActive => if s.flag = false then some s else none
  -- `handlePossibleStoppedSource` reads `Running()` (a lock section)
  | .flagRefresh => if s.kDecided = 0 then some { s with flag := s.flag && (s.st = .active) } else none

def run (s : St) : List Ev → Option St
  | [] => some s
  | e :: es => match step s e with
    | some s' => run s' es
    | none => none

/-- Environment discipline E: a Start call is issued only when no Stop call is in flight and a Stop
call only when no Start call is in flight (Stops may overlap each other, self-termination and requests);
block processing does not hit an I/O failure. -/
def envOK (s : St) : Ev → Bool
  | .callStart => s.kEnter + s.kDecided + s.kWait + s.kReady + s.kClean = 0
  | .callStop => s.sEnter = 0 && s.sp = .idle
  | .processFailed => false      -- no I/O failure inside block processing (C11 treats it)
  | _ => true

/-- every request closure handed to the loop sends exactly one reply (discharged by `chkTable`) -/
def Ev.wf : Ev → Bool
  | .gotRequest n _ => n = 1
  | _ => true

def runE (s : St) : List Ev → Option St
  | [] => some s
  | e :: es => if envOK s e && e.wf then
      match step s e with
      | some s' => runE s' es
      | none => none
    else none

def runW (s : St) : List Ev → Option St
  | [] => some s
  | e :: es => if e.wf then
      match step s e with
      | some s' => runW s' es
      | none => none
    else none

def stoppers (s : St) : Nat := s.kEnter + s.kDecided + s.kWait + s.kReady + s.kClean
def callers (s : St) : Nat := s.rEnter + s.rSend + s.rWait
def starters (s : St) : Nat := s.sEnter + (if s.sp = .idle then 0 else 1)

/-! ### Trace tokens → events (driver side) -/

/-- sites that are pure gates / duplicates and carry no model transition -/
def droppedSites : List String :=
  ["start.beforeSample", "start.activated", "loop.select", "stop.beforeWait", "rpc.sent", "sc.start.enter", "sc.stop.enter"]

/-- first letter of a role token (`S1` → `S`) -/
def roleLetter (r : String) : String := (r.take 1).toString

/-- role letter (first char of the role token) and site → event; `none` = unknown token -/
def evOf (role : String) (site : String) (fuel : Nat) (nrep : Nat) (w : WEff) : Option Ev :=
  let r := roleLetter role
  match site with
  | "start.enter" => some .callStart
  | "state.starting" => some .startOk
  | "state.startRejected" => some .startRejected
  | "start.sampled" => some .sampled
  | "start.sampleFailed" => some .sampleFailed
  | "start.channelsPrepared" => some .chans
  | "start.channelsFailed" => some .chansFailed
  | "start.runPrepared" => some (.prepared fuel)
  | "start.prepareFailed" => some .prepareFailed
  | "state.inactive" => some .setInactive
  | "run.activate" => some .activate
  | "start.runStarted" => some .runStarted
  | "start.startRunFailed" => some .startRunFailed
  | "run.deactivate" => if r == "S" then some .starterDeactivate else if r == "L" then some .loopDeactivate else none
  | "loop.start" => some .loopStart
  | "loop.gotBlock" => some .gotBlock
  | "loop.processed" => some .processed
  | "loop.processFailed" => some .processFailed
  | "loop.gotRequest" => some (.gotRequest nrep w)
  | "loop.requestDone" => some .requestDone
  | "loop.gotClosed" => some .gotClosed
  | "loop.gotError" => some .gotError
  | "stop.enter" => some .callStop
  | "stop.notActive" => some .stopNotActive
  | "stop.onStarting" => some .stopOnStarting
  | "stop.alreadyStopping" => some .stopAlready
  | "stop.onActive" => some .stopDecide
  | "stop.switched" => some .stopSwitched
  | "stop.waited" => some .stopWaited
  | "stop.cleaned" => some .stopCleaned
  | "prod.tick" => some .tick
  | "prod.send" => some .send
  | "prod.sendError" => some .sendError
  | "prod.abortSeen" => some .abortSeen
  | "prod.selfClose" => some .selfClose
  | "rpc.enter" => some .callRpc
  | "rpc.notActive" => some .rpcNotActive
  | "rpc.beforeSend" => some .rpcPass
  | "rpc.sourceGone" => some .rpcSourceGone
  | "sc.flagOn" => some .flagOn
  | "sc.refreshed" => some .flagRefresh
  | "sc.start.failed" => some .flagOff
  | "sc.start.refused" => some .scStartRefused
  | "sc.stop.notActive" => some .scStopNotActive
  | "flag.on" => some .flagOn
  | "flag.off" => some .flagOff
  | "flag.refresh" => some .flagRefresh
  | _ => none

/-- one trace token `role:site` -/
structure Tok where
  role : String
  site : String
deriving Repr, DecidableEq

def parseTok (t : String) : Option Tok :=
  match t.splitOn ":" with
  | [r, s] => some { role := r, site := s }
  | _ => none

/-- the writing effect of the closure that starts at a `loop.gotRequest` token: the first
`note.writingOn` / `note.writingOff` of the loop before the matching `loop.requestDone` -/
def closureW : List Tok → WEff
  | [] => .keep
  | t :: ts =>
    if t.site == "loop.requestDone" then .keep
    else if t.site == "note.writingOn" then .on
    else if t.site == "note.writingOff" then .off
    else closureW ts

def isEffSite (s : String) : Bool := s.startsWith "eff."
def isNoteSite (s : String) : Bool := s.startsWith "note."

/-- where an `eff.*` call (a method that reads or changes processing state) may legally happen:
in the core-loop goroutine while it runs a request closure (or `ProcessSegments` while it processes
a block), or in a Stop caller after its wait, when no core loop exists. -/
def effAllowed (s : St) (t : Tok) : Bool :=
  let r := roleLetter t.role
  if r == "L" then
    if t.site == "eff.ProcessSegments" then s.lp == .block
    else match s.lp with
      | .req _ => true
      | .exiting => t.site == "eff.WriteControl"      -- the loop's deferred stop of writing
      | _ => false
  else if r == "K" then s.kClean > 0 && s.lp == .off
  else false

/-- The acquisition step of a hardware-style source is logged as `asm.send` (about to hand its block over) and
`asm.close` (about to close `nextBlock`); for the model these are the producer's `tick`+`send` and its
shut-down. -/
def expandAsm : List Tok → List Tok
  | [] => []
  | t :: ts =>
    if t.site == "asm.send" then
      { role := "P", site := "prod.tick" } :: { role := "P", site := "prod.send" } :: expandAsm ts
    else if t.site == "asm.close" then { role := "P", site := "prod.asmClose" } :: expandAsm ts
    else t :: expandAsm ts

/-- implementation only: acquisition steps launched and not yet finished (delivered, closed or errored) never exceed one -/
def chkAsmOverlap : List Tok → Nat → Option String
  | [], _ => none
  | t :: ts, n =>
    if t.site == "asm.spawn" then
      if n ≥ 1 then some "C10:acquisition-steps-overlap getNextBlock launched an acquisition step while the previous one was still pending (each pending one closes nextBlock when the run ends)"
      else chkAsmOverlap ts (n + 1)
    else if t.site == "loop.gotBlock" || t.site == "prod.asmClose" || t.site == "loop.gotError" then chkAsmOverlap ts (n - 1)
    else chkAsmOverlap ts n

/-- first core-loop token of a trace suffix is `loop.gotBlock`: remove it -/
def pullGotBlock : List Tok → Option (List Tok)
  | [] => none
  | t :: ts =>
    if roleLetter t.role == "L" then (if t.site == "loop.gotBlock" then some ts else none)
    else (pullGotBlock ts).map (t :: ·)

/-- The hand-off of a block is a rendezvous that only the receiver logs (`loop.gotBlock`, after the
receive); the sender's next arrivals (`prod.tick`, …) can be logged before it.  Such a producer token
between `prod.send` and the loop's `loop.gotBlock` happened after the rendezvous, so the
`loop.gotBlock` entry is moved in front of it (the two log entries are causally unordered). -/
def normalize : Nat → Bool → List Tok → List Tok
  | 0, _, ts => ts
  | _, _, [] => []
  | k + 1, pending, t :: ts =>
    let isP := roleLetter t.role == "P"
    if t.site == "prod.send" then t :: normalize k true ts
    else if t.site == "loop.gotBlock" then t :: normalize k false ts
    else if isP && pending then
      match pullGotBlock ts with
      | some ts' => { role := "L", site := "loop.gotBlock" } :: t :: normalize k false ts'
      | none => t :: normalize k pending ts
    else t :: normalize k pending ts

inductive TraceRes where
  | ok (s : St) (n : Nat) (bad : Bool)          -- accepted; final state; number of model events; a Stop waited on a run nobody stopped
  | rejected (i : Nat) (tok : String) (s : St)  -- the model has no such step in the state reached
  | unknown (i : Nat) (tok : String)
  | effOutside (i : Nat) (tok : String)         -- an effect outside the places where it is serialised
  | obsMismatch (i : Nat) (tok : String) (s : St)

def stCode : SrcState → Nat
  | .inactive => 0 | .starting => 1 | .active => 2 | .stopping => 3

/-- a Stop caller is waiting on a run that is Active (nobody asked to stop it): it waits on the wrong run -/
def badWait (s : St) : Bool := s.kWait > 0 && s.st == .active

/-- run the model along an implementation trace.  Every `gotRequest` is taken with one reply, and the
reply itself (no log point of its own) is inserted before the `loop.requestDone` that follows. -/
def runTrace (fuel : Nat) : St → List Tok → Nat → Nat → Bool → TraceRes
  | s, [], _, n, bad => .ok s n bad
  | s, t :: ts, i, n, bad =>
    let name := t.role ++ ":" ++ t.site
    if t.site.startsWith "obs.end." || t.site.startsWith "obs.multi." || t.site.startsWith "obs.cfg" || t.site.startsWith "obs.nosender." || t.site.startsWith "obs.again" then
      runTrace fuel s ts (i + 1) n bad      -- judged on the implementation alone (`chkRunEnd`)
    else if t.site.startsWith "obs.udpbad." then
      -- the Stop has returned and the run is over in the model too (a dropped datagram is no event of the life cycle)
      if s.st == .inactive && s.lp == .off && stoppers s == 0 then runTrace fuel s ts (i + 1) n bad else .obsMismatch i name s
    else if t.site.startsWith "obs.selfw." then
      -- the model agrees: nothing is being written (`writing` needs a live loop that set it)
      if s.writing == false then runTrace fuel s ts (i + 1) n bad else .obsMismatch i name s
    else if t.site.startsWith "obs.selfend." then
      -- the source ended by itself: Inactive, loop gone, devices released in the model too
      if s.st == .inactive && s.lp == .off && !s.res then runTrace fuel s ts (i + 1) n bad else .obsMismatch i name s
    else if t.site.startsWith "obs.reuse." then
      -- the released Stop caller has returned; the new run is active in the model too
      if s.kWait == 0 && s.kReady == 0 && (t.site.drop 10).toString == "0." ++ toString (stCode s.st) then
        runTrace fuel s ts (i + 1) n bad
      else .obsMismatch i name s
    else if t.site.startsWith "obs.hold." then
      -- during the hold: a Stop caller is waiting and the loop is alive in the model too
      if s.kWait > 0 && s.lp != .off then runTrace fuel s ts (i + 1) n bad else .obsMismatch i name s
    else if t.site == "asm.spawn" then
      -- the spawn is part of `loop.start` / `loop.processed` in the model: exactly one step is pending now
      if s.asm == 1 then runTrace fuel s ts (i + 1) n bad else .obsMismatch i name s
    else if t.site.startsWith "obs.failed." then
      -- after a failed Start the harness observed the real object: state, wait-group busy?, run-done channel
      -- (0 nil, 1 open, 2 closed): the counter ↔ state invariant judged on the implementation
      match (t.site.drop 11).toString.splitOn "." with
      | [a, b, c] =>
        if a == toString (stCode s.st) && b == toString s.wg && ((c == "2") == s.runOver) then
          runTrace fuel s ts (i + 1) n bad
        else .obsMismatch i name s
      | _ => .unknown i name
    else if t.site.startsWith "obs.st" then
      -- the harness read GetState() at a quiescent moment
      if (t.site.drop 6).toString == toString (stCode s.st) then runTrace fuel s ts (i + 1) n bad
      else .obsMismatch i name s
    else if droppedSites.contains t.site || isNoteSite t.site then runTrace fuel s ts (i + 1) n bad
    else if isEffSite t.site then
      if effAllowed s t then runTrace fuel s ts (i + 1) n bad else .effOutside i name
    else
      -- the close by an acquisition step is the abort path when `abortSelf` is closed, else the source's own end
      let site := if t.site == "prod.asmClose" then (if s.abortClosed then "prod.abortSeen" else "prod.selfClose") else t.site
      match evOf t.role site fuel 1 (closureW ts) with
      | none => .unknown i name
      | some e =>
        -- the closure's reply has no site of its own: it precedes `loop.requestDone`
        let s1 := if e = .requestDone then (match step s .reply with | some s' => s' | none => s) else s
        match step s1 e with
        | some s' => runTrace fuel s' ts (i + 1) (n + 1) (bad || badWait s')
        | none => .rejected i name s

/-! ### Line parser, oracle and `runLine` -/

structure Fin where
  st : Nat
  go : Nat
  wr : Nat
  res : Nat
  hang : Nat
deriving Repr

inductive Out where
  | panic (cls : String)
  | hang
  | run (toks : List Tok) (calls : List (String × Nat)) (fin : Fin)

structure Line where
  kind : String
  opens : Bool
  sched : String
  out : Out

def skipToOut : P Unit := fun ts =>
  match ts.dropWhile (· != "OUT") with
  | _ :: r => .ok ((), r)
  | [] => .error "no OUT section"

open P in
def parseOut : P Out := do
  let t ← tok
  match t with
  | "PANIC" => do let c ← tok; pure (.panic c)
  | "HANG" => pure .hang
  | "TR" => do
    let ts ← list tok
    let toks ← ts.mapM fun x => match parseTok x with
      | some k => pure k
      | none => fail s!"bad trace token {x}"
    kw "CALLS"
    let calls ← list (do let r ← tok; let v ← nat; pure (r, v))
    kw "FIN"
    kw "st"; let st ← nat
    kw "go"; let go ← nat
    kw "wr"; let wr ← nat
    kw "res"; let res ← nat
    kw "hang"; let hang ← nat
    pure (.run toks calls { st, go, wr, res, hang })
  | _ => fail s!"bad OUT marker {t}"

open P in
def parseLine : P Line := do
  kw "src"; let kind ← tok
  kw "opens"; let opens ← bool
  kw "sched"; let sched ← tok
  skipToOut
  let out ← parseOut
  pure { kind, opens, sched, out }

def sitesOf (role : String) (toks : List Tok) : List String :=
  (toks.filter fun t => t.role == role).map (·.site)

/-- what the log of one call says its return value is: 0 nil, 1 error, 2 not returned / unknown -/
def expectedRet (role : String) (toks : List Tok) : Option Nat :=
  let ss := sitesOf role toks
  let r := roleLetter role
  if ss.contains "sc.start.enter" then      -- SourceControl.Start
    if ss.contains "sc.start.refused" then some 1
    else if ss.contains "start.runStarted" then some 0
    else if ss.contains "sc.start.failed" then some 1
    else some 2
  else if ss.contains "sc.stop.enter" then  -- SourceControl.Stop: the error of the source's Stop is ignored
    if ss.contains "sc.stop.notActive" then some 1
    else if ss.contains "stop.notActive" || ss.contains "stop.alreadyStopping" || ss.contains "stop.cleaned" then some 0
    else some 2
  else if r == "S" then
    if ss.contains "start.runStarted" then some 0
    else if ss.contains "state.startRejected" || ss.contains "state.inactive" || ss.contains "run.deactivate" then some 1
    else some 2
  else if r == "K" then
    if ss.contains "stop.notActive" then some 1
    else if ss.contains "stop.alreadyStopping" || ss.contains "stop.cleaned" then some 0
    else some 2
  else none

def aliveL (s : St) : Nat := if s.lp = .off then 0 else 1
def aliveP (s : St) : Nat := if s.pp = .off ∨ s.pp = .done then 0 else 1

def countSite (toks : List Tok) (site : String) : Nat := (toks.filter fun t => t.site == site).length

/-- The property oracle, evaluated on what the IMPLEMENTATION did (calls, final observations) with the
model state reached along the implementation's own trace as the bookkeeping of "which calls are over". -/
def chkC10 (ln : Line) (_toks : List Tok) (calls : List (String × Nat)) (fin : Fin) (s : St) (bad : Bool) : Option String :=
  if fin.hang != 0 || calls.any (fun c => c.2 == 2) then
    some "C10:hang a Start/Stop call did not return (watchdog)"
  else if bad then
    some "C10:stop-waits-on-next-run a Stop call parked before RunDoneWait waited on a run started after it (wait group reused)"
  else if ln.kind != "udp" && calls.any (fun c => roleLetter c.1 == "S" && c.2 != 0 &&
      !(sitesOf c.1 _toks).contains "start.startRunFailed" && !(sitesOf c.1 _toks).contains "sc.start.refused" &&
      -- a source that samples a live data stream legitimately fails to start when nobody sends (judged by `chkRunEnd`)
      !(ln.kind == "roach" && (sitesOf c.1 _toks).contains "start.sampleFailed")) then
    some "C10:restart-failed a Start call on an inactive source was refused or failed"
  else if calls.any (fun c => roleLetter c.1 == "S" && c.2 == 1) && fin.res != 0 then
    some "C10:failed-start-keeps-resources a failed Start left the sockets / reader goroutines of Sample open; the next Start fails to bind"
  else if s.stopsDone > 0 && stoppers s = 0 && starters s = 0 then
    if fin.st != 0 then some "C10:not-inactive-after-stops all Stop calls returned but the source is not Inactive"
    else if fin.go != 0 && !s.res then some "C10:goroutines-left worker goroutines alive after all Stop calls returned"
    else if fin.wr != 0 then some "C10:writing-left-active writing still active after all Stop calls returned"
    else if fin.res != 0 then some "C10:resources-left resources held after all Stop calls returned"
    else none
  else none

/-- Oracle on the observations taken after failed Start calls (implementation only, no model): the source
must be Inactive with its completion barrier released — wait-group counter 0, and when the Start had already
run `RunDoneActivate` (it failed in `StartRun`) the run-done channel closed. -/
def chkFailedObs : List Tok → Bool → Option String
  | [], _ => none
  | t :: ts, afterAct =>
    if t.site == "start.startRunFailed" then chkFailedObs ts true
    else if t.site == "start.sampleFailed" || t.site == "start.channelsFailed" || t.site == "start.prepareFailed"
        || t.site == "state.startRejected" then chkFailedObs ts false
    else if t.site.startsWith "obs.failed." then
      match (t.site.drop 11).toString.splitOn "." with
      | [a, b, c] =>
        if a != "0" then some s!"C10:failed-start-not-inactive after a failed Start the source state is {a}, not Inactive"
        else if b != "0" then some "C10:failed-start-leaves-run-open after a failed Start the runDone wait group is still counted up (state Inactive, counter not 0): the Stop of the next run will wait for ever"
        else if afterAct && c != "2" then some "C10:failed-start-leaves-run-open after a Start that failed in StartRun the run-done channel is not closed (activation not undone)"
        else chkFailedObs ts afterAct
      | _ => chkFailedObs ts afterAct
    else chkFailedObs ts afterAct

/-- is the last call that was issued (by trace order of `start.enter` / `stop.enter`) a Stop call? -/
def lastIssuedIsStop : List Tok → Bool → Bool
  | [], b => b
  | t :: ts, b =>
    if t.site == "stop.enter" then lastIssuedIsStop ts true
    else if t.site == "start.enter" then lastIssuedIsStop ts false
    else lastIssuedIsStop ts b

/-- RPC layer, implementation only: a `SourceControl.Start` issued when every `SourceControl.Stop` issued so far has
returned, at least one of them since the last accepted Start, must not be refused with "already have active
source".  (`note.ret*` is logged by a call's own goroutine when it returns.) -/
def chkRpcRestart : List Tok → Nat → Bool → Option String
  | [], _, _ => none
  | t :: ts, inflight, stopRet =>
    if t.site == "sc.stop.enter" then chkRpcRestart ts (inflight + 1) stopRet
    else if roleLetter t.role == "K" && t.site.startsWith "note.ret" then chkRpcRestart ts (inflight - 1) true
    else if t.site == "sc.flagOn" then chkRpcRestart ts inflight false
    else if t.site == "sc.start.refused" then
      if stopRet && inflight == 0 then
        some "C10:restart-refused-after-stops every Stop request has returned but the RPC layer still believes a source is active: Start is refused (isSourceActive not refreshed)"
      else chkRpcRestart ts inflight stopRet
    else chkRpcRestart ts inflight stopRet

/-- Sources whose producer has no hook sites of its own (ROACH): what the core loop receives tells what the producer
did — a block was ticked and sent, an error block was sent, `nextBlock` was closed after the abort. -/
def inferProducer : List Tok → List Tok
  | [] => []
  | t :: ts =>
    if t.site == "loop.gotBlock" then
      { role := "P", site := "prod.tick" } :: { role := "P", site := "prod.send" } :: t :: inferProducer ts
    else if t.site == "loop.gotError" then { role := "P", site := "prod.sendError" } :: t :: inferProducer ts
    else if t.site == "loop.gotClosed" then { role := "P", site := "prod.abortSeen" } :: t :: inferProducer ts
    else t :: inferProducer ts

/-- implementation only, ROACH / RPC-configured sources.  `obs.end.<tag>.<state>.<goroutines>.<port free>`: when a run
is over (stopped, or ended by itself) the source is Inactive, its goroutines are gone and its UDP port can be bound
again.  `obs.nosender.<ret>.<state>`: a Start nobody sends data to fails and leaves the source Inactive.
`obs.cfgBusy.<ret>` / `obs.cfgLen.<ret>`: such a Configure is refused.  `obs.again.failed`: the final configure + run. -/
def chkRunEnd : List Tok → Option String
  | [] => none
  | t :: ts =>
    let parts := t.site.splitOn "."
    match parts with
    | ["obs", "end", tag, st, go, free] =>
      if st != "0" || go != "0" || free != "1" then
        some s!"C10:run-end-leaves-resources after the run ended ({tag}): GetState()={st}, life-cycle goroutines left={go}, UDP port free again={free}"
      else chkRunEnd ts
    | ["obs", "nosender", r, st] =>
      if r != "1" || st != "0" then some s!"C10:start-without-data-not-clean Start with nobody sending returned {r} (want an error), state {st} (want Inactive)"
      else chkRunEnd ts
    | ["obs", "cfgBusy", r] => if r != "1" then some "C10:configure-accepts-busy-port Configure on a port that is already bound was accepted" else chkRunEnd ts
    | ["obs", "cfgLen", r] => if r != "1" then some "C10:configure-accepts-mismatched-lists Configure with Rates and HostPort of different lengths was accepted" else chkRunEnd ts
    | ["obs", "multi", nch, flowing] =>
      if nch != "5" then some s!"C10:roach-multi-device-run a ROACH source of 2 + 3 channels reports {nch} channels"
      else if flowing != "1" then some "C10:roach-multi-device-run a started ROACH source of two devices delivers no blocks"
      else chkRunEnd ts
    | ["obs", "again", "failed"] => some "C10:restart-failed the source could not be configured and run again on the same object"
    | _ => chkRunEnd ts

/-- implementation only: after one undecodable datagram the run must go on (blocks processed from the valid stream)
and the following Stop must return.  Token `obs.udpbad.<progress>.<stop returned>.<state>`. -/
def chkUdpBad : List Tok → Option String
  | [] => none
  | t :: ts =>
    if t.site.startsWith "obs.udpbad." then
      match (t.site.drop 11).toString.splitOn "." with
      | [p, k, st] =>
        if p != "1" || k != "1" then
          some s!"C10:udp-bad-datagram-wedges-source after one undecodable UDP datagram: blocks still processed={p}, Stop returned within 3 s={k}, GetState()={st}"
        else chkUdpBad ts
      | _ => chkUdpBad ts
    else chkUdpBad ts

/-- implementation only: after the run is over (observed Inactive) something of its writing is left: the writing
state still Active, or a file writer still installed on some channel.  Token `obs.selfw.<state>.<active>.<writers>`. -/
def chkSelfW : List Tok → Option String
  | [] => none
  | t :: ts =>
    if t.site.startsWith "obs.selfw." then
      match (t.site.drop 10).toString.splitOn "." with
      | [st, a, w] =>
        if st == "0" && (a != "0" || w != "0") then
          some s!"C10:self-end-left-writing-active the run is over (source Inactive) but its writing is not: writing state active={a}, channels with a file writer installed={w}"
        else chkSelfW ts
      | _ => chkSelfW ts
    else chkSelfW ts

/-- implementation only: a running hardware-style source whose data stream stopped did not end by itself -/
def chkSelfEnd : List Tok → Option String
  | [] => none
  | t :: ts =>
    if t.site.startsWith "obs.selfend." then
      match (t.site.drop 12).toString.splitOn "." with
      | e :: st :: _ =>
        if e != "1" then some s!"C10:abaco-no-clean-self-end the packet stream stopped but the source did not end by itself within 7.5 s (GetState() = {st}): reader time-out / shut-down path broken"
        else chkSelfEnd ts
      | _ => chkSelfEnd ts
    else chkSelfEnd ts

/-- implementation only: a Stop caller released after ITS run ended (a new run being active) did not return -/
def chkReuse : List Tok → Option String
  | [] => none
  | t :: ts =>
    if t.site.startsWith "obs.reuse." then
      match (t.site.drop 10).toString.splitOn "." with
      | [b, st] =>
        if b != "0" then some s!"C10:stop-waits-on-next-run a Stop call parked before its wait while its run ended and a new Start succeeded stayed blocked on the NEW run (GetState() = {st})"
        else chkReuse ts
      | _ => chkReuse ts
    else chkReuse ts

/-- implementation only: while the core loop was held at a gate (the run alive) the pending Stop call returned -/
def chkHold : List Tok → Option String
  | [] => none
  | t :: ts =>
    if t.site.startsWith "obs.hold." then
      match (t.site.drop 9).toString.splitOn "." with
      | [r, st] =>
        if r != "0" then some s!"C10:stop-returned-while-running a Stop call returned while the core loop was still alive (held at a gate, GetState() = {st}): the source is not inactive, its goroutines have not exited"
        else chkHold ts
      | _ => chkHold ts
    else chkHold ts

/-- Oracle clauses that need nothing but the implementation's output: every call returned, the last call issued
was a Stop ⇒ the source reports Inactive; a Start issued in these schedules (always on a source whose Stops have
returned) is never refused by `SetStateStarting`. -/
def chkImplOnly (ln : Line) (toks : List Tok) (calls : List (String × Nat)) (fin : Fin) : Option String :=
  if (chkRunEnd toks).isSome then chkRunEnd toks
  else if (chkUdpBad toks).isSome then chkUdpBad toks
  else if (chkSelfW toks).isSome then chkSelfW toks
  else if (chkSelfEnd toks).isSome then chkSelfEnd toks
  else if (chkReuse toks).isSome then chkReuse toks
  else if (chkHold toks).isSome then chkHold toks
  else if fin.hang != 0 || calls.any (fun c => c.2 == 2) then
    some "C10:hang a Start/Stop call did not return (watchdog)"
  else if (chkAsmOverlap toks 0).isSome then chkAsmOverlap toks 0
  else if (chkRpcRestart toks 0 false).isSome then chkRpcRestart toks 0 false
  else if lastIssuedIsStop toks false && fin.st != 0 then
    some s!"C10:not-inactive-after-stops all Stop calls returned (no Start issued since) but GetState() is {fin.st}, not Inactive"
  else if ln.sched != "stopAt" && ln.kind != "udp" && countSite toks "state.startRejected" > 0 then
    some "C10:restart-failed a Start call on a source whose Stop calls had all returned was refused (state not Inactive)"
  else none

/-- judge one executed schedule: property oracle on the implementation's own observations first, then trace
conformance, outcomes against the model, property oracle with the model's bookkeeping -/
def judgeRun (ln : Line) (toks0 : List Tok) (calls : List (String × Nat)) (fin : Fin) : Verdict :=
  let toks1 := expandAsm (if ln.kind == "roach" then inferProducer toks0 else toks0)
  let toks := normalize toks1.length false toks1
  match chkFailedObs toks false with
  | some v => .viol v
  | none =>
  match chkImplOnly ln toks calls fin with
  | some v => .viol v
  | none =>
  match runTrace toks.length (init ln.opens) toks 0 0 false with
  | .rejected i tok s => .diff s!"trace-rejected at {i} {tok}: the model has no such step (st {stCode s.st} wg {s.wg} kWait {s.kWait})"
  | .unknown i tok => .diff s!"trace-unknown-token at {i} {tok}"
  | .obsMismatch i tok s => .diff s!"state-observed at {i} {tok} but model state is {stCode s.st}"
  | .effOutside i tok => .viol s!"C10:cleanup-overlaps-run at {i} {tok}: processing state touched outside the core loop while a run is alive"
  | .ok s n bad =>
    -- outcomes: every call's return value against its own log, final observations against the model
    match calls.find? (fun c => match expectedRet c.1 toks with | some v => v != c.2 | none => false) with
    | some c => .diff s!"call-result {c.1} returned {c.2} but its trace says {(expectedRet c.1 toks).getD 9}"
    | none =>
      match chkC10 ln toks calls fin s bad with
      | some v => .viol v
      | none =>
        if fin.st != stCode s.st then .diff s!"final-state impl {fin.st} model {stCode s.st}"
        else if fin.wr != (if s.writing then 1 else 0) then .diff s!"final-writing impl {fin.wr} model {s.writing}"
        else if fin.res != (if s.res then 1 else 0) then .diff s!"final-resources impl {fin.res} model {s.res}"
        else if !s.res && fin.go != aliveL s + aliveP s then .diff s!"final-goroutines impl {fin.go} model {aliveL s + aliveP s}"
        else
          let nK := (calls.filter fun c => roleLetter c.1 == "K").length
          let nR := (calls.filter fun c => roleLetter c.1 == "R").length
          let tags := [ln.kind, ln.sched] ++
            (if nK ≥ 2 then ["multiStop"] else []) ++
            (if nR ≥ 2 then ["multiCaller"] else []) ++
            (if countSite toks "loop.gotError" > 0 then ["selfEnd"] else []) ++
            (if countSite toks "start.runStarted" ≥ 2 then ["restart"] else []) ++
            (if countSite toks "stop.alreadyStopping" > 0 then ["stopWhileStopping"] else []) ++
            (if countSite toks "stop.notActive" > 0 then ["stopWhenInactive"] else []) ++
            (if countSite toks "note.writingOn" > 0 then ["writing"] else []) ++
            (if countSite toks "rpc.sourceGone" > 0 then ["requestAfterEnd"] else []) ++
            (if countSite toks "rpc.notActive" > 0 then ["requestNotActive"] else []) ++
            (if countSite toks "loop.gotRequest" > 0 then ["request"] else []) ++
            (if countSite toks "start.startRunFailed" > 0 then ["startRunFailed"] else []) ++
            (if ln.sched == "stopDecided" then ["gated", "selfEndInsideStop"] else []) ++
            (if ln.sched == "rpc" then ["rpcLayer", "gated"] else []) ++
            (if ln.sched == "holdStop" then ["stopHeldLong", "gated"] else []) ++
            (if ln.sched == "abacoSelfEnd" then ["selfEnd", "timeoutEnd", "gated"] else []) ++
            (if ln.sched == "udpBad" then ["udp", "badDatagram", "gated"] else []) ++
            (if ln.sched == "roachSrc" || ln.sched == "abacoRPC" then ["rpcConfigured", "udp", "gated"] else []) ++
            (if countSite toks "asm.spawn" > 0 then ["acquisitionSteps", "gated"] else []) ++
            (if countSite toks "sc.start.refused" > 0 then ["startRefusedWhileActive"] else []) ++
            (if ln.sched == "rnd" || ln.sched == "stopAt" || ln.sched == "reuse" || ln.sched == "timing" then ["gated"] else []) ++
            (if n > 60 then ["long"] else [])
          .ok tags

/-! ### Remembered configuration error (Lancero): Configure → Start at the RPC layer

`SourceControl.ConfigureLanceroSource` stores the result of every Configure in the source (`configError`, nil on
success); `Sample` refuses to run while it is set.  Replies: 0 = ok, 1 = error. -/

structure CfgSt where
  cfgErr : Bool      -- the last Configure was rejected
  active : Bool      -- the source runs (and the RPC layer's flag is set)
deriving Repr, DecidableEq

inductive CfgOp where
  | cfgBad | cfgGood | start | stop
deriving Repr, DecidableEq

def cfgStep (s : CfgSt) : CfgOp → CfgSt × Nat
  | .cfgBad => ({ s with cfgErr := true }, 1)
  -- a Configure of a running source is rejected too ("not Inactive"), and remembered
  | .cfgGood => if s.active then ({ s with cfgErr := true }, 1) else ({ s with cfgErr := false }, 0)
  | .start => if s.active then (s, 1) else if s.cfgErr then (s, 1) else ({ s with active := true }, 0)
  | .stop => if s.active then ({ s with active := false }, 0) else (s, 1)

def cfgRun (s : CfgSt) : List CfgOp → CfgSt × List Nat
  | [] => (s, [])
  | o :: os =>
    let (s1, r) := cfgStep s o
    let (s2, rs) := cfgRun s1 os
    (s2, r :: rs)

/-- `H:op.<name>.<ret>` tokens of a `cfgErr` line -/
def parseCfgTok (t : Tok) : Option (CfgOp × Nat) :=
  match t.site.splitOn "." with
  | ["op", name, r] =>
    let op := match name with
      | "cfgBad" | "cfgDup" => some CfgOp.cfgBad
      | "cfgGood" => some .cfgGood
      | "start" => some .start
      | "stop" => some .stop
      | _ => none
    match op, r.toNat? with
    | some o, some v => some (o, v)
    | _, _ => none
  | _ => none

def judgeCfg (toks : List Tok) (fin : Fin) : Verdict :=
  match toks.mapM parseCfgTok with
  | none => .bad "bad cfgErr token"
  | some ors =>
    let ops := ors.map (·.1)
    let impl := ors.map (·.2)
    let (s, model) := cfgRun { cfgErr := false, active := false } ops
    if fin.hang != 0 || impl.contains 2 then .viol "C10:hang a Configure/Start/Stop request did not return (watchdog)"
    else match firstDiff model impl 0 with
      | some i =>
        if ops.getD i .stop == .start && model.getD i 9 == 0 then
          .viol s!"C10:start-refused-after-valid-configure request {i}: the source was configured correctly (after an earlier rejected configuration) but Start still fails"
        else .diff s!"cfgErr reply {i}: impl {impl.getD i 9} model {model.getD i 9}"
      | none =>
        if fin.st != (if s.active then 2 else 0) then .diff s!"cfgErr final state impl {fin.st} model active={s.active}"
        else .ok ["lancero", "cfgErr", "rpcLayer", "gated", "restart"]

def runLine (ts : List String) : Verdict :=
  match P.run parseLine ts with
  | .error e => .bad e
  | .ok ln =>
    match ln.out with
    | .panic cls =>
      if ln.sched == "roachSrc" && (cls.splitOn "dataBlock_contains").length > 1 then
        .viol "C10:roach-multi-device-panic a ROACH source of two devices (2 + 3 channels) starts with 5 channels and the first data block (one device's segments) panics ProcessSegments: the server dies"
      else if ln.sched == "roachSrc" then
        .viol s!"C10:start-without-data-not-clean the ROACH source crashed the server ({cls})"
      else if ln.sched == "udpBad" then
        .viol s!"C10:udp-bad-datagram-wedges-source after one undecodable UDP datagram the source wedged and the server crashed ({cls})"
      else if ln.sched == "abacoSelfEnd" then
        .viol s!"C10:abaco-no-clean-self-end the packet stream stopped and the server crashed instead of ending the run ({cls})"
      else if (cls.splitOn "Called_Stop_on_a_Starting").length > 1 then
        .viol "C10:stop-on-starting-panic Stop called while the source is Starting panics (server exits)"
      else .viol s!"C10:panic-{cls} the life-cycle calls crashed the process"
    | .hang => .viol "C10:hang the case did not finish (watchdog)"
    | .run toks0 calls fin => if ln.sched == "cfgErr" then judgeCfg toks0 fin else judgeRun ln toks0 calls fin

end DastardV.C10
