/-
C12 — phase unwrapping.  Transcription of `phase_unwrap.go` (`NewPhaseUnwrapper`,
`UnwrapInPlace`).  16-bit values are `Nat` below 65536 with explicit wrap-around;
the two signed step limits are `Int`.
-/
import DastardV.Proto
namespace DastardV.C12

structure Params where
  drop : Nat
  enable : Bool
  invert : Bool
  signMask : Nat
  twoPi : Nat
  upper : Int
  lower : Int
  resetAfter : Int
  resetOffset : Nat
deriving Repr, DecidableEq

structure St where
  lastVal : Nat
  offset : Nat
  resetCount : Int
deriving Repr, DecidableEq

/-- `uint16(1) << n` -/
def shl16 (n : Nat) : Nat := (2 ^ n) % 65536

/-- `NewPhaseUnwrapper`.  `none` = the constructor panics. -/
def mk (fb drop : Nat) (enable : Bool) (biasLevel resetAfter pulseSign : Int) (invert : Bool) :
    Option (Params × St) :=
  if drop = 0 ∧ enable then none else
  let signMask := 65535 - (65535 * 2 ^ fb) % 65536
  if 0 < drop ∧ enable then
    -- uint subtraction: guard the wrap (fb < drop is outside every caller's range)
    if fb ≤ drop then none else
    let twoPi := shl16 (fb - drop)
    let onePi := toInt16 ((2 : Int) ^ (fb - drop - 1))
    let tp16 := toInt16 twoPi
    if tp16 = 0 then none else
    let bias := Int.tmod (toInt16 (biasLevel >>> drop)) tp16
    let upper := toInt16 (bias + onePi)
    let lower := toInt16 (bias - onePi)
    let resetOffset := if pulseSign > 0 then twoPi else (65536 * 2 - 2 * twoPi) % 65536
    if resetAfter ≤ 0 then none else
    some ({ drop, enable, invert, signMask, twoPi, upper, lower, resetAfter, resetOffset },
          { lastVal := 0, offset := resetOffset, resetCount := 0 })
  else
    some ({ drop, enable, invert, signMask, twoPi := 0, upper := 0, lower := 0, resetAfter := 0,
            resetOffset := 0 },
          { lastVal := 0, offset := 0, resetCount := 0 })

/-- the sample after optional inversion, masking and bit drop -/
def pre (p : Params) (raw : Nat) : Nat :=
  let r := if p.invert then raw ^^^ 65535 else raw
  (r &&& p.signMask) >>> p.drop

/-- short-term unwrapping: new offset given the step -/
def shortTerm (p : Params) (offset : Nat) (thisstep : Int) : Nat :=
  if thisstep > p.upper then (offset + 65536 - p.twoPi) % 65536
  else if thisstep < p.lower then (offset + p.twoPi) % 65536
  else offset

/-- long-term unwrapping: the offset after the reset rule -/
def longTermOff (p : Params) (rc : Int) (off1 : Nat) : Nat :=
  if off1 = p.resetOffset then off1
  else if rc + 1 > p.resetAfter then p.resetOffset
  else off1

/-- long-term unwrapping: the counter after the reset rule -/
def longTermCount (p : Params) (rc : Int) (off1 : Nat) : Int :=
  if off1 = p.resetOffset then 0
  else if rc + 1 > p.resetAfter then 0
  else rc + 1

/-- one iteration of the enabled loop on the pre-processed sample `v` -/
def stepV (p : Params) (s : St) (v : Nat) : St × Nat :=
  let off1 := shortTerm p s.offset (toInt16 ((v : Int) - s.lastVal))
  let off2 := longTermOff p s.resetCount off1
  ({ lastVal := v, offset := off2, resetCount := longTermCount p s.resetCount off1 },
   (v + off2) % 65536)

def runV (p : Params) : St → List Nat → St × List Nat
  | s, [] => (s, [])
  | s, v :: vs =>
    let (s1, o) := stepV p s v
    let (s2, os) := runV p s1 vs
    (s2, o :: os)

/-- `UnwrapInPlace` on one call's data -/
def unwrapCall (p : Params) (s : St) (data : List Nat) : St × List Nat :=
  if p.drop = 0 then
    (s, data.map fun raw => if p.invert then raw ^^^ 65535 else raw)
  else if !p.enable then
    ({ s with resetCount := 0 }, data.map (pre p))
  else
    runV p s (data.map (pre p))

def runCalls (p : Params) : St → List (List Nat) → St × List (List Nat)
  | s, [] => (s, [])
  | s, c :: cs =>
    let (s1, o) := unwrapCall p s c
    let (s2, os) := runCalls p s1 cs
    (s2, o :: os)

/-! ### Oracle on observable input/output (used on the implementation's output)

Only for the enabled case.  Checks, for outputs `o` of pre-processed inputs `v`:
* `o ≡ v (mod twoPi)`;
* each step is either a reduced step (`lower ≤ adj ≤ upper`, `adj ≡ v-step`) or an automatic
  reset: it lands on the home offset AND the configured number of consecutive samples away from
  home has been reached (`away ≥ resetAfter` before this sample) — a premature return to home is
  a violation of the step rule;
* never more than `resetAfter` consecutive samples away from the home offset.
-/
def offsetOf (v o : Nat) : Nat := (o + 65536 - v) % 65536

def chkFrom (p : Params) : (prevV prevO : Nat) → (away : Int) → List Nat → List Nat → Bool
  | _, _, _, [], [] => true
  | pv, po, away, v :: vs, o :: os =>
    let modOk := o % p.twoPi == v % p.twoPi
    let home := offsetOf v o == p.resetOffset
    let adj := toInt16 ((o : Int) - po)
    let stepOk := p.lower ≤ adj ∧ adj ≤ p.upper ∧ (adj - ((v : Int) - pv)) % p.twoPi = 0
    let away' := if home then 0 else away + 1
    modOk && (decide stepOk || (home && decide (away ≥ p.resetAfter))) && decide (away' ≤ p.resetAfter) &&
      chkFrom p v o away' vs os
  | _, _, _, _, _ => false

def chk (p : Params) (s0 : St) (vs os : List Nat) : Bool :=
  chkFrom p s0.lastVal ((s0.lastVal + s0.offset) % 65536) s0.resetCount vs os

/-! ### Driver -/

structure Case where
  fb : Nat
  drop : Nat
  enable : Bool
  bias : Int
  reset : Int
  sign : Int
  invert : Bool
  calls : List (List Nat)
  outs : List (List Nat)

open P in
def parse : P Case := do
  kw "fb"; let fb ← nat
  kw "drop"; let drop ← nat
  kw "en"; let enable ← P.bool
  kw "bias"; let bias ← int
  kw "reset"; let reset ← int
  kw "sign"; let sign ← int
  kw "inv"; let invert ← P.bool
  kw "calls"; let calls ← list (list nat)
  kw "OUT"; let outs ← list (list nat)
  pure { fb, drop, enable, bias, reset, sign, invert, calls, outs }

def judge (c : Case) : Verdict :=
  match mk c.fb c.drop c.enable c.bias c.reset c.sign c.invert with
  | none => .bad "constructor panics for these parameters (outside the property's domain)"
  | some (p, s0) =>
    let (_, mo) := runCalls p s0 c.calls
    if mo != c.outs then
      -- is the implementation's output nevertheless within the property?
      let vio := p.enable && p.drop != 0 &&
        !(chk p s0 ((c.calls.flatten).map (pre p)) c.outs.flatten)
      if vio then .viol "C12 oracle: output not input+k*quantum / step rule / reset rule"
      else .diff s!"outputs differ at call {(firstDiff mo c.outs 0).getD 0}"
    else
      let flatV := (c.calls.flatten).map (pre p)
      let flatO := mo.flatten
      if p.enable && p.drop != 0 && !(chk p s0 flatV flatO) then
        .viol "C12 oracle fails on agreed output"
      else
        let offs := (flatV.zip flatO).map fun (v, o) => offsetOf v o
        let tags :=
          (if p.enable then ["enabled"] else ["disabled"]) ++
          (if c.calls.length > 1 then ["split"] else []) ++
          (if p.enable && p.drop != 0 && offs.any (· != p.resetOffset) then ["wrapped"] else []) ++
          (if p.invert then ["invert"] else []) ++
          (if c.bias != 0 then ["bias"] else [])
        .ok tags

/-! ### The unwrappers as an Abaco channel group wires them (`NewAbacoGroup`, `demuxData`)

`NewAbacoGroup(index, opt)` builds one unwrapper per channel of the group: 16 fraction bits, 4 bits
dropped when `RescaleRaw`, enabled by `Unwrap`, bias `±round(0.38·2^16)` by `Bias`/`PulseSign`, and the
channel is inverted iff its channel NUMBER (`index.Firstchan + i`) is listed in `InvertChan`.
`demuxData` de-interleaves the packet payloads (frame-major) and runs every channel through its own
unwrapper, the state carried from call to call. -/

structure GOpts where
  rescale : Bool
  unwrap : Bool
  bias : Bool
  reset : Int
  sign : Int
  inv : List Nat
deriving Repr

/-- `AbacoUnwrapOptions.calcBiasLevel` -/
def abacoBias (o : GOpts) : Int := if o.bias then (if o.sign < 0 then -24904 else 24904) else 0

/-- the unwrapper of channel `i` of the group whose first channel number is `first` -/
def groupMk (o : GOpts) (first i : Nat) : Option (Params × St) :=
  mk 16 (if o.rescale then 4 else 0) o.unwrap (abacoBias o) o.reset o.sign (o.inv.contains (first + i))

/-! ### The unwrappers as a ROACH device wires them (`RoachDevice.samplePacket`)

14 fraction bits, 2 dropped, always enabled, reset after 20000 samples, never inverted; the bias level of
`calcBiasLevel` (±0.38·2^16, in units where 2^16 is one ϕ0) rescaled to the ROACH quantum 2^14. -/
def roachBias (bias : Bool) (sign : Int) : Int :=
  (if bias then (if sign < 0 then -24904 else 24904) else 0) >>> 2

def roachMk (bias : Bool) (sign : Int) : Option (Params × St) :=
  mk 14 2 true (roachBias bias sign) 20000 sign false

/-- a payload word as the 16-bit sample `demuxData` stores: `RawType(d[j])` for 16-bit payloads,
`RawType(d[j] / 0x10000)` (Go's truncating division) for 32-bit ones -/
def sample16 (wide : Bool) (v : Int) : Nat :=
  if wide then (Int.tdiv v 65536 % 65536).toNat else (v % 65536).toNat

/-- channel `i`'s samples of a frame-major payload of `nch` channels -/
def demuxChan (nch i : Nat) (wide : Bool) (vals : List Int) : List Nat :=
  (List.range (vals.length / nch)).map fun f => sample16 wide (vals.getD (f * nch + i) 0)

/-- what channel `i` receives over the calls: `none` = the constructor panics -/
def groupChan (o : GOpts) (first nch i : Nat) (wide : Bool) (calls : List (List Int)) : Option (List (List Nat)) :=
  (groupMk o first i).map fun (p, s0) => (runCalls p s0 (calls.map (demuxChan nch i wide))).2

structure GCase where
  first : Nat
  nch : Nat
  o : GOpts
  wide : Bool
  calls : List (List Int)
  outs : List (List (List Nat))      -- per call, per channel

open P in
def parseG : P GCase := do
  kw "grp"
  kw "first"; let first ← nat
  kw "nch"; let nch ← nat
  kw "resc"; let rescale ← P.bool
  kw "unw"; let unwrap ← P.bool
  kw "bias"; let bias ← P.bool
  kw "reset"; let reset ← int
  kw "sign"; let sign ← int
  kw "inv"; let inv ← list nat
  kw "wide"; let wide ← P.bool
  kw "calls"; let calls ← list (list int)
  kw "OUT"; let outs ← list (list (list nat))
  pure { first, nch, o := { rescale, unwrap, bias, reset, sign, inv }, wide, calls, outs }

/-- judge channel `i` of a group case -/
def judgeChan (c : GCase) (i : Nat) : Verdict :=
  match groupMk c.o c.first i with
  | none => .bad "constructor panics for these options (outside the property's domain)"
  | some (p, s0) =>
    let ins := c.calls.map (demuxChan c.nch i c.wide)
    let mo := (runCalls p s0 ins).2
    let obs := c.outs.map fun call => call.getD i []
    if mo == obs then .ok []
    else if p.enable && p.drop != 0 then
      if (obs.map List.length) == (ins.map List.length) && chk p s0 (ins.flatten.map (pre p)) obs.flatten then
        .diff s!"group channel {i}: outputs differ at call {(firstDiff mo obs 0).getD 0}"
      else .viol s!"C12 oracle (group): output of channel number {c.first + i} is not its configured (inverted, bit-dropped) input + k*quantum / step rule / reset rule"
    else .viol s!"C12 oracle (group): with unwrapping off, channel number {c.first + i} is not its configured (inverted, bit-dropped) input"

def judgeG (c : GCase) : Verdict :=
  if c.nch == 0 then .bad "no channels" else
  let vs := (List.range c.nch).map (judgeChan c)
  match vs.find? (fun v => match v with | .ok _ => false | _ => true) with
  | some v => v
  | none =>
    .ok (["group"] ++ (if c.o.unwrap then ["enabled"] else ["disabled"]) ++
      (if c.first != 0 then ["first>0"] else []) ++
      (if (List.range c.nch).any (fun i => c.o.inv.contains (c.first + i)) then ["invert"] else []) ++
      (if c.o.inv.any (fun x => x < c.first || c.first + c.nch ≤ x) then ["inv-outside-group"] else []) ++
      (if c.wide then ["wide"] else []) ++ (if c.calls.length > 1 then ["split"] else []) ++
      (if c.o.bias then ["bias"] else []))

def runLine (ts : List String) : Verdict :=
  match ts with
  | "grp" :: _ =>
    (match P.run parseG ts with
     | .error e => .bad e
     | .ok c => judgeG c)
  | "roach" :: rest =>
    -- one channel of a real `RoachDevice`: the calls are the device's data blocks (100 ms bundles of UDP packets)
    let pr : P (Bool × Int × List (List Nat) × List (List Nat)) := do
      P.kw "biasopt"; let b ← P.bool
      P.kw "sign"; let sg ← P.int
      P.kw "calls"; let calls ← P.list (P.list P.nat)
      P.kw "OUT"; let outs ← P.list (P.list P.nat)
      pure (b, sg, calls, outs)
    (match P.run pr rest with
     | .error e => .bad e
     | .ok (b, sg, calls, outs) =>
       match judge { fb := 14, drop := 2, enable := true, bias := roachBias b sg, reset := 20000, sign := sg,
                     invert := false, calls, outs } with
       | .ok tags => .ok (tags ++ ["roach"] ++ (if calls.length > 1 then ["roach-multiblock"] else []))
       | v => v)
  | _ =>
  match P.run parse ts with
  | .error e => .bad e
  | .ok c => judge c

end DastardV.C12
