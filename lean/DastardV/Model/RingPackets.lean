/-
Ring → packets: the glue between the shared-memory ring (C18), the packet decoder (C15) and the Abaco
ingest (C03).  Transcription of `packets.ReadPacketPlusPad` and of `AbacoRing.start / discardStale /
ReadAllPackets` (abaco.go): one `ReadMultipleOf(packetSize)` on the ring, then `ReadPacketPlusPad` until the
bytes run out.  The producer (the Abaco DAQ, or `bahama`) writes every packet into a slot that is a
multiple of the stride long.
-/
import DastardV.Model.C15
import DastardV.Model.C18
namespace DastardV.RingPk
open C15

/-- `ReadPacketPlusPad(reader, stride)` on the bytes left in the reader: result and bytes consumed.
`io.CopyN(io.Discard, reader, pad)` on fewer than `pad` bytes consumes them all and returns `io.EOF`.
`stride ≥ 1` (0 divides by zero in the Go code). -/
def readPlusPad (inp : List Nat) (stride : Nat) : Except Err Packet × Nat :=
  match decodeC inp with
  | (.error e, n) => (.error e, n)
  | (.ok p, n) =>
    let overhang := Int.tmod (length p) (stride : Int)
    if overhang > 0 then
      let pad := ((stride : Int) - overhang).toNat
      if inp.length - n < pad then (.error .eof, inp.length) else (.ok p, n + pad)
    else (.ok p, n)

/-- the loop of `ReadAllPackets` over the bytes of one ring read: the packets, and the error the call
returns (`io.EOF` is the normal end: `none`) -/
def readAllF : Nat → List Nat → Nat → List Packet × Option Err
  | 0, _, _ => ([], none)
  | f + 1, inp, stride =>
    match readPlusPad inp stride with
    | (.error .eof, _) => ([], none)
    | (.error e, _) => ([], some e)
    | (.ok p, n) =>
      let r := readAllF f (inp.drop n) stride
      (p :: r.1, r.2)

/-- every successful `ReadPacket` consumes at least the 16 header bytes, so `length + 1` rounds suffice -/
def readAll (inp : List Nat) (stride : Nat) : List Packet × Option Err := readAllF (inp.length + 1) inp stride

/-- the same loop with the reader position after every call (what the harness observes) -/
def readTraceF : Nat → List Nat → Nat → Nat → List (Nat × Packet) × Err × Nat
  | 0, _, _, pos => ([], .eof, pos)
  | f + 1, inp, stride, pos =>
    match readPlusPad inp stride with
    | (.error e, n) => ([], e, pos + n)
    | (.ok p, n) =>
      let r := readTraceF f (inp.drop n) stride (pos + n)
      ((pos + n, p) :: r.1, r.2.1, r.2.2)

/-! ### the device -/

structure Dev where
  rb : C18.RB
  stride : Nat
deriving Repr

/-- `AbacoRing.start` after `Open`: `discardStale` = `DiscardStride(packetSize)` -/
def Dev.start (d : Dev) : Dev := { d with rb := C18.discardStride d.rb d.stride }

/-- `AbacoRing.ReadAllPackets`: `none` = the ring read failed (chunk size ≥ ring size) -/
def Dev.readAllPackets (d : Dev) : Dev × Option (List Packet × Option Err) :=
  match C18.readMultipleOf d.rb d.stride with
  | none => (d, none)
  | some (rb', bs) => ({ d with rb := rb' }, some (readAll bs d.stride))

/-- the producer writes `bs` (a packet and its padding); returns the number of bytes accepted -/
def Dev.put (d : Dev) (bs : List Nat) : Dev × Option Nat :=
  match C18.write d.rb bs with
  | none => (d, none)
  | some (rb', n) => ({ d with rb := rb' }, some n)

/-- a packet in its slot: the encoding followed by zero bytes up to the next multiple of the stride -/
def slot (bs : List Nat) (stride : Nat) : List Nat :=
  bs ++ List.replicate ((stride - bs.length % stride) % stride) 0

/-! ### driver -/

/-- what is compared of a packet: sequence number, declared length, payload kind and values -/
structure View where
  seq : Nat
  plen : Int
  kind : Nat
  vals : List Int
deriving DecidableEq, Repr

def viewOf (p : Packet) : View := { seq := p.seq, plen := length p, kind := p.data.kind, vals := p.data.vals }

def errStr : Err → String
  | .eof => "eof" | .short => "short" | .bad => "bad"

def parseErr (s : String) : Option Err :=
  match s with
  | "eof" => some .eof | "short" => some .short | "bad" => some .bad | _ => none

open P in
def pView : P View := do
  let seq ← nat
  let plen ← int
  let kind ← nat
  let vals ← list int
  pure { seq, plen, kind, vals }

inductive ROp where
  | put (bs : List Nat) (padTo : Nat) (acc : Nat)     -- bytes, slot length written (bytes ++ zeros), accepted
  | get (res : Option (List View × String))           -- none = ring error; views and error kind ("-" = nil)
  | start (readable : Nat)
deriving Repr

open P in
def pROp : P ROp := do
  let t ← tok
  match t with
  | "W" => do
    let bs ← bytes; let padTo ← nat; let acc ← nat
    pure (.put bs padTo acc)
  | "P" => do
    let pk ← peek
    if pk == some "E" then do let _ ← tok; pure (.get none) else
    let vs ← list pView
    let e ← tok
    pure (.get (some (vs, e)))
  | "S" => do
    let rd ← nat
    pure (.start rd)
  | _ => fail s!"bad ring-packet op {t}"

/-- `pad` lines: the bare `ReadPacketPlusPad` loop on a byte string with any stride -/
def runPad (ts : List String) : Verdict :=
  let p : P (Nat × List Nat × List (Nat × Nat × Int) × String × Nat) := do
    P.kw "pad"; P.kw "stride"; let s ← P.nat
    P.kw "in"; let bs ← P.bytes
    P.kw "OUT"
    let ks ← P.list (do let pos ← P.nat; let seq ← P.nat; let plen ← P.int; pure (pos, seq, plen))
    P.kw "E"; let e ← P.tok; let pos ← P.nat
    pure (s, bs, ks, e, pos)
  match P.run p ts with
  | .error e => .bad e
  | .ok (s, bs, ks, e, pos) =>
    if s = 0 then .bad "stride 0" else
    let (mk, me, mpos) := readTraceF (bs.length + 1) bs s 0
    let mks := mk.map fun (pos, p) => (pos, p.seq, length p)
    if mks ≠ ks then .diff s!"ReadPacketPlusPad loop: packets/positions differ (model {mks.length} packets, implementation {ks.length})"
    else if errStr me ≠ e then .diff s!"ReadPacketPlusPad loop ends with {e}, model {errStr me}"
    else if mpos ≠ pos then .diff s!"ReadPacketPlusPad loop ends at byte {pos}, model {mpos}"
    else .ok (["pad-loop"] ++ (if ks.length ≥ 2 then ["pad-multi"] else []) ++ (if me ≠ .eof then ["pad-error"] else [])
      ++ (if mk.any (fun (_, p) => Int.tmod (length p) s ≠ 0) then ["pad-skipped"] else []))

structure RSt where
  d : Dev
  sent : List View        -- views of the packets the producer wrote whole, in order (by the MODEL's decoder)
  got : List View         -- views handed out so far
  clean : Bool            -- every write so far was a whole slot accepted entirely, holding one decodable packet

def isPrefix (a b : List View) : Bool := a.length ≤ b.length && b.take a.length == a

def runRpk (ts : List String) : Verdict :=
  let p : P (Nat × Nat × List ROp) := do
    P.kw "rpk"; P.kw "cap"; let cap ← P.nat
    P.kw "stride"; let s ← P.nat
    P.kw "ops"; let ops ← P.list pROp
    pure (cap, s, ops)
  match P.run p ts with
  | .error e => .bad e
  | .ok (cap, s, ops) =>
    if s = 0 then .bad "stride 0" else
    let rec go (st : RSt) (i : Nat) : List ROp → Verdict
      | [] =>
        .ok (["ring-packets"] ++ (if st.d.rb.w ≥ cap then ["wrap"] else []) ++ (if st.clean then ["clean"] else ["dirty"])
          ++ (if st.got.length ≥ 2 then ["multi"] else []))
      | .put bs padTo acc :: rest =>
        let sl := bs ++ List.replicate (padTo - bs.length) 0
        match st.d.put sl with
        | (_, none) => .diff s!"op {i}: write with negative room"
        | (d', some n) =>
          if n ≠ acc then .diff s!"op {i}: Write accepted {acc}, model {n}" else
          let whole := n = sl.length ∧ sl.length % s = 0 ∧ sl.length > 0
          match decodeC bs with
          | (.ok q, c) =>
            let good := whole ∧ c = bs.length ∧ (length q).toNat = bs.length ∧ sl.length = (slot bs s).length
            go { st with d := d', sent := if good ∧ st.clean then st.sent ++ [viewOf q] else st.sent,
                         clean := st.clean && decide good } (i + 1) rest
          | _ => go { st with d := d', clean := false } (i + 1) rest
      | .start rd :: rest =>
        let d' := st.d.start
        if C18.bytesReadable d'.rb ≠ rd then .diff s!"op {i}: after start {rd} bytes readable, model {C18.bytesReadable d'.rb}" else
        -- on a clean stream the write position is a slot boundary: start discards every undelivered packet
        if st.clean ∧ d'.rb.r = d'.rb.w then go { st with d := d', sent := st.got } (i + 1) rest
        else go { st with d := d', clean := false } (i + 1) rest
      | .get res :: rest =>
        match st.d.readAllPackets, res with
        | (_, none), none => go st (i + 1) rest
        | (_, none), some _ => .diff s!"op {i}: ReadAllPackets succeeded, model: ring error"
        | (_, some _), none => .diff s!"op {i}: ReadAllPackets failed in the ring, model succeeds"
        | (d', some (ps, me)), some (vs, e) =>
          let got' := st.got ++ vs
          -- the property: whatever the packet boundaries in the ring, the packets handed to the ingest are the
          -- packets the producer wrote, in order, none lost, repeated or altered
          if st.clean ∧ !(isPrefix got' st.sent) then
            .viol s!"C18:ring-packets-not-fifo op {i}: the packets returned by ReadAllPackets so far ({got'.length}) are not a prefix of the packets written whole into the ring ({st.sent.length})"
          else if st.clean ∧ e ≠ "-" then
            .viol s!"C18:ring-packets-error op {i}: ReadAllPackets returned error {e} on a ring holding only whole, well-formed, slot-aligned packets"
          else if st.clean ∧ C18.bytesReadable d'.rb < s ∧ got'.length + 0 ≠ st.sent.length ∧ d'.rb.w % s = 0 then
            .viol s!"C18:ring-packets-lost op {i}: every whole slot has been read, {got'.length} packets returned, {st.sent.length} written"
          else if ps.map viewOf ≠ vs then .diff s!"op {i}: ReadAllPackets returned {vs.length} packets, model {ps.length} (or their contents differ)"
          else if (match me with | none => "-" | some x => errStr x) ≠ e then
            .diff s!"op {i}: ReadAllPackets error {e}, model {(match me with | none => "-" | some x => errStr x)}"
          else go { st with d := d', got := got' } (i + 1) rest
    go { d := { rb := C18.RB.create cap, stride := s }, sent := [], got := [], clean := true } 0 ops

def runLine (ts : List String) : Verdict :=
  match ts.head? with
  | some "pad" => runPad ts
  | some "rpk" => runRpk ts
  | _ => .bad "unknown ring-packet line"

end DastardV.RingPk
