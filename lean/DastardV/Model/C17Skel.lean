/-
C17 — the synchronisation skeleton of a running acquisition as a `System` (thread programs + the
ownership contracts `mkSpec`), parameterised over
  * the number of channels `n`, the number of blocks `k`, the source kind (0 simulated, 1 Abaco, 2 Lancero),
  * `k0 ≤ k`: the control client's first request is taken after block `k0` (until then the client's own reads of
    the trigger states / group-trigger connections after Start overlap with block processing),
  * `rk b`: the kind of the request taken after block `b ≥ k0` (0 trigger change, 1 group-trigger change,
    2 write control, 3 raw-data-block archive),
  * `sec b i`: channel `i` has secondary triggers in block `b` (second wave of per-channel goroutines),
  * `tm b`: block `b` produces a trigger-rate message.
Core Lean only.  Threads (see Model/C17.lean for the id encoding):
  R control client (root) · S status thread (root) · P producer / reader loop · L core loop ·
  A b block assembly · AW b i assembly worker · W1 b i / W2 b i per-channel processing · AR j archive writer.
-/
import DastardV.Model.C17
namespace DastardV.C17

structure Sched where
  n : Nat
  k : Nat
  src : Nat
  k0 : Nat
  rk : Nat → Nat
  sec : Nat → Nat → Bool
  tm : Nat → Bool

namespace Sched

/-- number of archive requests among the requests after blocks `< b` -/
def archIdx (s : Sched) (b : Nat) : Nat := ((rng b).filter (fun b' => s.k0 ≤ b' ∧ s.rk b' = 3)).length
/-- number of trigger-rate messages of blocks `< b` -/
def trsIdx (s : Sched) (b : Nat) : Nat := ((rng b).filter (fun b' => s.tm b')).length

def par (s : Sched) : Par :=
  { n := s.n, nblk := s.k, ntrs := s.trsIdx s.k, narch := s.archIdx s.k, src := s.src }

def merged (s : Sched) : Bool := s.src != 0

/-! thread ids -/
def tR : Tid := enc 0 0
def tL : Tid := enc 1 0
def tP : Tid := enc 2 0
def tS : Tid := enc 3 0
def tA (s : Sched) (b : Nat) : Tid := enc 4 (b * s.n)
def tAW (s : Sched) (b i : Nat) : Tid := enc 5 (b * s.n + i)
def phase (s : Sched) (b : Nat) : Nat := if b < s.k0 then 0 else 1
def tW1 (s : Sched) (b i : Nat) : Tid := enc (6 + s.phase b) (b * s.n + i)
def tW2 (s : Sched) (b i : Nat) : Tid := enc (8 + s.phase b) (b * s.n + i)
def tAR (j : Nat) : Tid := enc 10 j

/-! variables and objects -/
def vNfn : Var := mkVar 1 0
def vEtq : Var := mkVar 2 0
def vBlk (s : Sched) (b : Nat) : Var := mkVar 3 (if s.merged then 0 else b + 1)
def vSeg (s : Sched) (b i : Nat) : Var := mkVar 4 ((if s.merged then 0 else b + 1) * s.n + i)
def vArch : Var := mkVar 5 0
def vAfill (j : Nat) : Var := mkVar 6 j
def vPst (i : Nat) : Var := mkVar 7 i
def vPtrig (i : Nat) : Var := mkVar 8 i
def vBcon : Var := mkVar 9 0
def vTrs (m : Nat) : Var := mkVar 10 m
def vWsa : Var := mkVar 11 0
def vWsc : Var := mkVar 12 0
def vVip : Var := mkVar 13 0
def vBst : Var := mkVar 14 0
def vLastm : Var := mkVar 15 0
def vRloc : Var := mkVar 0 0

def oNb (s : Sched) (b : Nat) : Obj := enc 1 (if s.merged then 0 else b + 1)
def oNbClose : Obj := enc 1 0
def oBufc : Obj := enc 2 0
def oQreq (j : Nat) : Obj := enc 3 j
def oQres : Obj := enc 4 0
def oCm (m : Nat) : Obj := enc 5 m
def oCmpl (j : Nat) : Obj := enc 6 j
def oFl : Obj := enc 7 0
def oWsm : Obj := enc 8 0
def oCfg : Obj := enc 9 0
def oWga (b : Nat) : Obj := enc 10 b
def oWgp (e : Nat) : Obj := enc 11 e
def oRund : Obj := enc 12 0
def oAbort : Obj := enc 13 0
def oRunDone : Obj := enc 14 0

/-- per-channel event lists -/
def perChan (s : Sched) (f : Nat → List Ev) : List Ev := (rng s.n).flatMap f

/-! ### programs -/

/-- the control client: Start (sampling an Abaco source touches the frame state; PrepareRun reads the stored
    configuration), the reads after Start, one request after block `k0` and after every later block, Stop -/
def progR (s : Sched) : List Ev :=
  (if s.src == 1 then [.lock oFl, .wr vEtq, .rd vNfn, .unlock oFl] else [])
  ++ [.lock oCfg, .rd vVip, .unlock oCfg, .wgAdd oRund, .spawn tP, .spawn tL]
  ++ s.perChan (fun i => [.rd (vPtrig i)]) ++ [.rd vBcon]
  ++ (if s.k0 ≤ s.k then
        [.send (oQreq 1), .recv oQres]
        ++ (rng (s.k - s.k0)).flatMap (fun d => [.lock oWsm, .rd vWsa, .unlock oWsm, .send (oQreq (d + 2)), .recv oQres])
      else [])
  ++ [.close oAbort, .recvC oRunDone, .rd vWsa]

/-- the status thread: saves the configuration store (from its private table of last messages), consumes the
    trigger-rate messages (and remembers them in that table) -/
def progS (s : Sched) : List Ev :=
  [.lock oCfg, .wr vVip, .wr vLastm, .unlock oCfg]
  ++ (rng (s.trsIdx s.k)).flatMap (fun m => [.recv (oCm m), .rd (vTrs m), .wr vLastm])
  ++ [.lock oCfg, .wr vVip, .wr vLastm, .unlock oCfg]

/-- producer (simulated source) / reader loop (Abaco, Lancero) -/
def progP (s : Sched) : List Ev :=
  [.start]
  ++ (rng s.k).flatMap (fun b =>
        if s.src == 0 then
          [.wr (s.vBlk b), .wr vNfn] ++ s.perChan (fun i => [.wr (s.vSeg b i)]) ++ [.send (s.oNb b)]
        else if s.src == 1 then [.lock oFl, .wr vEtq, .rd vNfn, .unlock oFl, .wr vRloc, .rd vRloc, .send oBufc]
        else [.send oBufc])
  ++ [.recvC oAbort] ++ (if s.src == 0 then [.close oNbClose] else [.close oBufc])

/-- block assembly goroutine of block `b` (Abaco, Lancero); the one after the last block sees the closed channel -/
def progA (s : Sched) (b : Nat) : List Ev :=
  if b < s.k then
    [.start, .recv oBufc, .wr (s.vBlk b)]
    ++ (if s.src == 1 then
          [.lock oFl, .wr vEtq, .wr vNfn, .unlock oFl]
          ++ s.perChan (fun i => [.wgAdd (oWga b), .spawn (s.tAW b i)]) ++ [.wgWait (oWga b)]
        else [.wr vNfn] ++ s.perChan (fun i => [.wr (s.vSeg b i)]))
    ++ [.send (s.oNb b)]
  else [.start, .recvC oBufc, .close oNbClose]

def progAW (s : Sched) (b i : Nat) : List Ev := [.start, .wr (s.vSeg b i), .wgDone (oWga b)]

def progW (s : Sched) (b i wave : Nat) : List Ev :=
  [.start, .wr (vPst i), .rd (vPtrig i)] ++ (if s.phase b == 1 then [.wr (vPtrig i)] else []) ++ [.wgDone (oWgp (2 * b + wave))]

def progAR (j : Nat) : List Ev := [.start, .recv (oCmpl j), .rd (vAfill j)]

/-- what the core loop does for the request taken after block `b` (`j` = its number) -/
def reqBody (s : Sched) (b : Nat) : List Ev :=
  match s.rk b with
  | 0 => s.perChan (fun i => [.wr (vPtrig i), .wr (vPst i)]) ++ s.perChan (fun i => [.rd (vPtrig i)])
  | 1 => [.wr vBcon, .rd vBcon]
  | 2 => [.wr vWsc] ++ s.perChan (fun i => [.wr (vPst i)])
         ++ [.lock oWsm, .wr vWsa, .unlock oWsm, .lock oWsm, .rd vWsa, .unlock oWsm]
  | _ => [.wr vArch, .spawn (tAR (s.archIdx b))]

/-- one block in the core loop -/
def blockL (s : Sched) (b : Nat) : List Ev :=
  [.recv (s.oNb b), .rd (s.vBlk b), .rd vArch]
  -- a raw-data block requested after the previous block is filled by this one and handed to its writer
  ++ (if 0 < b ∧ s.k0 ≤ b - 1 ∧ s.rk (b - 1) = 3 then
        [.wr vArch, .wr (vAfill (s.archIdx (b - 1))), .send (oCmpl (s.archIdx (b - 1)))] else [])
  ++ s.perChan (fun i => [.rd (s.vSeg b i), .wgAdd (oWgp (2 * b)), .spawn (s.tW1 b i)])
  ++ [.wgWait (oWgp (2 * b))]
  ++ s.perChan (fun i => [.rd (vPst i)]) ++ [.rd vBcon, .wr vBst]
  ++ (if s.tm b then [.wr (vTrs (s.trsIdx b)), .send (oCm (s.trsIdx b))] else [])
  ++ s.perChan (fun i => if s.sec b i then [.wgAdd (oWgp (2 * b + 1)), .spawn (s.tW2 b i)] else [])
  ++ [.wgWait (oWgp (2 * b + 1))]
  ++ s.perChan (fun i => [.wr (vPst i)]) ++ [.rd vWsa, .wr vWsc]
  ++ (if s.merged then [.spawn (s.tA (b + 1))] else [])
  -- the request taken after this block
  ++ (if s.k0 ≤ b then [.recv (oQreq (b - s.k0 + 2)), .send oQres] ++ s.reqBody b else [])

/-- the first request (a trigger change: it needs the client's shares of the trigger states), taken after `k0` blocks -/
def firstReq (s : Sched) : List Ev :=
  [.recv (oQreq 1), .send oQres] ++ s.perChan (fun i => [.wr (vPtrig i), .wr (vPst i)]) ++ s.perChan (fun i => [.rd (vPtrig i)])

def progL (s : Sched) : List Ev :=
  [.start] ++ (if s.merged then [.spawn (s.tA 0)] else [])
  ++ (rng (min s.k0 s.k)).flatMap s.blockL
  ++ (if s.k0 ≤ s.k then s.firstReq ++ ((rng (s.k - s.k0)).flatMap (fun d => s.blockL (s.k0 + d))) else [])
  ++ [.recvC oNbClose, .lock oWsm, .rd vWsa, .unlock oWsm, .close oRunDone, .wgDone oRund]

/-- program of a thread id -/
def prog (s : Sched) (t : Tid) : List Ev :=
  let b := if s.n == 0 then idxOf t else idxOf t / s.n
  let i := if s.n == 0 then 0 else idxOf t % s.n
  match clsOf t with
  | 0 => if t == tR then s.progR else []
  | 1 => if t == tL then s.progL else []
  | 2 => if t == tP then s.progP else []
  | 3 => if t == tS then s.progS else []
  | 4 => if s.merged ∧ i == 0 ∧ b ≤ s.k then s.progA b else []
  | 5 => if s.n ≠ 0 ∧ s.src == 1 ∧ b < s.k then s.progAW b i else []
  | 6 => if s.n ≠ 0 ∧ b < s.k ∧ s.phase b == 0 then s.progW b i 0 else []
  | 7 => if s.n ≠ 0 ∧ b < s.k ∧ s.phase b == 1 then s.progW b i 0 else []
  | 8 => if s.n ≠ 0 ∧ b < s.k ∧ s.phase b == 0 ∧ s.sec b i then s.progW b i 1 else []
  | 9 => if s.n ≠ 0 ∧ b < s.k ∧ s.phase b == 1 ∧ s.sec b i then s.progW b i 1 else []
  | 10 => if idxOf t < s.archIdx s.k then progAR (idxOf t) else []
  | _ => []

/-- children of the wait groups -/
def kids (s : Sched) (w : Obj) : List Tid :=
  let e := idxOf w
  match clsOf w with
  | 10 => if s.src == 1 ∧ e < s.k then (rng s.n).map (s.tAW e) else []
  | 11 => let b := e / 2
          if b < s.k then
            (if e % 2 == 0 then (rng s.n).map (s.tW1 b) else ((rng s.n).filter (s.sec b)).map (s.tW2 b))
          else []
  | 12 => if w == oRund then [tL] else []
  | _ => []

def adder (s : Sched) (w : Obj) : Tid :=
  match clsOf w with
  | 10 => s.tA (idxOf w)
  | 11 => tL
  | _ => tR

/-- all tokens in use -/
def allToks (s : Sched) : List Tok :=
  let p := s.par
  [nfnTok, tk 2 0 0, tk 5 0 0, tk 9 0 0, tk 9 0 1, tk 11 0 0, tk 11 0 1, tk 12 0 0, tk 13 0 0, tk 14 0 0, tk 15 0 0, tk 0 0 0]
  ++ (rng s.n).flatMap (fun i => procToks i true)
  ++ (rng p.narch).map (fun j => tk 6 j 0) ++ (rng p.ntrs).map (fun m => tk 10 m 0)
  ++ (if p.merged then blockToks p 0 else (rng p.nblk).flatMap (fun b => blockToks p (b + 1)))

def system (s : Sched) : System where
  sp := mkSpec s.par
  P := s.prog
  roots := [tR, tS]
  allToks := s.allToks
  kids := s.kids
  adder := s.adder
  waiter := fun _ => tR

/-- the threads that have a program -/
def threads (s : Sched) : List Tid :=
  [tR, tL, tP, tS] ++ (rng (s.k + 1)).map s.tA
  ++ (rng s.k).flatMap (fun b => (rng s.n).flatMap (fun i => [s.tAW b i, s.tW1 b i, s.tW2 b i]))
  ++ (rng (s.archIdx s.k)).map tAR

end Sched
end DastardV.C17
