/-
C03 — Abaco ingest.  Transcription of `abaco.go`:
`AbacoGroup.samplePackets` (sync offset / last sequence number), `distributePackets` → `enqueuePacket`,
`fillMissingPackets` (+ `packets.MakePretendPacket`), `firstSeqNum`, `trimPacketsBefore`,
`countSamplesInQueue`, the min-over-groups frame count, `demuxData` (16- and 32-bit payloads),
the tick body of `readerMainLoop` and the frame stamping of `distributeData`.

Conventions: sequence numbers are `Nat` (the code uses uint32; guard `< 2^32`, and every packet's
number is ≥ its group's sync offset).  Phase unwrapping is switched off (C12 covers it): with the
zero `AbacoUnwrapOptions` `UnwrapInPlace` is the identity.  Go's map iteration order over the groups
is the explicit parameter `perm` (a list of group indices).  A Go panic is `Except.error`.
-/
import DastardV.Proto
namespace DastardV.C03

/-- a data packet of one channel group: sequence number, payload kind (`wide` = `[]int32`,
otherwise `[]int16`) and the raw payload values, frame after frame, `nchan` values per frame -/
structure Pkt where
  sn : Nat
  wide : Bool
  data : List Int
deriving Repr, DecidableEq

/-- `RawType(d[j])` for int16 payloads, `RawType(d[j] / 0x10000)` for int32 payloads
(Go's `/` truncates toward zero; `RawType` is uint16) -/
def conv (wide : Bool) (x : Int) : Nat :=
  if wide then (Int.tdiv x 65536 % 65536).toNat else (x % 65536).toNat

/-- `Packet.Frames()` for a packet of a group with `nchan` channels (= `len(d)/nchan`) -/
def Pkt.frames (nchan : Nat) (p : Pkt) : Nat := p.data.length / nchan

/-- `MakePretendPacket(seqnum, nchan)`: `x[i] = d[i % nchan]` -/
def pretend (nchan : Nat) (p : Pkt) (sn : Nat) : Pkt :=
  { sn, wide := p.wide, data := (List.range p.data.length).map fun i => p.data.getD (i % nchan) 0 }

/-- one channel of one packet as `demuxData` writes it: `dc[i] = conv d[c + nchan*i]`, `i < len(d)/nchan` -/
def chanOf (nchan c : Nat) (p : Pkt) : List Nat :=
  (List.range (p.data.length / nchan)).map fun i => conv p.wide (p.data.getD (c + nchan * i) 0)

/-- one channel of a run of packets -/
def chanData (nchan c : Nat) (ps : List Pkt) : List Nat := (ps.map (chanOf nchan c)).flatten

structure Group where
  first : Nat            -- Firstchan (the groups of a source are kept sorted by it)
  nchan : Nat
  queue : List Pkt
  lastSN : Nat
  sync : Nat
deriving Repr, DecidableEq

/-- `samplePackets`: the sync offset is the number of the first start-up packet that carries a
timestamp (0 when none does), `lastSN` the number of the last start-up packet; the queue is cleared. -/
def initGroup (first nchan : Nat) (sample : List (Nat × Bool)) : Group :=
  { first, nchan, queue := []
    lastSN := (sample.getLast?.map (·.1)).getD 0
    sync := ((sample.find? (·.2)).map (·.1)).getD 0 }

/-! ### fillMissingPackets -/

/-- the inner loop `for snexpect < sn { newq = append(newq, pretend); snexpect++ }`, `k = sn - snexpect` rounds -/
def fakes (nchan : Nat) (p : Pkt) : Nat → Nat → List Pkt
  | 0, _ => []
  | k + 1, e => pretend nchan p e :: fakes nchan p k (e + 1)

/-- the outer loop over the queue; returns the new queue and `framesAdded`.  `e` is `snexpect`.
A packet numbered below `snexpect` was already in the queue at an earlier call (any gap before it
was filled then): it is copied and `snexpect` stays.  Otherwise the inner loop runs `sn - snexpect`
rounds, the packet is appended and `snexpect` becomes `sn + 1`. -/
def fillLoop (nchan : Nat) : Nat → List Pkt → List Pkt × Nat
  | _, [] => ([], 0)
  | e, p :: ps =>
    if p.sn < e then
      let r := fillLoop nchan e ps
      (p :: r.1, r.2)
    else
      let r := fillLoop nchan (p.sn + 1) ps
      (fakes nchan p (p.sn - e) e ++ p :: r.1, (p.sn - e) * p.frames nchan + r.2)

def lastSnOr (d : Nat) (q : List Pkt) : Nat := (q.getLast?.map (·.sn)).getD d

/-- `fillMissingPackets`: returns the group and `framesAdded` -/
def fillG (g : Group) : Group × Nat :=
  match g.queue with
  | [] => (g, 0)
  | _ :: _ =>
    let r := fillLoop g.nchan (g.lastSN + 1) g.queue
    ({ g with queue := r.1, lastSN := lastSnOr g.lastSN r.1 }, r.2)

/-! ### the tick body of readerMainLoop -/

/-- `distributePackets`: append each group's arrivals to its queue -/
def enq : List Group → List (List Pkt) → List Group
  | [], _ => []
  | gs, [] => gs
  | g :: gs, a :: as => { g with queue := g.queue ++ a } :: enq gs as

/-- first loop over the groups (map order = `perm`): fill, then `firstSeqNum`; an empty queue means
`continue awaitmoredata` (`none`).  Returns the groups, the dropped-frame counter and `firstSn`. -/
def loop1 : List Nat → List Group → Nat → Nat → List Group × Nat × Option Nat
  | [], gs, fsn, dr => (gs, dr, some fsn)
  | i :: is, gs, fsn, dr =>
    match gs[i]? with
    | none => loop1 is gs fsn dr
    | some g =>
      let r := fillG g
      let gs' := gs.set i r.1
      match r.1.queue with
      | [] => (gs', dr + r.2, none)
      | p :: _ => loop1 is gs' (max fsn (p.sn - r.1.sync)) (dr + r.2)

/-- `trimPacketsBefore` on a non-empty queue (`target = firstSn + seqnumsync`) -/
def trimLoop (target : Nat) : List Pkt → List Pkt
  | [] => []
  | p :: ps => if p.sn ≥ target then p :: ps else trimLoop target ps

def trimG (fsn : Nat) (g : Group) : Group := { g with queue := trimLoop (fsn + g.sync) g.queue }

/-- `countSamplesInQueue` -/
def countFrames (g : Group) : Nat := (g.queue.map (·.data.length)).sum / g.nchan

/-- `framesToDeMUX`: minimum over the groups (`none`: no group at all) -/
def minFrames : List Group → Option Nat
  | [] => none
  | g :: gs => match minFrames gs with
    | none => some (countFrames g)
    | some m => some (min (countFrames g) m)

/-- the packet loop of `demuxData`: consume packets while they fit; returns consumed, rest, frames left -/
def demuxLoop (nchan : Nat) : Nat → List Pkt → List Pkt × List Pkt × Nat
  | fr, [] => ([], [], fr)
  | fr, p :: ps =>
    if p.frames nchan > fr then ([], p :: ps, fr)
    else
      let r := demuxLoop nchan (fr - p.frames nchan) ps
      (p :: r.1, r.2.1, r.2.2)

/-- `demuxData`: panics when frames remain to be filled; otherwise the group's channels -/
def demuxG (fr : Nat) (g : Group) : Except Unit (Group × List (List Nat)) :=
  let r := demuxLoop g.nchan fr g.queue
  if r.2.2 > 0 then .error ()
  else .ok ({ g with queue := r.2.1 }, (List.range g.nchan).map fun c => chanData g.nchan c r.1)

/-- demux every group in `groupKeysSorted` order -/
def demuxAll (fr : Nat) : List Group → Except Unit (List Group × List (List (List Nat)))
  | [] => .ok ([], [])
  | g :: gs =>
    match demuxG fr g with
    | .error e => .error e
    | .ok (g', d) =>
      match demuxAll fr gs with
      | .error e => .error e
      | .ok (gs', ds) => .ok (g' :: gs', d :: ds)

/-- one block as stamped by `distributeData`: per group, per channel samples; `nframes` is
`len(datacopies[0])` (= `framesToDeMUX`), by which `nextFrameNum` advances -/
structure Block where
  data : List (List (List Nat))
  nframes : Nat
  dropped : Nat
  first : Int
deriving Repr, DecidableEq

structure St where
  groups : List Group
  nextFrame : Int
  pend : Nat             -- frames filled in since the last emitted buffer (`droppedFrames` of the loop)
deriving Repr, DecidableEq

/-- one read tick.  The dropped-frame counter lives across ticks and is reset when a buffer is sent. -/
def tick (s : St) (arr : List (List Pkt)) (perm : List Nat) : Except Unit (St × Option Block) :=
  let gs0 := enq s.groups arr
  match loop1 perm gs0 0 s.pend with
  | (gs1, dr, none) => .ok ({ s with groups := gs1, pend := dr }, none)
  | (gs1, dr, some fsn) =>
    let gs2 := gs1.map (trimG fsn)
    match minFrames gs2 with
    | none => .error ()
    | some 0 => .ok ({ s with groups := gs2, pend := dr }, none)
    | some (fr + 1) =>
      match demuxAll (fr + 1) gs2 with
      | .error e => .error e
      | .ok (gs3, data) =>
        .ok ({ groups := gs3, nextFrame := s.nextFrame + ((fr + 1 : Nat) : Int), pend := 0 },
             some { data, nframes := fr + 1, dropped := dr, first := s.nextFrame })

/-- a whole run: one tick per entry of the history, `perms` gives the map order of each tick;
the output lists the emitted blocks with the index of the emitting tick -/
def runFrom (t : Nat) (s : St) : List (List (List Pkt)) → List (List Nat) →
    Except Unit (St × List (Nat × Block))
  | [], _ => .ok (s, [])
  | arr :: hs, perms =>
    match tick s arr (perms.headD []) with
    | .error e => .error e
    | .ok (s', o) =>
      match runFrom (t + 1) s' hs perms.tail with
      | .error e => .error e
      | .ok (s'', bs) => .ok (s'', (match o with | none => bs | some b => (t, b) :: bs))

/-- the state of a source right after `Sample`/`PrepareChannels`: the groups `Sample` has just made
(`initGroup`), the chosen first frame number, nothing pending -/
def startSt (gs : List Group) (f0 : Int) : St := { groups := gs, nextFrame := f0, pend := 0 }

/-- a later Start of the SAME source object: `Sample` begins with `as.nchan = 0` and
`as.groups = make(map…)`, so the groups, their queues, sync offsets and last numbers of the earlier
run (`_old`) are unreachable; the dropped-frame counter is a local of the new reader loop.  The
restarted source is the freshly started one. -/
def restartSt (_old : St) (gs : List Group) (f0 : Int) : St := startSt gs f0

/-! ### The property as a decidable oracle

Layout of a group: channel count, last start-up sequence number `l0`, sync offset. -/

structure GL where
  nchan : Nat
  l0 : Nat
  sync : Nat
deriving Repr, DecidableEq

/-- the packet sequence a group's stream must consist of, from sequence number `e` on:
`some p` = the arrived packet `p`, `none` = a lost packet (to be replaced by filler) -/
def specFrom : Nat → List Pkt → List (Option Pkt)
  | _, [] => []
  | e, p :: ps => List.replicate (p.sn - e) none ++ some p :: specFrom (p.sn + 1) ps

/-- everything group `i` received in the history -/
def arrOf (H : List (List (List Pkt))) (i : Nat) : List Pkt := (H.map fun a => a.getD i []).flatten

def maxList : List Nat → Nat
  | [] => 0
  | a :: as => max a (maxList as)

/-- first global sequence number common to all groups: `max (l0 + 1 - sync)` -/
def startSN (L : List GL) : Nat := maxList (L.map fun g => g.l0 + 1 - g.sync)

/-- packets of group `g` that precede the common start -/
def skipOf (S : Nat) (g : GL) : Nat := S + g.sync - (g.l0 + 1)

def specOf (g : GL) (H : List (List (List Pkt))) (i : Nat) : List (Option Pkt) :=
  specFrom (g.l0 + 1) (arrOf H i)

/-- minimum of a list (0 for the empty list) -/
def minOr : List Nat → Nat
  | [] => 0
  | [a] => a
  | a :: b :: as => min a (minOr (b :: as))

/-- number of whole packets available in every group from the common start on -/
def navail (L : List GL) (H : List (List (List Pkt))) : Nat :=
  minOr ((List.range L.length).map fun i =>
    match L[i]? with
    | none => 0
    | some g => (specOf g H i).length - skipOf (startSN L) g)

/-- a channel stream `xs` consists of the pieces `E`: an arrived packet contributes exactly its
samples of channel `c`, a lost packet `fpp` filler samples (any values) -/
def streamOK (fpp nchan c : Nat) : List (Option Pkt) → List Nat → Bool
  | [], xs => xs.isEmpty
  | some p :: E, xs => xs.take fpp == chanOf nchan c p && fpp ≤ xs.length && streamOK fpp nchan c E (xs.drop fpp)
  | none :: E, xs => fpp ≤ xs.length && streamOK fpp nchan c E (xs.drop fpp)

def catChan (bs : List Block) (i c : Nat) : List Nat :=
  (bs.map fun b => (b.data.getD i []).getD c []).flatten

/-- every block: one channel list per group, `nchan` channels each, all of length `nframes` -/
def chkShape (L : List GL) (bs : List Block) : Bool :=
  bs.all fun b => b.data.map (·.length) == L.map (·.nchan) &&
    b.data.all fun g => g.all fun ch => ch.length == b.nframes

/-- block frame numbers are contiguous, starting at `f0` -/
def chkFrames : Int → List Block → Bool
  | _, [] => true
  | f, b :: bs => b.first == f && chkFrames (f + (b.nframes : Int)) bs

/-- per channel, the concatenated blocks are exactly the expected stream of `navail` packets from the common start -/
def chkStream (fpp : Nat) (L : List GL) (H : List (List (List Pkt))) (bs : List Block) : Bool :=
  (List.range L.length).all fun i =>
    match L[i]? with
    | none => true
    | some g =>
      (List.range g.nchan).all fun c =>
        streamOK fpp g.nchan c (((specOf g H i).drop (skipOf (startSN L) g)).take (navail L H)) (catChan bs i c)

/-- frames filled in so far: `fpp` for each lost packet of each group -/
def lostFrames (fpp : Nat) (L : List GL) (H : List (List (List Pkt))) : Nat :=
  ((List.range L.length).map fun i =>
    match L[i]? with
    | none => 0
    | some g => fpp * ((specOf g H i).length - (arrOf H i).length)).sum

/-- when the last tick of the history emitted a block, the dropped-frame counts reported so far
add up to the frames filled in so far -/
def chkDropped (fpp : Nat) (L : List GL) (H : List (List (List Pkt))) (out : List (Nat × Block)) : Bool :=
  match out.getLast? with
  | none => true
  | some (t, _) =>
    if t + 1 == H.length then (out.map (·.2.dropped)).sum == lostFrames fpp L H else true

/-- the oracle: the property's clauses for a history `H` and the blocks emitted during it -/
def chkC03 (fpp : Nat) (L : List GL) (f0 : Int) (H : List (List (List Pkt))) (out : List (Nat × Block)) : Bool :=
  chkShape L (out.map (·.2)) && chkFrames f0 (out.map (·.2)) &&
  chkStream fpp L H (out.map (·.2)) && chkDropped fpp L H out

/-- the input guard: every packet of group `i` carries `fpp` frames of `nchan` values, numbers are
strictly increasing from `l0 + 1` on and `< 2^32`, and the sync offset is not beyond `l0 + 1` -/
def pktOK (fpp nchan : Nat) (p : Pkt) : Bool := p.data.length == fpp * nchan

def increasing : Nat → List Pkt → Bool
  | _, [] => true
  | e, p :: ps => e ≤ p.sn && increasing (p.sn + 1) ps

def validIn (fpp : Nat) (L : List GL) (H : List (List (List Pkt))) : Bool :=
  fpp ≥ 1 && !L.isEmpty && H.all (fun a => a.length == L.length) &&
  (List.range L.length).all fun i =>
    match L[i]? with
    | none => true
    | some g =>
      g.nchan ≥ 1 && g.sync ≤ g.l0 + 1 && increasing (g.l0 + 1) (arrOf H i) &&
      (arrOf H i).all (fun p => pktOK fpp g.nchan p && p.sn < 4294967296)

/-! ### Driver -/

def permsOf : List Nat → List (List Nat)
  | [] => [[]]
  | x :: xs => (permsOf xs).flatMap fun p => (List.range (p.length + 1)).map fun k => p.take k ++ x :: p.drop k

structure Case where
  f0 : Int
  groups : List (Nat × Nat × List (Nat × Bool))     -- first, nchan, start-up sample
  hist : List (List (List Pkt))
deriving Repr

inductive Impl where
  | blocks (bs : List (Nat × Nat × Block))     -- tick, uni flag, block
  | panic
  | err
deriving Repr

open P in
def parsePkt : P Pkt := do
  let sn ← nat
  let w ← bool
  let d ← list int
  pure { sn, wide := w, data := d }

open P in
def parseIn : P Case := do
  kw "f0"; let f0 ← int
  kw "ng"; let ng ← nat
  let groups ← rep (do
    let first ← nat
    let nchan ← nat
    let smp ← list (do let sn ← nat; let ts ← bool; pure (sn, ts))
    pure (first, nchan, smp)) ng
  kw "ticks"; let nt ← nat
  let hist ← rep (rep (list parsePkt) ng) nt
  pure { f0, groups, hist }

open P in
def parseOut (cs : Case) : P Impl := do
  let t ← peek
  if t == some "PANIC" then pure .panic else
  if t == some "ERR" || t == some "HANG" then pure .err else
  let nchans := cs.groups.map (·.2.1)
  let bs ← list (do
    let tk ← nat
    let uni ← nat
    let dr ← nat
    let ff ← int
    let chans ← list (list nat)
    -- regroup the flat channel list by the groups' channel counts
    let rec regroup : List Nat → List (List Nat) → List (List (List Nat))
      | [], rest => if rest.isEmpty then [] else [rest]
      | n :: ns, rest => rest.take n :: regroup ns (rest.drop n)
    let b : Block := { data := regroup nchans chans, nframes := (chans.headD []).length, dropped := dr, first := ff }
    pure (tk, uni, b))
  pure (.blocks bs)

open P in
def parseCase : P (Case × Impl) := do
  let cs ← parseIn
  kw "OUT"
  let impl ← parseOut cs
  pure (cs, impl)

open P in
/-- a restart history: run 1, stop, run 2 on the same source object; the channel count the source
reports after the second `Sample` -/
def parseRestart : P (Case × Impl × Case × Nat × Impl) := do
  kw "restart"
  let c1 ← parseIn
  kw "RUN2"
  let c2 ← parseIn
  kw "OUT"
  let o1 ← parseOut c1
  match o1 with
  | .blocks _ =>
    kw "RUN2"; kw "nchan"
    let n ← nat
    let o2 ← parseOut c2
    pure (c1, o1, c2, n, o2)
  | _ => pure (c1, o1, c2, 0, o1)

def dedupSt (xs : List St) : List St := xs.foldl (fun acc x => if acc.contains x then acc else acc ++ [x]) []

/-- all model states after one tick whose output equals the implementation's, over all map orders;
also whether some order panics -/
def stepSet (perms : List (List Nat)) (arr : List (List Pkt)) (want : Option (Option Block)) (ss : List St) :
    List St × Bool :=
  let rs := ss.flatMap fun s => perms.map fun p => tick s arr p
  let pan := rs.any fun r => match r with | .error _ => true | .ok _ => false
  let keep := rs.filterMap fun r => match r with
    | .ok (s', o) => (match want with
        | none => some s'
        | some w => if o == w then some s' else none)
    | .error _ => none
  (dedupSt keep, pan)

def showBlock (b : Option Block) : String :=
  match b with
  | none => "none"
  | some b => s!"(nframes {b.nframes} dropped {b.dropped} first {b.first} data {b.data})"

def groupsOf (cs : Case) : List Group := cs.groups.map fun (first, nchan, smp) => initGroup first nchan smp

/-- judge one acquisition that the model starts in state `s0` -/
def judge (cs : Case) (s0 : St) (impl : Impl) : Verdict :=
    let gs0 := groupsOf cs
    let L : List GL := gs0.map fun g => { nchan := g.nchan, l0 := g.lastSN, sync := g.sync }
    let H := cs.hist
    let allp := (List.range L.length).flatMap fun i => arrOf H i
    let fpp := match ((List.range L.length).filterMap fun i => (arrOf H i).head?.map fun p => p.data.length / (L.getD i ⟨1, 0, 0⟩).nchan) with
      | [] => 1
      | f :: _ => f
    let valid := validIn fpp L H
    let perms := permsOf (List.range L.length)
    -- tags from the model run under the identity order
    let idp := List.range L.length
    let leftover := Id.run do
      let mut s := s0
      let mut lo := false
      let mut hot := false
      for arr in H do
        let had := s.groups.any fun g => !g.queue.isEmpty
        match tick s arr idp with
        | .ok (s', _) =>
          -- a filler inserted into a queue that already held packets from an earlier tick
          let grew := (s.groups.zip ((enq s.groups arr).zip s'.groups)).any fun (g, ge, g') =>
            !g.queue.isEmpty && (fillG ge).2 > 0 && g'.lastSN ≠ g.lastSN
          if had then lo := true
          if grew then hot := true
          s := s'
        | .error _ => pure ()
      pure (lo, hot)
    let nlost := lostFrames fpp L H
    let tags := [s!"ng{L.length}"] ++ (if leftover.1 then ["leftover"] else []) ++
      (if leftover.2 then ["gap-behind-leftover"] else []) ++
      (if nlost > 0 then ["loss"] else []) ++ (if allp.any (·.wide) then ["wide"] else []) ++
      (if H.any (fun a => a.all (·.isEmpty)) then ["emptytick"] else []) ++
      (if (L.map fun g => g.l0 + 1 - g.sync).any (· ≠ startSN L) then ["trim"] else [])
    match impl with
    | .err => .diff "implementation returned an error / hang"
    | .panic =>
      -- the model must be able to panic too (some tick, some map order)
      let r := H.foldl (fun (acc : List St × Bool) arr =>
        let (ss, pan) := stepSet perms arr none acc.1
        (ss, acc.2 || pan)) ([s0], false)
      if valid then .viol "C03:panic the reader loop panicked on a layout with equal frames per packet"
      else if r.2 then .ok (tags ++ ["excluded-unequal-fpp", "panic"])
      else .diff "implementation panicked, the model does not"
    | .blocks ibs =>
      -- (1) oracle on the implementation's output, on every prefix of the history
      let out : List (Nat × Block) := ibs.map fun (t, _, b) => (t, b)
      let viol : Option String :=
        if !valid then none else
        if ibs.any (fun (_, u, _) => u == 0) then some "C03:segments-disagree segments of one block carry different frame index / dropped count" else
        (List.range (H.length + 1)).foldl (fun acc k =>
          match acc with
          | some v => some v
          | none =>
            let Hk := H.take k
            let ok := out.filter fun (t, _) => t < k
            let bs := ok.map (·.2)
            if !chkShape L bs then some s!"C03:block-shape after tick {k}: channels of a block differ in length / count" else
            if !chkFrames cs.f0 bs then some s!"C03:frames-not-contiguous after tick {k}" else
            if !chkStream fpp L Hk bs then some s!"C03:stream-not-exact after tick {k}: a channel's stream is not the arrived samples + equal-length filler of the first {navail L Hk} common packets" else
            if !chkDropped fpp L Hk ok then some s!"C03:dropped-count after tick {k}: reported {(ok.map (·.2.dropped)).sum} filled {lostFrames fpp L Hk}" else
            none) none
      match viol with
      | some v => .viol v
      | none =>
        -- (2) model vs implementation, over all map orders
        let r := (List.range H.length).foldl (fun (acc : List St × Option String) t =>
          match acc.2 with
          | some _ => acc
          | none =>
            let arr := H.getD t []
            let want := (out.find? fun (tk, _) => tk == t).map (·.2)
            let (ss, _) := stepSet perms arr (some want) acc.1
            if ss.isEmpty then
              let m := match acc.1.head? with
                | some s => (match tick s arr idp with | .ok (_, o) => showBlock o | .error _ => "panic")
                | none => "?"
              (ss, some s!"tick {t}: no map order gives the implementation's output; model {m} impl {showBlock want}")
            else (ss, none)) ([s0], none)
        match r.2 with
        | some d => .diff d
        | none =>
          if out.any (fun (t, _) => t ≥ H.length) then .diff "block attributed to a tick beyond the script" else
          .ok (tags ++ (if valid then [] else ["excluded-unequal-fpp"]) ++ (if out.isEmpty then [] else ["blocks"]))

/-- the model's state after a run (identity map order; any order gives the same observable state) -/
def finalSt (cs : Case) (s0 : St) : St :=
  cs.hist.foldl (fun s arr => match tick s arr (List.range cs.groups.length) with
    | .ok (s', _) => s'
    | .error _ => s) s0

def runLine (ts : List String) : Verdict :=
  if ts.head? == some "restart" then
    match P.run parseRestart ts with
    | .error e => .bad e
    | .ok (c1, o1, c2, n2, o2) =>
      let s1 := startSt (groupsOf c1) c1.f0
      match judge c1 s1 o1 with
      | .ok t1 =>
        (match o1 with
         | .blocks _ =>
           let e1 := finalSt c1 s1
           -- the model of the restart: nothing of run 1 survives
           (match judge c2 (restartSt e1 (groupsOf c2) c2.f0) o2 with
            | .ok t2 =>
              let want := ((groupsOf c2).map (·.nchan)).sum
              if n2 != want then
                .viol s!"C03:restart-nchan after the restart the source reports {n2} channels, the groups seen at its start-up have {want}"
              else
                .ok (t2 ++ ["restart"] ++ (if e1.groups.any (fun g => !g.queue.isEmpty) then ["restart-leftover"] else []) ++
                  (if c1.groups.map (fun g => (g.1, g.2.1)) != c2.groups.map (fun g => (g.1, g.2.1)) then ["restart-layout-change"] else []) ++
                  (if t1.contains "blocks" then ["run1-blocks"] else []))
            | .viol v => .viol (v ++ " [run 2 of a restart history: the restarted source does not ingest like a fresh one]")
            | .diff d =>
              (match o2 with
               | .err => .viol "C03:restart-error the restarted source fails to start (error/hang) where a fresh source with the same start-up packets runs"
               | _ => .diff ("run 2 of a restart: " ++ d))
            | .bad b => .bad b)
         | _ => .ok (t1 ++ ["restart"]))
      | .viol v =>
        (match o1 with
         | .panic => .viol (v ++ " [restart history: the process died in run 1 or in run 2]")
         | _ => .viol (v ++ " [run 1 of a restart history]"))
      | .diff d => .diff ("run 1 of a restart: " ++ d)
      | .bad b => .bad b
  else
  match P.run parseCase ts with
  | .error e => .bad e
  | .ok (cs, impl) => judge cs (startSt (groupsOf cs) cs.f0) impl

end DastardV.C03
