/- C03: model not built yet (stub so that the per-property driver links). -/
import DastardV.Proto
namespace DastardV.C03

def runLine (_ts : List String) : Verdict := .bad "C03: model not built yet"

end DastardV.C03
