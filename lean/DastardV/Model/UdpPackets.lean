/-
Datagrams → packets: the reader goroutine of `AbacoUDPReceiver.start` (abaco.go).  It receives every
datagram into ONE reusable 8192-byte buffer (`ReadFrom(message)`) and calls `ReadPacket` on the whole buffer,
so the bytes beyond the datagram's end are whatever earlier datagrams left there; decoded packets are queued
and handed out, queue by queue, to `ReadAllPackets`.  A datagram `ReadPacket` rejects is dropped.
-/
import DastardV.Model.C15
namespace DastardV.UdpPk
open C15

def bufSize : Nat := 8192

/-- the buffer after `ReadFrom(message)` delivered the datagram `msg` (a longer datagram is truncated) -/
def fill (buf msg : List Nat) : List Nat := msg.take buf.length ++ buf.drop msg.length

/-- packets queued from the datagrams, in order.  A datagram `ReadPacket` rejects is DROPPED (since the repair
588eaa1; before it ended the goroutine and wedged `ReadAllPackets`).  `ReadPacket` on the whole non-empty buffer
never returns `io.EOF`, the one error that still ends the goroutine: `true` = ended (unreachable, kept to
mirror the code). -/
def recvF : List (List Nat) → List Nat → List Packet × Bool
  | [], _ => ([], false)
  | m :: ms, buf =>
    let buf' := fill buf m
    match decodeC buf' with
    | (.ok p, _) =>
      let r := recvF ms buf'
      (p :: r.1, r.2)
    | (.error .eof, _) => ([], true)
    | (.error _, _) => recvF ms buf'

def recv (msgs : List (List Nat)) : List Packet × Bool := recvF msgs (List.replicate bufSize 0)

/-! ### driver -/

structure View where
  seq : Nat
  plen : Int
  kind : Nat
  vals : List Int
deriving DecidableEq, Repr

def viewOf (p : Packet) : View := { seq := p.seq, plen := length p, kind := p.data.kind, vals := p.data.vals }

open P in
def pView : P View := do
  let seq ← nat
  let plen ← int
  let kind ← nat
  let vals ← list int
  pure { seq, plen, kind, vals }

/-- `udp msgs n <hex>… clean b OUT k <view>…` : the datagrams sent (in order, one socket, loopback) and all packets
the real `ReadAllPackets` calls returned, concatenated -/
def runLine (ts : List String) : Verdict :=
  let p : P (List (List Nat) × Bool × List View × Bool) := do
    P.kw "udp"; P.kw "msgs"; let ms ← P.list P.bytes
    P.kw "clean"; let c ← P.bool
    P.kw "OUT"; let vs ← P.list pView
    let pk ← P.peek
    pure (ms, c, vs, pk == some "WEDGED")
  match P.run p ts with
  | .error e => .bad e
  | .ok (ms, clean, vs, wedged) =>
    if wedged then .viol s!"C03:udp-reader-wedged ReadAllPackets did not return within 3 s after {ms.length} datagrams: the receiver's reader goroutine has ended" else
    let (ps, ended) := recv ms
    if ended then .bad "the model's reader goroutine ends (io.EOF from ReadPacket on a non-empty buffer: unreachable)" else
    -- the property (clean = every datagram is the encoding of a constructed packet): what the ingest gets is
    -- what was sent, one packet per datagram, in order
    let sentViews := ms.map fun m => match decodeC m with | (.ok q, _) => some (viewOf q) | _ => none
    if clean ∧ sentViews ≠ vs.map some then
      .viol s!"C03:udp-packets-not-fifo {vs.length} packets returned by ReadAllPackets for {ms.length} datagrams sent, or their contents differ from the packets sent"
    else if ps.map viewOf ≠ vs then .diff s!"ReadAllPackets returned {vs.length} packets, model {ps.length} (or their contents differ)"
    else .ok (["udp"] ++ (if clean then ["udp-clean"] else ["udp-stale-tail"]) ++ (if ms.any (·.isEmpty) then ["udp-empty-datagram"] else []) ++
      (if ps.length < ms.length then ["udp-dropped-datagram"] else []))

end DastardV.UdpPk
