/-
C17 — data-race freedom of a running acquisition: the generic part of the model (core Lean only).

Events of a synchronisation skeleton, traces (global interleavings), a vector-clock analysis
(`raceFree : Trace → Bool`) and the declarative happens-before relation `HB` it is proved sound
against (Props/C17.lean, `raceFree_sound`).

Semantics assumed of Go (the trusted base of this property):
* program order;
* the k-th `send` on a channel happens before the k-th `recv` on it (channels are FIFO);
* a `close` happens before a `recvC` (a receive that observed the closed channel);
* an `unlock m` happens before every later `lock m`;
* a `wgDone w` happens before every later `wgWait w` (Wait returns only when the counter is 0);
* `spawn u` (the `go` statement) happens before `start` of thread `u`.
Nothing else orders two events.  (The receive → send-completion edge of unbuffered channels is NOT
used: fewer edges = more reported races = a conservative verdict.)
-/
namespace DastardV.C17

abbrev Tid := Nat
abbrev Var := Nat
abbrev Obj := Nat

inductive Ev where
  | rd (x : Var)
  | wr (x : Var)
  | send (c : Obj)
  | recv (c : Obj)
  | close (c : Obj)
  | recvC (c : Obj)
  | lock (m : Obj)
  | unlock (m : Obj)
  | wgAdd (w : Obj)
  | wgDone (w : Obj)
  | wgWait (w : Obj)
  | spawn (t : Tid)
  | start
  deriving DecidableEq, Repr, Inhabited

abbrev Trace := List (Tid × Ev)

/-! ### vector clocks -/

abbrev VC := List Nat

def VC.get (v : VC) (t : Tid) : Nat := v.getD t 0

def VC.join : VC → VC → VC
  | [], b => b
  | a, [] => a
  | x :: a, y :: b => max x y :: VC.join a b

/-- increment component `t` (padding with zeros) -/
def VC.tick : VC → Tid → VC
  | [], 0 => [1]
  | [], t + 1 => 0 :: VC.tick [] t
  | x :: a, 0 => (x + 1) :: a
  | x :: a, t + 1 => x :: VC.tick a t

/-- function update -/
def upd {α : Type} (f : Nat → α) (k : Nat) (v : α) : Nat → α := fun i => if i = k then v else f i

abbrev Epoch := Tid × Nat

/-- epoch `e` is known to a thread whose clock is `c` -/
def Epoch.le (e : Epoch) (c : VC) : Bool := decide (e.2 ≤ c.get e.1)

structure St where
  clk : Tid → VC                 -- clock of each thread
  sends : Obj → List VC          -- clocks of all sends on a channel, oldest first (never popped)
  nrecv : Obj → Nat              -- number of `recv` events on a channel so far
  cl : Obj → VC                  -- join of the clocks of all closes
  mu : Obj → VC                  -- join of the clocks of all unlocks
  wg : Obj → VC                  -- join of the clocks of all Dones
  sp : Tid → VC                  -- join of the clocks of all spawns of a thread
  lw : Var → Option Epoch        -- last write
  lr : Var → List Epoch          -- reads since the last write

def St.init : St :=
  { clk := fun _ => [], sends := fun _ => [], nrecv := fun _ => 0, cl := fun _ => [], mu := fun _ => [],
    wg := fun _ => [], sp := fun _ => [], lw := fun _ => none, lr := fun _ => [] }

def optLe (o : Option Epoch) (c : VC) : Bool :=
  match o with
  | none => true
  | some e => e.le c

/-- One event.  The thread's own component is advanced first, so every event of a thread has its own
epoch.  Returns the new state and `false` when the event is an access that is not ordered after a
conflicting earlier access. -/
def stepVC (s : St) (te : Tid × Ev) : St × Bool :=
  let t := te.1
  let c := (s.clk t).tick t
  let e : Epoch := (t, c.get t)
  match te.2 with
  | .rd x =>
    ({ s with clk := upd s.clk t c, lr := upd s.lr x (e :: s.lr x) }, optLe (s.lw x) c)
  | .wr x =>
    ({ s with clk := upd s.clk t c, lw := upd s.lw x (some e), lr := upd s.lr x [] },
      optLe (s.lw x) c && (s.lr x).all (fun r => r.le c))
  | .send ch => ({ s with clk := upd s.clk t c, sends := upd s.sends ch (s.sends ch ++ [c]) }, true)
  | .recv ch =>
    let c' := match (s.sends ch)[s.nrecv ch]? with
      | some m => c.join m
      | none => c
    ({ s with clk := upd s.clk t c', nrecv := upd s.nrecv ch (s.nrecv ch + 1) }, true)
  | .close ch => ({ s with clk := upd s.clk t c, cl := upd s.cl ch ((s.cl ch).join c) }, true)
  | .recvC ch => ({ s with clk := upd s.clk t (c.join (s.cl ch)) }, true)
  | .lock m => ({ s with clk := upd s.clk t (c.join (s.mu m)) }, true)
  | .unlock m => ({ s with clk := upd s.clk t c, mu := upd s.mu m ((s.mu m).join c) }, true)
  | .wgAdd _ => ({ s with clk := upd s.clk t c }, true)
  | .wgDone w => ({ s with clk := upd s.clk t c, wg := upd s.wg w ((s.wg w).join c) }, true)
  | .wgWait w => ({ s with clk := upd s.clk t (c.join (s.wg w)) }, true)
  | .spawn u => ({ s with clk := upd s.clk t c, sp := upd s.sp u ((s.sp u).join c) }, true)
  | .start => ({ s with clk := upd s.clk t (c.join (s.sp t)) }, true)

/-- run the analysis from state `s`; `true` iff no access failed its check -/
def raceFreeFrom : St → Trace → Bool
  | _, [] => true
  | s, te :: r => (stepVC s te).2 && raceFreeFrom (stepVC s te).1 r

/-- the decidable race check of a trace -/
def raceFree (tr : Trace) : Bool := raceFreeFrom St.init tr

/-- index of the first access that fails its check, with the variable (for the violation signature) -/
def firstRaceFrom : St → Trace → Nat → Option (Nat × Var)
  | _, [], _ => none
  | s, te :: r, i =>
    if (stepVC s te).2 then firstRaceFrom (stepVC s te).1 r (i + 1)
    else match te.2 with
      | .rd x => some (i, x)
      | .wr x => some (i, x)
      | _ => some (i, 0)

def firstRace (tr : Trace) : Option (Nat × Var) := firstRaceFrom St.init tr 0

/-! ### the declarative happens-before relation -/

def isSend (c : Obj) (te : Tid × Ev) : Bool := te.2 == .send c
def isRecv (c : Obj) (te : Tid × Ev) : Bool := te.2 == .recv c

/-- direct synchronisation edge from position `i` to position `j` of `tr` (`i < j` is required separately) -/
def syncEdge (tr : Trace) (i j : Nat) : Prop :=
  ∃ a b, tr[i]? = some a ∧ tr[j]? = some b ∧
    ( a.1 = b.1                                                            -- program order
    ∨ (∃ c, a.2 = .send c ∧ b.2 = .recv c ∧
          ((tr.take i).filter (isSend c)).length = ((tr.take j).filter (isRecv c)).length)   -- k-th send / k-th recv
    ∨ (∃ c, a.2 = .close c ∧ b.2 = .recvC c)
    ∨ (∃ m, a.2 = .unlock m ∧ b.2 = .lock m)
    ∨ (∃ w, a.2 = .wgDone w ∧ b.2 = .wgWait w)
    ∨ (a.2 = .spawn b.1 ∧ b.2 = .start) )

/-- happens-before: transitive closure of the forward edges -/
inductive HB (tr : Trace) : Nat → Nat → Prop where
  | edge {i j} : i < j → syncEdge tr i j → HB tr i j
  | trans {i j k} : HB tr i j → HB tr j k → HB tr i k

def isAccess (x : Var) (e : Ev) : Bool := e == .rd x || e == .wr x

/-- a data race: two accesses of one variable by different threads, at least one a write, not ordered -/
def Race (tr : Trace) : Prop :=
  ∃ i j a b x, i < j ∧ tr[i]? = some a ∧ tr[j]? = some b ∧ a.1 ≠ b.1 ∧
    isAccess x a.2 = true ∧ isAccess x b.2 = true ∧ (a.2 = .wr x ∨ b.2 = .wr x) ∧ ¬ HB tr i j

/-! ### feasibility: the blocking semantics of the synchronisation operations -/

structure FSt where
  nsend : Obj → Nat
  nrecv : Obj → Nat
  closed : Obj → Bool
  held : Obj → Bool          -- mutex locked
  cnt : Obj → Nat            -- wait-group counter
  spawned : Tid → Bool
  started : Tid → Bool

def FSt.init : FSt :=
  { nsend := fun _ => 0, nrecv := fun _ => 0, closed := fun _ => false, held := fun _ => false,
    cnt := fun _ => 0, spawned := fun _ => false, started := fun _ => false }

/-- `none` = the event cannot happen in this state (it would block, or Go would panic) -/
def stepF (s : FSt) (te : Tid × Ev) : Option FSt :=
  match te.2 with
  | .rd _ => some s
  | .wr _ => some s
  | .send c => if s.closed c then none else some { s with nsend := upd s.nsend c (s.nsend c + 1) }
  | .recv c => if s.nrecv c < s.nsend c then some { s with nrecv := upd s.nrecv c (s.nrecv c + 1) } else none
  | .close c => if s.closed c then none else some { s with closed := upd s.closed c true }
  | .recvC c => if s.closed c && s.nrecv c == s.nsend c then some s else none
  | .lock m => if s.held m then none else some { s with held := upd s.held m true }
  | .unlock m => if s.held m then some { s with held := upd s.held m false } else none
  | .wgAdd w => some { s with cnt := upd s.cnt w (s.cnt w + 1) }
  | .wgDone w => if s.cnt w = 0 then none else some { s with cnt := upd s.cnt w (s.cnt w - 1) }
  | .wgWait w => if s.cnt w = 0 then some s else none
  | .spawn u => if s.spawned u then none else some { s with spawned := upd s.spawned u true }
  | .start => if s.spawned te.1 && !s.started te.1 then some { s with started := upd s.started te.1 true } else none

def feasibleFrom : FSt → Trace → Bool
  | _, [] => true
  | s, te :: r => match stepF s te with
    | none => false
    | some s' => feasibleFrom s' r

/-- the trace respects the blocking semantics (every thread except the root ones must be spawned first;
root threads are declared by `spawn` events of a driver thread in the skeleton) -/
def feasible (tr : Trace) : Bool := feasibleFrom FSt.init tr

end DastardV.C17
