/-
C17 — a system of thread programs with its ownership contracts, and the side conditions under which
thread-LOCAL typing of every program implies that EVERY feasible interleaving respects the ownership
discipline (Lemmas/C17Typed.lean) and hence is race free.  Core Lean only.
-/
import DastardV.Model.C17Own
namespace DastardV.C17

structure System where
  sp : Spec
  P : Prog
  roots : List Tid            -- threads that exist from the beginning (all others must be spawned)
  allToks : List Tok          -- the tokens in use
  kids : Obj → List Tid       -- the threads that call Done on a wait group
  adder : Obj → Tid           -- the one thread that calls Add and Wait on it
  waiter : Obj → Tid          -- the one thread that may take what a close hands over

def cnt (e : Ev) (l : List Ev) : Nat := l.count e

/-- the tokens thread `t` holds before its first event -/
def System.H0 (S : System) (t : Tid) : List Tok := S.allToks.filter (fun k => S.sp.init k == .thr t)

/-- every program is well typed on its own -/
def System.typedB (S : System) (ts : List Tid) : Bool :=
  ts.all (fun t => (typedFrom S.sp S.kids t (S.H0 t) (S.P t)).isSome)

structure System.OK (S : System) : Prop where
  /-- thread-local typing of every program -/
  typed : ∀ t, (typedFrom S.sp S.kids t (S.H0 t) (S.P t)).isSome = true
  /-- initial placement: tokens start at root threads or inside (free) mutexes; the listed tokens are all there is at threads -/
  init_thr : ∀ k t, S.sp.init k = .thr t → t ∈ S.roots ∧ k ∈ S.allToks
  init_kind : ∀ k, (∃ t, S.sp.init k = .thr t) ∨ (∃ m, S.sp.init k = .mtx m)
  init_mtx : ∀ k m, S.sp.init k = .mtx m ↔ k ∈ S.sp.mtxPay m
  /-- a close that hands tokens over has ONE receiver: when `closePay c ≠ []`, only `waiter c` has a `recvC c`, and only one
      (a channel is closed at most once by the blocking semantics) -/
  recvc_one : ∀ c, S.sp.closePay c ≠ [] →
      (∀ t, t ≠ S.waiter c → .recvC c ∉ S.P t) ∧ cnt (.recvC c) (S.P (S.waiter c)) ≤ 1
  /-- spawned threads begin with `start`; `start` occurs nowhere else -/
  start_head : ∀ t, t ∉ S.roots → S.P t = [] ∨ ∃ r, S.P t = .start :: r ∧ .start ∉ r
  start_root : ∀ t, t ∈ S.roots → .start ∉ S.P t
  /-- wait groups are one-shot: only the adder Adds and Waits, exactly one Wait, all `|kids|` Adds before it;
      every kid has exactly one Done, nobody else has one -/
  kids_nodup : ∀ w, (S.kids w).Nodup
  done_kid : ∀ w t, cnt (.wgDone w) (S.P t) = if t ∈ S.kids w then 1 else 0
  add_adder : ∀ w t, t ≠ S.adder w → .wgAdd w ∉ S.P t ∧ .wgWait w ∉ S.P t
  wait_once : ∀ w, cnt (.wgWait w) (S.P (S.adder w)) ≤ 1
  adds_before : ∀ w pre post, S.P (S.adder w) = pre ++ .wgWait w :: post →
      cnt (.wgAdd w) pre = (S.kids w).length ∧ .wgAdd w ∉ post

end DastardV.C17
