/-
C15 — Abaco data packets.  Transcription of `packets/packets.go`: `ReadPacket` (fixed header,
magic, TLV loop with every tag, payload by format), `Bytes`, the constructors (`NewPacket`,
`NewData`, `SetTimestamp`, `ResetTimestamp`, `ClearData`, `MakePretendPacket`) and every accessor.

Bytes are `Nat` (< 256), byte strings `List Nat`.  Go panics are values (`Res.pan`), decode errors
are the small enum `Err` (io.EOF / io.ErrUnexpectedEOF / anything else).  `int` is 64 bit: the one
place where that matters (the channel product in `Frames`/`ChannelInfo`) wraps explicitly.
The timestamp *rate* is a float and is not modelled: the two 16-bit words `Bytes()` derives from it
(`num`, `den`) are carried as opaque values (theorems quantify over all of them).
-/
import DastardV.Proto
namespace DastardV.C15

/-! ### Byte-level helpers -/

def leNat : List Nat → Nat
  | [] => 0
  | b :: r => b + 256 * leNat r

def beNat (bs : List Nat) : Nat := leNat bs.reverse

def leBytes : Nat → Nat → List Nat
  | 0, _ => []
  | w + 1, n => n % 256 :: leBytes w (n / 256)

def beBytes (w n : Nat) : List Nat := (leBytes w n).reverse

def be16 (a b : Nat) : Nat := a * 256 + b
def be32 (a b c d : Nat) : Nat := ((a * 256 + b) * 256 + c) * 256 + d

/-- two's complement: the unsigned `bits`-bit pattern of `x` -/
def twos (bits : Nat) (x : Int) : Nat := (x % (2 : Int) ^ bits).toNat

/-- the signed value of an unsigned `bits`-bit pattern -/
def toSigned (bits : Nat) (u : Nat) : Int :=
  if u < 2 ^ (bits - 1) then (u : Int) else (u : Int) - (2 : Int) ^ bits

/-- Go's `int64(x)` / 64-bit `int` wrap-around -/
def wrap64 (x : Int) : Int :=
  let m := x % 18446744073709551616
  if m < 9223372036854775808 then m else m - 18446744073709551616

/-- `n` words of `w` bytes each read from `bs` (little or big endian), as signed values -/
def words (w : Nat) (big : Bool) : Nat → List Nat → List Int
  | 0, _ => []
  | n + 1, bs =>
    toSigned (8 * w) (if big then beNat (bs.take w) else leNat (bs.take w)) :: words w big n (bs.drop w)

/-- the bytes of a list of signed words -/
def unwords (w : Nat) (big : Bool) (xs : List Int) : List Nat :=
  xs.flatMap fun x => if big then beBytes w (twos (8 * w) x) else leBytes w (twos (8 * w) x)

/-! ### Types -/

inductive Err where
  | eof | short | bad
deriving DecidableEq, Repr

inductive Pan where
  | nilDeref | divZero | indexRange | explicit
deriving DecidableEq, Repr

/-- result of a call that may panic -/
inductive Res (α : Type) where
  | ok (a : α)
  | pan (p : Pan)
deriving DecidableEq, Repr

def Res.bind {α β} : Res α → (α → Res β) → Res β
  | .ok a, f => f a
  | .pan p, _ => .pan p

def Res.isOk {α} : Res α → Bool
  | .ok _ => true
  | .pan _ => false

/-- component kinds of a payload format (`reflect.Kind` classes with their byte size) -/
inductive Kind where
  | i16 | i32 | i64 | o1 | o2 | o4 | o8
deriving DecidableEq, Repr

def Kind.size : Kind → Nat
  | .i16 => 2 | .i32 => 4 | .i64 => 8 | .o1 => 1 | .o2 => 2 | .o4 => 4 | .o8 => 8

structure Fmt where
  endian : Nat          -- 0 = never set (nil ByteOrder), 1 = little, 2 = big
  wordlen : Nat
  kinds : List Kind
  raw : List Nat        -- rawfmt
deriving DecidableEq, Repr

inductive Data where
  | none
  | i16 (xs : List Int)
  | i32 (xs : List Int)
  | i64 (xs : List Int)
  | raw (bs : List Nat)
deriving DecidableEq, Repr

def Data.kind : Data → Nat
  | .none => 0 | .i16 _ => 16 | .i32 _ => 32 | .i64 _ => 64 | .raw _ => 8

def Data.len : Data → Nat
  | .none => 0 | .i16 xs => xs.length | .i32 xs => xs.length | .i64 xs => xs.length | .raw bs => bs.length

/-- the payload as a list of integers (raw bytes as themselves) -/
def Data.vals : Data → List Int
  | .none => [] | .i16 xs => xs | .i32 xs => xs | .i64 xs => xs | .raw bs => bs.map Int.ofNat

def Data.typed : Data → Bool
  | .i16 _ => true | .i32 _ => true | .i64 _ => true | _ => false

/-- bytes per value -/
def Data.wsize : Data → Nat
  | .none => 0 | .i16 _ => 2 | .i32 _ => 4 | .i64 _ => 8 | .raw _ => 1

structure TS where
  t : Nat       -- counter
  num : Nat     -- float-derived unit words (opaque)
  den : Nat
deriving DecidableEq, Repr

structure Packet where
  version : Nat
  hl : Nat                -- headerLength (uint8)
  pl : Nat                -- payloadLength (uint16)
  src : Nat
  seq : Nat
  plen : Int              -- packetLength (int)
  format : Option Fmt
  shape : Option (List Int)
  ts : Option TS
  label : List Nat
  offset : Nat
  explicitOffset : Bool
  data : Data
deriving DecidableEq, Repr

def magic : Nat := 0x810b00ff

/-! ### parseTLV -/

inductive TLV where
  | off (o : Nat)
  | shape (s : List Int)
  | fmt (f : Fmt)
  | ts (t : TS)
  | label (l : List Nat)
  | other
deriving DecidableEq, Repr

def fmtStep (f : Fmt) (c : Nat) : Option Fmt :=
  let add (k : Kind) : Option Fmt :=
    some { f with wordlen := f.wordlen + k.size, kinds := f.kinds ++ [k] }
  if c = 0 ∨ c = 32 then some f
  else if c = 33 ∨ c = 62 then some { f with endian := 2 }
  else if c = 60 then some { f with endian := 1 }
  else if c = 120 ∨ c = 98 ∨ c = 66 then add .o1
  else if c = 104 then add .i16
  else if c = 72 then add .o2
  else if c = 105 ∨ c = 108 then add .i32
  else if c = 73 ∨ c = 76 then add .o4
  else if c = 113 then add .i64
  else if c = 81 then add .o8
  else none

/-- the loop over the characters of the format string.  Every accepted character is ASCII, so a byte
≥ 0x80 (whether or not it starts a valid UTF-8 sequence) reaches the `default:` error branch. -/
def fmtLoop : Fmt → List Nat → Option Fmt
  | f, [] => some f
  | f, c :: r => match fmtStep f c with
    | some f' => fmtLoop f' r
    | none => none

def parseFmt (body : List Nat) : Option Fmt :=
  fmtLoop { endian := 0, wordlen := 0, kinds := [], raw := body } body

/-- the 16-bit big-endian signed words of the shape TLV body -/
def pairs16 : List Nat → List Int
  | a :: b :: r => toSigned 16 (be16 a b) :: pairs16 r
  | _ => []

/-- the loop over the sizes: positive ones are kept and multiplied into `nvals`; more than 65535
values per frame is an error (so the product never leaves the `int` range). -/
def shapeLoop : List Int → List Int → Int → Option (List Int)
  | [], acc, _ => some acc
  | d :: r, acc, nvals =>
    if d > 0 then
      if nvals * d > 65535 then none else shapeLoop r (acc ++ [d]) (nvals * d)
    else shapeLoop r acc nvals

def parseShape (body : List Nat) : Option (List Int) :=
  match shapeLoop (pairs16 body) [] 1 with
  | none => none
  | some s => if s = [] then none else some s

/-- one TLV: type `t`, byte size `size` (a positive multiple of 8, already checked) and its body
`data[2:size]` (at least 6 bytes; the shorter case cannot occur and is an error). -/
def parseOne (t size : Nat) (body : List Nat) : Except Err TLV :=
  match body with
  | b2 :: b3 :: b4 :: b5 :: b6 :: b7 :: extra =>
    if t = 0x09 then
      if be16 b2 b3 ≠ 0 then .error .bad else .ok .other
    else if t = 0x11 then
      .ok (.ts { t := (be16 b2 b3 * 4294967296 + be32 b4 b5 b6 b7) * 65536, num := 0, den := 0 })
    else if t = 0x12 then
      if size ≠ 8 then .error .bad else .ok .other
    else if t = 0x13 then
      if size < 16 then .error .bad else
      -- nbits = b2; the counter is the 8 bytes after the unit words
      if b2 < 64 then .ok (.ts { t := beNat (extra.take 8) % 2 ^ b2, num := be16 b4 b5, den := be16 b6 b7 })
      else if b2 = 64 then .ok (.ts { t := beNat (extra.take 8), num := be16 b4 b5, den := be16 b6 b7 })
      else .error .bad
    else if t = 0x21 then
      match parseFmt body with
      | some f => .ok (.fmt f)
      | none => .error .bad
    else if t = 0x22 then
      match parseShape body with
      | some s => .ok (.shape s)
      | none => .error .bad
    else if t = 0x23 then
      if be16 b2 b3 ≠ 0 then .error .bad else .ok (.off (be32 b4 b5 b6 b7))
    else if t = 0x29 then .ok (.label body)
    else .ok .other
  | _ => .error .bad

/-- the TLV loop.  `fuel` only makes the recursion structural (every iteration consumes ≥ 8 bytes;
`parseTLV` supplies enough, see `Lemmas/C15Dec`). -/
def parseTLVf : Nat → List Nat → Except Err (List TLV)
  | _, [] => .ok []
  | 0, _ :: _ => .error .bad
  | _ + 1, [_] => .error .bad
  | fuel + 1, t :: l :: more =>
    let size := 8 * l
    if more.length + 2 < 8 then .error .bad             -- bytesRemaining < 8
    else if size > more.length + 2 then .error .bad
    else if size = 0 then .error .bad
    else
      match parseOne t size (more.take (size - 2)) with
      | .error e => .error e
      | .ok x =>
        match parseTLVf fuel (more.drop (size - 2)) with
        | .error e => .error e
        | .ok r => .ok (x :: r)

def parseTLV (data : List Nat) : Except Err (List TLV) := parseTLVf data.length data

def applyTLV (p : Packet) : TLV → Packet
  | .off o => { p with offset := o, explicitOffset := true }
  | .shape s => { p with shape := some s }
  | .fmt f => { p with format := some f }
  | .ts t => { p with ts := some t }
  | .label l => { p with label := l }
  | .other => p

/-! ### ReadPacket -/

/-- `io.ReadFull` of `need` bytes from `rest` failed: the error and the bytes consumed by it -/
def shortRead (rest : List Nat) : Err := if rest = [] then .eof else .short

/-- the payload part of `ReadPacket`; `base` = bytes consumed so far -/
def readPayload (p : Packet) (rest : List Nat) (base : Nat) : Except Err Packet × Nat :=
  match p.format with
  | none => (.ok p, base)
  | some f =>
    if p.pl = 0 then (.ok p, base) else
    let typed (w : Nat) (mk : List Int → Data) : Except Err Packet × Nat :=
      let n := p.pl / w
      if rest.length < w * n then (.error (shortRead rest), base + rest.length)
      else (.ok { p with data := mk (words w (f.endian == 2) n rest) }, base + w * n)
    match f.kinds with
    | [.i16] => typed 2 .i16
    | [.i32] => typed 4 .i32
    | [.i64] => typed 8 .i64
    | [_] => (.error .bad, base)
    | _ =>
      if rest.length < p.pl then (.error (shortRead rest), base + rest.length)
      else (.ok { p with data := .raw (rest.take p.pl) }, base + p.pl)

/-- the check after the TLV loop: a shape without a format of nonzero word length -/
def shapeUnusable (p : Packet) : Bool :=
  match p.shape, p.format with
  | some _, none => true
  | some _, some f => f.wordlen == 0
  | none, _ => false

/-- `ReadPacket` on the byte string `inp`: result and number of bytes consumed from the reader. -/
def decodeC (inp : List Nat) : Except Err Packet × Nat :=
  match inp with
  | [] => (.error .eof, 0)
  | v :: hl :: p0 :: p1 :: m0 :: m1 :: m2 :: m3 :: s0 :: s1 :: s2 :: s3 :: q0 :: q1 :: q2 :: q3 :: rest =>
    if hl < 16 then (.error .bad, 16) else
    if be32 m0 m1 m2 m3 ≠ magic then (.error .bad, 16) else
    let nt := hl - 16
    if rest.length < nt then (.error (shortRead rest), 16 + rest.length) else
    match parseTLV (rest.take nt) with
    | .error e => (.error e, hl)
    | .ok tlvs =>
      let p0 : Packet :=
        { version := v, hl := hl, pl := be16 p0 p1, src := be32 s0 s1 s2 s3, seq := be32 q0 q1 q2 q3,
          plen := (hl : Int) + be16 p0 p1, format := none, shape := none, ts := none, label := [],
          offset := 0, explicitOffset := false, data := .none }
      let p := tlvs.foldl applyTLV p0
      -- a shape is usable only together with a format of nonzero word length
      if shapeUnusable p then (.error .bad, hl) else
      readPayload p (rest.drop nt) hl
  | _ => (.error .short, inp.length)

def decode (inp : List Nat) : Except Err Packet := (decodeC inp).1

/-- header length and payload length declared by the first four bytes -/
def declared : List Nat → Nat × Nat
  | _ :: hl :: p0 :: p1 :: _ => (hl, be16 p0 p1)
  | _ => (0, 0)

/-! ### Accessors -/

/-- the loop `nchan := 1; for s in Sizes { if s > 0 { nchan *= int(s) } }` -/
def nchanOf (sizes : List Int) : Int :=
  sizes.foldl (fun acc s => if s > 0 then wrap64 (acc * s) else acc) 1

def frames (p : Packet) : Res Int :=
  match p.shape with
  | none => .ok 0
  | some sz =>
    match p.format with
    | none => .pan .nilDeref
    | some f =>
      let d := wrap64 ((f.wordlen : Int) * nchanOf sz)
      if d = 0 then .pan .divZero else .ok (Int.tdiv p.pl d)

def channelInfo (p : Packet) : Res (Int × Int) :=
  match p.shape with
  | none => .ok (1, p.offset)
  | some sz => .ok (nchanOf sz, p.offset)

def length (p : Packet) : Int := p.plen

def tsCounter (p : Packet) : Option Nat := p.ts.map (·.t)

def extLabel : List Nat := [118, 97, 108, 117, 101, 44, 97, 99, 116, 105, 118, 101, 44, 116]  -- "value,active,t"

def isExtTrig (p : Packet) : Bool := !p.explicitOffset && p.label == extLabel

def readValue (p : Packet) (i : Int) : Res Int :=
  (frames p).bind fun f =>
    if i < 0 ∨ i ≥ f then .ok 0 else
    let pick (xs : List Int) : Res Int := match xs[i.toNat]? with
      | some v => .ok v
      | none => .pan .indexRange
    match p.data with
    | .i16 xs => pick xs
    | .i32 xs => pick xs
    | .i64 xs => pick xs
    | _ => .ok 0

/-- `x[i] = d[i % nchan]` for `i` in range; `i % nchan` for `i ≥ 0` is `i mod |nchan|` -/
def pickAll (xs : List Int) (k : Nat) : List Nat → Res (List Int)
  | [] => .ok []
  | i :: r => match xs[i % k]? with
    | none => .pan .indexRange
    | some v => (pickAll xs k r).bind fun vs => .ok (v :: vs)

def pretendVals (xs : List Int) (nchan : Int) : Res (List Int) :=
  if xs = [] then .ok [] else
  if nchan = 0 then .pan .divZero else
  pickAll xs nchan.natAbs (List.range xs.length)

def makePretend (p : Packet) (seq : Nat) (nchan : Int) : Res Packet :=
  let q := { p with seq := seq }
  match p.data with
  | .i16 xs => (pretendVals xs nchan).bind fun ys => .ok { q with data := .i16 ys }
  | .i32 xs => (pretendVals xs nchan).bind fun ys => .ok { q with data := .i32 ys }
  | .i64 xs => (pretendVals xs nchan).bind fun ys => .ok { q with data := .i64 ys }
  | _ => .ok q

/-- header length without data: fixed part + channel offset, + 16 with a timestamp -/
def baseLen (p : Packet) : Nat := if p.ts.isSome then 40 else 24

def clearData (p : Packet) : Packet :=
  { p with hl := baseLen p, pl := 0, plen := baseLen p, format := none, shape := none, data := .none }

/-! ### Constructors -/

def newPacket (version src seq : Nat) (chanOffset : Int) : Packet :=
  { version := version, hl := 24, pl := 0, src := src, seq := seq, plen := 0,
    format := none, shape := none, ts := none, label := [],
    offset := (chanOffset % 4294967296).toNat, explicitOffset := false, data := .none }

def setTimestamp (p : Packet) (ts : TS) : Packet :=
  if p.ts.isNone then { p with hl := (p.hl + 16) % 256, plen := p.plen + 16, ts := some ts }
  else { p with ts := some ts }

def resetTimestamp (p : Packet) : Packet :=
  if p.ts.isSome then { p with hl := (p.hl + 240) % 256, plen := p.plen - 16, ts := none }
  else p

def maxPacketLength : Nat := 8192

inductive NDErr where
  | tooLong
  | tooManyDims
  | pan (p : Pan)
deriving DecidableEq, Repr

def fmtOf (d : Data) : Fmt :=
  match d with
  | .i32 _ => { endian := 1, wordlen := 4, kinds := [.i32], raw := [60, 105] }   -- "<i"
  | .i64 _ => { endian := 1, wordlen := 8, kinds := [.i64], raw := [60, 113] }   -- "<q"
  | _ => { endian := 1, wordlen := 2, kinds := [.i16], raw := [60, 104] }        -- "<h"

/-- `NewData(data, dims)` for typed data (the harness never passes another type). -/
def newData (p : Packet) (d : Data) (dims : List Int) : Except NDErr Packet :=
  let ndim := dims.length
  if 48 + 8 * (1 + ndim / 4) > 255 then .error .tooManyDims else
  let hl0 := baseLen p
  let f := fmtOf d
  let nbytes := f.wordlen * d.len                              -- an `int`
  let hl := (hl0 + 8 + (8 * ((1 + ndim / 4) % 256)) % 256) % 256   -- uint8 arithmetic
  let plen : Nat := hl + nbytes
  if plen > maxPacketLength then .error .tooLong else
  .ok { p with hl := hl, pl := nbytes % 65536, plen := plen, format := some f, shape := some dims, data := d,
               seq := (p.seq + 1) % 4294967296 }

/-! ### Bytes -/

def padTo6 (l : List Nat) : List Nat := (l ++ [0, 0, 0, 0, 0, 0]).take 6

def encShape (sizes : List Int) : List Nat :=
  [0x22, (1 + sizes.length / 4) % 256] ++ sizes.flatMap (fun s => beBytes 2 (twos 16 s)) ++
    List.replicate (2 * (3 - sizes.length % 4)) 0

def encPayload (f : Fmt) : Data → Res (List Nat)
  | .none => .ok []
  | .raw bs => .ok bs
  | .i16 xs => if f.endian == 2 then .ok (unwords 2 true xs) else .ok (unwords 2 false xs)
  | .i32 xs => if f.endian == 2 then .ok (unwords 4 true xs)
               else if f.endian == 1 then .ok (unwords 4 false xs) else .pan .nilDeref
  | .i64 xs => if f.endian == 2 then .ok (unwords 8 true xs)
               else if f.endian == 1 then .ok (unwords 8 false xs) else .pan .nilDeref

/-- the timestamp-with-unit TLV written by `Bytes()`: 64 bits, exponent -11, the two unit words, the counter -/
def encTS : Option TS → List Nat
  | none => []
  | some t => [0x13, 2, 64, 0xf5] ++ beBytes 2 t.num ++ beBytes 2 t.den ++ beBytes 8 t.t

/-- `Bytes()` -/
def encode (p : Packet) : Res (List Nat) :=
  let hdr := [p.version, p.hl] ++ beBytes 2 p.pl ++ beBytes 4 magic ++ beBytes 4 p.src ++ beBytes 4 p.seq
  let off := [0x23, 1, 0, 0] ++ beBytes 4 p.offset
  let ts := encTS p.ts
  match p.data, p.shape, p.format with
  | .none, _, _ => .ok (hdr ++ off ++ ts)
  | _, none, _ => .ok (hdr ++ off ++ ts)
  | _, _, none => .ok (hdr ++ off ++ ts)
  | d, some sz, some f =>
    (encPayload f d).bind fun pay =>
      .ok (hdr ++ off ++ ts ++ ([0x21, 1] ++ padTo6 f.raw) ++ encShape sz ++ pay)

/-! ### Observation of a packet through its accessors (what the harness records) -/

structure PObs where
  seq : Nat
  len : Int
  fr : Res Int
  data : Data
deriving DecidableEq, Repr

structure CObs where
  len : Int
  fr : Res Int
  ci : Res (Int × Int)
  dkind : Nat
  dlen : Nat
deriving DecidableEq, Repr

structure Obs where
  consumed : Nat
  v : Nat
  src : Nat
  seq : Nat
  len : Int
  sh : Option (List Int)
  ts : Option Nat
  ext : Bool
  ci : Res (Int × Int)
  fr : Res Int
  data : Data
  rd : List (Res Int)
  pp : Res PObs
  pa : Option (Res PObs)
  cl : CObs
deriving DecidableEq, Repr

def pretendObs (p : Packet) (seq : Nat) (nchan : Int) : Res PObs :=
  (makePretend p seq nchan).bind fun q =>
    .ok { seq := q.seq, len := length q, fr := frames q, data := q.data }

def observe (p : Packet) (consumed : Nat) (reads : List Int) (pseq : Nat) (pn : Int) : Obs :=
  let c := clearData p
  let pa : Option (Res PObs) := match channelInfo p with
    | .ok (n, _) => some (pretendObs p ((pseq + 1) % 4294967296) n)
    | .pan _ => none
  { consumed := consumed, v := p.version, src := p.src, seq := p.seq, len := length p,
    sh := p.shape, ts := tsCounter p, ext := isExtTrig p, ci := channelInfo p, fr := frames p,
    data := p.data, rd := reads.map (readValue p), pp := pretendObs p pseq pn,
    pa := pa,
    cl := { len := length c, fr := frames c, ci := channelInfo c, dkind := c.data.kind, dlen := c.data.len } }

/-! ### The oracle: the property statement, evaluated on an observation

`accClauses` lists the requirements of "every accessor is safe and the sizes are mutually consistent"
for a successfully decoded packet, given the declared lengths `(hl, pl)` of the input and the accessor
arguments.  `accOK` is their conjunction. -/

def prod : List Int → Int
  | [] => 1
  | x :: r => x * prod r

/-- a shape the wire format can carry: it has a positive size, and the positive sizes describe at most
65535 values per frame (non-positive sizes are padding on the wire and are dropped by the decoder) -/
def wfShape (s : List Int) : Bool :=
  let pos := s.filter (· > 0)
  pos != [] && prod pos ≤ 65535

def pretendOK (o : Obs) (seq : Nat) (nchan : Int) (q : Res PObs) : Bool :=
  match q with
  | .pan _ => false
  | .ok q =>
    q.seq == seq && q.len == o.len && q.fr == o.fr && q.data.kind == o.data.kind &&
    q.data.len == o.data.len &&
    (!o.data.typed ||
      (List.range o.data.len).all fun i => q.data.vals[i]? == o.data.vals[i % nchan.natAbs]?)

def accClauses (hp : Nat × Nat) (reads : List Int) (pseq : Nat) (pn : Int) (o : Obs) : List (String × Bool) :=
  let hl := hp.1
  let pl := hp.2
  let f : Int := match o.fr with | .ok f => f | .pan _ => 0
  let n : Int := match o.ci with | .ok (n, _) => n | .pan _ => 1
  [ ("length", o.len == (hl : Int) + pl),
    ("consumed", o.consumed ≤ hl + pl && hl + o.data.len * o.data.wsize == o.consumed),
    ("frames-panic", o.fr.isOk),
    ("frames-negative", 0 ≤ f),
    ("chaninfo-panic", o.ci.isOk),
    ("chaninfo-range", match o.ci with
        | .ok (n, off) => 1 ≤ n && 0 ≤ off && off < 4294967296 &&
            (match o.sh with | some s => n == prod s && s.all (· > 0) | none => n == 1)
        | .pan _ => true),
    ("sizes", f * n ≤ o.data.len && o.data.len * o.data.wsize ≤ pl),
    ("read-panic", o.rd.all Res.isOk && o.rd.length == reads.length),
    ("read-value", (reads.zip o.rd).all fun (i, r) => match r with
        | .ok v => if 0 ≤ i ∧ i < f then (!o.data.typed || o.data.vals[i.toNat]? == some v) else v == 0
        | .pan _ => true),
    ("pretend", pn == 0 || pretendOK o pseq pn o.pp),
    ("pretend-nchan", match o.pa, o.ci with
        | some q, .ok (n, _) => n == 0 || pretendOK o ((pseq + 1) % 4294967296) n q
        | none, .ok _ => false
        | _, .pan _ => true),
    ("timestamp", match o.ts with | some t => t < 18446744073709551616 | none => true),
    ("clear", o.cl.fr == .ok 0 && o.cl.dlen == 0 && o.cl.dkind == 0 &&
        (match o.cl.ci with | .ok (n, _) => 1 ≤ n | .pan _ => false)) ]

def accOK (hp : Nat × Nat) (reads : List Int) (pseq : Nat) (pn : Int) (o : Obs) : Bool :=
  (accClauses hp reads pseq pn o).all (·.2)

/-- the payload samples of a packet as the decoder can reproduce them -/
def samples (d : Data) : List Int := d.vals

/-- what the round-trip statement says about a constructed packet: the fields that must survive -/
structure Summary where
  v : Nat
  src : Nat
  seq : Nat
  off : Nat
  sh : Option (List Int)
  ts : Option Nat
  data : Data
deriving DecidableEq, Repr

def summarize (p : Packet) : Summary :=
  { v := p.version, src := p.src, seq := p.seq, off := p.offset, sh := p.shape, ts := tsCounter p, data := p.data }

/-- Round trip: what decoding the encoding of the constructed packet (summary `c`) must reproduce. -/
def rtClauses (c : Summary) (nbytes : Nat) (o : Obs) : List (String × Bool) :=
  [ ("version", o.v == c.v),
    ("source", o.src == c.src),
    ("seqnum", o.seq == c.seq),
    ("offset", match o.ci with | .ok (_, off) => off == c.off | .pan _ => false),
    ("shape", o.sh == c.sh.map (·.filter (· > 0))),
    ("payload", samples o.data == samples c.data && (c.data.len == 0 || o.data.kind == c.data.kind)),
    ("timestamp", o.ts == c.ts),
    ("whole", o.consumed == nbytes) ]

def rtOK (c : Summary) (nbytes : Nat) (o : Obs) : Bool := (rtClauses c nbytes o).all (·.2)

/-- first failing clause -/
def firstFail : List (String × Bool) → Option String
  | [] => none
  | (s, b) :: r => if b then firstFail r else some s

/-! ### Line protocol -/

inductive DecOut where
  | err (e : String) (consumed : Nat)
  | ok (o : Obs)
deriving DecidableEq, Repr

inductive Out where
  | crash (cls : String)
  | hang
  | dec (d : DecOut)
  | ctorPanic (idx : Int) (cls : String)
  | ctorErr (idx : Nat)
  | bytes (c : Summary) (bs : List Nat) (d : DecOut)
  | hist (items : List (Summary × List Nat × List Nat × DecOut))   -- summary, bytes then, bytes now, decode of now
deriving Repr

inductive Op where
  | setTs (t : Nat) (rate : Nat)
  | resetTs
  | clear
  | newData (width : Nat) (dims : List Int) (vals : List Int)
deriving Repr

/-- a step of a history on ONE reused packet: a constructor op, `Bytes()` of the packet, or `Bytes()` of a
`MakePretendPacket` copy of it -/
inductive HStep where
  | op (o : Op)
  | enc
  | fill (seq : Nat) (nchan : Int)
deriving Repr

inductive Inp where
  | dec (bs : List Nat) (wantTS : Option (Option Nat))   -- the generator's own knowledge of the counter it wrote, if any
  | script (v src seq : Nat) (off : Int) (ops : List Op)
  | hist (v src seq : Nat) (off : Int) (steps : List HStep)
deriving Repr

def panOfString : String → Option Pan
  | "nil-deref" => some .nilDeref
  | "div-zero" => some .divZero
  | "index-range" => some .indexRange
  | "explicit" => some .explicit
  | _ => none

def Pan.str : Pan → String
  | .nilDeref => "nil-deref" | .divZero => "div-zero" | .indexRange => "index-range" | .explicit => "explicit"

namespace Parse
open P

/-- `P:<class>` or a value parsed by `p` -/
def res {α} (p : P α) : P (Res α) := do
  match (← peek) with
  | some t =>
    if t.startsWith "P:" then do
      let _ ← tok
      match panOfString (t.drop 2).toString with
      | some c => pure (.pan c)
      | none => fail s!"unknown panic class {t}"
    else do
      let a ← p
      pure (.ok a)
  | none => fail "unexpected end"

def data : P Data := do
  let k ← nat
  let xs ← list int
  match k with
  | 0 => pure .none
  | 16 => pure (.i16 xs)
  | 32 => pure (.i32 xs)
  | 64 => pure (.i64 xs)
  | 8 => pure (.raw (xs.map Int.toNat))
  | _ => fail s!"bad data kind {k}"

def pobs : P PObs := do
  kw "seq"; let seq ← nat
  kw "len"; let len ← int
  kw "fr"; let fr ← res int
  kw "data"; let d ← data
  pure { seq, len, fr, data := d }

def pair : P (Int × Int) := do
  let a ← int
  let b ← int
  pure (a, b)

def obs (consumed : Nat) : P Obs := do
  kw "v"; let v ← nat
  kw "src"; let src ← nat
  kw "seq"; let seq ← nat
  kw "len"; let len ← int
  kw "sh"
  let sh ← do
    match (← peek) with
    | some "-1" => do let _ ← tok; pure none
    | _ => do let l ← list int; pure (some l)
  kw "ts"
  let ts ← do
    match (← peek) with
    | some "-1" => do let _ ← tok; pure none
    | _ => do let t ← nat; pure (some t)
  kw "ext"; let ext ← bool
  kw "ci"; let ci ← res pair
  kw "fr"; let fr ← res int
  kw "data"; let d ← data
  kw "rd"; let rd ← list (res int)
  kw "pp"; let pp ← res pobs
  kw "pa"
  let pa ← do
    match (← peek) with
    | some "-" => do let _ ← tok; pure none
    | _ => do let q ← res pobs; pure (some q)
  kw "cl"
  kw "len"; let clen ← int
  kw "fr"; let cfr ← res int
  kw "ci"; let cci ← res pair
  kw "data"; let dk ← nat; let dl ← nat
  pure { consumed, v, src, seq, len, sh, ts, ext, ci, fr, data := d, rd, pp, pa,
         cl := { len := clen, fr := cfr, ci := cci, dkind := dk, dlen := dl } }

def decOut : P DecOut := do
  let t ← tok
  match t with
  | "Q" => do
    let k ← tok
    let c ← nat
    pure (.err k c)
  | "K" => do
    let c ← nat
    let o ← obs c
    pure (.ok o)
  | _ => fail s!"bad decode output {t}"

def op : P Op := do
  let t ← tok
  match t with
  | "T" => do let a ← nat; let b ← nat; pure (.setTs a b)
  | "U" => pure .resetTs
  | "C" => pure .clear
  | "W" => do
    let w ← nat
    let dims ← list int
    let vals ← list int
    pure (.newData w dims vals)
  | _ => fail s!"bad op {t}"

def hstep : P HStep := do
  match (← peek) with
  | some "B" => do let _ ← tok; pure .enc
  | some "F" => do
    let _ ← tok
    let sq ← nat
    let n ← int
    pure (.fill sq n)
  | _ => do let o ← op; pure (.op o)

/-- `v … src … seq … off … sh … ts … data …` (after the `S`) -/
def summaryBody : P Summary := do
  kw "v"; let v ← nat
  kw "src"; let src ← nat
  kw "seq"; let seq ← nat
  kw "off"; let off ← nat
  kw "sh"
  let sh ← do
    match (← peek) with
    | some "-1" => do let _ ← tok; pure none
    | _ => do let l ← list int; pure (some l)
  kw "ts"
  let ts ← do
    match (← peek) with
    | some "-1" => do let _ ← tok; pure none
    | _ => do let t ← nat; pure (some t)
  kw "data"; let dt ← data
  pure { v, src, seq, off, sh, ts, data := dt }

def histItem : P (Summary × List Nat × List Nat × DecOut) := do
  kw "S"
  let c ← summaryBody
  kw "T"; let thn ← bytes
  kw "N"; let now ← bytes
  let d ← decOut
  pure (c, thn, now, d)

structure Line where
  inp : Inp
  reads : List Int
  pseq : Nat
  pn : Int
  out : Out

def line : P Line := do
  let t ← tok
  let inp ← match t with
    | "D" => do
      let bs ← bytes
      match (← peek) with
      | some "TS" => do
        let _ ← tok
        let t ← tok
        if t == "?" then pure (Inp.dec bs none)
        else if t == "-1" then pure (Inp.dec bs (some none))
        else match t.toNat? with
          | some n => pure (Inp.dec bs (some (some n)))
          | none => fail s!"bad TS {t}"
      | _ => pure (Inp.dec bs none)
    | "E" => do
      kw "N"
      let v ← nat; let src ← nat; let seq ← nat; let off ← int
      kw "ops"
      let ops ← list op
      pure (Inp.script v src seq off ops)
    | "H" => do
      kw "N"
      let v ← nat; let src ← nat; let seq ← nat; let off ← int
      kw "steps"
      let steps ← list hstep
      pure (Inp.hist v src seq off steps)
    | _ => fail s!"bad case kind {t}"
  kw "R"; let reads ← list int
  kw "PS"; let pseq ← nat
  kw "PN"; let pn ← int
  kw "OUT"
  let t ← tok
  let out ← match t with
    | "PANIC" => do let c ← tok; pure (Out.crash c)
    | "HANG" => pure Out.hang
    | "X" => do
      let i ← int
      let c ← tok
      pure (Out.ctorPanic i c)
    | "Z" => do let i ← nat; pure (Out.ctorErr i)
    | "S" => do
      let c ← summaryBody
      kw "B"
      let bs ← bytes
      let d ← decOut
      pure (Out.bytes c bs d)
    | "HL" => do
      let items ← list histItem
      pure (Out.hist items)
    | _ => do
      -- a decode output: put the token back
      let d ← (fun ts => decOut (t :: ts))
      pure (Out.dec d)
  pure { inp, reads, pseq, pn, out }

end Parse

def Err.str : Err → String
  | .eof => "eof" | .short => "short" | .bad => "bad"

/-- the model's decode output for a byte string -/
def modelDec (bs : List Nat) (reads : List Int) (pseq : Nat) (pn : Int) : DecOut :=
  match decodeC bs with
  | (.error e, c) => .err e.str c
  | (.ok p, c) => .ok (observe p c reads pseq pn)

def describeDiff (m i : DecOut) : String :=
  match m, i with
  | .err e c, .err e' c' => s!"decode: model error {e} consumed {c}, implementation error {e'} consumed {c'}"
  | .err e _, .ok _ => s!"decode: model error {e}, implementation accepted the packet"
  | .ok _, .err e _ => s!"decode: model accepted the packet, implementation error {e}"
  | .ok a, .ok b =>
    if a.consumed != b.consumed then s!"consumed {a.consumed} vs {b.consumed}"
    else if a.v != b.v || a.src != b.src || a.seq != b.seq then "header fields"
    else if a.len != b.len then "Length()"
    else if a.sh != b.sh then "shape"
    else if a.ts != b.ts then "timestamp counter"
    else if a.ext != b.ext then "IsExternalTrigger()"
    else if a.ci != b.ci then "ChannelInfo()"
    else if a.fr != b.fr then "Frames()"
    else if a.data != b.data then "payload data"
    else if a.rd != b.rd then "ReadValue()"
    else if a.pp != b.pp then "MakePretendPacket(given nchan)"
    else if a.pa != b.pa then "MakePretendPacket(ChannelInfo nchan)"
    else if a.cl != b.cl then "after ClearData()"
    else "?"

/-- oracle + tags for a decode output of the implementation on input `bs` -/
def judgeDec (bs : List Nat) (reads : List Int) (pseq : Nat) (pn : Int) (i : DecOut) :
    Except String (List String) :=
  match i with
  | .err e c =>
    let hp := declared bs
    if bs.length ≥ 4 ∧ c > max 16 (hp.1 + hp.2) then
      .error s!"C15:consumed-more-than-declared error path consumed {c} of declared {hp.1 + hp.2}"
    else if c > bs.length then .error s!"C15:consumed-more-than-input consumed {c} of {bs.length}"
    else
      let validHdr := match bs with
        | _ :: hl :: _ :: _ :: m0 :: m1 :: m2 :: m3 :: _ => hl ≥ 16 && be32 m0 m1 m2 m3 == magic
        | _ => false
      .ok (["err-" ++ e] ++ (if e == "bad" && validHdr then ["rej"] else []))
  | .ok o =>
    match firstFail (accClauses (declared bs) reads pseq pn o) with
    | some c => .error s!"C15:accessor-{c} a successfully decoded packet violates clause '{c}'"
    | none =>
      .ok (["acc", s!"data{o.data.kind}"] ++
        (if o.ts.isSome then ["ts"] else []) ++ (if o.ext then ["ext"] else []) ++
        (if o.sh.isSome then ["shape"] else ["noshape"]) ++
        (match o.fr with | .ok f => if f > 0 then ["frames"] else [] | _ => []))

def buildData (w : Nat) (vals : List Int) : Data :=
  if w = 32 then .i32 vals else if w = 64 then .i64 vals else .i16 vals

/-- run a constructor script on the model.  `unit` = the (num, den) words the implementation's
`Bytes()` derived from the float rate (opaque to the model). -/
def runOps (unit : Nat × Nat) : Packet → List Op → Nat → Except (Nat × NDErr) Packet
  | p, [], _ => .ok p
  | p, o :: os, i =>
    match o with
    | .setTs t _ => runOps unit (setTimestamp p { t := t, num := unit.1, den := unit.2 }) os (i + 1)
    | .resetTs => runOps unit (resetTimestamp p) os (i + 1)
    | .clear => runOps unit (clearData p) os (i + 1)
    | .newData w dims vals =>
      match newData p (buildData w vals) dims with
      | .ok p' => runOps unit p' os (i + 1)
      | .error e => .error (i, e)

/-- one constructor op on the model (the unit words are patched in at encode time) -/
def stepOp (p : Packet) : Op → Except NDErr Packet
  | .setTs t _ => .ok (setTimestamp p { t := t, num := 0, den := 0 })
  | .resetTs => .ok (resetTimestamp p)
  | .clear => .ok (clearData p)
  | .newData w dims vals => newData p (buildData w vals) dims

/-- a history on the model: the packets that get encoded, in order.  `encode` is a pure function of the packet, so
the model's encoding of each of them is what the corresponding held slice must still contain at the end. -/
def runHist : Packet → List HStep → Nat → Except (Nat × NDErr) (List Packet)
  | _, [], _ => .ok []
  | p, .op o :: r, i =>
    match stepOp p o with
    | .ok p' => runHist p' r (i + 1)
    | .error e => .error (i, e)
  | p, .enc :: r, i =>
    match runHist p r (i + 1) with
    | .ok l => .ok (p :: l)
    | .error e => .error e
  | p, .fill sq n :: r, i =>
    match makePretend p sq n with
    | .pan c => .error (i, .pan c)
    | .ok q =>
      match runHist p r (i + 1) with
      | .ok l => .ok (q :: l)
      | .error e => .error e

/-- the float-derived unit words of the timestamp TLV, taken from the implementation's bytes -/
def withUnit (p : Packet) (bs : List Nat) : Packet :=
  { p with ts := p.ts.map fun t =>
      { t with num := be16 (bs.getD 28 0) (bs.getD 29 0), den := be16 (bs.getD 30 0) (bs.getD 31 0) } }

/-- oracle for the held encodings of a history (implementation output only): each slice, looked at after the last
step, must still decode to the packet it was made from -/
def judgeHist : List (Summary × List Nat × List Nat × DecOut) → Nat → Option String
  | [], _ => none
  | (c, thn, now, d) :: r, i =>
    let wf := match c.sh with | some s => wfShape s | none => true
    let bad : Option String := match d with
      | .ok o => firstFail (rtClauses c now.length o)
      | .err e _ => if wf then some ("undecodable-" ++ e) else none
    match bad with
    | some cl =>
      if now != thn then
        some s!"C15:encoding-not-stable held encoding #{i} was overwritten by a later Bytes() call: it no longer decodes to the packet it was made from ({cl})"
      else some s!"C15:roundtrip-{cl} decode(encode(p)) does not reproduce '{cl}' (history, encoding #{i})"
    | none =>
      match judgeDec now [] 1 1 d with
      | .error v => some v
      | .ok _ => judgeHist r (i + 1)

/-- model against implementation for the held encodings -/
def diffHist : List Packet → List (Summary × List Nat × List Nat × DecOut) → Nat → Option String
  | [], [], _ => none
  | p :: ps, (c, thn, now, d) :: r, i =>
    if summarize p != c then some s!"history: packet of encoding #{i} differs between model and implementation"
    else match encode (withUnit p thn) with
      | .pan e => some s!"history: model Bytes() panics {e.str} at encoding #{i}"
      | .ok mbs =>
        if mbs != thn then some s!"history: Bytes() #{i}: first difference at byte {(firstDiff mbs thn 0).getD 0}"
        else if now != mbs then some s!"history: held encoding #{i} changed after it was returned (the model's encode is a pure function)"
        else if modelDec now [] 1 1 != d then some ("history: " ++ describeDiff (modelDec now [] 1 1) d)
        else diffHist ps r (i + 1)
  | _, _, _ => some "history: number of encodings differs"

def runLine (ts : List String) : Verdict :=
  match P.run Parse.line ts with
  | .error e => .bad e
  | .ok ln =>
    match ln.out with
    | .crash c => .viol s!"C15:panic-{c} the real code crashed outside any accessor"
    | .hang => .viol "C15:hang the real code did not return"
    | _ =>
    match ln.inp, ln.out with
    | .dec bs want, .dec i =>
      -- the decoded Timestamp() against the counter the generator wrote into the TLV (not against the model)
      let tsBad : Option String := match want, i with
        | some w, .ok o =>
          if o.ts != w then
            some s!"C15:decode-timestamp Timestamp() of the decoded packet gives {o.ts}, the TLV written by the harness carries {w}"
          else none
        | _, _ => none
      (match tsBad, judgeDec bs ln.reads ln.pseq ln.pn i with
      | some v, _ => .viol v
      | none, .error v => .viol v
      | none, .ok tags =>
        let m := modelDec bs ln.reads ln.pseq ln.pn
        if m == i then .ok tags else .diff (describeDiff m i))
    | .script v src seq off ops, out =>
      -- the unit words of the timestamp TLV, read from the implementation's bytes
      let unit : Nat × Nat := match out with
        | .bytes _ bs _ => (be16 (bs.getD 28 0) (bs.getD 29 0), be16 (bs.getD 30 0) (bs.getD 31 0))
        | _ => (0, 0)
      let mp := runOps unit (newPacket v src seq off) ops 0
      (match out with
      | .ctorPanic j c' =>
        -- a public constructor crashed on arguments of the right types: the packet cannot be built
        (match mp with
        | .error (i, .pan c) =>
          if (i : Int) == j && c' == "P:" ++ c.str then .viol s!"C15:ctor-panic-{c.str} a public constructor panicked (op {i})"
          else .diff s!"constructor panic: model op {i} {c.str}, implementation op {j} {c'}"
        | _ => .viol s!"C15:ctor-panic a public constructor panicked (op {j} {c'}) and the model does not")
      | .ctorErr j =>
        (match mp with
        | .error (i, .tooLong) =>
          if i == j then .ok ["newdata-err"] else .diff s!"NewData error at op {j}, model at op {i}"
        | .error (i, .tooManyDims) =>
          if i == j then .ok ["newdata-err", "newdata-dims"] else .diff s!"NewData error at op {j}, model at op {i}"
        | .error (i, .pan c) => .diff s!"model: NewData panics ({c.str}) at op {i}; implementation returns an error at op {j}"
        | .ok _ => .diff s!"implementation: NewData error at op {j}; model accepts")
      | .bytes c bs d =>
        -- (1) oracle on the implementation's output: the real decoded packet against the real constructed one
        let jd := judgeDec bs ln.reads ln.pseq ln.pn d
        let wf := match c.sh with | some s => wfShape s | none => true
        let rt : Option String := match d with
          | .ok o => (firstFail (rtClauses c bs.length o)).map fun cl =>
              s!"C15:roundtrip-{cl} decode(encode(p)) does not reproduce '{cl}'"
          | .err e _ => if wf then some s!"C15:roundtrip-undecodable decode(encode(p)) fails with {e}" else none
        (match jd, rt with
        | .error v, _ => .viol v
        | _, some v => .viol v
        | .ok tags, none =>
          -- (2) model against implementation
          match mp with
          | .error (i, _) => .diff s!"model: NewData fails at op {i}; implementation does not"
          | .ok p =>
            match encode p with
            | .pan c => .diff s!"model Bytes() panics {c.str}"
            | .ok mbs =>
              if summarize p != c then .diff "constructed packet: model and implementation differ (version/source/seq/offset/shape/timestamp/data)"
              else if mbs != bs then .diff s!"Bytes(): first difference at byte {(firstDiff mbs bs 0).getD 0}"
              else
                let m := modelDec bs ln.reads ln.pseq ln.pn
                if m == d then .ok (tags ++ (if wf then ["rt"] else ["rt-noshape"]) ++
                    (if p.ts.isSome then ["rt-ts"] else []) ++ [s!"rt-data{p.data.kind}"])
                else .diff (describeDiff m d))
      | _ => .bad "output form does not fit a constructor script")
    | .hist v src seq off steps, out =>
      (match out with
      | .ctorPanic j c' => .viol s!"C15:ctor-panic a public constructor panicked in a history (op {j} {c'})"
      | .ctorErr j =>
        (match runHist (newPacket v src seq off) steps 0 with
        | .error (i, .tooLong) | .error (i, .tooManyDims) =>
          if i == j then .ok ["newdata-err"] else .diff s!"history: NewData error at step {j}, model at step {i}"
        | _ => .diff s!"history: implementation NewData error at step {j}; model differs")
      | .hist items =>
        (match judgeHist items 0 with
        | some v => .viol v
        | none =>
          match runHist (newPacket v src seq off) steps 0 with
          | .error (i, _) => .diff s!"history: model fails at step {i}; implementation does not"
          | .ok ps =>
            match diffHist ps items 0 with
            | some dmsg => .diff dmsg
            | none => .ok (["hist", "rt", s!"hist{items.length}"] ++
                (if steps.any (fun st => match st with | .fill _ _ => true | _ => false) then ["hist-fill"] else [])))
      | _ => .bad "output form does not fit a history")
    | _, _ => .bad "output form does not fit the input kind"

end DastardV.C15
