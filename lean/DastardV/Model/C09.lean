/-
C09 — trigger broker: connection edits and distribution of secondary triggers.
Transcription of `group_trigger.go` (`AddConnection`, `DeleteConnection`,
`StopTriggerCoupling`, `computeGroupTriggerState`, `Distribute`), of
`AnySource.ChangeGroupTrigger` and of `LanceroSource.SetCoupling`.
The per-receiver Go maps are one duplicate-free list of `(source, receiver)` pairs.
-/
import DastardV.Proto
namespace DastardV.C09

structure Broker where
  n : Nat
  conns : List (Int × Int)      -- (source, receiver)
  count : Int                   -- `nconnections`, the fast-path guard of `Distribute`
  latest : List (List Int)      -- `latestPrimaries`, one list per channel
deriving Repr, DecidableEq

def Broker.new (n : Nat) : Broker := { n, conns := [], count := 0, latest := List.replicate n [] }

def inRange (n : Nat) (i : Int) : Bool := 0 ≤ i && i < n

/-- `AddConnection`; the Bool is "returned an error" -/
def add (b : Broker) (s r : Int) : Broker × Bool :=
  if s = r then (b, false)
  else if !inRange b.n r then (b, true)
  else if !inRange b.n s then (b, true)
  else if b.conns.contains (s, r) then (b, false)
  else ({ b with conns := b.conns ++ [(s, r)], count := b.count + 1 }, false)

/-- `DeleteConnection` -/
def del (b : Broker) (s r : Int) : Broker × Bool :=
  if !inRange b.n r then (b, true)
  else if b.conns.contains (s, r) then
    ({ b with conns := b.conns.erase (s, r), count := b.count - 1 }, false)
  else (b, false)

def stopAll (b : Broker) : Broker := { b with conns := [], count := 0 }

/-- apply `f` to every pair of a request (errors are ignored by `ChangeGroupTrigger`) -/
def applyAll (f : Broker → Int → Int → Broker × Bool) : Broker → List (Int × Int) → Broker
  | b, [] => b
  | b, (s, r) :: ps => applyAll f (f b s r).1 ps

/-- pairs `(i, i+1)` for even `i < n` -/
def evenPairs (n : Nat) : List (Int × Int) :=
  (List.range ((n + 1) / 2)).filterMap fun k =>
    if 2 * k < n then some ((2 * k : Nat), (2 * k + 1 : Nat)) else none

/-- `LanceroSource.SetCoupling`: 1 = NoCoupling, 2 = FBToErr, 3 = ErrToFB -/
def setCoupling (b : Broker) (mode : Nat) : Broker :=
  let ef := evenPairs b.n                       -- err(i) -> fb(i+1)
  let fe := ef.map fun (a, c) => (c, a)         -- fb(i+1) -> err(i)
  let b1 := if mode = 3 then applyAll add b ef else applyAll del b ef
  if mode = 2 then applyAll add b1 fe else applyAll del b1 fe

/-- insertion sort (the result is compared as a sorted list) -/
def insertSorted (x : Int) : List Int → List Int
  | [] => [x]
  | y :: ys => if x ≤ y then x :: y :: ys else y :: insertSorted x ys

def sortInts : List Int → List Int
  | [] => []
  | x :: xs => insertSorted x (sortInts xs)

def sourcesOf (b : Broker) (rx : Int) : List Int :=
  (b.conns.filter fun p => p.2 == rx).map (·.1)

inductive DistRes where
  | ok (m : List (Nat × List Int))   -- receivers in increasing order, each with its sorted frames
  | panic
deriving Repr, DecidableEq

/-- frames of channel `s`, or `none` when the index is outside `latestPrimaries` (Go panics) -/
def framesOf (latest : List (List Int)) (s : Int) : Option (List Int) :=
  if 0 ≤ s then latest[s.toNat]? else none

def gather (latest : List (List Int)) : List Int → Option (List Int)
  | [] => some []
  | s :: ss => do
    let f ← framesOf latest s
    let rest ← gather latest ss
    pure (f ++ rest)

def distRx (b : Broker) (latest : List (List Int)) : List Nat → Option (List (Nat × List Int))
  | [] => some []
  | rx :: rest => do
    let srcs := sourcesOf b rx
    let tail ← distRx b latest rest
    if srcs.isEmpty then pure tail else
      let fr ← gather latest srcs
      pure ((rx, sortInts fr) :: tail)

/-- `Distribute` with one frame list per channel -/
def distribute (b : Broker) (prim : List (List Int)) : Broker × DistRes :=
  let b' := { b with latest := prim }
  let nprim := (prim.map List.length).sum
  if nprim = 0 ∨ b.count = 0 then (b', .ok [])
  else match distRx b prim (List.range b.n) with
    | some m => (b', .ok m)
    | none => (b', .panic)

/-- the state reported to clients (`computeGroupTriggerState`), as a sorted pair list -/
def reported (b : Broker) : List (Int × Int) := b.conns

/-! ### Specification (sets as membership predicates) -/

inductive Op where
  | add (ps : List (Int × Int))
  | del (ps : List (Int × Int))
  | stop
  | couple (mode : Nat)
  | dist (prim : List (List Int))
deriving Repr, DecidableEq

def step (b : Broker) : Op → Broker × Option DistRes
  | .add ps => (applyAll add b ps, none)
  | .del ps => (applyAll del b ps, none)
  | .stop => (stopAll b, none)
  | .couple m => (setCoupling b m, none)
  | .dist prim => let (b', r) := distribute b prim; (b', some r)

/-! ### Driver -/

def lexLe (a b : Int × Int) : Bool := a.1 < b.1 || (a.1 == b.1 && a.2 ≤ b.2)

def insertPair (x : Int × Int) : List (Int × Int) → List (Int × Int)
  | [] => [x]
  | y :: ys => if lexLe x y then x :: y :: ys else y :: insertPair x ys

def sortPairs : List (Int × Int) → List (Int × Int)
  | [] => []
  | x :: xs => insertPair x (sortPairs xs)

open P in
def parsePairs : P (List (Int × Int)) := list (do let a ← int; let b ← int; pure (a, b))

/-- implementation observation after an op -/
structure Obs where
  state : List (Int × Int)     -- reported connections, sorted
  count : Int
  dist : Option DistRes
deriving Repr, DecidableEq

open P in
def parseOp : P (Op × Obs) := do
  let t ← tok
  let op ← match t with
    | "A" => do let ps ← parsePairs; pure (Op.add ps)
    | "X" => do let ps ← parsePairs; pure (Op.del ps)
    | "S" => pure Op.stop
    | "C" => do let m ← nat; pure (Op.couple m)
    | "D" => do let prim ← list (list int); pure (Op.dist prim)
    | _ => fail s!"bad op {t}"
  kw "=>"
  let state ← parsePairs
  let count ← int
  let d ← tok
  let dist ← match d with
    | "-" => pure none
    | "P" => pure (some DistRes.panic)
    | "M" => do
      let m ← list (do let rx ← nat; let fr ← list int; pure (rx, fr))
      pure (some (DistRes.ok m))
    | _ => fail s!"bad dist marker {d}"
  pure (op, { state, count, dist })

/-- oracle on the implementation's observations: set semantics, report = used, exact distribution -/
def specMember (n : Nat) : List Op → (Int × Int) → Bool
  | [], _ => false
  | ops, p =>
    -- evaluate from the left with an accumulator (written as a fold for clarity)
    let rec go (acc : Bool) : List Op → Bool
      | [] => acc
      | .add ps :: r => go (acc || (ps.contains p && p.1 != p.2 && inRange n p.1 && inRange n p.2)) r
      | .del ps :: r => go (acc && !(ps.contains p && inRange n p.2)) r
      | .stop :: r => go false r
      | .couple m :: r =>
        let ef := (evenPairs n).contains p
        let fe := (evenPairs n).contains (p.2, p.1)
        let a1 := if m = 3 then acc || (ef && inRange n p.1 && inRange n p.2) else acc && !ef
        let a2 := if m = 2 then a1 || (fe && inRange n p.1 && inRange n p.2) else a1 && !fe
        go a2 r
      | .dist _ :: r => go acc r
    go false ops

def runLine (ts : List String) : Verdict :=
  let p : P (Nat × List (Op × Obs)) := do
    P.kw "n"; let n ← P.nat
    P.kw "ops"; let ops ← P.list parseOp
    pure (n, ops)
  match P.run p ts with
  | .error e => .bad e
  | .ok (n, oos) =>
    let rec go (b : Broker) (done : List Op) (rest : List (Op × Obs)) (k : Nat) (tags : List String) : Verdict :=
      match rest with
      | [] => .ok tags.eraseDups
      | (op, obs) :: rest' =>
        let (b', d) := step b op
        let done' := done ++ [op]
        -- oracle first (implementation only)
        let setOk := obs.state.all (fun p => specMember n done' p) &&
          -- every pair the spec contains must be reported: check over the pairs mentioned so far
          ((done'.flatMap fun o => match o with
              | .add ps => ps | .del ps => ps
              | .couple _ => evenPairs n ++ (evenPairs n).map (fun (a, c) => (c, a)) | _ => []).all
            fun p => specMember n done' p == obs.state.contains p)
        if obs.dist == some .panic then .viol s!"C09:distribute-panic Distribute panicked at op {k} (out-of-range index in the connection table)"
        else if !setOk then .viol s!"C09:set-semantics reported connections after op {k} are not the set-theoretic result"
        else if sortPairs (reported b') != obs.state then .diff s!"reported state differs at op {k}"
        else if b'.count != obs.count then .diff s!"connection counter differs at op {k}: model {b'.count} impl {obs.count}"
        else if d != obs.dist then
          -- the model agrees on the connection set, so a differing distribution is a real mismatch
          .viol s!"C09:distribute-exact secondaries at op {k} are not the union of the connected sources' primaries"
        else
          let t := match op, d with
            | .dist _, some (.ok m) => if m.isEmpty then ["dist-empty"] else ["dist"]
            | .add ps, _ => if ps.any (fun p => !inRange n p.1 || !inRange n p.2) then ["oob-add"] else ["add"]
            | .del _, _ => ["del"]
            | .stop, _ => ["stop"]
            | .couple _, _ => ["couple"]
            | _, _ => []
          go b' done' rest' (k + 1) (tags ++ t)
    go (Broker.new n) [] oos 0 []

end DastardV.C09
